(* C05 - the walks of Conc/CNav.v (Section Walk) are functions of the one abstract tree, whenever the pointer
   primitives they run on agree with it.  (That the primitives of the concrete structure do agree is CHeapFacts.v.)
   Every lemma also shows the fuel sufficient: the result is `Ok _`, never `OutOfFuel`. *)
From Coq Require Import List NArith ZArith Bool Lia.
From Delb.Base Require Import PyStr.
From Delb.Tree Require Import ATree ITree ANav ANavFacts ANavOrderFacts.
From Delb.Conc Require Import CTree CNav CSortFacts.
Import ListNotations.

Section WalkFacts.
  Variable t : itree.
  Hypothesis Hnd : NoDup (ids t).
  Variables first_raw next_raw prev_cand parent : nid -> res (option nid).
  Variables is_tag is_text : nid -> bool.
  Variable content : nid -> str.
  Variable fc : nat.
  Hypothesis Hfc : 2 * length (ids t) + 1 < fc.
  Hypothesis Hfirst : forall n, In n (ids t) -> is_tag n = true -> first_raw n = Ok (a_first_child t n).
  Hypothesis Hnext : forall n, In n (ids t) -> next_raw n = Ok (a_next_sibling t n).
  Hypothesis Hprev : forall n, In n (ids t) -> prev_cand n = Ok (a_prev_sibling t n).
  Hypothesis Hparent : forall n, In n (ids t) -> parent n = Ok (a_parent t n).
  Hypothesis Hleaf : forall n, In n (ids t) -> is_tag n = false -> a_children t n = [].

  Notation follow := (follow next_raw).
  Notation w_iterate_children := (w_iterate_children first_raw next_raw is_tag fc).

  (* ---------------------------------------------------------------- children *)
  Lemma follow_none fuel P : 0 < fuel -> follow fuel P None = Ok [].
  Proof. destruct fuel; [lia|reflexivity]. Qed.
  Lemma follow_spec : forall fuel P x r, In x (ids t) -> a_fsibs t x = r -> length r + 1 < fuel ->
    follow fuel P (Some x) = Ok (filter P (x :: r)).
  Proof.
    induction fuel as [|f IH]; intros P x r Hx Hr Hf; [lia|]. cbn [CNav.follow].
    rewrite (Hnext x Hx). cbn [rbind]. unfold a_next_sibling. rewrite Hr.
    destruct r as [|m r']; cbn [hd_error].
    - rewrite follow_none by (cbn in Hf; lia). reflexivity.
    - rewrite (IH P m r'); [reflexivity| |exact (fsibs_step t Hnd x m r' Hr)|cbn in Hf; lia].
      apply (fsibs_in t Hnd x). rewrite Hr. left. reflexivity.
  Qed.

  Theorem children_spec D F n : In n (ids t) ->
    w_iterate_children D F n = Ok (filter (fand D F) (a_children t n)).
  Proof.
    intros Hn. unfold CNav.w_iterate_children. destruct (is_tag n) eqn:Htag.
    - rewrite (Hfirst n Hn Htag). cbn [rbind]. unfold a_first_child.
      pose proof (a_children_length t Hnd n) as Hlen.
      destruct (a_children t n) as [|c r] eqn:E; cbn [hd_error].
      + apply follow_none. lia.
      + apply follow_spec; [apply (children_in t n); rewrite E; left; reflexivity|
                            exact (children_step t Hnd n c r Hn E)|cbn in Hlen; lia].
    - rewrite (Hleaf n Hn Htag). reflexivity.
  Qed.

  Theorem len_spec D n : In n (ids t) -> w_len first_raw next_raw is_tag fc D n = Ok (length (filter D (a_children t n))).
  Proof. intros Hn. unfold w_len. rewrite (children_spec D ftrue n Hn). cbn [rbind]. rewrite filter_fand_ftrue. reflexivity. Qed.
  Theorem truthy_spec D n : In n (ids t) ->
    w_truthy first_raw next_raw is_tag fc D n = Ok (negb (Nat.eqb (length (filter D (a_children t n))) 0)).
  Proof. intros Hn. unfold w_truthy. rewrite (len_spec D n Hn). reflexivity. Qed.
  Theorem first_child_spec D n : In n (ids t) ->
    w_first_child first_raw next_raw is_tag fc D n = Ok (hd_error (filter D (a_children t n))).
  Proof. intros Hn. unfold w_first_child. rewrite (children_spec D ftrue n Hn). cbn [rbind]. rewrite filter_fand_ftrue. reflexivity. Qed.
  Theorem last_child_spec D n : In n (ids t) ->
    w_last_child first_raw next_raw is_tag fc D n = Ok (last_error (filter D (a_children t n))).
  Proof. intros Hn. unfold w_last_child. rewrite (children_spec D ftrue n Hn). cbn [rbind]. rewrite filter_fand_ftrue. reflexivity. Qed.
  Theorem getitem_spec D n i : In n (ids t) ->
    w_getitem first_raw next_raw is_tag fc D n i =
    match py_index (filter D (a_children t n)) i with Some x => Ok x | None => Crash IndexError end.
  Proof.
    intros Hn. unfold w_getitem. rewrite (len_spec D n Hn). cbn [rbind].
    rewrite (children_spec D ftrue n Hn). cbn [rbind]. rewrite filter_fand_ftrue. reflexivity.
  Qed.
  Theorem getslice_spec D n a b : In n (ids t) ->
    w_getslice first_raw next_raw is_tag fc D n a b = Ok (py_slice (filter D (a_children t n)) a b).
  Proof. intros Hn. unfold w_getslice. rewrite (children_spec D ftrue n Hn). cbn [rbind]. rewrite filter_fand_ftrue. reflexivity. Qed.

  Lemma parent_in n p : a_parent t n = Some p -> In p (ids t).
  Proof. intros H. destruct (a_parent_some t n p H) as [s [Hs [<- _]]]. apply sub_id_in. exact Hs. Qed.

  Theorem index_spec D n : In n (ids t) ->
    w_index first_raw next_raw parent is_tag fc D n =
    match a_parent t n with
    | None => Ok None
    | Some _ => match index_of n (filter D (a_siblings t n)) with
                | Some i => Ok (Some i)
                | None => Crash InvalidCodePath
                end
    end.
  Proof.
    intros Hn. unfold w_index. rewrite (Hparent n Hn). cbn [rbind]. unfold a_siblings.
    destruct (a_parent t n) as [p|] eqn:Hp; [|reflexivity].
    rewrite (children_spec D ftrue p (parent_in n p Hp)). cbn [rbind]. rewrite filter_fand_ftrue. reflexivity.
  Qed.
  Corollary index_spec_unfiltered n : In n (ids t) ->
    w_index first_raw next_raw parent is_tag fc ftrue n = Ok (a_index t n).
  Proof.
    intros Hn. rewrite (index_spec ftrue n Hn). unfold a_index. destruct (a_parent t n) as [p|] eqn:Hp; [|reflexivity].
    rewrite filter_ftrue. destruct (child_once_at_index t Hnd n p Hp) as [i [Hi _]]. unfold a_index in Hi. rewrite Hp in Hi.
    rewrite Hi. reflexivity.
  Qed.

  (* ---------------------------------------------------------------- siblings *)
  Lemma fetch_fs_none fuel P : 0 < fuel -> fetch_fs next_raw fuel P None = Ok None.
  Proof. destruct fuel; [lia|reflexivity]. Qed.
  Lemma fetch_fs_spec : forall fuel P x r, In x (ids t) -> a_fsibs t x = r -> length r + 1 < fuel ->
    fetch_fs next_raw fuel P (Some x) = Ok (hd_error (filter P (x :: r))).
  Proof.
    induction fuel as [|f IH]; intros P x r Hx Hr Hf; [lia|]. cbn [fetch_fs filter].
    destruct (P x); [reflexivity|]. rewrite (Hnext x Hx). cbn [rbind]. unfold a_next_sibling. rewrite Hr.
    destruct r as [|m r']; cbn [hd_error].
    - apply fetch_fs_none. cbn in Hf. lia.
    - apply IH; [apply (fsibs_in t Hnd x); rewrite Hr; left; reflexivity|exact (fsibs_step t Hnd x m r' Hr)|cbn in Hf; lia].
  Qed.
  Theorem fetch_following_sibling_spec D F n : In n (ids t) ->
    w_fetch_following_sibling next_raw fc D F n = Ok (hd_error (filter (fand D F) (a_fsibs t n))).
  Proof.
    intros Hn. unfold w_fetch_following_sibling. rewrite (Hnext n Hn). cbn [rbind]. unfold a_next_sibling.
    pose proof (a_fsibs_length t Hnd n) as Hlen.
    destruct (a_fsibs t n) as [|m r] eqn:E; cbn [hd_error].
    - apply fetch_fs_none. lia.
    - apply fetch_fs_spec; [apply (fsibs_in t Hnd n); rewrite E; left; reflexivity|
                            exact (fsibs_step t Hnd n m r E)|cbn in Hlen; lia].
  Qed.
  Lemma iter_fs_spec D F : forall fuel n, In n (ids t) -> length (filter (fand D F) (a_fsibs t n)) < fuel ->
    iter_fs next_raw fc fuel D F n = Ok (filter (fand D F) (a_fsibs t n)).
  Proof.
    induction fuel as [|f IH]; intros n Hn Hf; [lia|]. cbn [iter_fs].
    rewrite (fetch_following_sibling_spec D F n Hn). cbn [rbind].
    destruct (filter (fand D F) (a_fsibs t n)) as [|x l] eqn:E; cbn [hd_error]; [reflexivity|].
    destruct (filter_head_split _ _ _ _ E) as [l1 [l2 [E1 [_ [E3 _]]]]].
    pose proof (fsibs_step_gen t Hnd n l1 x l2 E1) as Hx.
    assert (Hxin : In x (ids t)) by (apply (fsibs_in t Hnd n); rewrite E1; apply in_or_app; right; left; reflexivity).
    rewrite (IH x Hxin) by (rewrite Hx, E3; cbn in Hf; lia).
    cbn [rbind]. rewrite Hx, E3. reflexivity.
  Qed.
  Theorem iterate_following_siblings_spec D F n : In n (ids t) ->
    w_iterate_following_siblings next_raw fc D F n = Ok (filter (fand D F) (a_fsibs t n)).
  Proof.
    intros Hn. apply iter_fs_spec; [exact Hn|]. pose proof (filter_length_le (fand D F) (a_fsibs t n)).
    pose proof (a_fsibs_length t Hnd n). lia.
  Qed.

  Lemma fetch_ps_spec : forall fuel P n r, In n (ids t) -> a_psibs t n = r -> length r < fuel ->
    fetch_ps prev_cand fuel P n = Ok (hd_error (filter P r)).
  Proof.
    induction fuel as [|f IH]; intros P n r Hn Hr Hf; [lia|]. cbn [fetch_ps].
    rewrite (Hprev n Hn). cbn [rbind]. unfold a_prev_sibling. rewrite Hr.
    destruct r as [|m r']; cbn [hd_error filter]; [reflexivity|].
    destruct (P m); [reflexivity|].
    apply IH; [apply (psibs_in t Hnd n); rewrite Hr; left; reflexivity|exact (psibs_step t Hnd n m r' Hr)|cbn in Hf; lia].
  Qed.
  Theorem fetch_preceding_sibling_spec D F n : In n (ids t) ->
    w_fetch_preceding_sibling prev_cand fc D F n = Ok (hd_error (filter (fand D F) (a_psibs t n))).
  Proof.
    intros Hn. unfold w_fetch_preceding_sibling. apply fetch_ps_spec; [exact Hn|reflexivity|].
    pose proof (a_psibs_length t Hnd n). lia.
  Qed.
  Lemma iter_ps_spec D F : forall fuel n, In n (ids t) -> length (filter (fand D F) (a_psibs t n)) < fuel ->
    iter_ps prev_cand fc fuel D F n = Ok (filter (fand D F) (a_psibs t n)).
  Proof.
    induction fuel as [|f IH]; intros n Hn Hf; [lia|]. cbn [iter_ps].
    rewrite (fetch_preceding_sibling_spec D F n Hn). cbn [rbind].
    destruct (filter (fand D F) (a_psibs t n)) as [|x l] eqn:E; cbn [hd_error]; [reflexivity|].
    destruct (filter_head_split _ _ _ _ E) as [l1 [l2 [E1 [_ [E3 _]]]]].
    pose proof (psibs_step_gen t Hnd n l1 x l2 E1) as Hx.
    assert (Hxin : In x (ids t)) by (apply (psibs_in t Hnd n); rewrite E1; apply in_or_app; right; left; reflexivity).
    rewrite (IH x Hxin) by (rewrite Hx, E3; cbn in Hf; lia).
    cbn [rbind]. rewrite Hx, E3. reflexivity.
  Qed.
  Theorem iterate_preceding_siblings_spec D F n : In n (ids t) ->
    w_iterate_preceding_siblings prev_cand fc D F n = Ok (filter (fand D F) (a_psibs t n)).
  Proof.
    intros Hn. apply iter_ps_spec; [exact Hn|]. pose proof (filter_length_le (fand D F) (a_psibs t n)).
    pose proof (a_psibs_length t Hnd n). lia.
  Qed.

  Lemma descendants_length n : In n (ids t) -> length (a_descendants t n) < length (ids t).
  Proof.
    intros Hn. destruct (a_sub_of_id t Hnd n Hn) as [s [Hs [E Hsub]]]. unfold a_descendants. rewrite Hsub.
    assert (Hl : length (ids s) <= length (ids t)).
    { apply NoDup_incl_length; [|apply ids_sub_incl; exact Hs]. apply (sub_ids_nodup t Hnd s Hs). }
    destruct s as [i p kids]. rewrite ids_unfold in Hl. cbn [ikids length] in *. lia.
  Qed.

  (* ---------------------------------------------------------------- descendants: the explicit-stack loop *)
  Definition sibs_from (c : option nid) : list nid := match c with None => [] | Some x => x :: a_fsibs t x end.
  Definition sub_ids (k : nid) : list nid := k :: a_descendants t k.
  Definition out (c : option nid) : list nid := flat_map sub_ids (sibs_from c).
  Fixpoint mst (st : list (option nid)) : nat :=
    match st with [] => 0 | s :: r => S (2 * length (out s)) + mst r end.
  Definition cand_ok (c : option nid) : Prop := match c with None => True | Some x => In x (ids t) end.

  Lemma sibs_from_next x : In x (ids t) -> sibs_from (Some x) = x :: sibs_from (a_next_sibling t x).
  Proof.
    intros Hx. cbn [sibs_from]. f_equal. unfold a_next_sibling. destruct (a_fsibs t x) as [|m r] eqn:E; [reflexivity|].
    cbn [hd_error sibs_from]. rewrite (fsibs_step t Hnd x m r E). reflexivity.
  Qed.
  Lemma children_from x : In x (ids t) -> a_children t x = sibs_from (a_first_child t x).
  Proof.
    intros Hx. unfold a_first_child. destruct (a_children t x) as [|c r] eqn:E; [reflexivity|].
    cbn [hd_error sibs_from]. rewrite (children_step t Hnd x c r Hx E). reflexivity.
  Qed.
  Lemma descendants_out x : In x (ids t) -> a_descendants t x = out (a_first_child t x).
  Proof. intros Hx. rewrite (descendants_preorder t Hnd x Hx). unfold out. rewrite (children_from x Hx). reflexivity. Qed.
  Lemma next_ok x : In x (ids t) -> cand_ok (a_next_sibling t x).
  Proof.
    intros Hx. unfold a_next_sibling. destruct (a_fsibs t x) as [|m r] eqn:E; [exact I|]. cbn.
    apply (fsibs_in t Hnd x). rewrite E. left. reflexivity.
  Qed.
  Lemma first_ok x : cand_ok (a_first_child t x).
  Proof.
    unfold a_first_child. destruct (a_children t x) as [|m r] eqn:E; [exact I|]. cbn.
    apply (children_in t x). rewrite E. left. reflexivity.
  Qed.
  Lemma out_some x : In x (ids t) -> out (Some x) = x :: a_descendants t x ++ out (a_next_sibling t x).
  Proof. intros Hx. unfold out. rewrite (sibs_from_next x Hx). reflexivity. Qed.

  Lemma desc_loop_spec P : forall fuel cand stack, cand_ok cand -> Forall cand_ok stack ->
    2 * length (out cand) + mst stack < fuel ->
    desc_loop first_raw next_raw is_tag fc fuel P cand stack = Ok (filter P (out cand ++ flat_map out stack)).
  Proof.
    induction fuel as [|f IH]; intros cand stack Hc Hst Hf; [lia|]. cbn [desc_loop].
    destruct cand as [x|].
    - cbn in Hc. rewrite (Hnext x Hc). cbn [rbind]. rewrite (out_some x Hc) in Hf |- *. cbn [length] in Hf. rewrite app_length in Hf.
      destruct (is_tag x) eqn:Htag.
      + rewrite (first_child_spec ftrue x Hc). cbn [rbind]. rewrite filter_ftrue.
        change (hd_error (a_children t x)) with (a_first_child t x).
        rewrite (IH (a_first_child t x) (a_next_sibling t x :: stack)).
        * cbn [rbind flat_map app filter]. rewrite (descendants_out x Hc), <- !app_assoc. reflexivity.
        * apply first_ok.
        * constructor; [apply next_ok; exact Hc|exact Hst].
        * cbn [mst]. rewrite <- (descendants_out x Hc). lia.
      + rewrite (IH (a_next_sibling t x) stack); [|apply next_ok; exact Hc|exact Hst|lia].
        cbn [rbind app filter]. unfold a_descendants. destruct (a_sub_of_id t Hnd x Hc) as [s [Hs [E Hsub]]]. rewrite Hsub.
        pose proof (Hleaf x Hc Htag) as Hl. unfold a_children in Hl. rewrite Hsub in Hl. unfold kid_ids in Hl.
        destruct (ikids s); [reflexivity|discriminate].
    - destruct stack as [|s st]; [reflexivity|]. inversion Hst; subst. cbn [mst out sibs_from flat_map length] in Hf.
      rewrite (IH s st); [reflexivity|assumption|assumption|lia].
  Qed.

  Theorem descendants_spec fuel D F n : In n (ids t) -> 2 * length (ids t) + 1 < fuel ->
    w_iterate_descendants first_raw next_raw is_tag fc fuel D F n = Ok (filter (fand D F) (a_descendants t n)).
  Proof.
    intros Hn Hf. unfold w_iterate_descendants. destruct (is_tag n) eqn:Htag.
    - rewrite (first_child_spec ftrue n Hn). cbn [rbind]. rewrite filter_ftrue.
      change (hd_error (a_children t n)) with (a_first_child t n).
      rewrite desc_loop_spec; [cbn [flat_map]; rewrite app_nil_r, <- (descendants_out n Hn); reflexivity|apply first_ok|constructor|].
      cbn [mst]. rewrite <- (descendants_out n Hn). pose proof (descendants_length n Hn). lia.
    - unfold a_descendants. destruct (a_sub_of_id t Hnd n Hn) as [s [Hs [E Hsub]]]. rewrite Hsub.
      pose proof (Hleaf n Hn Htag) as Hl. unfold a_children in Hl. rewrite Hsub in Hl. unfold kid_ids in Hl.
      destruct (ikids s); [reflexivity|discriminate].
  Qed.
  Theorem full_text_spec fuel D n : In n (ids t) -> 2 * length (ids t) + 1 < fuel ->
    (forall i, In i (ids t) -> is_text i = a_is_text t i) ->
    (forall i, In i (ids t) -> is_text i = true -> content i = a_text t i) ->
    (is_tag n = true -> is_text n = false) ->
    w_full_text first_raw next_raw is_tag is_text content fc fuel D n =
    Ok (if a_is_text t n then a_text t n else a_text_concat t (filter D (a_descendants t n))).
  Proof.
    intros Hn Hf Htx Hct Hexcl. unfold w_full_text. destruct (is_tag n) eqn:Htag.
    - rewrite <- (Htx n Hn), (Hexcl eq_refl). rewrite (descendants_spec fuel D ftrue n Hn Hf). cbn [rbind].
      rewrite filter_fand_ftrue. f_equal. unfold a_text_concat. apply flat_map_ext_in'. intros i Hi.
      apply filter_In in Hi. destruct Hi as [Hi _].
      assert (Hin : In i (ids t)).
      { unfold a_descendants in Hi. destruct (a_sub_of_id t Hnd n Hn) as [s [Hs [E Hsub]]]. rewrite Hsub in Hi.
        apply in_flat_map in Hi. destruct Hi as [k [Hk Hi]]. apply (ids_sub_incl t k (kid_in_subtrees t s k Hs Hk)). exact Hi. }
      rewrite <- (Htx i Hin). destruct (is_text i) eqn:Ei; [rewrite (Hct i Hin Ei)|]; reflexivity.
    - rewrite <- (Htx n Hn). destruct (is_text n) eqn:Ei; [rewrite (Hct n Hn Ei); reflexivity|].
      rewrite (descendants_preorder t Hnd n Hn), (Hleaf n Hn Htag). reflexivity.
  Qed.

  (* ---------------------------------------------------------------- ancestors, depth *)
  Lemma ancestors_bound n : length (a_ancestors t n) < fc.
  Proof. destruct (ancestors_length t n) as [H|H]; [lia|rewrite H; cbn; lia]. Qed.
  Lemma anc_loop_spec F : forall fuel n, In n (ids t) -> length (a_ancestors t n) < fuel ->
    anc_loop parent fuel F n = Ok (filter F (a_ancestors t n)).
  Proof.
    induction fuel as [|f IH]; intros n Hn Hf; [lia|]. cbn [anc_loop]. rewrite (Hparent n Hn). cbn [rbind].
    rewrite (ancestors_chain t Hnd n Hn) in Hf |- *. destruct (a_parent t n) as [p|] eqn:Hp; [|reflexivity].
    rewrite (IH p (parent_in n p Hp)) by (cbn in Hf; lia). reflexivity.
  Qed.
  Theorem ancestors_spec F n : In n (ids t) -> w_iterate_ancestors parent fc F n = Ok (filter F (a_ancestors t n)).
  Proof. intros Hn. apply anc_loop_spec; [exact Hn|apply ancestors_bound]. Qed.
  Lemma tag_depth_spec : forall fuel n acc, In n (ids t) -> length (a_ancestors t n) < fuel ->
    tag_depth parent fuel n acc = Ok (acc + length (a_ancestors t n)).
  Proof.
    induction fuel as [|f IH]; intros n acc Hn Hf; [lia|]. cbn [tag_depth]. rewrite (Hparent n Hn). cbn [rbind].
    rewrite (ancestors_chain t Hnd n Hn) in Hf |- *. destruct (a_parent t n) as [p|] eqn:Hp; [|cbn; f_equal; lia].
    rewrite (IH p (S acc) (parent_in n p Hp)) by (cbn in Hf; lia). cbn [length]. f_equal. lia.
  Qed.
  Theorem depth_spec n : In n (ids t) -> w_depth parent is_tag fc n = Ok (a_depth t n).
  Proof.
    intros Hn. unfold w_depth, a_depth. destruct (is_tag n) eqn:Htag.
    - rewrite (tag_depth_spec fc n 0 Hn (ancestors_bound n)). reflexivity.
    - rewrite (Hparent n Hn). cbn [rbind]. rewrite (ancestors_chain t Hnd n Hn). destruct (a_parent t n) as [p|] eqn:Hp; [|reflexivity].
      rewrite (tag_depth_spec fc p 0 (parent_in n p Hp) (ancestors_bound p)). reflexivity.
  Qed.

  (* ---------------------------------------------------------------- preceding axis *)
  Lemma filter_all {A} (P : A -> bool) l : (forall x, P x = true) -> filter P l = l.
  Proof. intros H. induction l as [|x r IH]; [reflexivity|]. cbn. rewrite H, IH. reflexivity. Qed.
  Lemma flat_map_length_in {A B} (f : A -> list B) l x : In x l -> length (f x) <= length (flat_map f l).
  Proof.
    induction l as [|a r IH]; intros H; [destruct H|]. cbn. rewrite app_length. destruct H as [->|H]; [lia|specialize (IH H); lia].
  Qed.
  Lemma concat_res_post (rec : nid -> res (list nid)) (g : nid -> list nid) : forall l,
    (forall c, In c l -> rec c = Ok (g c)) -> concat_res rec true l = Ok (flat_map (fun c => g c ++ [c]) l).
  Proof.
    induction l as [|c r IH]; intros H; [reflexivity|]. cbn [concat_res flat_map]. rewrite (H c (or_introl eq_refl)). cbn [rbind].
    rewrite IH by (intros x Hx; apply H; right; exact Hx). cbn [rbind]. rewrite <- app_assoc. reflexivity.
  Qed.
  Lemma rev_sub_spec : forall fuel q, In q (ids t) -> length (a_descendants t q) < fuel ->
    rev_sub first_raw next_raw is_tag fc fuel q = Ok (rev (a_descendants t q)).
  Proof.
    induction fuel as [|f IH]; intros q Hq Hf; [lia|]. cbn [rev_sub]. rewrite (children_spec ftrue ftrue q Hq). cbn [rbind].
    rewrite (filter_all _ _ (fun x => eq_refl)).
    rewrite (descendants_preorder t Hnd q Hq) in Hf |- *.
    rewrite (concat_res_post _ (fun c => rev (a_descendants t c))).
    - f_equal. rewrite (rev_flat_map (fun k => k :: a_descendants t k)). reflexivity.
    - intros c Hc. apply in_rev in Hc. apply IH; [exact (children_in t q c Hc)|].
      pose proof (flat_map_length_in (fun k => k :: a_descendants t k) _ c Hc) as H. cbn [length] in H. lia.
  Qed.
  Lemma preceding_length n : length (a_preceding t n) <= length (ids t).
  Proof. unfold a_preceding. rewrite rev_length. apply before_length. Qed.
  Lemma prec_loop_spec : forall fuel n, In n (ids t) -> length (a_preceding t n) < fuel ->
    prec_loop first_raw next_raw prev_cand parent is_tag fc fuel n = Ok (a_preceding t n).
  Proof.
    induction fuel as [|f IH]; intros n Hn Hf; [lia|]. cbn [prec_loop].
    pose proof (fetch_preceding_sibling_spec ftrue ftrue n Hn) as Hps. unfold w_fetch_preceding_sibling in Hps. rewrite Hps.
    cbn [rbind]. rewrite (filter_all _ _ (fun x => eq_refl)). change (hd_error (a_psibs t n)) with (a_prev_sibling t n).
    rewrite (preceding_step t Hnd n Hn) in Hf |- *. destruct (a_prev_sibling t n) as [q|] eqn:Eq.
    - assert (Hq : In q (ids t)).
      { apply (psibs_in t Hnd n). unfold a_prev_sibling in Eq. destruct (a_psibs t n); [discriminate|]. injection Eq as ->. left. reflexivity. }
      rewrite (rev_sub_spec fc q Hq) by (pose proof (descendants_length q Hq); lia). cbn [rbind].
      unfold ANavOrderFacts.sub_ids in *. cbn [rev] in Hf |- *. rewrite !app_length in Hf. cbn [length] in Hf.
      rewrite (IH q Hq) by lia. cbn [rbind]. rewrite <- app_assoc. reflexivity.
    - rewrite (Hparent n Hn). cbn [rbind]. destruct (a_parent t n) as [u|] eqn:Hu; [|reflexivity].
      rewrite (IH u (parent_in n u Hu)) by (cbn in Hf; lia). reflexivity.
  Qed.
  Theorem preceding_spec fuel F n : In n (ids t) -> length (ids t) < fuel ->
    w_iterate_preceding first_raw next_raw prev_cand parent is_tag fc fuel F n = Ok (filter F (a_preceding t n)).
  Proof.
    intros Hn Hf. unfold w_iterate_preceding. rewrite (prec_loop_spec fuel n Hn) by (pose proof (preceding_length n); lia).
    reflexivity.
  Qed.
  (* ---------------------------------------------------------------- following axis *)
  Lemma climb_spec : forall fuel n, In n (ids t) -> length (a_ancestors t n) < fuel ->
    climb next_raw parent fuel n = Ok (hd_error (flat_map (a_fsibs t) (a_ancestors t n))).
  Proof.
    induction fuel as [|f IH]; intros n Hn Hf; [lia|]. cbn [climb]. rewrite (Hparent n Hn). cbn [rbind].
    rewrite (ancestors_chain t Hnd n Hn) in Hf |- *. destruct (a_parent t n) as [p|] eqn:Hp; [|reflexivity].
    pose proof (parent_in n p Hp) as Hpin. rewrite (Hnext p Hpin). cbn [rbind flat_map]. unfold a_next_sibling.
    destruct (a_fsibs t p) as [|x r] eqn:E; cbn [hd_error app]; [|reflexivity].
    apply IH; [exact Hpin|cbn in Hf; lia].
  Qed.
  Lemma next_after_subtree n : In n (ids t) ->
    (s <- next_raw n ;; match s with Some x => Ok (Some x) | None => climb next_raw parent fc n end)
    = Ok (hd_error (pend t n)).
  Proof.
    intros Hn. rewrite (Hnext n Hn). cbn [rbind]. unfold a_next_sibling, pend. cbn [flat_map].
    destruct (a_fsibs t n) as [|x r]; cbn [hd_error app]; [|reflexivity].
    apply climb_spec; [exact Hn|apply ancestors_bound].
  Qed.
  Lemma fol_loop_spec D : forall fuel n, In n (ids t) -> length (Wf t D n) < fuel ->
    fol_loop first_raw next_raw parent is_tag fc fuel D n = Ok (Wf t D n).
  Proof.
    induction fuel as [|f IH]; intros n Hn Hf; [lia|]. cbn [fol_loop]. rewrite (first_child_spec D n Hn). cbn [rbind].
    rewrite (Wf_step t Hnd D n Hn) in Hf |- *.
    destruct (hd_error (filter D (a_children t n))) as [c|] eqn:Ec.
    - cbn [rbind].
      assert (Hc : In c (ids t)).
      { destruct (filter D (a_children t n)) as [|c' r] eqn:E; [discriminate|]. injection Ec as ->.
        apply (children_in t n). apply (proj1 (filter_In D c (a_children t n))). rewrite E. left. reflexivity. }
      rewrite (IH c Hc) by (cbn in Hf; lia). reflexivity.
    - rewrite (next_after_subtree n Hn). cbn [rbind]. destruct (pend t n) as [|m r] eqn:Em; [reflexivity|]. cbn [hd_error] in *.
      destruct (pend_step t Hnd n Hn m r Em) as [Hm _].
      rewrite (IH m Hm) by (cbn in Hf; lia). reflexivity.
  Qed.
  Theorem following_spec fuel D F n : up_closed_b D t = true -> In n (ids t) -> length (ids t) <= fuel ->
    w_iterate_following first_raw next_raw parent is_tag fc fuel D F n = Ok (filter (fand D F) (a_following t n)).
  Proof.
    intros Hg Hn Hf. unfold w_iterate_following.
    rewrite (fol_loop_spec D fuel n Hn) by (pose proof (Wf_length t Hnd D n Hn); lia). cbn [rbind].
    rewrite !filter_fand, (Wf_filter t Hnd D n (up_closed_b_spec D t Hg) Hn). reflexivity.
  Qed.
  (* ---------------------------------------------------------------- last_descendant *)
  Lemma ld_loop_spec D : hid_closed D t -> forall fuel node, In node (ids t) -> length (a_descendants t node) < fuel ->
    ld_loop first_raw next_raw is_tag fc fuel D node = Ok (ldv t D node).
  Proof.
    intros Hh. induction fuel as [|f IH]; intros node Hn Hf; [lia|]. cbn [ld_loop]. rewrite (last_child_spec D node Hn).
    cbn [rbind]. rewrite (ldv_step t Hnd D Hh node Hn). destruct (last_error (filter D (a_children t node))) as [c|] eqn:E; [|reflexivity].
    assert (Hc : In c (a_children t node)) by (apply last_error_in in E; apply filter_In in E; tauto).
    apply IH; [exact (children_in t node c Hc)|]. pose proof (child_descendants_shorter t Hnd node c Hn Hc). lia.
  Qed.
  Theorem last_descendant_spec D n : up_closed_b D t = true -> In n (ids t) ->
    w_last_descendant first_raw next_raw is_tag fc D n = Ok (last_error (filter D (a_descendants t n))).
  Proof.
    intros Hg Hn. pose proof (up_closed_b_spec D t Hg) as Hh. unfold w_last_descendant. rewrite (last_child_spec D n Hn). cbn [rbind].
    rewrite (last_visible_descendant t Hnd D Hh n Hn). destruct (last_error (filter D (a_children t n))) as [c|] eqn:E; [|reflexivity].
    assert (Hc : In c (a_children t n)) by (apply last_error_in in E; apply filter_In in E; tauto).
    rewrite (ld_loop_spec D Hh fc c (children_in t n c Hc)); [reflexivity|].
    pose proof (descendants_length c (children_in t n c Hc)). lia.
  Qed.
  (* ---------------------------------------------------------------- traversers (no ambient filter) *)
  Lemma concat_res_pre (rec : nid -> res (list nid)) (g : nid -> list nid) : forall l,
    (forall c, In c l -> rec c = Ok (g c)) -> concat_res rec false l = Ok (flat_map g l).
  Proof.
    induction l as [|c r IH]; intros H; [reflexivity|]. cbn [concat_res flat_map]. rewrite (H c (or_introl eq_refl)). cbn [rbind].
    rewrite IH by (intros x Hx; apply H; right; exact Hx). reflexivity.
  Qed.
  (* under an ambient filter D the walk goes through the D-visible children only; the passed filters are tested when a
     node is yielded, the given root is yielded in any case *)
  Lemma btt_spec D F root : forall fuel n, In n (ids t) -> length (a_descendants t n) < fuel ->
    btt first_raw next_raw is_tag fc fuel D F root n = Ok (filter (fun x => N.eqb x root || F x) (a_post_vis t D n)).
  Proof.
    induction fuel as [|f IH]; intros n Hn Hf; [lia|]. cbn [btt]. rewrite (children_spec D ftrue n Hn). cbn [rbind].
    rewrite filter_fand_ftrue.
    rewrite (concat_res_pre _ (fun c => filter (fun x => N.eqb x root || F x) (a_post_vis t D c))).
    - cbn [rbind]. rewrite (post_vis_unfold t Hnd D n Hn), filter_app, filter_flat_map. cbn [filter].
      destruct (N.eqb n root || F n); [reflexivity|rewrite app_nil_r; reflexivity].
    - intros c Hc. apply filter_In in Hc. destruct Hc as [Hc _]. apply IH; [exact (children_in t n c Hc)|].
      pose proof (child_descendants_shorter t Hnd n c Hn Hc). lia.
  Qed.
  Theorem traverse_df_btt_ambient_spec fuel D F n : In n (ids t) -> length (ids t) <= fuel ->
    w_traverse_df_btt first_raw next_raw is_tag fc fuel D F n = Ok (filter (fun x => N.eqb x n || F x) (a_post_vis t D n)).
  Proof. intros Hn Hf. apply btt_spec; [exact Hn|]. pose proof (descendants_length n Hn). lia. Qed.
  Theorem traverse_df_btt_spec fuel F n : In n (ids t) -> length (ids t) <= fuel ->
    w_traverse_df_btt first_raw next_raw is_tag fc fuel ftrue F n = Ok (filter (fun x => N.eqb x n || F x) (a_df_btt t n)).
  Proof.
    intros Hn Hf. rewrite (traverse_df_btt_ambient_spec fuel ftrue F n Hn Hf). unfold a_post_vis, a_df_btt.
    destruct (a_sub t n); [rewrite post_vis_ftrue|]; reflexivity.
  Qed.

  Lemma rbind_ret {A} (x : res A) : (r <- x ;; Ok r) = x.
  Proof. destruct x; reflexivity. Qed.
  Lemma ext_spec D x : In x (ids t) ->
    (if is_tag x then w_iterate_children D ftrue x else Ok []) = Ok (vis_children t D x).
  Proof.
    intros Hx. unfold vis_children. destruct (is_tag x) eqn:E; [|rewrite (Hleaf x Hx E); reflexivity].
    rewrite (children_spec D ftrue x Hx), filter_fand_ftrue. reflexivity.
  Qed.
  Lemma bf_loop_nil fuel D F : 0 < fuel -> bf_loop first_raw next_raw is_tag fc fuel D F [] = Ok [].
  Proof. destruct fuel; [lia|reflexivity]. Qed.
  (* the queue: the rest of the current level, then the visible children of the nodes already taken from it *)
  Lemma bf_shift D F : forall L fuel M, (forall x, In x L -> In x (ids t)) ->
    bf_loop first_raw next_raw is_tag fc (length L + fuel) D F (L ++ M) =
    (r <- bf_loop first_raw next_raw is_tag fc fuel D F (M ++ flat_map (vis_children t D) L) ;; Ok (filter F L ++ r)).
  Proof.
    induction L as [|x L' IH]; intros fuel M HL.
    - cbn [length plus app flat_map filter]. rewrite app_nil_r. symmetry. apply rbind_ret.
    - cbn [length plus app bf_loop]. rewrite (ext_spec D x (HL x (or_introl eq_refl))). cbn [rbind].
      rewrite <- app_assoc. rewrite (IH fuel (M ++ vis_children t D x)) by (intros y Hy; apply HL; right; exact Hy).
      cbn [flat_map]. rewrite <- app_assoc.
      destruct (bf_loop first_raw next_raw is_tag fc fuel D F (M ++ vis_children t D x ++ flat_map (vis_children t D) L')); cbn [rbind filter]; try reflexivity.
      destruct (F x); reflexivity.
  Qed.
  Lemma vis_in D L : (forall x, In x L -> In x (ids t)) -> forall y, In y (flat_map (vis_children t D) L) -> In y (ids t).
  Proof.
    intros _ y Hy. apply in_flat_map in Hy. destruct Hy as [x [_ Hy]]. unfold vis_children in Hy. apply filter_In in Hy.
    exact (children_in t x y (proj1 Hy)).
  Qed.
  Lemma bf_levels D F : forall d L fuel, (forall x, In x L -> In x (ids t)) ->
    lvg (vis_children t D) d L = lvg (vis_children t D) (S d) L ->
    length (lvg (vis_children t D) d L) < fuel ->
    bf_loop first_raw next_raw is_tag fc fuel D F L = Ok (filter F (lvg (vis_children t D) d L)).
  Proof.
    induction d as [|d IH]; intros L fuel HL Hsat Hf.
    - cbn [lvg] in Hsat. rewrite app_nil_r in Hsat. subst L. apply bf_loop_nil. cbn in Hf. lia.
    - change (lvg (vis_children t D) (S d) L) with (L ++ lvg (vis_children t D) d (flat_map (vis_children t D) L)) in *.
      change (lvg (vis_children t D) (S (S d)) L) with (L ++ lvg (vis_children t D) (S d) (flat_map (vis_children t D) L)) in Hsat.
      apply app_inv_head in Hsat. rewrite app_length in Hf.
      assert (E : bf_loop first_raw next_raw is_tag fc fuel D F L
                  = bf_loop first_raw next_raw is_tag fc (length L + (fuel - length L)) D F (L ++ [])).
      { rewrite app_nil_r. f_equal. lia. }
      rewrite E, (bf_shift D F L (fuel - length L) [] HL). cbn [app].
      rewrite (IH _ (fuel - length L) (vis_in D L HL) Hsat) by lia. cbn [rbind]. rewrite filter_app. reflexivity.
  Qed.
  (* under an ambient filter D: level by level through the D-visible children; the passed filters are applied to every
     node, the given root included *)
  Theorem traverse_bf_ambient_spec fuel D F n : In n (ids t) -> length (ids t) < fuel ->
    exists d, lvg (vis_children t D) d (vis_children t D n) = lvg (vis_children t D) (S d) (vis_children t D n)
      /\ w_traverse_bf first_raw next_raw is_tag fc fuel D F n
         = Ok ((if F n then [n] else []) ++ filter F (lvg (vis_children t D) d (vis_children t D n))).
  Proof.
    intros Hn Hf. destruct (bf_unfold t Hnd n Hn) as [d [E [Hsat _]]]. exists d.
    rewrite !lv_lvg in Hsat.
    assert (Hsub : subseq (vis_children t D n) (a_children t n)) by apply subseq_filter.
    assert (Hgg : forall x, subseq (vis_children t D x) (a_children t x)) by (intros x; apply subseq_filter).
    pose proof (saturated_subseq _ _ Hgg d _ _ Hsub Hsat) as HsatD. split; [exact HsatD|].
    unfold w_traverse_bf. rewrite (children_spec D ftrue n Hn), filter_fand_ftrue. cbn [rbind]. fold (vis_children t D n).
    rewrite (bf_levels D F d (vis_children t D n) fuel).
    - cbn [rbind]. destruct (F n); reflexivity.
    - intros x Hx. unfold vis_children in Hx. apply filter_In in Hx. exact (children_in t n x (proj1 Hx)).
    - exact HsatD.
    - pose proof (subseq_length _ _ (lvg_subseq _ _ Hgg d _ _ Hsub)) as Hl.
      pose proof (bf_length_bound t Hnd n Hn) as Hb. rewrite E, lv_lvg in Hb. cbn [length] in Hb. lia.
  Qed.
  Theorem traverse_bf_spec fuel F n : In n (ids t) -> length (ids t) < fuel ->
    w_traverse_bf first_raw next_raw is_tag fc fuel ftrue F n = Ok (filter F (a_bf_ttb t n)).
  Proof.
    intros Hn Hf. destruct (bf_unfold t Hnd n Hn) as [d [E [Hsat _]]]. rewrite E.
    unfold w_traverse_bf. rewrite (children_spec ftrue ftrue n Hn), (filter_all _ _ (fun x => eq_refl)). cbn [rbind].
    pose proof (bf_length_bound t Hnd n Hn) as Hb. rewrite E in Hb. cbn [length] in Hb.
    pose proof (lvg_ext _ _ (vis_children_ftrue t)) as Hx.
    rewrite !lv_lvg in Hsat. rewrite <- !Hx in Hsat. rewrite lv_lvg, <- Hx in Hb. rewrite lv_lvg, <- Hx.
    rewrite (bf_levels ftrue F d (a_children t n) fuel (children_in t n) Hsat) by lia. reflexivity.
  Qed.

  (* ---------------------------------------------------------------- _sort_nodes_in_document_order *)
  Lemma index_path_spec : forall fuel n acc p, In n (ids t) -> rpath n t = Some p -> length (a_ancestors t n) < fuel ->
    index_path first_raw next_raw parent is_tag fc fuel ftrue n acc = Ok (p ++ acc).
  Proof.
    induction fuel as [|f IH]; intros n acc p Hn Hp Hf; [lia|]. cbn [index_path]. rewrite (Hparent n Hn). cbn [rbind].
    rewrite (ancestors_chain t Hnd n Hn) in Hf. destruct (a_parent t n) as [q|] eqn:Hq.
    - rewrite (index_spec_unfiltered n Hn). cbn [rbind].
      destruct (a_parent_some t n q Hq) as [s [Hs [Eq Hin]]]. destruct (in_split_first n _ Hin) as [l1 [l2 [E _]]].
      rewrite (place_index t Hnd s l1 l2 n Hs E).
      destruct (rpath_kid t Hnd s l1 n l2 Hs E) as [ps [H1 H2]]. rewrite Hp in H2. injection H2 as ->. subst q.
      rewrite (IH (iid s) (length l1 :: acc) ps (sub_id_in t s Hs) H1) by (cbn in Hf; lia).
      rewrite <- app_assoc. reflexivity.
    - destruct (N.eq_dec n (iid t)) as [->|Hne].
      + rewrite rpath_root in Hp. injection Hp as <-. reflexivity.
      + exfalso. destruct (has_parent t n Hn Hne) as [s [Hs Hk]]. rewrite (a_parent_of_kid t Hnd s n Hs Hk) in Hq. discriminate.
  Qed.
  Lemma sort_add_spec : forall nodes L, (forall n, In n nodes -> In n (ids t) /\ is_tag n = true) ->
    sort_add first_raw next_raw parent is_tag fc ftrue nodes (canon L t) = Ok (canon (rev nodes ++ L) t).
  Proof.
    induction nodes as [|n r IH]; intros L H; [reflexivity|]. cbn [sort_add]. destruct (H n (or_introl eq_refl)) as [Hn Htag].
    rewrite Htag. destruct (rpath_some n t Hn) as [p Hp].
    rewrite (index_path_spec fc n [] p Hn Hp (ancestors_bound n)). cbn [rbind]. rewrite app_nil_r.
    rewrite (add_canon L n t Hnd Hn p Hp). rewrite (IH (n :: L)) by (intros m Hm; apply H; right; exact Hm).
    cbn [rev]. rewrite <- app_assoc. reflexivity.
  Qed.
  Theorem sort_spec nodes : (forall n, In n nodes -> In n (ids t) /\ is_tag n = true) ->
    w_sort first_raw next_raw parent is_tag fc ftrue nodes = Ok (a_doc_sort t nodes).
  Proof.
    intros H. unfold w_sort.
    assert (E0 : Trie None [] = canon [] t).
    { symmetry. apply canon_miss. unfold hits. destruct (existsb (fun x => memb x []) (ids t)) eqn:E; [|reflexivity].
      apply existsb_exists in E. destruct E as [x [_ Hx]]. discriminate. }
    rewrite E0, (sort_add_spec nodes [] H). cbn [rbind]. rewrite emit_canon. unfold a_doc_sort. f_equal. apply filter_ext.
    intros i. rewrite app_nil_r. destruct (memb i nodes) eqn:E.
    - apply memb_In. apply -> in_rev. apply memb_In. exact E.
    - apply memb_false. intros Hin. apply in_rev in Hin. apply memb_false in E. contradiction.
  Qed.
  (* ---------------------------------------------------------------- .document and location_path (C08) *)
  Definition a_top (n : nid) : nid := last (a_ancestors t n) n.                 (* the top of the parent chain *)
  Theorem document_root_spec n : In n (ids t) ->
    w_document_root parent is_tag fc n =
    Ok (match a_parent t n with None => if is_tag n then Some n else None | Some _ => Some (a_top n) end).
  Proof.
    intros Hn. unfold w_document_root, a_top. rewrite (Hparent n Hn). cbn [rbind]. rewrite (ancestors_chain t Hnd n Hn).
    destruct (a_parent t n) as [q|] eqn:Hq; [|reflexivity]. pose proof (parent_in n q Hq) as Hqin.
    destruct (is_tag n).
    - rewrite (ancestors_spec ftrue n Hn), filter_ftrue. cbn [rbind]. rewrite (ancestors_chain t Hnd n Hn), Hq.
      rewrite last_error_cons_last, last_cons_default'. reflexivity.
    - rewrite (Hparent q Hqin). cbn [rbind]. rewrite (ancestors_chain t Hnd q Hqin). destruct (a_parent t q) as [p'|] eqn:Hp'; [|reflexivity].
      rewrite (ancestors_spec ftrue q Hqin), filter_ftrue. cbn [rbind]. rewrite (ancestors_chain t Hnd q Hqin), Hp'.
      rewrite last_error_cons_last, !last_cons_default'. reflexivity.
  Qed.

  Lemma map_res_spec {A B} (f : A -> res B) (g : A -> B) : forall l, (forall x, In x l -> f x = Ok (g x)) ->
    map_res f l = Ok (map g l).
  Proof.
    induction l as [|x r IH]; intros H; [reflexivity|]. cbn [map_res map]. rewrite (H x (or_introl eq_refl)). cbn [rbind].
    rewrite IH by (intros y Hy; apply H; right; exact Hy). reflexivity.
  Qed.
  Definition tag_pos (x : nid) : nat := match index_of x (filter is_tag (a_siblings t x)) with Some i => i | None => 0 end.
  Definition path_steps (n : nid) : list nid :=
    match a_parent t n with None => [] | Some _ => rev (removelast (a_ancestors t n)) ++ [n] end.
  Lemma tag_index_spec x : In x (ids t) -> is_tag x = true -> a_parent t x <> None ->
    (i <- w_index first_raw next_raw parent is_tag fc is_tag x ;; match i with Some k => Ok (S k) | None => Crash TypeError end)
    = Ok (S (tag_pos x)).
  Proof.
    intros Hx Htag Hp. rewrite (index_spec is_tag x Hx). unfold tag_pos. destruct (a_parent t x) as [p|] eqn:E; [|congruence].
    assert (Hin : In x (filter is_tag (a_siblings t x))).
    { apply filter_In. split; [|exact Htag]. destruct (a_parent_some t x p E) as [s [Hs [_ Hk]]].
      destruct (in_split_first x _ Hk) as [l1 [l2 [Es _]]]. rewrite (place_siblings t Hnd s l1 l2 x Hs Es).
      apply in_or_app. right. left. reflexivity. }
    destruct (index_of_in x _ Hin) as [i Hi]. rewrite Hi. reflexivity.
  Qed.
  Lemma has_child_is_tag x y : In x (ids t) -> In y (ids t) -> a_parent t y = Some x -> is_tag x = true.
  Proof.
    intros Hx Hy Hp. destruct (is_tag x) eqn:E; [reflexivity|]. exfalso. pose proof (Hleaf x Hx E) as Hl.
    apply (parent_iff_child t Hnd y x Hx) in Hp. rewrite Hl in Hp. destruct Hp.
  Qed.
  Theorem location_path_spec n : In n (ids t) -> is_tag n = true ->
    w_location_path first_raw next_raw parent is_tag fc n = Ok (map (fun x => S (tag_pos x)) (path_steps n)).
  Proof.
    intros Hn Htag. unfold w_location_path, path_steps. rewrite (Hparent n Hn). cbn [rbind].
    destruct (a_parent t n) as [q|] eqn:Hq; [|reflexivity].
    rewrite (ancestors_spec ftrue n Hn), filter_ftrue. cbn [rbind]. apply map_res_spec. intros x Hx.
    apply in_app_or in Hx. destruct Hx as [Hx|[<-|[]]]; [|apply tag_index_spec; [exact Hn|exact Htag|congruence]].
    apply in_rev in Hx. destruct (in_removelast_split x _ Hx) as [a [b [E Hb]]].
    destruct (ancestors_split t Hnd a n x b Hn E) as [Hxin [Eb [y [Hy Hpy]]]].
    apply tag_index_spec; [exact Hxin|exact (has_child_is_tag x y Hxin Hy Hpy)|].
    intros Hnone. apply Hb. rewrite Eb, (ancestors_chain t Hnd x Hxin), Hnone. reflexivity.
  Qed.
  (* ---------------------------------------------------------------- the sorter under an ambient filter *)
  Lemma strict_subtree s : In s (subtrees t) -> iid s <> iid t -> In s (flat_map subtrees (ikids t)).
  Proof.
    intros Hs Hne. destruct t as [i p kids] eqn:Et. rewrite subtrees_unfold in Hs. destruct Hs as [<-|Hs]; [congruence|exact Hs].
  Qed.
  Lemma index_path_specD D n0 : way_visible D n0 t ->
    forall fuel c sc acc p, In sc (subtrees t) -> iid sc = c -> In n0 (ids sc) -> rpathD D c t = Some p ->
    length (a_ancestors t c) < fuel ->
    index_path first_raw next_raw parent is_tag fc fuel D c acc = Ok (p ++ acc).
  Proof.
    intros Hw. induction fuel as [|f IH]; intros c sc acc p Hsc Ec Hn0 Hp Hf; [lia|].
    assert (Hc : In c (ids t)) by (rewrite <- Ec; exact (sub_id_in t sc Hsc)).
    cbn [index_path]. rewrite (Hparent c Hc). cbn [rbind].
    rewrite (ancestors_chain t Hnd c Hc) in Hf. destruct (a_parent t c) as [q|] eqn:Hq.
    - destruct (a_parent_some t c q Hq) as [s [Hs [Eq Hin]]]. destruct (in_split_first c _ Hin) as [l1 [l2 [E Hnot]]].
      assert (Hvis : D c = true).
      { rewrite <- Ec. apply Hw; [|exact Hn0]. apply strict_subtree; [exact Hsc|]. rewrite Ec. intros Eroot.
        rewrite Eroot, (a_parent_root t Hnd) in Hq. discriminate. }
      rewrite (index_spec D c Hc), Hq, (place_siblings t Hnd s l1 l2 c Hs E), filter_app. cbn [filter]. rewrite Hvis.
      rewrite index_of_split by (intros Hx; apply filter_In in Hx; tauto). cbn [rbind].
      destruct (rpathD_kid D t Hnd s l1 c l2 Hs E) as [ps [H1 H2]]. rewrite Hp in H2. injection H2 as ->. subst q.
      assert (Hsub : In n0 (ids s)).
      { unfold kid_ids in Hin. apply in_map_iff in Hin. destruct Hin as [k [Ek Hk]].
        assert (k = sc).
        { pose proof Hnd as Hnd'. rewrite ids_subtrees in Hnd'.
          apply (nodup_map_inj iid _ k sc Hnd' (kid_in_subtrees t s k Hs Hk) Hsc). congruence. }
        subst k. apply (ids_sub_incl s sc); [|exact Hn0].
        apply (kid_in_subtrees s s sc (self_in_subtrees s) Hk). }
      rewrite (IH (iid s) s (length (filter D l1) :: acc) ps Hs eq_refl Hsub H1) by (cbn [length] in Hf; lia).
      rewrite <- app_assoc. reflexivity.
    - destruct (N.eq_dec c (iid t)) as [->|Hne].
      + rewrite rpathD_root in Hp. injection Hp as <-. reflexivity.
      + exfalso. destruct (has_parent t c Hc Hne) as [s [Hs Hk]]. rewrite (a_parent_of_kid t Hnd s c Hs Hk) in Hq. discriminate.
  Qed.
  Lemma sort_add_specD D : forall nodes L,
    (forall n, In n nodes -> In n (ids t) /\ is_tag n = true /\ way_visible D n t) ->
    sort_add first_raw next_raw parent is_tag fc D nodes (canonD D L t) = Ok (canonD D (rev nodes ++ L) t).
  Proof.
    induction nodes as [|n r IH]; intros L H; [reflexivity|]. cbn [sort_add]. destruct (H n (or_introl eq_refl)) as [Hn [Htag Hw]].
    rewrite Htag. destruct (rpathD_some D n t Hn) as [p Hp]. destruct (a_sub_of_id t Hnd n Hn) as [sn [Hsn [En _]]].
    assert (Hself : In n (ids sn)) by (rewrite <- En; destruct sn; rewrite ids_unfold; left; reflexivity).
    rewrite (index_path_specD D n Hw fc n sn [] p Hsn En Hself Hp (ancestors_bound n)). cbn [rbind]. rewrite app_nil_r.
    rewrite (add_canonD D L n t Hnd Hn Hw p Hp). rewrite (IH (n :: L)) by (intros m Hm; apply H; right; exact Hm).
    cbn [rev]. rewrite <- app_assoc. reflexivity.
  Qed.
  (* if no hidden node below the root holds an offered node, the ambient filter does not change the result *)
  Theorem sort_ambient_spec D nodes :
    (forall n, In n nodes -> In n (ids t) /\ is_tag n = true) ->
    (forall x, In x (flat_map subtrees (ikids t)) -> D (iid x) = false -> forall n, In n nodes -> ~ In n (ids x)) ->
    w_sort first_raw next_raw parent is_tag fc D nodes = Ok (a_doc_sort t nodes).
  Proof.
    intros H Hhid. unfold w_sort.
    assert (E0 : Trie None [] = canonD D [] t).
    { symmetry. apply canonD_miss. unfold hits. destruct (existsb (fun x => memb x []) (ids t)) eqn:E; [|reflexivity].
      apply existsb_exists in E. destruct E as [x [_ Hx]]. discriminate. }
    rewrite E0, (sort_add_specD D nodes []).
    - cbn [rbind]. rewrite emit_canonD.
      + unfold a_doc_sort. f_equal. apply filter_ext. intros i. rewrite app_nil_r. destruct (memb i nodes) eqn:E.
        * apply memb_In. apply -> in_rev. apply memb_In. exact E.
        * apply memb_false. intros Hin. apply in_rev in Hin. apply memb_false in E. contradiction.
      + intros x Hx Hd. unfold hits. destruct (existsb (fun y => memb y (rev nodes ++ [])) (ids x)) eqn:E; [|reflexivity].
        exfalso. apply existsb_exists in E. destruct E as [m [Hm Hmem]]. apply memb_In in Hmem. rewrite app_nil_r in Hmem.
        apply in_rev in Hmem. exact (Hhid x Hx Hd m Hmem Hm).
    - intros n Hn. destruct (H n Hn) as [H1 H2]. split; [exact H1|]. split; [exact H2|].
      intros x Hx Hin. destruct (D (iid x)) eqn:Ed; [reflexivity|]. exfalso. exact (Hhid x Hx Ed n Hn Hin).
  Qed.
End WalkFacts.
