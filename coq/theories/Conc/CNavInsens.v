(* C08 (insensitivity half, navigation-derived observers) - for the code as it stands after e33ed43, 50b8568, 7e4e5e3:
   depth, iterate_ancestors, parent, document membership, the step indexes of location_path and iterate_preceding /
   fetch_preceding return the same whatever ambient filter `default_filters[-1]` the caller has active.
   Each statement is derived from the value theorem of the routine (a function of the abstract tree alone), so it
   keeps its meaning if the model of a routine is changed to consult the ambient filter again. *)
From Coq Require Import List NArith ZArith Bool Lia.
From Delb.Base Require Import PyStr.
From Delb.Tree Require Import ATree ITree ANav ANavFacts ANavOrderFacts.
From Delb.Conc Require Import CTree CNav CHeapFacts CWalkFacts CNavFacts.
Import ListNotations.

Section Insens.
  Variable c : cel.
  Variable inh : str.
  Hypothesis Hok : el_ok c = true.
  Hypothesis Hnd : NoDup (cel_ids c).
  Local Notation t := (abs_el inh c).
  Local Notation h := (heap_top c).

  Ltac side :=
    try (apply Tnd; assumption); try (apply fu_walk; assumption);
    try (intros; apply P_first; assumption); try (intros; apply P_next; assumption);
    try (intros; apply P_prev; assumption); try (intros; apply P_parent; assumption);
    try (intros; apply P_leaf; assumption); try assumption.

  (* .document: the node whose `__document__` is read is the top of the parent chain *)
  Theorem c_document_root_abs D n : In n (ids t) ->
    c_document_root c D n =
    Ok (match a_parent t n with None => if h_is_tag h n then Some n else None | Some _ => Some (a_top t n) end).
  Proof. intros Hn. unfold c_document_root, h_document_root. cbv zeta. eapply document_root_spec; side. Qed.

  (* location_path: the step numbers are positions among the tag siblings, along the parent chain *)
  Theorem c_location_path_abs D n : In n (ids t) -> h_is_tag h n = true ->
    c_location_path c D n = Ok (map (fun x => S (tag_pos t (h_is_tag h) x)) (path_steps t n)).
  Proof. intros Hn Htag. unfold c_location_path, h_location_path. cbv zeta. eapply location_path_spec; side. Qed.

  Theorem nav_insensitive D1 D2 F n : In n (ids t) ->
    c_depth c D1 n = c_depth c D2 n
    /\ c_iterate_ancestors c D1 F n = c_iterate_ancestors c D2 F n
    /\ c_document_root c D1 n = c_document_root c D2 n
    /\ (h_is_tag h n = true -> c_location_path c D1 n = c_location_path c D2 n)
    /\ c_iterate_preceding c D1 F n = c_iterate_preceding c D2 F n
    /\ c_fetch_preceding c D1 F n = c_fetch_preceding c D2 F n.
  Proof.
    intros Hn. split; [rewrite !(c_depth_abs c inh Hok Hnd _ n Hn); reflexivity|].
    split; [rewrite !(c_ancestors_abs c inh Hok Hnd _ F n Hn); reflexivity|].
    split; [rewrite !(c_document_root_abs _ n Hn); reflexivity|].
    split; [intros Htag; rewrite !(c_location_path_abs _ n Hn Htag); reflexivity|].
    split; [rewrite !(c_preceding_abs c inh Hok Hnd _ F n Hn); reflexivity|].
    rewrite !(c_fetch_preceding_abs c inh Hok Hnd _ F n Hn). reflexivity.
  Qed.
End Insens.

(* by design the following DO depend on the ambient filter: <r><a>x</a></r> (r = 0, a = 1, x = 2) under no filter and
   under "text nodes only" *)
Definition text_only : nfilter := fun i => N.eqb i 2.
Lemma len_depends : c_len refute_tree ftrue 0%N = Ok 1%nat /\ c_len refute_tree text_only 0%N = Ok 0%nat.
Proof. vm_compute. split; reflexivity. Qed.
Lemma index_depends :
  c_index refute_tree ftrue 1%N = Ok (Some 0%nat) /\ c_index refute_tree text_only 1%N = Crash InvalidCodePath.
Proof. vm_compute. split; reflexivity. Qed.
Lemma following_depends :
  c_iterate_following refute_tree ftrue ftrue 0%N = Ok [1; 2]%N /\ c_iterate_following refute_tree text_only ftrue 0%N = Ok [].
Proof. vm_compute. split; reflexivity. Qed.
Lemma children_depends :
  c_iterate_children refute_tree ftrue ftrue 1%N = Ok [2%N] /\ c_iterate_children refute_tree (fun _ => false) ftrue 1%N = Ok [].
Proof. vm_compute. split; reflexivity. Qed.
(* and these do not, on the same tree *)
Lemma insensitive_example :
  c_depth refute_tree text_only 2%N = Ok 2%nat /\ c_iterate_ancestors refute_tree text_only ftrue 2%N = Ok [1; 0]%N
  /\ c_document_root refute_tree text_only 2%N = Ok (Some 0%N) /\ c_location_path refute_tree text_only 1%N = Ok [1%nat]
  /\ c_iterate_preceding refute_tree text_only ftrue 2%N = Ok [1; 0]%N.
Proof. vm_compute. repeat split; reflexivity. Qed.
