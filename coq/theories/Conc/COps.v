(* The editing primitives of delb's text layer on the concrete tree, and `cstep`.  Definitions only.

   The public methods are the scripts of Tree/AOps.v (shared with the specification: they only decide *which*
   private primitive is called on *which* node); this file interprets the primitives (`upd`) the way the code
   does, on lxml slots and text chains:

     UAddFollowing      _ElementWrappingNode._add_following_sibling / TextNode._add_following_sibling
                        (_insert_text_node_as_next_appended, _add_next_element_wrapping_node)
     UTextAddPreceding  TextNode._add_preceding_sibling (_prepend_text_node; DATA / TAIL / APPENDED for elements)
     UAddPrevious       lxml addprevious          UAppendEl  lxml append       UBindData  TextNode._bind_to_data
     UDetach            _ElementWrappingNode.detach (tail re-bound to the parent's text, the previous element's
                        tail or the end of the previous chain), TextNode.detach, and for tags the re-creation of
                        the element under a default namespace (TagNode.detach)
     USetContent        TextNode.content setter (`text or None` for DATA / TAIL)
     UMerge             TextNode._merge_appended_text_nodes over all descendants

   A chain is rebuilt from the list of its text objects by `chain_of` (first object becomes the head whose content
   moves into the slot, the others are APPENDED in order) -- on well-formed chains `chain_of (chain_texts ch) = ch`,
   and every branch of the code's case analysis (validated blueprint design_probes/ct_model.py) is such a rebuild of
   a list edited in the obvious way; `branch` names the code branch an update exercises.  The navigation the
   scripts need (parent, visible children, previous visible sibling) is read off `abs_world`; that the concrete
   pointers agree with it is the subject of C05 (Conc/CNav*.v) and is exercised by the C01 correspondence check. *)
From Delb.Base Require Import PyStr.
From Delb.Tree Require Import ATree ITree AOps.
From Delb.Conc Require Import CTree.

Definition chain_of (l : list tobj) : chain :=
  match l with
  | [] => no_chain
  | h :: r => {| ch_head := Some (t_id h); ch_slot := Some (t_s h); ch_app := r |}
  end.

Definition is_tobj (x : nid) (t : tobj) : bool := N.eqb (t_id t) x.
(* l = before ++ x :: after *)
Fixpoint split_texts (x : nid) (l : list tobj) : option (list tobj * tobj * list tobj) :=
  match l with
  | [] => None
  | t :: r => if is_tobj x t then Some ([], t, r)
              else match split_texts x r with Some (b, m, a) => Some (t :: b, m, a) | None => None end
  end.

Inductive kpos := KEl | KTail (b : list tobj) (m : tobj) (a : list tobj).
(* kids = before ++ (c, t) :: after, with x being c itself or a member of its tail chain *)
Fixpoint split_kids (x : nid) (kids : list (cel * chain))
  : option (list (cel * chain) * (cel * chain) * list (cel * chain) * kpos) :=
  match kids with
  | [] => None
  | (c, t) :: r =>
      if N.eqb (cid c) x then Some ([], (c, t), r, KEl)
      else match split_texts x (chain_texts t) with
           | Some (b, m, a) => Some ([], (c, t), r, KTail b m a)
           | None => match split_kids x r with
                     | Some (bk, mk, ak, p) => Some ((c, t) :: bk, mk, ak, p)
                     | None => None
                     end
           end
  end.

(* ---- rewriting at the first node (document order) where a local function applies ---- *)
Section CRewrite.
  Context {A : Type}.
  Variable f : str -> cel -> option (cel * A).          (* inherited default namespace, node *)
  Definition crw_kids (rec : cel -> option (cel * A)) : list (cel * chain) -> option (list (cel * chain) * A) :=
    fix go l :=
      match l with
      | [] => None
      | (c, t) :: r => match rec c with
                       | Some (c', a) => Some ((c', t) :: r, a)
                       | None => match go r with Some (r', a) => Some ((c, t) :: r', a) | None => None end
                       end
      end.
  Fixpoint c_rw (inh : str) (e : cel) {struct e} : option (cel * A) :=
    match f inh e with
    | Some r => Some r
    | None => match e with
              | CEl i k own data kids =>
                  match crw_kids (c_rw (in_scope inh own)) kids with
                  | Some (kids', a) => Some (CEl i k own data kids', a)
                  | None => None
                  end
              end
    end.
  Definition crw_docs : list cdoc -> option (list cdoc * A) :=
    fix go l :=
      match l with
      | [] => None
      | d :: rest =>
          match c_rw [] (d_root d) with
          | Some (r', a) => Some ({| d_pro := d_pro d; d_root := r'; d_epi := d_epi d |} :: rest, a)
          | None => match go rest with Some (rest', a) => Some (d :: rest', a) | None => None end
          end
      end.
  Definition crw_loose : list cloose -> option (list cloose * A) :=
    fix go l :=
      match l with
      | [] => None
      | LEl e :: rest =>
          match c_rw [] e with
          | Some (e', a) => Some (LEl e' :: rest, a)
          | None => match go rest with Some (rest', a) => Some (LEl e :: rest', a) | None => None end
          end
      | LText t :: rest => match go rest with Some (rest', a) => Some (LText t :: rest', a) | None => None end
      end.
  Definition cw_rw (w : cworld) : option (cworld * A) :=
    match crw_docs (w_docs w) with
    | Some (d', a) => Some ({| w_docs := d'; w_loose := w_loose w |}, a)
    | None => match crw_loose (w_loose w) with
              | Some (l', a) => Some ({| w_docs := w_docs w; w_loose := l' |}, a)
              | None => None
              end
    end.
End CRewrite.

(* ---- local functions: what happens at the parent of x ---- *)
Definition loose_id (l : cloose) : nid := match l with LEl e => cid e | LText t => t_id t end.

(* what a move reports for the guards of the refinement theorem: the default namespace in scope where the node
   lands, and whether nothing was overwritten *)
Definition minfo := (str * bool)%type.

(* x._add_following_sibling(n) *)
Definition f_add_following (x : nid) (n : cloose) (inh : str) (e : cel) : option (cel * minfo) :=
  match e with
  | CEl i k own data kids =>
      match split_texts x (chain_texts data) with
      | Some (b, m, a) =>                                   (* x is a text in the data chain (DATA / APPENDED) *)
          match n with
          | LText t => Some (CEl i k own (chain_of (b ++ m :: t :: a)) kids, (in_scope inh own, true))
          | LEl c => Some (CEl i k own (chain_of (b ++ [m])) ((c, chain_of a) :: kids), (in_scope inh own, true))
          end
      | None =>
          match split_kids x kids with
          | Some (bk, (c0, t0), ak, KEl) =>                 (* x is an element-like node *)
              match n with
              | LText t => Some (CEl i k own data (bk ++ (c0, chain_of (t :: chain_texts t0)) :: ak), (in_scope inh own, true))
              | LEl c => Some (CEl i k own data (bk ++ (c0, no_chain) :: (c, chain_of (chain_texts t0)) :: ak), (in_scope inh own, true))
              end
          | Some (bk, (c0, _), ak, KTail b m a) =>          (* x is a text in a tail chain (TAIL / APPENDED) *)
              match n with
              | LText t => Some (CEl i k own data (bk ++ (c0, chain_of (b ++ m :: t :: a)) :: ak), (in_scope inh own, true))
              | LEl c => Some (CEl i k own data (bk ++ (c0, chain_of (b ++ [m])) :: (c, chain_of a) :: ak), (in_scope inh own, true))
              end
          | None => None
          end
      end
  end.

(* TextNode._add_preceding_sibling(n) for the text node x, and lxml addprevious for elements *)
Definition f_add_preceding (x : nid) (n : cloose) (inh : str) (e : cel) : option (cel * minfo) :=
  match e with
  | CEl i k own data kids =>
      match split_texts x (chain_texts data) with
      | Some (b, m, a) =>
          match n with
          | LText t => Some (CEl i k own (chain_of (b ++ t :: m :: a)) kids, (in_scope inh own, true))
          | LEl c => Some (CEl i k own (chain_of b) ((c, chain_of (m :: a)) :: kids), (in_scope inh own, true))
          end
      | None =>
          match split_kids x kids with
          | Some (bk, (c0, t0), ak, KEl) =>                 (* lxml addprevious *)
              match n with
              | LEl c => Some (CEl i k own data (bk ++ (c, no_chain) :: (c0, t0) :: ak), (in_scope inh own, true))
              | LText _ => None
              end
          | Some (bk, (c0, _), ak, KTail b m a) =>
              match n with
              | LText t => Some (CEl i k own data (bk ++ (c0, chain_of (b ++ t :: m :: a)) :: ak), (in_scope inh own, true))
              | LEl c => Some (CEl i k own data (bk ++ (c0, chain_of b) :: (c, chain_of (m :: a)) :: ak), (in_scope inh own, true))
              end
          | None => None
          end
      end
  end.

Definition f_bind_data (p : nid) (n : cloose) (inh : str) (e : cel) : option (cel * minfo) :=
  match e, n with
  | CEl i k own data kids, LText t =>
      (* TagNode.__add_first_child: `_bind_to_data` on an empty slot, `_prepend_text_node` in front of a text the
         ambient filters hide -- either way the new text becomes the head of the data chain *)
      if N.eqb i p && is_ktag k then Some (CEl i k own (chain_of (t :: chain_texts data)) kids, (in_scope inh own, true)) else None
  | _, _ => None
  end.
Definition f_append_el (p : nid) (n : cloose) (inh : str) (e : cel) : option (cel * minfo) :=
  match e, n with
  | CEl i k own data kids, LEl c => if N.eqb i p && is_ktag k then Some (CEl i k own data (kids ++ [(c, no_chain)]), (in_scope inh own, true)) else None
  | _, _ => None
  end.

(* TagNode.detach below a parent with an in-scope default namespace: the element is re-created with the parent's
   namespace map and its children are detached and appended again one by one -- net effect: the declaration becomes
   the element's own, in the whole subtree (the chains come back in the same shape) *)
Fixpoint pin_dns (inh : str) (e : cel) {struct e} : cel :=
  match e with
  | CEl i k own data kids =>
      if is_ktag k
      then let d := in_scope inh own in
           CEl i k (if null d then own else Some d) data
               (map (fun kt => match kt with (c, t) => (pin_dns d c, t) end) kids)
      else e
  end.

(* the chain in front of the i-th kid receives the texts of a removed kid's tail *)
Definition f_detach (x : nid) (inh : str) (e : cel) : option (cel * cloose) :=
  match e with
  | CEl i k own data kids =>
      let dns := in_scope inh own in
      match split_texts x (chain_texts data) with
      | Some (b, m, a) => Some (CEl i k own (chain_of (b ++ a)) kids, LText m)
      | None =>
          match split_kids x kids with
          | Some (bk, (c0, t0), ak, KEl) =>
              let out := LEl (pin_dns dns c0) in
              match rev bk with
              | [] => Some (CEl i k own (chain_of (chain_texts data ++ chain_texts t0)) ak, out)
              | (pc, pt) :: rbk =>
                  Some (CEl i k own data (rev rbk ++ (pc, chain_of (chain_texts pt ++ chain_texts t0)) :: ak), out)
              end
          | Some (bk, (c0, _), ak, KTail b m a) =>
              Some (CEl i k own data (bk ++ (c0, chain_of (b ++ a)) :: ak), LText m)
          | None => None
          end
      end
  end.

(* content setter: DATA / TAIL write `text or None` into the slot, APPENDED objects keep their own content *)
Definition set_chain (ch : chain) (b : list tobj) (m : tobj) (a : list tobj) (s : str) : chain :=
  match b with
  | [] => {| ch_head := ch_head ch; ch_slot := (if null s then None else Some s); ch_app := ch_app ch |}
  | _ :: b' => {| ch_head := ch_head ch; ch_slot := ch_slot ch; ch_app := b' ++ {| t_id := t_id m; t_s := s |} :: a |}
  end.
Definition f_set_content (x : nid) (s : str) (_ : str) (e : cel) : option (cel * unit) :=
  match e with
  | CEl i k own data kids =>
      match split_texts x (chain_texts data) with
      | Some (b, m, a) => Some (CEl i k own (set_chain data b m a s) kids, tt)
      | None =>
          match split_kids x kids with
          | Some (_, _, _, KEl) => Some (e, tt)                    (* not a text node: nothing to assign *)
          | Some (bk, (c0, t0), ak, KTail b m a) => Some (CEl i k own data (bk ++ (c0, set_chain t0 b m a s) :: ak), tt)
          | None => None
          end
      end
  end.

Definition merge_chain (ch : chain) : chain :=
  match ch_slot ch with
  | Some s => {| ch_head := ch_head ch; ch_slot := Some (s ++ flat_map t_s (ch_app ch)); ch_app := [] |}
  | None => ch
  end.
Fixpoint merge_el (e : cel) : cel :=
  match e with
  | CEl i k own data kids =>
      CEl i k own (merge_chain data) (map (fun kt => match kt with (c, t) => (merge_el c, merge_chain t) end) kids)
  end.
Definition f_merge (p : nid) (_ : str) (e : cel) : option (cel * unit) :=
  if N.eqb (cid e) p && is_ktag (ckind_of e) then Some (merge_el e, tt) else None.

(* the in-scope default namespace at a node *)
Definition f_dns_at (x : nid) (inh : str) (e : cel) : option (cel * str) :=
  if N.eqb (cid e) x then Some (e, in_scope inh (cown_dns e)) else None.
Definition c_dns_at (w : cworld) (x : nid) : str :=
  match cw_rw (f_dns_at x) w with Some (_, d) => d | None => [] end.

(* ---- updates on worlds ---- *)
Fixpoint ctake_loose (n : nid) (l : list cloose) : option (cloose * list cloose) :=
  match l with
  | [] => None
  | t :: r => if N.eqb (loose_id t) n then Some (t, r)
              else match ctake_loose n r with Some (u, r') => Some (u, t :: r') | None => None end
  end.
Definition cadd_loose (t : cloose) (w : cworld) : cworld :=
  {| w_docs := w_docs w; w_loose := w_loose w ++ [t] |}.

Definition c_move_o (n : nid) (ok : cloose -> bool) (f : cloose -> str -> cel -> option (cel * minfo)) (w : cworld)
  : option (cworld * minfo) :=
  match ctake_loose n (w_loose w) with
  | Some (t, l') => if ok t then cw_rw (f t) {| w_docs := w_docs w; w_loose := l' |} else None
  | None => None
  end.
Definition c_move (n : nid) (ok : cloose -> bool) (f : cloose -> str -> cel -> option (cel * minfo)) (w : cworld)
  : cworld := match c_move_o n ok f w with Some (w2, _) => w2 | None => w end.
Definition any_loose (_ : cloose) : bool := true.
Definition is_ltext (l : cloose) : bool := match l with LText _ => true | LEl _ => false end.
Fixpoint cset_loose (x : nid) (s : str) (l : list cloose) : list cloose :=
  match l with
  | [] => []
  | t :: r => if N.eqb (loose_id t) x
              then match t with LText o => LText {| t_id := t_id o; t_s := s |} :: r | LEl _ => l end
              else t :: cset_loose x s r
  end.

Definition cis_loose (w : cworld) (x : nid) : bool := existsb (fun l => N.eqb (loose_id l) x) (w_loose w).

Definition apply_c (u : upd) (w : cworld) : cworld :=
  match u with
  | UNewText fresh s => cadd_loose (LText {| t_id := fresh; t_s := s |}) w
  | UNewTag ctx fresh ns name =>
      let d := c_dns_at w ctx in
      cadd_loose (LEl (CEl fresh (KTag ns name []) (if null d then None else Some d) no_chain [])) w
  | UAddFollowing x n => c_move n any_loose (f_add_following x) w
  | UTextAddPreceding x n => c_move n any_loose (f_add_preceding x) w
  | UAddPrevious x n => c_move n any_loose (f_add_preceding x) w
  | UBindData p n => c_move n is_ltext (f_bind_data p) w
  | UAppendEl p n => c_move n (fun l => negb (is_ltext l)) (f_append_el p) w
  | UDetach x => match cw_rw (f_detach x) w with Some (w1, t) => cadd_loose t w1 | None => w end
  | USetContent x s =>
      if cis_loose w x then {| w_docs := w_docs w; w_loose := cset_loose x s (w_loose w) |}
      else match cw_rw (f_set_content x s) w with Some (w1, _) => w1 | None => w end
  | UMerge p => match cw_rw (f_merge p) w with Some (w1, _) => w1 | None => w end
  end.

Fixpoint run_c (p : prog) (w : cworld) : cworld * result :=
  match p with
  | Ret r => (w, r)
  | Upd u k => run_c k (apply_c u w)
  | Ask k => run_c (k (abs_world w)) w
  end.

Definition cstep (F : filt) (w : cworld) (o : op) : cworld * result := run_c (script F o) w.

(* ---- which branch of the code an update exercises (evidence only) ---- *)
Inductive where_is := WLoose | WData | WDataApp | WTail | WTailApp | WEl | WNowhere.
Definition f_where (x : nid) (_ : str) (e : cel) : option (cel * where_is) :=
  match e with
  | CEl _ _ _ data kids =>
      match split_texts x (chain_texts data) with
      | Some ([], _, _) => Some (e, WData)
      | Some (_, _, _) => Some (e, WDataApp)
      | None => match split_kids x kids with
                | Some (_, _, _, KEl) => Some (e, WEl)
                | Some (_, _, _, KTail [] _ _) => Some (e, WTail)
                | Some (_, _, _, KTail _ _ _) => Some (e, WTailApp)
                | None => None
                end
      end
  end.
Definition c_where (w : cworld) (x : nid) : where_is :=
  if cis_loose w x then WLoose
  else match cw_rw (f_where x) w with Some (_, p) => p | None => WNowhere end.
Definition where_code (p : where_is) : N :=
  match p with WLoose => 0 | WData => 1 | WDataApp => 2 | WTail => 3 | WTailApp => 4 | WEl => 5 | WNowhere => 6 end%N.
Definition loose_is_text (w : cworld) (n : nid) : N :=
  match ctake_loose n (w_loose w) with Some (LText _, _) => 1 | Some (LEl _, _) => 0 | None => 2 end%N.
(* (update kind, position of the target, kind of the offered node) *)
Definition branch (u : upd) (w : cworld) : list N :=
  match u with
  | UNewText _ _ => [0]
  | UNewTag _ _ _ _ => [1]
  | UAddFollowing x n => [2; where_code (c_where w x); loose_is_text w n]
  | UTextAddPreceding x n => [3; where_code (c_where w x); loose_is_text w n]
  | UAddPrevious x n => [4; where_code (c_where w x); loose_is_text w n]
  | UBindData _ n => [5; 0; loose_is_text w n]
  | UAppendEl _ n => [6; 0; loose_is_text w n]
  | UDetach x => [7; where_code (c_where w x)]
  | USetContent x _ => [8; where_code (c_where w x)]
  | UMerge _ => [9]
  end%N.
Fixpoint trace_c (p : prog) (w : cworld) : list (list N) :=
  match p with
  | Ret _ => []
  | Upd u k => branch u w :: trace_c k (apply_c u w)
  | Ask k => trace_c (k (abs_world w)) w
  end.
