(* Refinement: the editing primitives on the concrete tree (lxml slots + text chains) are the plain list edits on
   its abstraction.  Lemmas for Props/C01.v, C09.v, C10.v. *)
From Coq Require Import Lia.
From Delb.Base Require Import PyStr.
From Delb.Tree Require Import ATree ITree AOps.
From Delb.Conc Require Import CTree COps CGuard.

(* ------------------------------------------------------------------ basics *)
Definition akid (dns : str) (kt : cel * chain) : list itree :=
  match kt with (c, t) => abs_el dns c :: map atext (chain_texts t) end.
Definition akids (dns : str) (data : chain) (kids : list (cel * chain)) : list itree :=
  map atext (chain_texts data) ++ flat_map (akid dns) kids.

Lemma abs_el_eq inh i k own data kids :
  abs_el inh (CEl i k own data kids)
  = INode i (abs_payload (in_scope inh own) k) (akids (in_scope inh own) data kids).
Proof. reflexivity. Qed.
Lemma iid_abs inh e : iid (abs_el inh e) = cid e. Proof. destruct e; reflexivity. Qed.
Lemma has_id_abs x inh e : has_id x (abs_el inh e) = N.eqb (cid e) x.
Proof. unfold has_id. rewrite iid_abs. reflexivity. Qed.
Lemma has_id_atext x t : has_id x (atext t) = is_tobj x t. Proof. reflexivity. Qed.
Lemma is_itext_atext t : is_itext (atext t) = true. Proof. reflexivity. Qed.
Lemma is_itext_abs inh e : is_itext (abs_el inh e) = false. Proof. destruct e as [i [] ? ? ?]; reflexivity. Qed.
Lemma flat_akid_app dns l1 l2 : flat_map (akid dns) (l1 ++ l2) = flat_map (akid dns) l1 ++ flat_map (akid dns) l2.
Proof. apply flat_map_app. Qed.

Lemma andb3 a b c : (a && b && c)%bool = true -> a = true /\ b = true /\ c = true.
Proof. destruct a, b, c; cbn; auto. Qed.

(* chains *)
Lemma chain_texts_of l : chain_texts (chain_of l) = l.
Proof. destruct l as [|[i s] r]; reflexivity. Qed.
Lemma chain_of_texts ch : chain_ok ch = true -> chain_of (chain_texts ch) = ch.
Proof.
  destruct ch as [h s a]. unfold chain_ok, chain_texts. cbn.
  destruct s, h; try discriminate; [reflexivity|]. destruct a; [reflexivity|discriminate].
Qed.
Lemma chain_ok_of l : chain_ok (chain_of l) = forallb nonempty_text l.
Proof. destruct l as [|[i s] r]; reflexivity. Qed.
Lemma chain_ok_texts ch : chain_ok ch = true -> forallb nonempty_text (chain_texts ch) = true.
Proof.
  destruct ch as [h s a]. unfold chain_ok, chain_texts. cbn.
  destruct s, h; try discriminate; auto.
Qed.
Lemma no_chain_texts : chain_texts no_chain = []. Proof. reflexivity. Qed.

Lemma split_texts_spec x l :
  match split_texts x l with
  | Some (b, m, a) => l = b ++ m :: a /\ is_tobj x m = true /\ existsb (is_tobj x) b = false
  | None => existsb (is_tobj x) l = false
  end.
Proof.
  induction l as [|t r IH]; cbn; [reflexivity|].
  destruct (is_tobj x t) eqn:E.
  - cbn. auto.
  - destruct (split_texts x r) as [[[b m] a]|]; cbn.
    + destruct IH as (-> & Hm & Hb). rewrite E. auto.
    + exact IH.
Qed.
Lemma existsb_texts x l : existsb (has_id x) (map atext l) = existsb (is_tobj x) l.
Proof. induction l; cbn; [reflexivity|]. rewrite IHl. reflexivity. Qed.

(* list surgery skips a prefix that does not contain x *)
Lemma ins_after_skip x n l1 l2 : existsb (has_id x) l1 = false -> ins_after x n (l1 ++ l2) = l1 ++ ins_after x n l2.
Proof.
  induction l1 as [|t r IH]; cbn; [reflexivity|]. intros H. apply orb_false_iff in H as [H1 H2].
  rewrite H1, IH by exact H2. reflexivity.
Qed.
Lemma ins_before_skip x n l1 l2 : existsb (has_id x) l1 = false -> ins_before x n (l1 ++ l2) = l1 ++ ins_before x n l2.
Proof.
  induction l1 as [|t r IH]; cbn; [reflexivity|]. intros H. apply orb_false_iff in H as [H1 H2].
  rewrite H1, IH by exact H2. reflexivity.
Qed.
Lemma take_id_skip x l1 l2 : existsb (has_id x) l1 = false ->
  take_id x (l1 ++ l2) = match take_id x l2 with Some (u, r) => Some (u, l1 ++ r) | None => None end.
Proof.
  induction l1 as [|t r IH]; cbn; intros H.
  - destruct (take_id x l2) as [[u r]|]; reflexivity.
  - apply orb_false_iff in H as [H1 H2]. rewrite H1, IH by exact H2.
    destruct (take_id x l2) as [[u r']|]; reflexivity.
Qed.
Lemma set_first_skip x s l1 l2 : existsb (has_id x) l1 = false ->
  set_text_first x s (l1 ++ l2) = l1 ++ set_text_first x s l2.
Proof.
  induction l1 as [|t r IH]; cbn; [reflexivity|]. intros H. apply orb_false_iff in H as [H1 H2].
  rewrite H1, IH by exact H2. reflexivity.
Qed.
Lemma find_skip x (l1 l2 : list itree) : existsb (has_id x) l1 = false -> find (has_id x) (l1 ++ l2) = find (has_id x) l2.
Proof.
  induction l1 as [|t r IH]; cbn; [reflexivity|]. intros H. apply orb_false_iff in H as [H1 H2].
  rewrite H1. apply IH, H2.
Qed.
Lemma take_id_none x l : existsb (has_id x) l = false -> take_id x l = None.
Proof.
  induction l as [|t r IH]; cbn; [reflexivity|]. intros H. apply orb_false_iff in H as [H1 H2].
  rewrite H1, IH by exact H2. reflexivity.
Qed.
Lemma find_none x (l : list itree) : existsb (has_id x) l = false -> find (has_id x) l = None.
Proof.
  induction l as [|t r IH]; cbn; [reflexivity|]. intros H. apply orb_false_iff in H as [H1 H2].
  rewrite H1. apply IH, H2.
Qed.

(* ------------------------------------------------------------------ kids *)
Lemma split_kids_spec dns x kids :
  match split_kids x kids with
  | Some (bk, (c0, t0), ak, pos) =>
      kids = bk ++ (c0, t0) :: ak /\ existsb (has_id x) (flat_map (akid dns) bk) = false /\
      match pos with
      | KEl => N.eqb (cid c0) x = true
      | KTail b m a => N.eqb (cid c0) x = false /\ chain_texts t0 = b ++ m :: a /\ is_tobj x m = true /\
                       existsb (is_tobj x) b = false
      end
  | None => existsb (has_id x) (flat_map (akid dns) kids) = false
  end.
Proof.
  induction kids as [|[c t] r IH]; cbn [split_kids]; [reflexivity|].
  destruct (N.eqb (cid c) x) eqn:E.
  - cbn. auto.
  - pose proof (split_texts_spec x (chain_texts t)) as Ht.
    destruct (split_texts x (chain_texts t)) as [[[b m] a]|].
    + destruct Ht as (Ht & Hm & Hb). repeat split; auto.
    + destruct (split_kids x r) as [[[[bk [c0 t0]] ak] pos]|].
      * destruct IH as (-> & Hbk & Hpos). split; [reflexivity|]. split; [|exact Hpos].
        cbn [flat_map akid]. cbn [existsb]. rewrite has_id_abs, E. cbn [orb].
        rewrite existsb_app, existsb_texts, Ht, Hbk. reflexivity.
      * cbn [flat_map akid existsb]. rewrite has_id_abs, E. cbn [orb].
        rewrite existsb_app, existsb_texts, Ht, IH. reflexivity.
Qed.

(* ------------------------------------------------------------------ well-formed shapes *)
Definition kid_ok (kt : cel * chain) : bool := match kt with (c, t) => el_ok c && chain_ok t end.
Definition kind_shape (k : ckind) (own : option str) (data : chain) (kids : list (cel * chain)) : bool :=
  if is_ktag k then true
  else chain_is_empty data && null kids && match own with None => true | Some _ => false end.
Lemma el_ok_eq i k own data kids :
  el_ok (CEl i k own data kids) = (chain_ok data && kind_shape k own data kids && forallb kid_ok kids)%bool.
Proof. reflexivity. Qed.
Lemma kids_ok_app l1 l2 : forallb kid_ok (l1 ++ l2) = (forallb kid_ok l1 && forallb kid_ok l2)%bool.
Proof. apply forallb_app. Qed.
