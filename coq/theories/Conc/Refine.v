(* Refinement: the editing primitives on the concrete tree (lxml slots + text chains) are the plain list edits on
   its abstraction.  Lemmas for Props/C01.v, C09.v, C10.v. *)
From Coq Require Import Lia.
From Delb.Base Require Import PyStr.
From Delb.Tree Require Import ATree ITree AOps.
From Delb.Conc Require Import CTree COps CGuard.

(* ------------------------------------------------------------------ basics *)
Definition akid (dns : str) (kt : cel * chain) : list itree :=
  match kt with (c, t) => abs_el dns c :: map atext (chain_texts t) end.
Definition akids (dns : str) (data : chain) (kids : list (cel * chain)) : list itree :=
  map atext (chain_texts data) ++ flat_map (akid dns) kids.

Lemma abs_el_eq inh i k own data kids :
  abs_el inh (CEl i k own data kids)
  = INode i (abs_payload (in_scope inh own) k) (akids (in_scope inh own) data kids).
Proof. reflexivity. Qed.
Lemma iid_abs inh e : iid (abs_el inh e) = cid e. Proof. destruct e; reflexivity. Qed.
Lemma has_id_abs x inh e : has_id x (abs_el inh e) = N.eqb (cid e) x.
Proof. unfold has_id. rewrite iid_abs. reflexivity. Qed.
Lemma has_id_atext x t : has_id x (atext t) = is_tobj x t. Proof. reflexivity. Qed.
Lemma is_itext_atext t : is_itext (atext t) = true. Proof. reflexivity. Qed.
Lemma is_itext_abs inh e : is_itext (abs_el inh e) = false. Proof. destruct e as [i [] ? ? ?]; reflexivity. Qed.
Lemma flat_akid_app dns l1 l2 : flat_map (akid dns) (l1 ++ l2) = flat_map (akid dns) l1 ++ flat_map (akid dns) l2.
Proof. apply flat_map_app. Qed.

Lemma andb3 a b c : (a && b && c)%bool = true -> a = true /\ b = true /\ c = true.
Proof. destruct a, b, c; cbn; auto. Qed.

(* chains *)
Lemma chain_texts_of l : chain_texts (chain_of l) = l.
Proof. destruct l as [|[i s] r]; reflexivity. Qed.
Lemma chain_of_texts ch : chain_ok ch = true -> chain_of (chain_texts ch) = ch.
Proof.
  destruct ch as [h s a]. unfold chain_ok, chain_texts. cbn.
  destruct s, h; try discriminate; [reflexivity|]. destruct a; [reflexivity|discriminate].
Qed.
Lemma chain_ok_of l : chain_ok (chain_of l) = forallb nonempty_text l.
Proof. destruct l as [|[i s] r]; reflexivity. Qed.
Lemma chain_ok_texts ch : chain_ok ch = true -> forallb nonempty_text (chain_texts ch) = true.
Proof.
  destruct ch as [h s a]. unfold chain_ok, chain_texts. cbn.
  destruct s, h; try discriminate; auto.
Qed.
Lemma no_chain_texts : chain_texts no_chain = []. Proof. reflexivity. Qed.

Lemma split_texts_spec x l :
  match split_texts x l with
  | Some (b, m, a) => l = b ++ m :: a /\ is_tobj x m = true /\ existsb (is_tobj x) b = false
  | None => existsb (is_tobj x) l = false
  end.
Proof.
  induction l as [|t r IH]; cbn; [reflexivity|].
  destruct (is_tobj x t) eqn:E.
  - cbn. auto.
  - destruct (split_texts x r) as [[[b m] a]|]; cbn.
    + destruct IH as (-> & Hm & Hb). rewrite E. auto.
    + exact IH.
Qed.
Lemma existsb_texts x l : existsb (has_id x) (map atext l) = existsb (is_tobj x) l.
Proof. induction l; cbn; [reflexivity|]. rewrite IHl. reflexivity. Qed.

(* list surgery skips a prefix that does not contain x *)
Lemma ins_after_skip x n l1 l2 : existsb (has_id x) l1 = false -> ins_after x n (l1 ++ l2) = l1 ++ ins_after x n l2.
Proof.
  induction l1 as [|t r IH]; cbn; [reflexivity|]. intros H. apply orb_false_iff in H as [H1 H2].
  rewrite H1, IH by exact H2. reflexivity.
Qed.
Lemma ins_before_skip x n l1 l2 : existsb (has_id x) l1 = false -> ins_before x n (l1 ++ l2) = l1 ++ ins_before x n l2.
Proof.
  induction l1 as [|t r IH]; cbn; [reflexivity|]. intros H. apply orb_false_iff in H as [H1 H2].
  rewrite H1, IH by exact H2. reflexivity.
Qed.
Lemma take_id_skip x l1 l2 : existsb (has_id x) l1 = false ->
  take_id x (l1 ++ l2) = match take_id x l2 with Some (u, r) => Some (u, l1 ++ r) | None => None end.
Proof.
  induction l1 as [|t r IH]; cbn; intros H.
  - destruct (take_id x l2) as [[u r]|]; reflexivity.
  - apply orb_false_iff in H as [H1 H2]. rewrite H1, IH by exact H2.
    destruct (take_id x l2) as [[u r']|]; reflexivity.
Qed.
Lemma set_first_skip x s l1 l2 : existsb (has_id x) l1 = false ->
  set_text_first x s (l1 ++ l2) = l1 ++ set_text_first x s l2.
Proof.
  induction l1 as [|t r IH]; cbn; [reflexivity|]. intros H. apply orb_false_iff in H as [H1 H2].
  rewrite H1, IH by exact H2. reflexivity.
Qed.
Lemma find_skip x (l1 l2 : list itree) : existsb (has_id x) l1 = false -> find (has_id x) (l1 ++ l2) = find (has_id x) l2.
Proof.
  induction l1 as [|t r IH]; cbn; [reflexivity|]. intros H. apply orb_false_iff in H as [H1 H2].
  rewrite H1. apply IH, H2.
Qed.
Lemma take_id_none x l : existsb (has_id x) l = false -> take_id x l = None.
Proof.
  induction l as [|t r IH]; cbn; [reflexivity|]. intros H. apply orb_false_iff in H as [H1 H2].
  rewrite H1, IH by exact H2. reflexivity.
Qed.
Lemma find_none x (l : list itree) : existsb (has_id x) l = false -> find (has_id x) l = None.
Proof.
  induction l as [|t r IH]; cbn; [reflexivity|]. intros H. apply orb_false_iff in H as [H1 H2].
  rewrite H1. apply IH, H2.
Qed.

(* ------------------------------------------------------------------ kids *)
Lemma existsb_akid_cons x dns c t r :
  existsb (has_id x) (flat_map (akid dns) ((c, t) :: r))
  = (N.eqb (cid c) x || existsb (is_tobj x) (chain_texts t) || existsb (has_id x) (flat_map (akid dns) r))%bool.
Proof.
  cbn [flat_map akid]. rewrite <- app_comm_cons. cbn [existsb]. rewrite has_id_abs, existsb_app, existsb_texts.
  rewrite orb_assoc. reflexivity.
Qed.
Lemma split_kids_spec dns x kids :
  match split_kids x kids with
  | Some (bk, (c0, t0), ak, pos) =>
      kids = bk ++ (c0, t0) :: ak /\ existsb (has_id x) (flat_map (akid dns) bk) = false /\
      match pos with
      | KEl => N.eqb (cid c0) x = true
      | KTail b m a => N.eqb (cid c0) x = false /\ chain_texts t0 = b ++ m :: a /\ is_tobj x m = true /\
                       existsb (is_tobj x) b = false
      end
  | None => existsb (has_id x) (flat_map (akid dns) kids) = false
  end.
Proof.
  induction kids as [|[c t] r IH]; cbn [split_kids]; [reflexivity|].
  destruct (N.eqb (cid c) x) eqn:E.
  - cbn. auto.
  - pose proof (split_texts_spec x (chain_texts t)) as Ht.
    destruct (split_texts x (chain_texts t)) as [[[b m] a]|].
    + destruct Ht as (Ht & Hm & Hb). repeat split; auto.
    + destruct (split_kids x r) as [[[[bk [c0 t0]] ak] pos]|].
      * destruct IH as (-> & Hbk & Hpos). split; [reflexivity|]. split; [|exact Hpos].
        rewrite existsb_akid_cons, E, Ht, Hbk. reflexivity.
      * rewrite existsb_akid_cons, E, Ht, IH. reflexivity.
Qed.

(* ------------------------------------------------------------------ well-formed shapes *)
Definition kid_ok (kt : cel * chain) : bool := match kt with (c, t) => el_ok c && chain_ok t end.
Definition kind_shape (k : ckind) (own : option str) (data : chain) (kids : list (cel * chain)) : bool :=
  if is_ktag k then true
  else chain_is_empty data && null kids && match own with None => true | Some _ => false end.
Lemma el_ok_eq i k own data kids :
  el_ok (CEl i k own data kids) = (chain_ok data && kind_shape k own data kids && forallb kid_ok kids)%bool.
Proof. reflexivity. Qed.
Lemma kids_ok_app l1 l2 : forallb kid_ok (l1 ++ l2) = (forallb kid_ok l1 && forallb kid_ok l2)%bool.
Proof. apply forallb_app. Qed.

(* ------------------------------------------------------------------ rewriting commutes with abstraction *)
Lemma t_rw_eq {B} (g : itree -> option (itree * B)) t :
  t_rw g t = match g t with
             | Some r => Some r
             | None => match t with
                       | INode i p kids =>
                           match rw_list (t_rw g) kids with
                           | Some (kids', a) => Some (INode i p kids', a)
                           | None => None
                           end
                       end
             end.
Proof. destruct t; reflexivity. Qed.
Lemma c_rw_eq {A} (f : str -> cel -> option (cel * A)) inh e :
  c_rw f inh e = match f inh e with
                 | Some r => Some r
                 | None => match e with
                           | CEl i k own data kids =>
                               match crw_kids (c_rw f (in_scope inh own)) kids with
                               | Some (kids', a) => Some (CEl i k own data kids', a)
                               | None => None
                               end
                           end
                 end.
Proof. destruct e; reflexivity. Qed.

Section RwSim.
  Context {A B : Type}.
  Variable f : str -> cel -> option (cel * A).
  Variable g : itree -> option (itree * B).
  Variable G : A -> Prop.
  Variable h : A -> B.
  Variable Q : A -> Prop.              (* what holds of the output *)
  Hypothesis g_text : forall t, g (atext t) = None.
  Hypothesis local : forall inh e, el_ok e = true ->
    match f inh e with
    | Some (e', a) => G a -> Q a /\ g (abs_el inh e) = Some (abs_el inh e', h a) /\ el_ok e' = true /\
                             is_ktag (ckind_of e') = is_ktag (ckind_of e)
    | None => g (abs_el inh e) = None
    end.

  Lemma t_rw_text t : t_rw g (atext t) = None.
  Proof. rewrite t_rw_eq, g_text. reflexivity. Qed.
  Lemma rw_list_texts ts r :
    rw_list (t_rw g) (map atext ts ++ r)
    = match rw_list (t_rw g) r with Some (r', a) => Some (map atext ts ++ r', a) | None => None end.
  Proof.
    induction ts as [|t ts IH]; cbn [map app].
    - destruct (rw_list (t_rw g) r) as [[r' a]|]; reflexivity.
    - cbn [rw_list]. rewrite t_rw_text. fold (rw_list (t_rw g)). rewrite IH.
      destruct (rw_list (t_rw g) r) as [[r' a]|]; reflexivity.
  Qed.

  Definition sim_at (e : cel) : Prop := forall inh, el_ok e = true ->
    match c_rw f inh e with
    | Some (e', a) => G a -> Q a /\ t_rw g (abs_el inh e) = Some (abs_el inh e', h a) /\ el_ok e' = true /\
                             is_ktag (ckind_of e') = is_ktag (ckind_of e)
    | None => t_rw g (abs_el inh e) = None
    end.

  Lemma kids_sim dns kids : Forall (fun kt => sim_at (fst kt)) kids -> forallb kid_ok kids = true ->
    match crw_kids (c_rw f dns) kids with
    | Some (kids', a) => G a -> Q a /\ rw_list (t_rw g) (flat_map (akid dns) kids) = Some (flat_map (akid dns) kids', h a) /\
                                forallb kid_ok kids' = true
    | None => rw_list (t_rw g) (flat_map (akid dns) kids) = None
    end.
  Proof.
    induction kids as [|[c t] r IH]; intros HF Hok; [reflexivity|].
    inversion HF as [|? ? Hc Hr]; subst. cbn [fst] in Hc.
    cbn [forallb kid_ok] in Hok. apply andb_true_iff in Hok as [Hct Hrok]. apply andb_true_iff in Hct as [Hcok Htok].
    specialize (IH Hr Hrok). specialize (Hc dns Hcok).
    cbn [crw_kids flat_map akid]. rewrite <- app_comm_cons. cbn [rw_list]. fold (rw_list (t_rw g)).
    fold (crw_kids (c_rw f dns)).
    destruct (c_rw f dns c) as [[c' a]|].
    - intros Ga. destruct (Hc Ga) as (Hq & Hc1 & Hc2 & _). rewrite Hc1. split; [exact Hq|]. split; [reflexivity|].
      cbn [forallb kid_ok]. rewrite Hc2, Htok, Hrok. reflexivity.
    - rewrite Hc. rewrite rw_list_texts.
      destruct (crw_kids (c_rw f dns) r) as [[r' a]|].
      + intros Ga. destruct (IH Ga) as (Hq & IH1 & IH2). rewrite IH1. split; [exact Hq|]. split; [reflexivity|].
        cbn [forallb kid_ok]. rewrite Hcok, Htok, IH2. reflexivity.
      + rewrite IH. reflexivity.
  Qed.

  Lemma c_rw_sim e : sim_at e.
  Proof.
    induction e as [i k own data kids IH] using cel_ind'. intros inh Hok.
    rewrite c_rw_eq, t_rw_eq. pose proof (local inh _ Hok) as L.
    destruct (f inh (CEl i k own data kids)) as [[e' a]|].
    - intros Ga. destruct (L Ga) as (Hq & L1 & L2 & L3). rewrite L1. auto.
    - rewrite L. rewrite abs_el_eq. unfold akids. rewrite rw_list_texts.
      rewrite el_ok_eq in Hok. apply andb3 in Hok as (Hd & Hks & Hkids).
      pose proof (kids_sim (in_scope inh own) kids IH Hkids) as K.
      destruct (crw_kids (c_rw f (in_scope inh own)) kids) as [[kids' a]|].
      + intros Ga. destruct (K Ga) as (Hq & K1 & K2). rewrite K1. split; [exact Hq|]. split; [reflexivity|]. split; [|reflexivity].
        rewrite el_ok_eq, Hd, K2. unfold kind_shape in *. destruct (is_ktag k); [reflexivity|].
        apply andb_true_iff in Hks as [Hks _]. apply andb_true_iff in Hks as [_ Hn]. destruct kids; [|discriminate].
        cbn in K. discriminate.
      + rewrite K. reflexivity.
  Qed.

  (* worlds *)
  Lemma docs_sim ds : forallb doc_ok ds = true ->
    match crw_docs f ds with
    | Some (ds', a) => G a -> Q a /\ rw_docs g (map abs_doc ds) = Some (map abs_doc ds', h a) /\ forallb doc_ok ds' = true
    | None => rw_docs g (map abs_doc ds) = None
    end.
  Proof.
    induction ds as [|d r IH]; intros Hok; [reflexivity|].
    cbn [forallb] in Hok. apply andb_true_iff in Hok as [Hd Hr]. specialize (IH Hr).
    cbn [crw_docs map rw_docs]. fold (crw_docs f). fold (rw_docs g).
    change (abs_doc d) with (map abs_top (d_pro d), abs_top (d_root d), map abs_top (d_epi d)). cbn beta iota.
    pose proof Hd as Hd'. unfold doc_ok in Hd'. apply andb_true_iff in Hd' as [Hd1 Hepi].
    apply andb_true_iff in Hd1 as [Hd1 Htag]. apply andb_true_iff in Hd1 as [Hpro Hroot].
    pose proof (c_rw_sim (d_root d) [] Hroot) as S. unfold abs_top.
    destruct (c_rw f [] (d_root d)) as [[r' a]|].
    - intros Ga. destruct (S Ga) as (Hq & S1 & S2 & S3). rewrite S1. split; [exact Hq|]. split; [reflexivity|].
      cbn [forallb]. rewrite Hr. unfold doc_ok. cbn [d_pro d_root d_epi]. rewrite Hpro, S2, S3, Htag, Hepi. reflexivity.
    - rewrite S. destruct (crw_docs f r) as [[r' a]|].
      + intros Ga. destruct (IH Ga) as (Hq & IH1 & IH2). rewrite IH1. split; [exact Hq|]. split; [reflexivity|].
        cbn [forallb]. rewrite Hd, IH2. reflexivity.
      + rewrite IH. reflexivity.
  Qed.

  Lemma loose_sim ls : forallb loose_ok ls = true ->
    match crw_loose f ls with
    | Some (ls', a) => G a -> Q a /\ rw_list (t_rw g) (map abs_loose ls) = Some (map abs_loose ls', h a) /\
                              forallb loose_ok ls' = true
    | None => rw_list (t_rw g) (map abs_loose ls) = None
    end.
  Proof.
    induction ls as [|l r IH]; intros Hok; [reflexivity|].
    cbn [forallb] in Hok. apply andb_true_iff in Hok as [Hl Hr]. specialize (IH Hr).
    cbn [map rw_list]. fold (rw_list (t_rw g)). destruct l as [e|t].
    - cbn [crw_loose abs_loose]. fold (crw_loose f). cbn [loose_ok] in Hl.
      pose proof (c_rw_sim e [] Hl) as S. unfold abs_top.
      destruct (c_rw f [] e) as [[e' a]|].
      + intros Ga. destruct (S Ga) as (Hq & S1 & S2 & _). rewrite S1. split; [exact Hq|]. split; [reflexivity|].
        cbn [forallb loose_ok]. rewrite S2, Hr. reflexivity.
      + rewrite S. destruct (crw_loose f r) as [[r' a]|].
        * intros Ga. destruct (IH Ga) as (Hq & IH1 & IH2). rewrite IH1. split; [exact Hq|]. split; [reflexivity|].
          cbn [forallb loose_ok]. rewrite Hl, IH2. reflexivity.
        * rewrite IH. reflexivity.
    - cbn [crw_loose abs_loose]. fold (crw_loose f). rewrite t_rw_text.
      destruct (crw_loose f r) as [[r' a]|].
      + intros Ga. destruct (IH Ga) as (Hq & IH1 & IH2). rewrite IH1. split; [exact Hq|]. split; [reflexivity|].
        cbn [forallb]. rewrite Hl, IH2. reflexivity.
      + rewrite IH. reflexivity.
  Qed.

  Lemma cw_rw_sim w : shape_ok w = true ->
    match cw_rw f w with
    | Some (w', a) => G a -> Q a /\ w_rw g (abs_world w) = Some (abs_world w', h a) /\ shape_ok w' = true
    | None => w_rw g (abs_world w) = None
    end.
  Proof.
    intros Hok. unfold shape_ok in Hok. apply andb_true_iff in Hok as [Hd Hl].
    unfold cw_rw, w_rw. cbn [abs_world docs loose].
    pose proof (docs_sim (w_docs w) Hd) as D.
    destruct (crw_docs f (w_docs w)) as [[ds' a]|].
    - intros Ga. destruct (D Ga) as (Hq & D1 & D2). rewrite D1. split; [exact Hq|]. split; [reflexivity|].
      unfold shape_ok. cbn [w_docs w_loose]. rewrite D2, Hl. reflexivity.
    - rewrite D. pose proof (loose_sim (w_loose w) Hl) as L.
      destruct (crw_loose f (w_loose w)) as [[ls' a]|].
      + intros Ga. destruct (L Ga) as (Hq & L1 & L2). rewrite L1. split; [exact Hq|]. split; [reflexivity|].
        unfold shape_ok. cbn [w_docs w_loose]. rewrite Hd, L2. reflexivity.
      + rewrite L. reflexivity.
  Qed.
End RwSim.

(* ------------------------------------------------------------------ namespace insensitivity *)
Lemma insens_abs e : insens e = true -> forall d1 d2, abs_el d1 e = abs_el d2 e.
Proof.
  induction e as [i k own data kids IH] using cel_ind'. intros H d1 d2. rewrite !abs_el_eq.
  cbn [insens] in H. destruct own as [d|]; [reflexivity|]. cbn [in_scope].
  apply andb_true_iff in H as [Ha Hk]. f_equal.
  - destruct k as [ns name attrs| |]; try reflexivity. cbn [abs_payload]. f_equal.
    induction attrs as [|[[n kk] v] r IHr]; [reflexivity|]. cbn [forallb fst] in Ha.
    apply andb_true_iff in Ha as [Hn Hr]. cbn [map present_attr]. rewrite IHr by exact Hr.
    destruct (null n); [discriminate|reflexivity].
  - unfold akids. f_equal. clear Ha.
    induction kids as [|[c t] r IHr]; [reflexivity|]. inversion IH as [|? ? Hc Hrest]; subst. cbn [fst] in Hc.
    cbn [forallb] in Hk. apply andb_true_iff in Hk as [Hkc Hkr]. cbn [flat_map akid].
    rewrite (Hc Hkc d1 d2), (IHr Hrest Hkr). reflexivity.
Qed.

Definition aloose (dns : str) (n : cloose) : itree := match n with LEl c => abs_el dns c | LText t => atext t end.
Definition n_insens (n : cloose) : bool := match n with LEl c => insens c | LText _ => true end.
Definition move_guard (n : cloose) (a : minfo) : Prop :=
  snd a = true /\ (null (fst a) = true \/ n_insens n = true).
Lemma aloose_guard n dns : null dns = true \/ n_insens n = true -> aloose dns n = abs_loose n.
Proof.
  intros [H|H]; destruct n as [c|t]; try reflexivity; cbn [aloose abs_loose]; unfold abs_top.
  - destruct dns; [reflexivity|discriminate].
  - apply insens_abs, H.
Qed.
Lemma iid_abs_loose n : iid (abs_loose n) = loose_id n.
Proof. destruct n; [apply iid_abs|reflexivity]. Qed.
Lemma has_id_abs_loose x n : has_id x (abs_loose n) = N.eqb (loose_id n) x.
Proof. unfold has_id. rewrite iid_abs_loose. reflexivity. Qed.
Lemma ctake_sim n l :
  match ctake_loose n l with
  | Some (t, l') => take_id n (map abs_loose l) = Some (abs_loose t, map abs_loose l') /\
                    (forallb loose_ok l = true -> loose_ok t = true /\ forallb loose_ok l' = true)
  | None => take_id n (map abs_loose l) = None
  end.
Proof.
  induction l as [|t r IH]; [reflexivity|]. cbn [ctake_loose map take_id]. rewrite has_id_abs_loose. destruct (N.eqb (loose_id t) n).
  - split; [reflexivity|]. cbn [forallb]. intros H. apply andb_true_iff in H. exact H.
  - destruct (ctake_loose n r) as [[u r']|].
    + destruct IH as [IH1 IH2]. rewrite IH1. split; [reflexivity|]. cbn [forallb]. intros H.
      apply andb_true_iff in H as [H1 H2]. destruct (IH2 H2) as [H3 H4]. rewrite H1, H4. auto.
    + rewrite IH. reflexivity.
Qed.

(* ------------------------------------------------------------------ hitting the node x in a kid list *)
Lemma existsb_at x pre (t : itree) post : has_id x t = true -> existsb (has_id x) (pre ++ t :: post) = true.
Proof. intros H. rewrite existsb_app. cbn [existsb]. rewrite H. apply orb_true_iff. right. reflexivity. Qed.
Lemma ins_after_at x n pre t post : existsb (has_id x) pre = false -> has_id x t = true ->
  ins_after x n (pre ++ t :: post) = pre ++ t :: n :: post.
Proof. intros H1 H2. rewrite ins_after_skip by exact H1. cbn [ins_after]. rewrite H2. reflexivity. Qed.
Lemma ins_before_at x n pre t post : existsb (has_id x) pre = false -> has_id x t = true ->
  ins_before x n (pre ++ t :: post) = pre ++ n :: t :: post.
Proof. intros H1 H2. rewrite ins_before_skip by exact H1. cbn [ins_before]. rewrite H2. reflexivity. Qed.
Lemma take_id_at x pre t post : existsb (has_id x) pre = false -> has_id x t = true ->
  take_id x (pre ++ t :: post) = Some (t, pre ++ post).
Proof. intros H1 H2. rewrite take_id_skip by exact H1. cbn [take_id]. rewrite H2. reflexivity. Qed.
Lemma find_at x pre (t : itree) post : existsb (has_id x) pre = false -> has_id x t = true ->
  find (has_id x) (pre ++ t :: post) = Some t.
Proof. intros H1 H2. rewrite find_skip by exact H1. cbn [find]. rewrite H2. reflexivity. Qed.
Lemma set_first_at x s pre t post : existsb (has_id x) pre = false -> has_id x t = true ->
  set_text_first x s (pre ++ t :: post) = pre ++ set_text s t :: post.
Proof. intros H1 H2. rewrite set_first_skip by exact H1. cbn [set_text_first]. rewrite H2. reflexivity. Qed.
Lemma existsb_app_false {X} (p : X -> bool) l1 l2 :
  existsb p l1 = false -> existsb p l2 = false -> existsb p (l1 ++ l2) = false.
Proof. intros H1 H2. rewrite existsb_app, H1, H2. reflexivity. Qed.

Ltac norm :=
  repeat (rewrite ?map_app, ?flat_akid_app, ?chain_texts_of, ?no_chain_texts; cbn [map flat_map akid app]);
  rewrite ?app_nil_r; repeat rewrite <- app_assoc; cbn [app].
Ltac fail_show := match goal with |- ?g => fail 0 g end.
Ltac bools :=
  repeat match goal with
         | H : (_ && _)%bool = true |- _ => apply andb_true_iff in H; destruct H
         | H : forallb _ (_ ++ _) = true |- _ => rewrite forallb_app in H
         | H : forallb _ (_ :: _) = true |- _ => cbn [forallb] in H
         end;
  rewrite ?chain_ok_of, ?kids_ok_app, ?forallb_app; cbn [forallb kid_ok nonempty_text];
  rewrite ?chain_ok_of, ?forallb_app; cbn [forallb]; change (chain_ok no_chain) with true;
  repeat match goal with
         | H : chain_ok ?t = true |- context [forallb nonempty_text (chain_texts ?t)] => rewrite (chain_ok_texts t H)
         | H : ?a = true |- context [?a] => rewrite H
         end; try reflexivity.

(* ------------------------------------------------------------------ local lemmas: one per primitive *)
Lemma at_parent_hit x fn i p pre t post :
  existsb (has_id x) pre = false -> has_id x t = true ->
  at_parent_of x fn (INode i p (pre ++ t :: post)) = Some (INode i p (fn (pre ++ t :: post)), tt).
Proof. intros H1 H2. unfold at_parent_of. rewrite existsb_app, H1. cbn [existsb]. rewrite H2. reflexivity. Qed.
Lemma at_parent_miss x fn i p l : existsb (has_id x) l = false -> at_parent_of x fn (INode i p l) = None.
Proof. intros H. unfold at_parent_of. rewrite H. reflexivity. Qed.
Lemma kind_shape_tag k own d1 k1 d2 k2 : chain_texts d1 <> [] \/ k1 <> [] ->
  chain_ok d1 = true -> kind_shape k own d1 k1 = true -> kind_shape k own d2 k2 = true.
Proof.
  unfold kind_shape. destruct (is_ktag k); [reflexivity|]. intros H Hc Hs. exfalso.
  apply andb_true_iff in Hs as [Hs _]. apply andb_true_iff in Hs as [He Hn].
  destruct H as [H|H].
  - apply H. destruct d1 as [h s a]. unfold chain_is_empty in He. cbn in He. destruct s; [discriminate|reflexivity].
  - destruct k1; [apply H; reflexivity|discriminate].
Qed.

Section LocalMoves.
  Variable x : nid.
  Variable n : cloose.
  Hypothesis n_ok : loose_ok n = true.

  Lemma add_following_local inh e : el_ok e = true ->
    match f_add_following x n inh e with
    | Some (e', a) => move_guard n a -> True /\
        at_parent_of x (ins_after x (abs_loose n)) (abs_el inh e) = Some (abs_el inh e', tt) /\ el_ok e' = true /\
        is_ktag (ckind_of e') = is_ktag (ckind_of e)
    | None => at_parent_of x (ins_after x (abs_loose n)) (abs_el inh e) = None
    end.
  Proof.
    destruct e as [i k own data kids]. intros Hok. rewrite el_ok_eq in Hok. apply andb3 in Hok as (Hd & Hks & Hkids).
    cbn [f_add_following]. set (dns := in_scope inh own).
    pose proof (split_texts_spec x (chain_texts data)) as Sd. pose proof (chain_ok_texts _ Hd) as Hdt.
    destruct (split_texts x (chain_texts data)) as [[[b m] a]|].
    - destruct Sd as (Ed & Hm & Hb).
      assert (Hne : chain_texts data <> [] \/ kids <> []) by (left; rewrite Ed; destruct b; discriminate).
      rewrite Ed in Hdt.
      destruct n as [c|t]; intros [Hclean Hg]; cbn [fst snd] in Hg; rewrite !abs_el_eq; fold dns;
        rewrite <- (aloose_guard _ dns Hg); unfold akids; rewrite Ed.
      + split; [exact I|]; split; [|split; [|reflexivity]].
        * norm. rewrite at_parent_hit, ins_after_at by (rewrite ?existsb_texts; assumption). reflexivity.
        * rewrite el_ok_eq. rewrite (kind_shape_tag _ _ _ _ _ _ Hne Hd Hks). cbn [loose_ok] in n_ok. bools.
      + split; [exact I|]; split; [|split; [|reflexivity]].
        * norm. rewrite at_parent_hit, ins_after_at by (rewrite ?existsb_texts; assumption). reflexivity.
        * rewrite el_ok_eq. rewrite (kind_shape_tag _ _ _ _ _ _ Hne Hd Hks). cbn [loose_ok] in n_ok. bools.
    - pose proof (split_kids_spec dns x kids) as Sk.
      destruct (split_kids x kids) as [[[[bk [c0 t0]] ak] pos]|].
      + destruct Sk as (Ek & Hbk & Hpos).
        assert (Hne : chain_texts data <> [] \/ kids <> []) by (right; rewrite Ek; destruct bk; discriminate).
        rewrite Ek in Hkids. rewrite kids_ok_app in Hkids. cbn [forallb kid_ok] in Hkids.
        assert (Hpre : existsb (has_id x) (map atext (chain_texts data) ++ flat_map (akid dns) bk) = false)
          by (apply existsb_app_false; [rewrite existsb_texts; exact Sd|exact Hbk]).
        destruct pos as [|b m a].
        * destruct n as [c|t]; intros [Hclean Hg]; cbn [fst snd] in Hg; rewrite !abs_el_eq; fold dns;
            rewrite <- (aloose_guard _ dns Hg); unfold akids; rewrite Ek.
          -- split; [exact I|]; split; [|split; [|reflexivity]].
             ++ norm. rewrite app_assoc. rewrite at_parent_hit, ins_after_at by (rewrite ?has_id_abs; assumption).
                norm. reflexivity.
             ++ rewrite el_ok_eq. rewrite (kind_shape_tag _ _ _ _ _ _ Hne Hd Hks). cbn [loose_ok] in n_ok.
                bools.
          -- split; [exact I|]; split; [|split; [|reflexivity]].
             ++ norm. rewrite app_assoc. rewrite at_parent_hit, ins_after_at by (rewrite ?has_id_abs; assumption).
                norm. reflexivity.
             ++ rewrite el_ok_eq. rewrite (kind_shape_tag _ _ _ _ _ _ Hne Hd Hks). cbn [loose_ok] in n_ok.
                bools.
        * destruct Hpos as (Hc0 & Et0 & Hm & Hb).
          assert (Hpre' : existsb (has_id x) ((map atext (chain_texts data) ++ flat_map (akid dns) bk)
                                              ++ abs_el dns c0 :: map atext b) = false).
          { apply existsb_app_false; [exact Hpre|]. cbn [existsb]. rewrite has_id_abs, Hc0, existsb_texts. exact Hb. }
          apply andb_true_iff in Hkids as [Hbk' Hrest]. apply andb_true_iff in Hrest as [Hc0t0 Hak].
          apply andb_true_iff in Hc0t0 as [Hc0ok Ht0ok]. pose proof (chain_ok_texts _ Ht0ok) as Ht0t. rewrite Et0 in Ht0t.
          destruct n as [c|t]; intros [Hclean Hg]; cbn [fst snd] in Hg; rewrite !abs_el_eq; fold dns;
            rewrite <- (aloose_guard _ dns Hg); unfold akids; rewrite Ek.
          -- split; [exact I|]; split; [|split; [|reflexivity]].
             ++ norm. rewrite Et0. norm.
                match goal with |- at_parent_of _ _ (INode _ _ ?l) = _ =>
                  assert (EL : l = ((map atext (chain_texts data) ++ flat_map (akid dns) bk)
                                      ++ abs_el dns c0 :: map atext b) ++ atext m :: map atext a ++ flat_map (akid dns) ak)
                    by (norm; reflexivity) end.
                rewrite EL, at_parent_hit, ins_after_at by assumption. norm. reflexivity.
             ++ rewrite el_ok_eq. rewrite (kind_shape_tag _ _ _ _ _ _ Hne Hd Hks). cbn [loose_ok] in n_ok. bools.
          -- split; [exact I|]; split; [|split; [|reflexivity]].
             ++ norm. rewrite Et0. norm.
                match goal with |- at_parent_of _ _ (INode _ _ ?l) = _ =>
                  assert (EL : l = ((map atext (chain_texts data) ++ flat_map (akid dns) bk)
                                      ++ abs_el dns c0 :: map atext b) ++ atext m :: map atext a ++ flat_map (akid dns) ak)
                    by (norm; reflexivity) end.
                rewrite EL, at_parent_hit, ins_after_at by assumption. norm. reflexivity.
             ++ rewrite el_ok_eq. rewrite (kind_shape_tag _ _ _ _ _ _ Hne Hd Hks). cbn [loose_ok] in n_ok. bools.
      + rewrite abs_el_eq. apply at_parent_miss. unfold akids. apply existsb_app_false; [rewrite existsb_texts; exact Sd|exact Sk].
  Qed.
  Lemma g_before_hit nt i p pre t post :
    existsb (has_id x) pre = false -> has_id x t = true -> (is_itext nt && negb (is_itext t))%bool = false ->
    g_before x nt (INode i p (pre ++ t :: post)) = Some (INode i p (pre ++ nt :: t :: post), tt).
  Proof. intros H1 H2 H3. unfold g_before. rewrite find_at, H3, ins_before_at by assumption. reflexivity. Qed.
  Lemma g_before_block nt i p pre t post :
    existsb (has_id x) pre = false -> has_id x t = true -> (is_itext nt && negb (is_itext t))%bool = true ->
    g_before x nt (INode i p (pre ++ t :: post)) = None.
  Proof. intros H1 H2 H3. unfold g_before. rewrite find_at, H3 by assumption. reflexivity. Qed.
  Lemma g_before_miss nt i p l : existsb (has_id x) l = false -> g_before x nt (INode i p l) = None.
  Proof. intros H. unfold g_before. rewrite find_none by exact H. reflexivity. Qed.

  Lemma add_preceding_local inh e : el_ok e = true ->
    match f_add_preceding x n inh e with
    | Some (e', a) => move_guard n a -> True /\
        g_before x (abs_loose n) (abs_el inh e) = Some (abs_el inh e', tt) /\ el_ok e' = true /\
        is_ktag (ckind_of e') = is_ktag (ckind_of e)
    | None => g_before x (abs_loose n) (abs_el inh e) = None
    end.
  Proof.
    destruct e as [i k own data kids]. intros Hok. rewrite el_ok_eq in Hok. apply andb3 in Hok as (Hd & Hks & Hkids).
    cbn [f_add_preceding]. set (dns := in_scope inh own).
    pose proof (split_texts_spec x (chain_texts data)) as Sd. pose proof (chain_ok_texts _ Hd) as Hdt.
    destruct (split_texts x (chain_texts data)) as [[[b m] a]|].
    - destruct Sd as (Ed & Hm & Hb).
      assert (Hne : chain_texts data <> [] \/ kids <> []) by (left; rewrite Ed; destruct b; discriminate).
      rewrite Ed in Hdt.
      destruct n as [c|t]; intros [Hclean Hg]; cbn [fst snd] in Hg; rewrite !abs_el_eq; fold dns;
        rewrite <- (aloose_guard _ dns Hg); unfold akids; rewrite Ed.
      + split; [exact I|]; split; [|split; [|reflexivity]].
        * norm. rewrite g_before_hit by (rewrite ?existsb_texts; try assumption; cbn [aloose]; rewrite is_itext_abs; reflexivity).
          reflexivity.
        * rewrite el_ok_eq. rewrite (kind_shape_tag _ _ _ _ _ _ Hne Hd Hks). cbn [loose_ok] in n_ok. bools.
      + split; [exact I|]; split; [|split; [|reflexivity]].
        * norm. rewrite g_before_hit by (rewrite ?existsb_texts; try assumption; reflexivity). reflexivity.
        * rewrite el_ok_eq. rewrite (kind_shape_tag _ _ _ _ _ _ Hne Hd Hks). cbn [loose_ok] in n_ok. bools.
    - pose proof (split_kids_spec dns x kids) as Sk.
      destruct (split_kids x kids) as [[[[bk [c0 t0]] ak] pos]|].
      + destruct Sk as (Ek & Hbk & Hpos).
        assert (Hne : chain_texts data <> [] \/ kids <> []) by (right; rewrite Ek; destruct bk; discriminate).
        rewrite Ek in Hkids. rewrite kids_ok_app in Hkids. cbn [forallb kid_ok] in Hkids.
        assert (Hpre : existsb (has_id x) (map atext (chain_texts data) ++ flat_map (akid dns) bk) = false)
          by (apply existsb_app_false; [rewrite existsb_texts; exact Sd|exact Hbk]).
        destruct pos as [|b m a].
        * destruct n as [c|t].
          -- intros [Hclean Hg]; cbn [fst snd] in Hg; rewrite !abs_el_eq; fold dns;
               rewrite <- (aloose_guard _ dns Hg); unfold akids; rewrite Ek.
             split; [exact I|]; split; [|split; [|reflexivity]].
             ++ norm. rewrite app_assoc.
                rewrite g_before_hit by (rewrite ?has_id_abs; try assumption; cbn [aloose]; rewrite !is_itext_abs; reflexivity).
                norm. reflexivity.
             ++ rewrite el_ok_eq. rewrite (kind_shape_tag _ _ _ _ _ _ Hne Hd Hks). cbn [loose_ok] in n_ok. bools.
          -- rewrite abs_el_eq. fold dns. unfold akids. rewrite Ek. norm. rewrite app_assoc.
             apply g_before_block; [exact Hpre|rewrite has_id_abs; exact Hpos|].
             cbn [abs_loose]. rewrite is_itext_atext, is_itext_abs. reflexivity.
        * destruct Hpos as (Hc0 & Et0 & Hm & Hb).
          assert (Hpre' : existsb (has_id x) ((map atext (chain_texts data) ++ flat_map (akid dns) bk)
                                              ++ abs_el dns c0 :: map atext b) = false).
          { apply existsb_app_false; [exact Hpre|]. cbn [existsb]. rewrite has_id_abs, Hc0, existsb_texts. exact Hb. }
          apply andb_true_iff in Hkids as [Hbk' Hrest]. apply andb_true_iff in Hrest as [Hc0t0 Hak].
          apply andb_true_iff in Hc0t0 as [Hc0ok Ht0ok]. pose proof (chain_ok_texts _ Ht0ok) as Ht0t. rewrite Et0 in Ht0t.
          destruct n as [c|t]; intros [Hclean Hg]; cbn [fst snd] in Hg; rewrite !abs_el_eq; fold dns;
            rewrite <- (aloose_guard _ dns Hg); unfold akids; rewrite Ek.
          -- split; [exact I|]; split; [|split; [|reflexivity]].
             ++ norm. rewrite Et0. norm.
                match goal with |- g_before _ _ (INode _ _ ?l) = _ =>
                  assert (EL : l = ((map atext (chain_texts data) ++ flat_map (akid dns) bk)
                                      ++ abs_el dns c0 :: map atext b) ++ atext m :: map atext a ++ flat_map (akid dns) ak)
                    by (norm; reflexivity) end.
                rewrite EL, g_before_hit by (try assumption; cbn [aloose]; rewrite is_itext_abs; reflexivity).
                norm. reflexivity.
             ++ rewrite el_ok_eq. rewrite (kind_shape_tag _ _ _ _ _ _ Hne Hd Hks). cbn [loose_ok] in n_ok. bools.
          -- split; [exact I|]; split; [|split; [|reflexivity]].
             ++ norm. rewrite Et0. norm.
                match goal with |- g_before _ _ (INode _ _ ?l) = _ =>
                  assert (EL : l = ((map atext (chain_texts data) ++ flat_map (akid dns) bk)
                                      ++ abs_el dns c0 :: map atext b) ++ atext m :: map atext a ++ flat_map (akid dns) ak)
                    by (norm; reflexivity) end.
                rewrite EL, g_before_hit by (try assumption; reflexivity).
                norm. reflexivity.
             ++ rewrite el_ok_eq. rewrite (kind_shape_tag _ _ _ _ _ _ Hne Hd Hks). cbn [loose_ok] in n_ok. bools.
      + rewrite abs_el_eq. apply g_before_miss. unfold akids. apply existsb_app_false; [rewrite existsb_texts; exact Sd|exact Sk].
  Qed.
End LocalMoves.

Lemma ikind_abs_tag inh e : nkind_eqb (ikind (abs_el inh e)) NTag = is_ktag (ckind_of e).
Proof. destruct e as [i [] ? ? ?]; reflexivity. Qed.

Lemma bind_data_local p t inh e : nonempty_text t = true -> el_ok e = true ->
  match f_bind_data p (LText t) inh e with
  | Some (e', a) => move_guard (LText t) a -> True /\
      at_tag p (fun q => INode (iid q) (ipayload q) (atext t :: ikids q)) (abs_el inh e) = Some (abs_el inh e', tt) /\
      el_ok e' = true /\ is_ktag (ckind_of e') = is_ktag (ckind_of e)
  | None => at_tag p (fun q => INode (iid q) (ipayload q) (atext t :: ikids q)) (abs_el inh e) = None
  end.
Proof.
  intros Ht. destruct e as [i k own data kids]. intros Hok. cbn [f_bind_data]. unfold at_tag.
  rewrite has_id_abs, ikind_abs_tag. cbn [cid ckind_of].
  destruct (N.eqb i p && is_ktag k)%bool eqn:E; [|reflexivity].
  intros _. split; [exact I|]. rewrite !abs_el_eq. cbn [iid ipayload ikids].
  apply andb_true_iff in E as [_ Etag]. rewrite el_ok_eq in Hok. apply andb3 in Hok as (Hd & Hks & Hkids).
  split; [|split; [|reflexivity]].
  - unfold akids. rewrite chain_texts_of. reflexivity.
  - rewrite el_ok_eq. unfold kind_shape. rewrite Etag, Hkids. rewrite chain_ok_of. cbn [forallb]. rewrite Ht, (chain_ok_texts _ Hd). reflexivity.
Qed.

Lemma append_el_local p c inh e : el_ok c = true -> el_ok e = true ->
  match f_append_el p (LEl c) inh e with
  | Some (e', a) => move_guard (LEl c) a -> True /\
      at_tag p (fun q => INode (iid q) (ipayload q) (ikids q ++ [abs_top c])) (abs_el inh e) = Some (abs_el inh e', tt) /\
      el_ok e' = true /\ is_ktag (ckind_of e') = is_ktag (ckind_of e)
  | None => at_tag p (fun q => INode (iid q) (ipayload q) (ikids q ++ [abs_top c])) (abs_el inh e) = None
  end.
Proof.
  intros Hc. destruct e as [i k own data kids]. intros Hok. cbn [f_append_el]. unfold at_tag.
  rewrite has_id_abs, ikind_abs_tag. cbn [cid ckind_of].
  destruct (N.eqb i p && is_ktag k)%bool eqn:E; [|reflexivity].
  intros [_ Hg]. cbn [fst] in Hg. split; [exact I|]. rewrite !abs_el_eq. cbn [iid ipayload ikids].
  apply andb_true_iff in E as [_ Etag]. rewrite el_ok_eq in Hok. apply andb3 in Hok as (Hd & Hks & Hkids).
  split; [|split; [|reflexivity]].
  - unfold akids. rewrite flat_akid_app. cbn [flat_map akid chain_texts no_chain ch_slot map app].
    change (abs_top c) with (abs_loose (LEl c)). rewrite <- (aloose_guard (LEl c) _ Hg). cbn [aloose].
    rewrite <- app_assoc. reflexivity.
  - rewrite el_ok_eq. unfold kind_shape. rewrite Etag, Hd. rewrite kids_ok_app, Hkids. cbn. rewrite Hc. reflexivity.
Qed.

(* ------------------------------------------------------------------ detach *)
Lemma null_nil {X} (l : list X) : null l = true -> l = [].
Proof. destruct l; [reflexivity|discriminate]. Qed.
Lemma pin_abs e : forall d inh', el_ok e = true -> inh' = [] \/ inh' = d -> abs_el inh' (pin_dns d e) = abs_el d e.
Proof.
  induction e as [i k own data kids IH] using cel_ind'. intros d inh' Hok Hinh. cbn [pin_dns].
  rewrite el_ok_eq in Hok. apply andb3 in Hok as (Hd & Hks & Hkids).
  destruct (is_ktag k) eqn:Ek.
  - rewrite !abs_el_eq. set (d' := in_scope d own).
    assert (E : in_scope inh' (if null d' then own else Some d') = d').
    { destruct (null d') eqn:En; [|reflexivity]. apply null_nil in En. unfold d' in *. destruct own as [s|]; [reflexivity|].
      cbn [in_scope] in *. destruct Hinh as [->| ->]; [symmetry; exact En|reflexivity]. }
    rewrite E. f_equal. unfold akids. f_equal. clear Hks.
    induction kids as [|[c t] r IHr]; [reflexivity|]. inversion IH as [|? ? Hc Hrest]; subst. cbn [fst] in Hc.
    cbn [forallb kid_ok] in Hkids. apply andb_true_iff in Hkids as [Hct Hr]. apply andb_true_iff in Hct as [Hcok _].
    cbn [map flat_map akid]. rewrite (Hc d' d' Hcok) by (right; reflexivity). rewrite (IHr Hrest Hr). reflexivity.
  - unfold kind_shape in Hks. rewrite Ek in Hks. apply andb_true_iff in Hks as [Hks Hown].
    apply andb_true_iff in Hks as [_ Hn]. apply null_nil in Hn. subst kids. destruct own; [discriminate|].
    rewrite !abs_el_eq. cbn [in_scope]. destruct k; [discriminate|reflexivity|reflexivity].
Qed.
Lemma pin_ok e : forall d, el_ok e = true -> el_ok (pin_dns d e) = true.
Proof.
  induction e as [i k own data kids IH] using cel_ind'. intros d Hok. cbn [pin_dns].
  destruct (is_ktag k) eqn:Ek; [|exact Hok].
  rewrite el_ok_eq in *. apply andb3 in Hok as (Hd & Hks & Hkids). rewrite Hd. unfold kind_shape. rewrite Ek. cbn [andb]. clear Hks.
  induction kids as [|[c t] r IHr]; [reflexivity|]. inversion IH as [|? ? Hc Hrest]; subst. cbn [fst] in Hc.
  cbn [forallb kid_ok] in Hkids. apply andb_true_iff in Hkids as [Hct Hr]. apply andb_true_iff in Hct as [Hcok Htok].
  cbn [map forallb kid_ok]. rewrite (Hc _ Hcok), Htok, (IHr Hrest Hr). reflexivity.
Qed.

Lemma g_extract_hit x i p pre t post : existsb (has_id x) pre = false -> has_id x t = true ->
  g_extract x (INode i p (pre ++ t :: post)) = Some (INode i p (pre ++ post), t).
Proof. intros H1 H2. unfold g_extract. rewrite take_id_at by assumption. reflexivity. Qed.

Lemma detach_local x inh e : el_ok e = true ->
  match f_detach x inh e with
  | Some (e', out) => True -> loose_ok out = true /\
      g_extract x (abs_el inh e) = Some (abs_el inh e', abs_loose out) /\ el_ok e' = true /\
      is_ktag (ckind_of e') = is_ktag (ckind_of e)
  | None => g_extract x (abs_el inh e) = None
  end.
Proof.
  destruct e as [i k own data kids]. intros Hok. rewrite el_ok_eq in Hok. apply andb3 in Hok as (Hd & Hks & Hkids).
  cbn [f_detach]. set (dns := in_scope inh own).
  pose proof (split_texts_spec x (chain_texts data)) as Sd. pose proof (chain_ok_texts _ Hd) as Hdt.
  destruct (split_texts x (chain_texts data)) as [[[b m] a]|].
  - destruct Sd as (Ed & Hm & Hb).
    assert (Hne : chain_texts data <> [] \/ kids <> []) by (left; rewrite Ed; destruct b; discriminate).
    rewrite Ed in Hdt. intros _. rewrite !abs_el_eq. fold dns. unfold akids. rewrite Ed.
    split; [|split; [|split; [|reflexivity]]].
    + cbn [loose_ok]. bools.
    + norm. rewrite g_extract_hit by (rewrite ?existsb_texts; assumption). norm. reflexivity.
    + rewrite el_ok_eq. rewrite (kind_shape_tag _ _ _ _ _ _ Hne Hd Hks). bools.
  - pose proof (split_kids_spec dns x kids) as Sk.
    destruct (split_kids x kids) as [[[[bk [c0 t0]] ak] pos]|].
    + destruct Sk as (Ek & Hbk & Hpos).
      assert (Hne : chain_texts data <> [] \/ kids <> []) by (right; rewrite Ek; destruct bk; discriminate).
      pose proof Hkids as Hkids0.
      rewrite Ek in Hkids. rewrite kids_ok_app in Hkids. cbn [forallb kid_ok] in Hkids.
      apply andb_true_iff in Hkids as [Hbk' Hrest]. apply andb_true_iff in Hrest as [Hc0t0 Hak].
      apply andb_true_iff in Hc0t0 as [Hc0ok Ht0ok].
      assert (Hpre : existsb (has_id x) (map atext (chain_texts data) ++ flat_map (akid dns) bk) = false)
        by (apply existsb_app_false; [rewrite existsb_texts; exact Sd|exact Hbk]).
      destruct pos as [|b m a].
      * assert (Eout : abs_loose (LEl (pin_dns dns c0)) = abs_el dns c0)
          by (cbn [abs_loose]; unfold abs_top; apply pin_abs; [exact Hc0ok|left; reflexivity]).
        destruct (rev bk) as [|[pc pt] rbk] eqn:Erev.
        -- assert (bk = []) by (rewrite <- (rev_involutive bk), Erev; reflexivity). subst bk.
           intros _. rewrite Eout, !abs_el_eq. fold dns. unfold akids. rewrite Ek.
           split; [|split; [|split; [|reflexivity]]].
           ++ cbn [loose_ok]. apply pin_ok, Hc0ok.
           ++ norm. rewrite g_extract_hit by (rewrite ?has_id_abs, ?existsb_texts; assumption). norm. reflexivity.
           ++ rewrite el_ok_eq. rewrite (kind_shape_tag _ _ _ _ _ _ Hne Hd Hks). bools.
        -- assert (Ebk : bk = rev rbk ++ [(pc, pt)]) by (rewrite <- (rev_involutive bk), Erev; reflexivity).
           rewrite Ebk in *. rewrite kids_ok_app in Hbk'. cbn [forallb kid_ok] in Hbk'.
           intros _. rewrite Eout, !abs_el_eq. fold dns. unfold akids. rewrite Ek.
           split; [|split; [|split; [|reflexivity]]].
           ++ cbn [loose_ok]. apply pin_ok, Hc0ok.
           ++ norm.
              match goal with |- g_extract _ (INode _ _ ?l) = _ =>
                assert (EL : l = (map atext (chain_texts data) ++ flat_map (akid dns) (rev rbk ++ [(pc, pt)]))
                                   ++ abs_el dns c0 :: map atext (chain_texts t0) ++ flat_map (akid dns) ak)
                  by (norm; reflexivity) end.
              rewrite EL, g_extract_hit by (rewrite ?has_id_abs; assumption). norm. reflexivity.
           ++ rewrite el_ok_eq. rewrite (kind_shape_tag _ _ _ _ _ _ Hne Hd Hks). bools.
      * destruct Hpos as (Hc0 & Et0 & Hm & Hb).
        assert (Hpre' : existsb (has_id x) ((map atext (chain_texts data) ++ flat_map (akid dns) bk)
                                            ++ abs_el dns c0 :: map atext b) = false).
        { apply existsb_app_false; [exact Hpre|]. cbn [existsb]. rewrite has_id_abs, Hc0, existsb_texts. exact Hb. }
        pose proof (chain_ok_texts _ Ht0ok) as Ht0t. rewrite Et0 in Ht0t.
        intros _. rewrite !abs_el_eq. fold dns. unfold akids. rewrite Ek.
        split; [|split; [|split; [|reflexivity]]].
        -- cbn [loose_ok]. bools.
        -- norm. rewrite Et0. norm.
           match goal with |- g_extract _ (INode _ _ ?l) = _ =>
             assert (EL : l = ((map atext (chain_texts data) ++ flat_map (akid dns) bk)
                                 ++ abs_el dns c0 :: map atext b) ++ atext m :: map atext a ++ flat_map (akid dns) ak)
               by (norm; reflexivity) end.
           rewrite EL, g_extract_hit by assumption. norm. reflexivity.
        -- rewrite el_ok_eq. rewrite (kind_shape_tag _ _ _ _ _ _ Hne Hd Hks). bools.
    + rewrite abs_el_eq. unfold g_extract. rewrite take_id_none; [reflexivity|].
      unfold akids. apply existsb_app_false; [rewrite existsb_texts; exact Sd|exact Sk].
Qed.

(* ------------------------------------------------------------------ content assignment *)
Lemma set_chain_texts ch b m a s : chain_ok ch = true -> chain_texts ch = b ++ m :: a -> null s = false ->
  chain_texts (set_chain ch b m a s) = b ++ {| t_id := t_id m; t_s := s |} :: a /\
  chain_ok (set_chain ch b m a s) = true.
Proof.
  destruct ch as [h sl ap]. unfold chain_ok, chain_texts. cbn [ch_slot ch_head ch_app].
  destruct sl as [sl|], h as [h|]; try discriminate; try (destruct b; discriminate).
  intros Hok E Hs. apply andb_true_iff in Hok as [Hsl Happ]. destruct b as [|b0 b'].
  - cbn [app] in E. injection E as <- <-. cbn [set_chain ch_slot ch_head ch_app t_id]. rewrite Hs.
    cbn [app]. split; [reflexivity|]. rewrite Happ. destruct s; [discriminate|reflexivity].
  - cbn [app] in E. injection E as <- ->. cbn [set_chain ch_slot ch_head ch_app]. cbn [app]. split; [reflexivity|].
    rewrite Hsl. cbn [andb]. rewrite forallb_app in *. apply andb_true_iff in Happ as [H1 H2]. cbn [forallb] in *.
    apply andb_true_iff in H2 as [_ H2]. rewrite H1, H2. unfold nonempty_text. cbn [t_s]. rewrite Hs. reflexivity.
Qed.

Lemma set_content_local x s inh e : null s = false -> el_ok e = true ->
  match f_set_content x s inh e with
  | Some (e', a) => True -> True /\
      at_parent_of x (set_text_first x s) (abs_el inh e) = Some (abs_el inh e', tt) /\ el_ok e' = true /\
      is_ktag (ckind_of e') = is_ktag (ckind_of e)
  | None => at_parent_of x (set_text_first x s) (abs_el inh e) = None
  end.
Proof.
  intros Hs. destruct e as [i k own data kids]. intros Hok. pose proof Hok as Hok0.
  rewrite el_ok_eq in Hok. apply andb3 in Hok as (Hd & Hks & Hkids).
  cbn [f_set_content]. set (dns := in_scope inh own).
  pose proof (split_texts_spec x (chain_texts data)) as Sd.
  destruct (split_texts x (chain_texts data)) as [[[b m] a]|].
  - destruct Sd as (Ed & Hm & Hb). destruct (set_chain_texts data b m a s Hd Ed Hs) as [Et Hc].
    assert (Hne : chain_texts data <> [] \/ kids <> []) by (left; rewrite Ed; destruct b; discriminate).
    intros _. split; [exact I|]. rewrite !abs_el_eq. fold dns. unfold akids. rewrite Ed, Et.
    split; [|split; [|reflexivity]].
    + norm. rewrite at_parent_hit, set_first_at by (rewrite ?existsb_texts; assumption). reflexivity.
    + rewrite el_ok_eq. rewrite (kind_shape_tag _ _ _ _ _ _ Hne Hd Hks), Hc, Hkids. reflexivity.
  - pose proof (split_kids_spec dns x kids) as Sk.
    destruct (split_kids x kids) as [[[[bk [c0 t0]] ak] pos]|].
    + destruct Sk as (Ek & Hbk & Hpos).
      assert (Hpre : existsb (has_id x) (map atext (chain_texts data) ++ flat_map (akid dns) bk) = false)
        by (apply existsb_app_false; [rewrite existsb_texts; exact Sd|exact Hbk]).
      destruct pos as [|b m a].
      * intros _. split; [exact I|]. split; [|split; [exact Hok0|reflexivity]].
        rewrite abs_el_eq. fold dns. unfold akids. rewrite Ek. norm. rewrite app_assoc.
        rewrite at_parent_hit, set_first_at by (rewrite ?has_id_abs; assumption). norm.
        destruct c0 as [i0 [] ? ? ?]; reflexivity.
      * destruct Hpos as (Hc0 & Et0 & Hm & Hb).
        assert (Hne : chain_texts data <> [] \/ kids <> []) by (right; rewrite Ek; destruct bk; discriminate).
        rewrite Ek in Hkids. rewrite kids_ok_app in Hkids. cbn [forallb kid_ok] in Hkids.
        apply andb_true_iff in Hkids as [Hbk' Hrest]. apply andb_true_iff in Hrest as [Hc0t0 Hak].
        apply andb_true_iff in Hc0t0 as [Hc0ok Ht0ok].
        destruct (set_chain_texts t0 b m a s Ht0ok Et0 Hs) as [Et Hc].
        assert (Hpre' : existsb (has_id x) ((map atext (chain_texts data) ++ flat_map (akid dns) bk)
                                            ++ abs_el dns c0 :: map atext b) = false).
        { apply existsb_app_false; [exact Hpre|]. cbn [existsb]. rewrite has_id_abs, Hc0, existsb_texts. exact Hb. }
        intros _. split; [exact I|]. rewrite !abs_el_eq. fold dns. unfold akids. rewrite Ek.
        split; [|split; [|reflexivity]].
        -- norm. rewrite Et0, Et. norm.
           match goal with |- at_parent_of _ _ (INode _ _ ?l) = _ =>
             assert (EL : l = ((map atext (chain_texts data) ++ flat_map (akid dns) bk)
                                 ++ abs_el dns c0 :: map atext b) ++ atext m :: map atext a ++ flat_map (akid dns) ak)
               by (norm; reflexivity) end.
           rewrite EL, at_parent_hit, set_first_at by assumption. norm. reflexivity.
        -- rewrite el_ok_eq. rewrite (kind_shape_tag _ _ _ _ _ _ Hne Hd Hks), Hd. rewrite kids_ok_app.
           cbn [forallb kid_ok]. rewrite Hbk', Hc0ok, Hc, Hak. reflexivity.
    + rewrite abs_el_eq. apply at_parent_miss. unfold akids. apply existsb_app_false; [rewrite existsb_texts; exact Sd|exact Sk].
Qed.

(* ------------------------------------------------------------------ merging text nodes *)
Definition merged_texts (l : list tobj) : list tobj :=
  match l with [] => [] | h :: r => [{| t_id := t_id h; t_s := t_s h ++ flat_map t_s r |}] end.
Lemma merge_chain_texts ch : chain_texts (merge_chain ch) = merged_texts (chain_texts ch).
Proof. destruct ch as [[h|] [s|] a]; reflexivity. Qed.
Lemma merge_chain_ok ch : chain_ok ch = true -> chain_ok (merge_chain ch) = true.
Proof.
  destruct ch as [[h|] [s|] a]; unfold chain_ok, merge_chain; cbn [ch_slot ch_head ch_app]; try discriminate; auto.
  intros H. apply andb_true_iff in H as [H _]. destruct s; [discriminate|reflexivity].
Qed.
Definition starts_nontext (l : list itree) : Prop := match l with [] => True | t :: _ => is_itext t = false end.
Lemma merge_run_texts ts : forall h s rest,
  merge_run (INode h (PText s) []) (map atext ts ++ rest) = merge_run (INode h (PText (s ++ flat_map t_s ts)) []) rest.
Proof.
  induction ts as [|t ts IH]; intros h s rest; cbn [map app flat_map].
  - rewrite app_nil_r. reflexivity.
  - cbn [merge_run]. change (is_itext (INode h (PText s) [])) with true. rewrite is_itext_atext. cbn [andb].
    cbn [iid text_of ipayload atext]. rewrite IH, app_assoc. reflexivity.
Qed.
Definition mkids (kids : list (cel * chain)) : list (cel * chain) :=
  map (fun kt => match kt with (c, t) => (c, merge_chain t) end) kids.
Lemma merge_run_el inh c t r : merge_run (abs_el inh c) (t :: r) = abs_el inh c :: merge_run t r.
Proof. cbn [merge_run]. rewrite is_itext_abs. reflexivity. Qed.
Lemma merge_stream dns kids :
  (forall c T, merge_run (abs_el dns c) (map atext T ++ flat_map (akid dns) kids)
               = abs_el dns c :: map atext (merged_texts T) ++ flat_map (akid dns) (mkids kids)) /\
  (forall h s, merge_run (INode h (PText s) []) (flat_map (akid dns) kids)
               = INode h (PText s) [] :: flat_map (akid dns) (mkids kids)).
Proof.
  induction kids as [|[c1 t1] r [IH2 IH3]].
  - split.
    + intros c [|t T]; cbn [map app merged_texts flat_map mkids]; [reflexivity|].
      rewrite merge_run_el. destruct t as [h s]. unfold atext at 1. cbn [t_id t_s]. rewrite merge_run_texts. reflexivity.
    + reflexivity.
  - assert (A3 : forall h s, merge_run (INode h (PText s) []) (flat_map (akid dns) ((c1, t1) :: r))
                             = INode h (PText s) [] :: flat_map (akid dns) (mkids ((c1, t1) :: r))).
    { intros h s. cbn [flat_map akid mkids map]. rewrite <- app_comm_cons. cbn [merge_run].
      rewrite is_itext_abs, andb_false_r. rewrite IH2, merge_chain_texts. rewrite <- app_comm_cons. reflexivity. }
    split; [|exact A3].
    intros c [|t T]; cbn [map app merged_texts].
    + cbn [flat_map akid mkids map]. rewrite <- !app_comm_cons. rewrite merge_run_el, IH2, merge_chain_texts. reflexivity.
    + rewrite merge_run_el. destruct t as [h s]. unfold atext at 1. cbn [t_id t_s]. rewrite merge_run_texts, A3. reflexivity.
Qed.
Lemma merge_list_akids dns data kids :
  merge_list (akids dns data kids) = akids dns (merge_chain data) (mkids kids).
Proof.
  unfold akids. rewrite merge_chain_texts. destruct (merge_stream dns kids) as [A2 A3].
  destruct (chain_texts data) as [|[h s] T]; cbn [map app merged_texts].
  - destruct kids as [|[c1 t1] r]; [reflexivity|]. cbn [flat_map akid mkids map merge_list]. rewrite <- !app_comm_cons.
    cbn [merge_list]. destruct (merge_stream dns r) as [B2 _]. rewrite B2, merge_chain_texts. reflexivity.
  - cbn [merge_list]. unfold atext at 1. cbn [t_id t_s]. rewrite merge_run_texts, A3. reflexivity.
Qed.
Lemma merge_abs e : forall inh, abs_el inh (merge_el e) = merge_tree (abs_el inh e).
Proof.
  induction e as [i k own data kids IH] using cel_ind'. intros inh. cbn [merge_el]. rewrite !abs_el_eq. cbn [merge_tree].
  f_equal. set (dns := in_scope inh own).
  assert (E : map merge_tree (akids dns data kids)
              = akids dns data (map (fun kt => match kt with (c, t) => (merge_el c, t) end) kids)).
  { unfold akids. rewrite map_app. f_equal.
    - rewrite map_map. apply map_ext. reflexivity.
    - induction kids as [|[c t] r IHr]; [reflexivity|]. inversion IH as [|? ? Hc Hrest]; subst. cbn [fst] in Hc.
      cbn [flat_map akid map]. rewrite map_app. cbn [map]. rewrite <- Hc, (IHr Hrest). f_equal. f_equal.
      rewrite map_map. apply map_ext. reflexivity. }
  rewrite E, merge_list_akids. f_equal. unfold mkids. rewrite map_map. apply map_ext. intros [c t]. reflexivity.
Qed.
Lemma merge_ok e : el_ok e = true -> el_ok (merge_el e) = true.
Proof.
  induction e as [i k own data kids IH] using cel_ind'. intros Hok. cbn [merge_el].
  rewrite el_ok_eq in *. apply andb3 in Hok as (Hd & Hks & Hkids). rewrite (merge_chain_ok _ Hd). cbn [andb].
  apply andb_true_iff. split.
  - unfold kind_shape in *. destruct (is_ktag k); [reflexivity|]. apply andb_true_iff in Hks as [Hks Hown].
    apply andb_true_iff in Hks as [He Hn]. apply null_nil in Hn. subst kids. rewrite Hown.
    destruct data as [[h|] [s|] [|a0 a]]; try discriminate. reflexivity.
  - clear Hks. induction kids as [|[c t] r IHr]; [reflexivity|]. inversion IH as [|? ? Hc Hrest]; subst. cbn [fst] in Hc.
    cbn [forallb kid_ok] in Hkids. apply andb_true_iff in Hkids as [Hct Hr]. apply andb_true_iff in Hct as [Hcok Htok].
    cbn [map forallb kid_ok]. rewrite (Hc Hcok), (merge_chain_ok _ Htok), (IHr Hrest Hr). reflexivity.
Qed.
Lemma merge_local p inh e : el_ok e = true ->
  match f_merge p inh e with
  | Some (e', a) => True -> True /\ at_tag p merge_tree (abs_el inh e) = Some (abs_el inh e', tt) /\ el_ok e' = true /\
                            is_ktag (ckind_of e') = is_ktag (ckind_of e)
  | None => at_tag p merge_tree (abs_el inh e) = None
  end.
Proof.
  intros Hok. unfold f_merge, at_tag. rewrite has_id_abs, ikind_abs_tag.
  destruct (N.eqb (cid e) p && is_ktag (ckind_of e))%bool; [|reflexivity].
  intros _. split; [exact I|]. rewrite merge_abs. split; [reflexivity|]. split; [apply merge_ok, Hok|].
  destruct e; reflexivity.
Qed.

(* ------------------------------------------------------------------ every primitive update commutes with abs *)
Lemma at_parent_text x fn t : at_parent_of x fn (atext t) = None. Proof. reflexivity. Qed.
Lemma g_before_text x nt t : g_before x nt (atext t) = None. Proof. reflexivity. Qed.
Lemma at_tag_text x fn t : at_tag x fn (atext t) = None.
Proof. unfold at_tag. rewrite andb_false_r. reflexivity. Qed.
Lemma g_extract_text x t : g_extract x (atext t) = None. Proof. reflexivity. Qed.

Lemma shape_split w : shape_ok w = true -> forallb doc_ok (w_docs w) = true /\ forallb loose_ok (w_loose w) = true.
Proof. intros H. apply andb_true_iff in H. exact H. Qed.

Lemma move_sim n okc oka f g w :
  (forall t, okc t = oka (abs_loose t)) ->
  (forall t, loose_ok t = true -> okc t = true ->
     (forall u, g (abs_loose t) (atext u) = None) /\
     (forall inh e, el_ok e = true ->
        match f t inh e with
        | Some (e', a) => move_guard t a -> True /\ g (abs_loose t) (abs_el inh e) = Some (abs_el inh e', tt) /\
                          el_ok e' = true /\ is_ktag (ckind_of e') = is_ktag (ckind_of e)
        | None => g (abs_loose t) (abs_el inh e) = None
        end)) ->
  shape_ok w = true -> move_ok (c_move_o n okc f w) w n = true ->
  abs_world (c_move n okc f w) = a_move n oka g (abs_world w) /\ shape_ok (c_move n okc f w) = true.
Proof.
  intros Hokk Hloc Hs Hg. unfold c_move, a_move, take_loose. unfold move_ok in Hg. unfold c_move_o in *.
  destruct (shape_split _ Hs) as [Hd Hl]. cbn [abs_world loose docs].
  pose proof (ctake_sim n (w_loose w)) as T. unfold loose_insens in Hg.
  destruct (ctake_loose n (w_loose w)) as [[t l']|].
  - destruct T as [T1 T2]. rewrite T1. destruct (T2 Hl) as [Ht Hl']. rewrite <- Hokk.
    destruct (okc t) eqn:Eok; [|split; [reflexivity|exact Hs]].
    destruct (Hloc t Ht Eok) as [Gt L].
    assert (Hs1 : shape_ok {| w_docs := w_docs w; w_loose := l' |} = true)
      by (unfold shape_ok; cbn [w_docs w_loose]; rewrite Hd, Hl'; reflexivity).
    pose proof (cw_rw_sim (f t) (g (abs_loose t)) (move_guard t) (fun _ => tt) (fun _ => True) Gt L _ Hs1) as S.
    change (abs_world {| w_docs := w_docs w; w_loose := l' |})
      with {| docs := map abs_doc (w_docs w); loose := map abs_loose l' |} in S.
    destruct (cw_rw (f t) {| w_docs := w_docs w; w_loose := l' |}) as [[w2 [dns clean]]|].
    + apply andb_true_iff in Hg as [Hc Hi].
      assert (MG : move_guard t (dns, clean)).
      { split; [exact Hc|]. cbn [fst]. apply orb_true_iff in Hi. destruct Hi as [Hi|Hi]; [left; exact Hi|right].
        destruct t; [exact Hi|reflexivity]. }
      destruct (S MG) as (_ & S1 & S2). rewrite S1. split; [reflexivity|exact S2].
    + rewrite S. split; [reflexivity|exact Hs].
  - rewrite T. split; [reflexivity|exact Hs].
Qed.

Lemma is_ltext_abs t : is_ltext t = is_itext (abs_loose t).
Proof. destruct t as [e|t]; [symmetry; apply is_itext_abs|reflexivity]. Qed.

Lemma cset_loose_sim x s l : map abs_loose (cset_loose x s l) = set_text_first x s (map abs_loose l).
Proof.
  induction l as [|t r IH]; [reflexivity|]. cbn [cset_loose map set_text_first]. rewrite has_id_abs_loose.
  destruct (N.eqb (loose_id t) x).
  - destruct t as [e|o]; cbn [map abs_loose].
    + f_equal. destruct e as [i [] ? ? ?]; reflexivity.
    + reflexivity.
  - cbn [map]. rewrite IH. reflexivity.
Qed.
Lemma cset_loose_ok x s l : null s = false -> forallb loose_ok l = true -> forallb loose_ok (cset_loose x s l) = true.
Proof.
  intros Hs. induction l as [|t r IH]; [reflexivity|]. cbn [cset_loose forallb]. intros H.
  apply andb_true_iff in H as [H1 H2]. destruct (N.eqb (loose_id t) x).
  - destruct t as [e|o]; cbn [forallb]; [rewrite H1, H2; reflexivity|]. cbn [loose_ok].
    unfold nonempty_text. cbn [t_s]. rewrite Hs, H2. reflexivity.
  - cbn [forallb]. rewrite H1, (IH H2). reflexivity.
Qed.
Lemma cis_loose_sim w x : is_loose (abs_world w) x = cis_loose w x.
Proof.
  unfold is_loose, cis_loose. cbn [abs_world loose]. induction (w_loose w) as [|t r IH]; [reflexivity|].
  cbn [map existsb]. rewrite has_id_abs_loose, IH. reflexivity.
Qed.

Theorem apply_sim u w : shape_ok w = true -> upd_ok u w = true ->
  abs_world (apply_c u w) = apply_a u (abs_world w) /\ shape_ok (apply_c u w) = true.
Proof.
  intros Hs Hg. destruct (shape_split _ Hs) as [Hd Hl]. destruct u; cbn [apply_c apply_a upd_ok] in *.
  - (* UNewText *)
    unfold cadd_loose, add_loose, abs_world, shape_ok. cbn [w_docs w_loose docs loose]. rewrite map_app, forallb_app, Hd, Hl.
    cbn. unfold nonempty_text. cbn [t_s]. rewrite Hg. split; reflexivity.
  - (* UNewTag *)
    unfold cadd_loose, add_loose, abs_world, shape_ok. cbn [w_docs w_loose docs loose]. rewrite map_app, forallb_app, Hd, Hl.
    split; reflexivity.
  - (* UAddFollowing *)
    apply move_sim; try assumption; [reflexivity|]. intros t Ht _. split; [intros; apply at_parent_text|].
    intros inh e He. apply add_following_local; assumption.
  - apply move_sim; try assumption; [reflexivity|]. intros t Ht _. split; [intros; apply g_before_text|].
    intros inh e He. apply add_preceding_local; assumption.
  - apply move_sim; try assumption; [reflexivity|]. intros t Ht _. split; [intros; apply g_before_text|].
    intros inh e He. apply add_preceding_local; assumption.
  - (* UBindData *)
    apply move_sim; try assumption; [apply is_ltext_abs|]. intros t Ht Hk. destruct t as [e0|o]; [discriminate|].
    split; [intros; apply at_tag_text|]. intros inh e He. apply bind_data_local; assumption.
  - (* UAppendEl *)
    apply move_sim; try assumption; [intros t; rewrite is_ltext_abs; reflexivity|]. intros t Ht Hk.
    destruct t as [e0|o]; [|discriminate].
    split; [intros; apply at_tag_text|]. intros inh e He. apply append_el_local; assumption.
  - (* UDetach *)
    pose proof (cw_rw_sim (f_detach x) (g_extract x) (fun _ => True) abs_loose (fun o => loose_ok o = true)
                  (g_extract_text x) (detach_local x) _ Hs) as S.
    destruct (cw_rw (f_detach x) w) as [[w1 out]|].
    + destruct (S I) as (Hq & S1 & S2). rewrite S1. destruct (shape_split _ S2) as [Hd1 Hl1].
      unfold cadd_loose, add_loose, abs_world, shape_ok. cbn [w_docs w_loose docs loose].
      rewrite map_app, forallb_app, Hd1, Hl1. cbn [map forallb]. rewrite Hq. split; reflexivity.
    + rewrite S. split; [reflexivity|exact Hs].
  - (* USetContent *)
    apply negb_true_iff in Hg. rewrite cis_loose_sim. destruct (cis_loose w x).
    + unfold abs_world, shape_ok. cbn [w_docs w_loose docs loose]. rewrite cset_loose_sim, Hd.
      rewrite (cset_loose_ok _ _ _ Hg Hl). split; reflexivity.
    + pose proof (cw_rw_sim (f_set_content x s) (at_parent_of x (set_text_first x s)) (fun _ => True) (fun _ => tt)
                    (fun _ => True) (at_parent_text x _) (fun inh e => set_content_local x s inh e Hg) _ Hs) as S.
      destruct (cw_rw (f_set_content x s) w) as [[w1 []]|].
      * destruct (S I) as (_ & S1 & S2). rewrite S1. split; [reflexivity|exact S2].
      * rewrite S. split; [reflexivity|exact Hs].
  - (* UMerge *)
    pose proof (cw_rw_sim (f_merge p) (at_tag p merge_tree) (fun _ => True) (fun _ => tt) (fun _ => True)
                  (at_tag_text p _) (merge_local p) _ Hs) as S.
    destruct (cw_rw (f_merge p) w) as [[w1 []]|].
    + destruct (S I) as (_ & S1 & S2). rewrite S1. split; [reflexivity|exact S2].
    + rewrite S. split; [reflexivity|exact Hs].
Qed.

(* ------------------------------------------------------------------ scripts *)
Theorem run_sim p : forall w, shape_ok w = true -> run_ok p w = true ->
  run_a p (abs_world w) = (abs_world (fst (run_c p w)), snd (run_c p w)) /\ shape_ok (fst (run_c p w)) = true.
Proof.
  induction p as [r|u k IH|k IH]; intros w Hs Hg; cbn [run_a run_c run_ok] in *.
  - split; [reflexivity|exact Hs].
  - apply andb_true_iff in Hg as [Hu Hk]. destruct (apply_sim u w Hs Hu) as [E Hs']. rewrite <- E. apply IH; assumption.
  - apply IH; assumption.
Qed.

(* ------------------------------------------------------------------ C01 *)
Lemma cwf_shape w : cwf w -> shape_ok w = true.
Proof.
  unfold cwf, cwf_b, shape_ok. intros H. apply andb_true_iff in H as [H H3]. apply andb_true_iff in H as [_ H2].
  rewrite H2, H3. reflexivity.
Qed.

Theorem step_refines F c o : shape_ok c = true -> step_ok F c o = true ->
  astep F (abs_world c) o = (abs_world (fst (cstep F c o)), snd (cstep F c o)) /\ shape_ok (fst (cstep F c o)) = true.
Proof. intros Hs Hg. apply run_sim; assumption. Qed.

Theorem history_refines ops : forall c, shape_ok c = true -> hist_ok c ops = true ->
  arun (abs_world c) ops = (abs_world (fst (crun c ops)), snd (crun c ops)) /\ shape_ok (fst (crun c ops)) = true.
Proof.
  induction ops as [|[F o] r IH]; intros c Hs Hg; cbn [arun crun hist_ok] in *.
  - split; [reflexivity|exact Hs].
  - apply andb_true_iff in Hg as [Hg1 Hg2]. destruct (step_refines F c o Hs Hg1) as [E Hs'].
    rewrite E. destruct (cstep F c o) as [c1 res]. cbn [fst snd] in *.
    destruct (IH c1 Hs' Hg2) as [E2 Hs2]. rewrite E2. destruct (crun c1 r) as [c2 rs]. split; [reflexivity|exact Hs2].
Qed.

Lemma step_refines_let F c o : cwf c -> step_ok F c o = true ->
  let (c', r) := cstep F c o in shape_ok c' = true /\ astep F (abs_world c) o = (abs_world c', r).
Proof.
  intros Hc Hg. destruct (step_refines F c o (cwf_shape _ Hc) Hg) as [E Hs]. destruct (cstep F c o) as [c' r].
  cbn [fst snd] in *. auto.
Qed.
Lemma history_refines_let ops c : cwf c -> hist_ok c ops = true ->
  let (c', rs) := crun c ops in shape_ok c' = true /\ arun (abs_world c) ops = (abs_world c', rs).
Proof.
  intros Hc Hg. destruct (history_refines ops c (cwf_shape _ Hc) Hg) as [E Hs]. destruct (crun c ops) as [c' rs].
  cbn [fst snd] in *. auto.
Qed.
