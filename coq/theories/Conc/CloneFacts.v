(* Lemmas about cloning for Props/C10.v. *)
From Delb.Base Require Import PyStr.
From Delb.Tree Require Import ATree ITree AOps.
From Delb.Conc Require Import CTree COps CGuard Refine Clone.

Lemma chain_texts_clone ren ch : chain_texts (clone_chain ren ch) = map (clone_tobj ren) (chain_texts ch).
Proof. unfold clone_chain. apply chain_texts_of. Qed.
Lemma atext_clone ren t : atext (clone_tobj ren t) = a_rename ren (atext t).
Proof. reflexivity. Qed.
Lemma present_idem dns a : present_attr [] (present_attr dns a) = present_attr dns a.
Proof. destruct a as [[n k] v]. cbn. destruct (null n) eqn:E; [|rewrite E; reflexivity]. destruct dns; reflexivity. Qed.

(* the deep clone, seen by a client, is the original subtree with new identities -- for every renaming *)
Lemma clone_abs ren e : forall inh, abs_el [] (clone_el ren inh e) = a_rename ren (abs_el inh e).
Proof.
  induction e as [i k own data kids IH] using cel_ind'. intros inh. cbn [clone_el]. rewrite !abs_el_eq.
  cbn [in_scope a_rename]. set (dns := in_scope inh own). f_equal.
  - destruct k as [ns name attrs| |]; try reflexivity. cbn [clone_kind abs_payload]. f_equal. rewrite map_map.
    apply map_ext. intros a. apply present_idem.
  - unfold akids. rewrite map_app. f_equal.
    + rewrite chain_texts_clone, !map_map. apply map_ext. reflexivity.
    + induction kids as [|[c t] r IHr]; [reflexivity|]. inversion IH as [|? ? Hc Hrest]; subst. cbn [fst] in Hc.
      cbn [map flat_map akid]. rewrite map_app. cbn [map]. rewrite (Hc dns), (IHr Hrest), chain_texts_clone.
      rewrite !map_map. reflexivity.
Qed.

Lemma content_rename ren t : content (a_rename ren t) = content t.
Proof.
  induction t as [i p kids IH] using itree_ind'. cbn [a_rename content]. destruct p; try reflexivity.
  f_equal. rewrite map_map. induction kids as [|k r IHr]; [reflexivity|]. inversion IH; subst.
  cbn [map]. f_equal; auto.
Qed.

Theorem clone_equal ren inh e : content (abs_top (clone_el ren inh e)) = content (abs_el inh e).
Proof. unfold abs_top. rewrite (clone_abs ren e inh). apply content_rename. Qed.

Theorem clone_shallow_spec ren inh e :
  exists i, abs_top (clone_shallow ren inh e) = INode i (ipayload (abs_el inh e)) [].
Proof. destruct e as [i k own data kids]. exists (rename ren i). cbn. f_equal. destruct k; try reflexivity.
  cbn. f_equal. rewrite map_map. apply map_ext. intros a. apply present_idem. Qed.

Theorem clone_text_spec ren t : content (abs_loose (LText (clone_tobj ren t))) = content (atext t).
Proof. reflexivity. Qed.

(* cloning adds one parentless node and leaves every existing tree, slot and chain as it was *)
Theorem clone_step_frame w x deep ren :
  c_clone_step w x deep ren = w \/
  exists l, c_clone_step w x deep ren = cadd_loose l w /\
            abs_world (c_clone_step w x deep ren) = add_loose (abs_loose l) (abs_world w).
Proof.
  unfold c_clone_step. destruct (c_clone w x deep ren) as [l|]; [right|left; reflexivity].
  exists l. split; [reflexivity|]. unfold cadd_loose, add_loose, abs_world. cbn [w_docs w_loose docs loose].
  rewrite map_app. reflexivity.
Qed.

(* Document.clone: prologue, root and epilogue of the clone carry the content of the original's *)
Theorem clone_doc_spec ren d :
  let '(pro, r, epi) := abs_doc (clone_doc ren d) in
  let '(pro0, r0, epi0) := abs_doc d in
  map content pro = map content pro0 /\ content r = content r0 /\ map content epi = map content epi0.
Proof.
  unfold abs_doc, clone_doc. cbn [d_pro d_root d_epi]. repeat split.
  - rewrite !map_map. apply map_ext. intros e. apply clone_equal.
  - apply clone_equal.
  - rewrite !map_map. apply map_ext. intros e. apply clone_equal.
Qed.

(* the clone is well-shaped whenever the original is *)
Lemma clone_chain_ok ren ch : chain_ok ch = true -> chain_ok (clone_chain ren ch) = true.
Proof.
  intros H. unfold clone_chain. rewrite chain_ok_of. pose proof (chain_ok_texts _ H) as T.
  induction (chain_texts ch) as [|t r IH]; [reflexivity|]. cbn [map forallb] in *. apply andb_true_iff in T as [T1 T2].
  rewrite (IH T2). unfold nonempty_text in *. cbn [clone_tobj t_s]. rewrite T1. reflexivity.
Qed.
Lemma clone_ok ren e : forall inh, el_ok e = true -> el_ok (clone_el ren inh e) = true.
Proof.
  induction e as [i k own data kids IH] using cel_ind'. intros inh Hok. cbn [clone_el]. rewrite el_ok_eq in *.
  apply andb3 in Hok as (Hd & Hks & Hkids). rewrite (clone_chain_ok _ _ Hd). cbn [andb]. apply andb_true_iff. split.
  - unfold kind_shape in *. destruct k; cbn [clone_kind is_ktag] in *; [reflexivity| |];
      (apply andb_true_iff in Hks as [Hks _]; apply andb_true_iff in Hks as [He Hn]; apply null_nil in Hn; subst kids;
       destruct data as [[h|] [sl|] [|a0 a]]; try discriminate; reflexivity).
  - clear Hks. induction kids as [|[c t] r IHr]; [reflexivity|]. inversion IH as [|? ? Hc Hrest]; subst. cbn [fst] in Hc.
    cbn [forallb kid_ok] in Hkids. apply andb_true_iff in Hkids as [Hct Hr]. apply andb_true_iff in Hct as [Hcok Htok].
    cbn [map forallb kid_ok]. rewrite (Hc _ Hcok), (clone_chain_ok _ _ Htok), (IHr Hrest Hr). reflexivity.
Qed.

(* ------------------------------------------------------------------ independence under later histories *)
From Delb.Tree Require Import AGuard AOpsFacts.
Lemma arun_fst w ops : fst (arun w ops) = arun_w w ops.
Proof.
  revert w. induction ops as [|[F o] r IH]; intros w; [reflexivity|]. cbn [arun arun_w].
  destruct (astep F w o) as [w1 res] eqn:E. cbn [fst]. rewrite <- IH. destruct (arun w1 r). reflexivity.
Qed.

(* any tree of the world -- the clone, the original, a bystander -- that no primitive update of the later calls names
   is presented exactly as before, after a history of any length on the concrete model *)
Theorem later_history_frame C c ops :
  shape_ok c = true -> hist_ok c ops = true -> hist_avoids (comp_root C) (abs_world c) ops = true ->
  comp_in C (abs_world c) -> comp_in C (abs_world (fst (crun c ops))).
Proof.
  intros Hs Hg Ha Hin. destruct (history_refines ops c Hs Hg) as [E _].
  assert (E' : abs_world (fst (crun c ops)) = arun_w (abs_world c) ops) by (rewrite <- arun_fst, E; reflexivity).
  rewrite E'. apply hist_frame; assumption.
Qed.

(* the clone just made is such a tree, and so is every tree that existed before *)
Theorem clone_then_history w x deep ren l ops :
  shape_ok (cadd_loose l w) = true -> c_clone w x deep ren = Some l ->
  let c := c_clone_step w x deep ren in
  hist_ok c ops = true ->
  (hist_avoids (abs_loose l) (abs_world c) ops = true -> In (abs_loose l) (loose (abs_world (fst (crun c ops))))) /\
  (forall C, comp_in C (abs_world w) -> hist_avoids (comp_root C) (abs_world c) ops = true ->
             comp_in C (abs_world (fst (crun c ops)))).
Proof.
  intros Hs Hc. unfold c_clone_step. rewrite Hc. cbn zeta. intros Hg. split.
  - intros Ha. apply (later_history_frame (CLoose (abs_loose l))); try assumption.
    cbn [comp_in abs_world cadd_loose w_loose loose]. rewrite map_app. apply in_or_app. right. left. reflexivity.
  - intros C Hin Ha. apply later_history_frame; try assumption.
    destruct C as [t|d]; cbn [comp_in abs_world cadd_loose w_loose w_docs loose docs] in *; [|exact Hin].
    rewrite map_app. apply in_or_app. left. exact Hin.
Qed.
