(* Decidable side conditions of the refinement theorems (C01/C09/C10).  Definitions only.

   `shape_ok`  the part of `cwf` the refinement needs: chains agree with their slots, no empty text, comments and
               PIs are childless (identities may be anything).
   `upd_ok`    the guard of one primitive update; it is false exactly in the classes of the known findings:
                 - a text node is created from, or assigned, the empty string            (findings 15, 17, 28)
                 - a node with an un-prefixed attribute lands in the scope of a default namespace it is not
                   shielded from by a declaration of its own                             (finding 13a)
                 (finding 29, a text bound over an occupied text slot, is repaired: the `clean` flag of a move is always true)
   `run_ok`    every update of a script run meets its guard;  `step_ok F w o` for one editing call. *)
From Delb.Base Require Import PyStr.
From Delb.Tree Require Import ATree ITree AOps.
From Delb.Conc Require Import CTree COps.

Definition shape_ok (w : cworld) : bool := forallb doc_ok (w_docs w) && forallb loose_ok (w_loose w).

(* the client's view of this subtree does not depend on the default namespace in scope around it *)
Fixpoint insens (e : cel) : bool :=
  match e with
  | CEl _ k own _ kids =>
      match own with
      | Some _ => true
      | None =>
          (match k with KTag _ _ attrs => forallb (fun a : attr => negb (null (fst (fst a)))) attrs | _ => true end)
          && forallb (fun kt => match kt with (c, _) => insens c end) kids
      end
  end.
Definition loose_insens (w : cworld) (n : nid) : bool :=
  match ctake_loose n (w_loose w) with Some (LEl e, _) => insens e | _ => true end.
Definition move_ok (o : option (cworld * minfo)) (w : cworld) (n : nid) : bool :=
  match o with
  | Some (_, (dns, clean)) => clean && (null dns || loose_insens w n)
  | None => true
  end.

Definition upd_ok (u : upd) (w : cworld) : bool :=
  match u with
  | UNewText _ s => negb (null s)
  | USetContent _ s => negb (null s)
  | UAddFollowing x n => move_ok (c_move_o n any_loose (f_add_following x) w) w n
  | UTextAddPreceding x n => move_ok (c_move_o n any_loose (f_add_preceding x) w) w n
  | UAddPrevious x n => move_ok (c_move_o n any_loose (f_add_preceding x) w) w n
  | UBindData p n => move_ok (c_move_o n is_ltext (f_bind_data p) w) w n
  | UAppendEl p n => move_ok (c_move_o n (fun l => negb (is_ltext l)) (f_append_el p) w) w n
  | UNewTag _ _ _ _ | UDetach _ | UMerge _ => true
  end.

Fixpoint run_ok (p : prog) (w : cworld) : bool :=
  match p with
  | Ret _ => true
  | Upd u k => upd_ok u w && run_ok k (apply_c u w)
  | Ask k => run_ok (k (abs_world w)) w
  end.
Definition step_ok (F : filt) (w : cworld) (o : op) : bool := run_ok (script F o) w.

(* histories *)
Fixpoint crun (w : cworld) (ops : list (filt * op)) : cworld * list result :=
  match ops with
  | [] => (w, [])
  | (F, o) :: r => let '(w1, res) := cstep F w o in let '(w2, rs) := crun w1 r in (w2, res :: rs)
  end.
Fixpoint arun (w : world) (ops : list (filt * op)) : world * list result :=
  match ops with
  | [] => (w, [])
  | (F, o) :: r => let '(w1, res) := astep F w o in let '(w2, rs) := arun w1 r in (w2, res :: rs)
  end.
Fixpoint hist_ok (w : cworld) (ops : list (filt * op)) : bool :=
  match ops with
  | [] => true
  | (F, o) :: r => step_ok F w o && hist_ok (fst (cstep F w o)) r
  end.
