(* Concrete witnesses (vm_compute): the guards of the refinement theorems are necessary, and their hypotheses are
   satisfiable on non-trivial inputs.  Lemmas for Props/C01.v. *)
From Delb.Base Require Import PyStr.
From Delb.Tree Require Import ATree ITree AOps AGuard Encode.
From Delb.Conc Require Import CTree COps CGuard CEncode Refine.
Local Open Scope N_scope.

Definition tx (i : nid) (s : str) : tobj := {| t_id := i; t_s := s |}.
Definition ch (h : nid) (s : str) (a : list tobj) : chain := {| ch_head := Some h; ch_slot := Some s; ch_app := a |}.
Definition one_doc (r : cel) (l : list cloose) : cworld := {| w_docs := [{| d_pro := []; d_root := r; d_epi := [] |}]; w_loose := l |}.
Definition ftag : filt := {| f_tag := true; f_text := false; f_comment := false; f_pi := false |}.

(* <r>a</r> with "b" appended: r = 0, a = 1 (DATA), b = 2 (APPENDED) *)
Definition w_ab : cworld := one_doc (CEl 0 (KTag [] [114] []) None (ch 1 [97] [tx 2 [98]]) []) [].
(* <r xmlns="d"/> and a parentless <b k="v"/> *)
Definition w_dns : cworld :=
  one_doc (CEl 0 (KTag [100] [114] []) (Some [100]) no_chain [])
          [LEl (CEl 1 (KTag [] [98] [([], [107], [118])]) None no_chain [])].
(* <r>text</r> *)
Definition w_text : cworld := one_doc (CEl 0 (KTag [] [114] []) None (ch 1 [116;101;120;116] []) []) [].
(* <r>a<x/>b<!--c-->d<y>e</y>f</r> with chains in every slot, and two parentless nodes *)
Definition w_big : cworld :=
  one_doc (CEl 0 (KTag [] [114] [([], [107], [118])]) None (ch 1 [97] [tx 2 [65]])
             [(CEl 3 (KTag [] [120] []) None no_chain [], ch 4 [98] [tx 5 [66]; tx 6 [67]]);
              (CEl 7 (KComment [99]) None no_chain [], ch 8 [100] []);
              (CEl 9 (KTag [] [121] []) None (ch 10 [101] []) [], ch 11 [102] [])])
          [LText (tx 12 [84]); LEl (CEl 13 (KTag [] [110] []) None no_chain [])].

Definition differs (F : filt) (c : cworld) (o : op) : Prop :=
  enc_world (fst (astep F (abs_world c) o)) <> enc_world (abs_world (fst (cstep F c o))).

(* finding 15: a.content = "" on a head text node *)
Lemma refuted_empty_head : cwf w_ab /\ step_ok fall w_ab (OSetContent 1 []) = false /\ differs fall w_ab (OSetContent 1 []).
Proof. split; [reflexivity|]. split; [reflexivity|]. unfold differs. vm_compute. discriminate. Qed.
(* finding 28: b.content = "" on an appended text node: the state leaves the domain in which the chain view is faithful *)
Lemma refuted_empty_appended :
  cwf w_ab /\ step_ok fall w_ab (OSetContent 2 []) = false /\ shape_ok (fst (cstep fall w_ab (OSetContent 2 []))) = false.
Proof. repeat split; reflexivity. Qed.
(* finding 17: an empty string offered as a node *)
Lemma refuted_empty_string :
  cwf w_ab /\ step_ok fall w_ab (OAppend 0 [SStr 3 []]) = false /\ shape_ok (fst (cstep fall w_ab (OAppend 0 [SStr 3 []]))) = false.
Proof. repeat split; reflexivity. Qed.
(* finding 13a: an un-prefixed attribute crosses a default-namespace boundary *)
Lemma refuted_namespace :
  cwf w_dns /\ step_ok fall w_dns (OAppend 0 [SNode 1]) = false /\ differs fall w_dns (OAppend 0 [SNode 1]).
Proof. split; [reflexivity|]. split; [reflexivity|]. unfold differs. vm_compute. discriminate. Qed.
(* finding 29 (repaired in the code, commit 53035ac): under a filter hiding the text child, a string goes in front of the
   existing text instead of over it: the step meets its guard and refines the plain edit *)
Lemma repaired_overwrite :
  cwf w_text /\ step_ok ftag w_text (OAppend 0 [SStr 2 [120]]) = true /\
  enc_world (fst (astep ftag (abs_world w_text) (OAppend 0 [SStr 2 [120]])))
  = enc_world (abs_world (fst (cstep ftag w_text (OAppend 0 [SStr 2 [120]])))) /\
  world_texts (abs_world (fst (cstep ftag w_text (OAppend 0 [SStr 2 [120]])))) = [(2, [120]); (1, [116; 101; 120; 116])].
Proof. repeat split; vm_compute; reflexivity. Qed.
(* finding 18: r[0] = "x" on a childless node reports success and changes nothing: the specification script itself
   (which follows the code) does not put the node at the stated position *)
Lemma setitem_childless_noop :
  let w := abs_world w_dns in astep fall w (OSetItem 0 0%Z (SStr 5 [120])) = (w, ROk).
Proof. reflexivity. Qed.

(* the hypotheses of the refinement theorems hold on a history that walks through every kind of operation *)
Definition sample_history : list (filt * op) :=
  [(fall, OAddFollowing 3 [SStr 20 [120]; SNode 13; SStr 21 [121]]);
   (fall, OAddPreceding 5 [SStr 22 [122]; STag 23 [116]]);
   (fall, OAppend 9 [SNode 12; STag 24 [117]]);
   (fdefault, OInsert 0 2%Z [SStr 25 [119]]);
   (fall, ODetach 9 true);
   (fall, OReplace 7 (SStr 26 [118]));
   (fall, OSetItem 0 0%Z (STag 27 [115]));
   (fall, ODelItem 0 (-1)%Z);
   (fall, OSetContent 4 [81]);
   (fall, OMerge 0);
   (fall, ODetach 3 false);
   (fall, OPrepend 0 [SNode 3])].
Lemma sample_history_ok :
  cwf w_big /\ hist_ok w_big sample_history = true /\
  snd (crun w_big sample_history) = [ROk; ROk; ROk; ROk; ROk; ROk; ROk; ROk; ROk; ROk; ROk; ROk].
Proof. split; [reflexivity|]. split; vm_compute; reflexivity. Qed.

(* ---- C09 ---- *)
(* regression cases: the witnesses of the repaired findings 19-22 are refused now, and nothing changes *)
Definition w_anc : cworld :=
  {| w_docs := []; w_loose := [LEl (CEl 1 (KTag [] [97] []) None no_chain [(CEl 2 (KTag [] [98] []) None no_chain [], no_chain)])] |}.
Definition w_item : cworld :=     (* <a><k/>t</a> and a parentless childless <r/> *)
  one_doc (CEl 0 (KTag [] [97] []) None no_chain [(CEl 1 (KTag [] [107] []) None no_chain [], ch 2 [116] [])])
          [LEl (CEl 3 (KTag [] [114] []) None no_chain [])].
Lemma repaired_findings :
  cstep fall w_item (OSetItem 3 0%Z (SNode 1)) = (w_item, Rejected EInvalidOperation) /\          (* 19 *)
  cstep fall w_dns (OAppend 1 [SNode 0]) = (w_dns, Rejected EInvalidOperation) /\                 (* 20 *)
  cstep fall w_anc (OAddFollowing 2 [SNode 1]) = (w_anc, Rejected EInvalidOperation) /\           (* 21 *)
  cstep fall w_anc (OAppend 2 [SNode 1]) = (w_anc, Rejected EInvalidOperation) /\                 (* 21, below a descendant *)
  cstep fall w_big (OAddFollowing 12 [STag 30 [120]]) = (w_big, Rejected EInvalidOperation).      (* 22 *)
Proof. repeat split; reflexivity. Qed.
(* refusals that do occur *)
Lemma refusal_examples :
  cwf w_big /\
  cstep fall w_big (OAddFollowing 3 [SNode 9]) = (w_big, Rejected EInvalidOperation) /\    (* attached node offered *)
  cstep fall w_big (ODetach 0 false) = (w_big, Rejected EInvalidOperation) /\              (* document root *)
  cstep fall w_big (OReplace 0 (SStr 30 [120])) = (w_big, Rejected EInvalidOperation) /\   (* replacing a root *)
  cstep fall w_big (ODetach 13 true) = (w_big, Rejected EInvalidOperation) /\              (* retain on parentless *)
  cstep fall w_big (OAddFollowing 0 [SStr 30 [120]]) = (w_big, Rejected ETypeError) /\     (* text next to a root *)
  cstep fall w_big (OAddFollowing 12 [SNode 13]) = (w_big, Rejected EInvalidOperation) /\  (* tag next to a parentless text *)
  cstep fall w_big (OInsert 0 99%Z [SStr 30 [120]]) = (w_big, Rejected EIndexError) /\
  cstep fall w_big (OInsert 0 (-1)%Z [SStr 30 [120]]) = (w_big, Rejected EValueError) /\
  cstep fall w_big (OSetItem 0 99%Z (SStr 30 [120])) = (w_big, Rejected EIndexError).
Proof. repeat split; reflexivity. Qed.

(* ---- identities, text, independence: the hypotheses are satisfiable ---- *)
From Delb.Tree Require Import AGuard.
From Delb.Conc Require Import Clone.
Lemma sample_history_fresh : hist_fresh (abs_world w_big) sample_history = true.
Proof. vm_compute. reflexivity. Qed.
Lemma sample_step_structural :
  run_structural (script fall (OAddFollowing 3 [SStr 20 [120]; SNode 13; SStr 21 [121]])) (abs_world w_big) = true /\
  run_new_texts (script fall (OAddFollowing 3 [SStr 20 [120]; SNode 13; SStr 21 [121]])) (abs_world w_big)
  = [(20, [120]); (21, [121])].
Proof. split; vm_compute; reflexivity. Qed.
(* clone <y>e</y> (node 9) of w_big, then edit the clone (ids 40..) and the original in turn *)
Definition ren9 : list (nid * nid) := [(9, 40); (10, 41)].
Definition after_clone : list (filt * op) :=
  [(fall, OAppend 40 [SStr 50 [122]]); (fall, OSetContent 41 [81]); (fall, OAddFollowing 41 [STag 51 [116]]);
   (fall, ODetach 41 false)].
Definition on_original : list (filt * op) :=
  [(fall, OAppend 9 [SStr 50 [122]]); (fall, ODetach 9 true); (fall, OMerge 0)].
Lemma clone_example :
  exists l, c_clone w_big 9 true ren9 = Some l /\
            let c := c_clone_step w_big 9 true ren9 in
            cwf c /\ hist_ok c after_clone = true /\ hist_ok c on_original = true /\
            (* edits of the clone name no node of the document, edits of the original no node of the clone *)
            hist_avoids (abs_top (d_root (hd {| d_pro := []; d_root := CEl 0 (KComment []) None no_chain []; d_epi := [] |} (w_docs w_big))))
                        (abs_world c) after_clone = true /\
            hist_avoids (abs_loose l) (abs_world c) on_original = true.
Proof. eexists. split; [reflexivity|]. cbn zeta. repeat split; vm_compute; reflexivity. Qed.
