(* The value-level setters that can be refused (C09): comment content, PI target, PI content, attribute creation /
   renaming.  Each validates first -- with the validator *generated from the source* (Gen/GenValidators.v,
   Gen/GenNsValidators.v) -- and assigns afterwards.  Definitions only.

   An attribute is created through TagAttributes.__setitem__ on every route (attributes[...] = v, update, setdefault,
   new_tag_node, tag() definitions, renaming an Attribute): `SetAttribute x ns name v` stands for all of them, with
   (ns, name) the resolved qualified name.  What an *accepted* attribute assignment does to the store is the subject of
   C11; here it is the simple rule (key `name` when the namespace is empty or the default namespace in scope, else
   `{ns}name`; replace or append). *)
From Delb.Base Require Import PyStr.
From Delb.Base Require Import PySplit.
From Delb.Gen Require Import GenValidators GenNsValidators GenAttr GenAttrKey.
From Delb.Tree Require Import ATree ITree AOps.
From Delb.Conc Require Import CTree COps.

Inductive setter :=
| SetCommentContent (x : nid) (s : str)
| SetPITarget (x : nid) (s : str)
| SetPIContent (x : nid) (s : str)
| SetAttribute (x : nid) (ns name value : str).

Definition setter_target (st : setter) : nid :=
  match st with SetCommentContent x _ | SetPITarget x _ | SetPIContent x _ | SetAttribute x _ _ _ => x end.

(* TagAttributes.__setitem__ validates the key that is going to be stored: `_etree_key` of the qualified name (generated,
   Gen/GenAttrKey.v), deconstructed again (generated, Gen/GenAttr.v) -- a local name may itself hold Clark notation *)
Definition LB : char := 123%N.
Definition RB : char := 125%N.
Definition store_key (a : attr) : str * str :=
  match a with (n, k, v) => ((if null n then k else [LB] ++ n ++ [RB] ++ k), v) end.
Definition stored_pair (dns : str) (attrs : list attr) (ns name : str) : res (option str * str) :=
  deconstruct_clark_notation (etree_key_gen (if null dns then None else Some dns) (map store_key attrs) (ns, name)) None.
Definition attr_refused (dns : str) (attrs : list attr) (ns name : str) : bool :=
  match stored_pair dns attrs ns name with
  | Ok (Some n, k) => attribute_name_refused n k
  | Ok (None, k) => attribute_name_refused [] k
  | _ => true                                     (* a malformed key: ValueError from the unpacking *)
  end.

(* refused exactly when the generated validator refuses (always ValueError); None: the node has no such setter *)
Definition refused_at (st : setter) (dns : str) (k : ckind) : option bool :=
  match st, k with
  | SetCommentContent _ s, KComment _ => Some (comment_content_refused s)
  | SetPITarget _ s, KPI _ _ => Some (pi_target_refused s)
  | SetPIContent _ s, KPI _ _ => Some (pi_content_refused s)
  | SetAttribute _ ns name _, KTag _ _ attrs => Some (attr_refused dns attrs ns name)
  | _, _ => None
  end.

Fixpoint set_attr (key : str * str) (v : str) (l : list attr) : list attr :=
  match l with
  | [] => [(fst key, snd key, v)]
  | (n, k, w) :: r => if (str_eqb n (fst key) && str_eqb k (snd key))%bool then (n, k, v) :: r else (n, k, w) :: set_attr key v r
  end.
Definition assign (st : setter) (dns : str) (k : ckind) : option ckind :=
  match st, k with
  | SetCommentContent _ s, KComment _ => Some (KComment s)
  | SetPITarget _ s, KPI _ c => Some (KPI s c)
  | SetPIContent _ s, KPI t _ => Some (KPI t s)
  | SetAttribute _ ns name v, KTag tns tname attrs =>
      let key := if (null ns || str_eqb ns dns)%bool then ([], name) else (ns, name) in
      Some (KTag tns tname (set_attr key v attrs))
  | _, _ => None
  end.
Inductive outcome := Done | Refused | NoSetter.
Definition f_assign (st : setter) (inh : str) (e : cel) : option (cel * outcome) :=
  match e with
  | CEl i k own data kids =>
      if N.eqb i (setter_target st)
      then match refused_at st (in_scope inh own) k, assign st (in_scope inh own) k with
           | Some true, _ => Some (e, Refused)               (* validation comes first: nothing is assigned *)
           | Some false, Some k' => Some (CEl i k' own data kids, Done)
           | _, _ => Some (e, NoSetter)
           end
      else None
  end.
(* comments / PIs next to a document's root *)
Definition first_sib (st : setter) (w : cworld) : option cel :=
  find (fun e => N.eqb (cid e) (setter_target st)) (flat_map (fun d => d_pro d ++ d_epi d) (w_docs w)).
Definition map_sibs (st : setter) (l : list cel) : list cel :=
  map (fun e => match f_assign st [] e with Some (e', Done) => e' | _ => e end) l.

Definition csetter (w : cworld) (st : setter) : cworld * result :=
  match cw_rw (f_assign st) w with
  | Some (w', Done) => (w', ROk)
  | Some (_, Refused) => (w, Rejected EValueError)
  | Some (_, NoSetter) => (w, Crash EAttributeError)
  | None =>
      match first_sib st w with
      | Some e =>
          match f_assign st [] e with
          | Some (_, Done) =>
              ({| w_docs := map (fun d => {| d_pro := map_sibs st (d_pro d); d_root := d_root d; d_epi := map_sibs st (d_epi d) |}) (w_docs w);
                  w_loose := w_loose w |}, ROk)
          | Some (_, Refused) => (w, Rejected EValueError)
          | _ => (w, Crash EAttributeError)
          end
      | None => (w, Crash EUnmodelled)
      end
  end.

(* for the C09 check: result and world after a setter call *)
From Delb.Conc Require Import CEncode.
Definition csetter_enc (w : cworld) (st : setter) : list N :=
  let '(w', r) := csetter w st in framed (enc_result r) ++ framed (enc_cworld w').
