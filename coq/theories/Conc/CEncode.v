(* Number-list encodings of concrete and abstract worlds and of whole histories, used by the C01/C09/C10 checks to
   bring model results out of Coq (harness/props/treeops.py decodes them).  Definitions only. *)
From Delb.Base Require Import PyStr.
From Delb.Tree Require Import ATree ITree AOps Encode.
From Delb.Conc Require Import CTree COps.

Definition enc_opt {A} (f : A -> list N) (o : option A) : list N := match o with None => [0%N] | Some a => 1%N :: f a end.
Definition enc_tobj (t : tobj) : list N := t_id t :: enc_str (t_s t).
Definition enc_chain (ch : chain) : list N :=
  enc_opt (fun h => [h]) (ch_head ch) ++ enc_opt enc_str (ch_slot ch) ++ enc_list enc_tobj (ch_app ch).
Definition enc_kind (k : ckind) : list N :=
  match k with
  | KTag ns name attrs => 0%N :: enc_str ns ++ enc_str name ++ enc_list enc_attr attrs
  | KComment s => 2%N :: enc_str s
  | KPI t c => 3%N :: enc_str t ++ enc_str c
  end.
(* the in-scope default namespace is what can be observed (nsmap.get(None)), so that is what is encoded *)
Fixpoint enc_cel (inh : str) (e : cel) {struct e} : list N :=
  match e with
  | CEl i k own data kids =>
      let d := in_scope inh own in
      i :: enc_kind k ++ enc_str d ++ enc_chain data
        ++ N.of_nat (length kids) :: flat_map (fun kt => match kt with (c, t) => enc_cel d c ++ enc_chain t end) kids
  end.
Definition enc_cloose (l : cloose) : list N :=
  match l with LEl e => 0%N :: enc_cel [] e | LText t => 1%N :: enc_tobj t end.
Definition enc_cdoc (d : cdoc) : list N :=
  enc_list (enc_cel []) (d_pro d) ++ enc_cel [] (d_root d) ++ enc_list (enc_cel []) (d_epi d).
Definition enc_cworld (w : cworld) : list N := enc_list enc_cdoc (w_docs w) ++ enc_list enc_cloose (w_loose w).

Definition enc_payload (p : payload) : list N :=
  match p with
  | PTag ns name attrs => 0%N :: enc_str ns ++ enc_str name ++ enc_list enc_attr attrs
  | PText s => 1%N :: enc_str s
  | PComment s => 2%N :: enc_str s
  | PPI t c => 3%N :: enc_str t ++ enc_str c
  end.
Fixpoint enc_itree (t : itree) : list N :=
  match t with
  | INode i p kids => i :: enc_payload p ++ N.of_nat (length kids) :: flat_map enc_itree kids
  end.
Definition enc_adoc (d : list itree * itree * list itree) : list N :=
  match d with (pro, r, epi) => enc_list enc_itree pro ++ enc_itree r ++ enc_list enc_itree epi end.
Definition enc_world (w : world) : list N := enc_list enc_adoc (docs w) ++ enc_list enc_itree (loose w).

Definition exn_code (e : exn) : N :=
  match e with
  | EInvalidOperation => 0 | ETypeError => 1 | EValueError => 2 | EIndexError => 3
  | EAssertionError => 4 | EAttributeError => 5 | EUnmodelled => 6
  end%N.
Definition enc_result (r : result) : list N :=
  match r with ROk => [0%N] | Rejected e => [1%N; exn_code e] | Crash e => [2%N; exn_code e] end.

Definition framed (l : list N) : list N := N.of_nat (length l) :: l.

(* a history: each operation under its own ambient filter; after each step the result, the branches exercised and
   the complete concrete world *)
Fixpoint chist (w : cworld) (ops : list (filt * op)) : list N :=
  match ops with
  | [] => []
  | (F, o) :: r =>
      let '(w', res) := cstep F w o in
      framed (enc_result res) ++ framed (enc_list (enc_list (fun x => [x])) (trace_c (script F o) w))
        ++ framed (enc_cworld w') ++ chist w' r
  end.
Fixpoint ahist (w : world) (ops : list (filt * op)) : list N :=
  match ops with
  | [] => []
  | (F, o) :: r =>
      let '(w', res) := astep F w o in
      framed (enc_result res) ++ framed (enc_world w') ++ ahist w' r
  end.
(* both in one evaluation: the concrete run, and the specification run from the abstraction of the initial state *)
Definition both_hist (w : cworld) (ops : list (filt * op)) : list N :=
  framed (chist w ops) ++ framed (ahist (abs_world w) ops) ++ [if cwf_b w then 1%N else 0%N].
