(* The concrete tree: what delb-py actually maintains on top of lxml.  Definitions only.

   lxml keeps character data in the `text` slot of an element and the `tail` slot of every element-like node
   (element, comment, processing instruction); delb hangs a *chain* of TextNode objects off each slot:

     head object    `TagNode._data_node` / `_ElementWrappingNode._tail_node`  (position DATA / TAIL); its content
                    lives in the lxml slot, not in the object;  `_exists`  <->  the slot is not None
     appended       `_appended_text_node` links (position APPENDED); each holds its own content

   A head object always exists as a Python object; while its slot is None it is an invisible placeholder that no
   client has seen (`ch_head = None`), or -- only after `content = ""` on a head, finding 15 -- an object a client
   still holds (`ch_head = Some id` with `ch_slot = None`, a "ghost").  That is why the slot is kept apart from the
   head object.  Back pointers (`_bound_to`, `getparent()`) are implied by the structure.

   The abstraction `abs_world : cworld -> world` (Tree/ITree.v) flattens chains into PText children and computes
   the attribute keys a client sees from the store keys and the in-scope default namespace. *)
From Delb.Base Require Import PyStr.
From Delb.Tree Require Import ATree ITree.

(* ---- text objects and chains ---- *)
Record tobj := { t_id : nid; t_s : str }.
Record chain := { ch_head : option nid;      (* identity of the head object, None: pristine placeholder *)
                  ch_slot : option str;      (* lxml .text / .tail *)
                  ch_app : list tobj }.      (* APPENDED objects in order *)
Definition no_chain : chain := {| ch_head := None; ch_slot := None; ch_app := [] |}.
Definition ch_exists (ch : chain) : bool := match ch_slot ch with Some _ => true | None => false end.

(* the text nodes a chain contributes to the child sequence, in order *)
Definition chain_texts (ch : chain) : list tobj :=
  match ch_slot ch, ch_head ch with
  | Some s, Some h => {| t_id := h; t_s := s |} :: ch_app ch
  | _, _ => []
  end.
(* every object hanging off the slot, seen or not *)
Definition chain_ids (ch : chain) : list nid :=
  (match ch_head ch with Some h => [h] | None => [] end) ++ map t_id (ch_app ch).

(* ---- element-like nodes ---- *)
(* attributes under their *store* keys: (namespace, local, value) with namespace [] for an un-prefixed attribute *)
Inductive ckind :=
| KTag (ns name : str) (attrs : list attr)
| KComment (s : str)
| KPI (target content : str).

Inductive cel :=
  CEl (id : nid) (k : ckind)
      (own_dns : option str)                 (* the default-namespace declaration this element owns *)
      (data : chain)                         (* text slot + chain (tags only) *)
      (kids : list (cel * chain)).           (* each child with its tail chain *)

Definition cid (e : cel) : nid := match e with CEl i _ _ _ _ => i end.
Definition ckind_of (e : cel) : ckind := match e with CEl _ k _ _ _ => k end.
Definition cown_dns (e : cel) : option str := match e with CEl _ _ d _ _ => d end.
Definition cdata (e : cel) : chain := match e with CEl _ _ _ d _ => d end.
Definition ckids (e : cel) : list (cel * chain) := match e with CEl _ _ _ _ k => k end.
Definition is_ktag (k : ckind) : bool := match k with KTag _ _ _ => true | _ => false end.

(* induction principle for the nested type *)
Section CelInd.
  Variable P : cel -> Prop.
  Hypothesis H : forall i k d data kids, Forall (fun kt => P (fst kt)) kids -> P (CEl i k d data kids).
  Fixpoint cel_ind' (e : cel) : P e :=
    match e with
    | CEl i k d data kids =>
        H i k d data kids
          ((fix go (l : list (cel * chain)) : Forall (fun kt => P (fst kt)) l :=
              match l with
              | [] => Forall_nil _
              | kt :: r => Forall_cons kt (cel_ind' (fst kt)) (go r)
              end) kids)
    end.
End CelInd.

(* ---- worlds ---- *)
Record cdoc := { d_pro : list cel; d_root : cel; d_epi : list cel }.   (* root-level siblings have no tails *)
Inductive cloose := LEl (e : cel) | LText (t : tobj).                  (* parentless element / DETACHED text *)
Record cworld := { w_docs : list cdoc; w_loose : list cloose }.

(* ---- abstraction ---- *)
Definition atext (t : tobj) : itree := INode (t_id t) (PText (t_s t)) [].

(* the key a client sees for a store key, given the in-scope default namespace ([] = none) *)
Definition present_attr (dns : str) (a : attr) : attr :=
  let '(n, k, v) := a in ((if null n then dns else n), k, v).
Definition in_scope (inh : str) (own : option str) : str := match own with Some d => d | None => inh end.
Definition abs_payload (dns : str) (k : ckind) : payload :=
  match k with
  | KTag ns name attrs => PTag ns name (map (present_attr dns) attrs)
  | KComment s => PComment s
  | KPI t c => PPI t c
  end.

Definition abs_kid (rec : cel -> itree) (kt : cel * chain) : list itree :=
  match kt with (k, t) => rec k :: map atext (chain_texts t) end.
Fixpoint abs_el (inh : str) (e : cel) {struct e} : itree :=
  match e with
  | CEl i k own data kids =>
      let dns := in_scope inh own in
      INode i (abs_payload dns k)
            (map atext (chain_texts data) ++
             flat_map (fun kt => match kt with (c, t) => abs_el dns c :: map atext (chain_texts t) end) kids)
  end.
Definition abs_top : cel -> itree := abs_el [].
Definition abs_doc (d : cdoc) : list itree * itree * list itree :=
  (map abs_top (d_pro d), abs_top (d_root d), map abs_top (d_epi d)).
Definition abs_loose (l : cloose) : itree := match l with LEl e => abs_top e | LText t => atext t end.
Definition abs_world (w : cworld) : world :=
  {| docs := map abs_doc (w_docs w); loose := map abs_loose (w_loose w) |}.

(* ---- identities ---- *)
Fixpoint cel_ids (e : cel) : list nid :=
  match e with
  | CEl i _ _ data kids =>
      i :: chain_ids data ++ flat_map (fun kt => match kt with (c, t) => cel_ids c ++ chain_ids t end) kids
  end.
Fixpoint cel_text_ids (e : cel) : list nid :=
  match e with
  | CEl _ _ _ data kids =>
      chain_ids data ++ flat_map (fun kt => match kt with (c, t) => cel_text_ids c ++ chain_ids t end) kids
  end.
Fixpoint cel_el_ids (e : cel) : list nid :=
  match e with
  | CEl i _ _ _ kids => i :: flat_map (fun kt => match kt with (c, _) => cel_el_ids c end) kids
  end.
Definition doc_ids (d : cdoc) : list nid :=
  flat_map cel_ids (d_pro d) ++ cel_ids (d_root d) ++ flat_map cel_ids (d_epi d).
Definition loose_ids (l : cloose) : list nid := match l with LEl e => cel_ids e | LText t => [t_id t] end.
Definition world_ids (w : cworld) : list nid := flat_map doc_ids (w_docs w) ++ flat_map loose_ids (w_loose w).

(* ---- well-formedness (boolean) ---- *)
Fixpoint nodupb (l : list nid) : bool :=
  match l with [] => true | x :: r => negb (existsb (N.eqb x) r) && nodupb r end.

Definition nonempty_text (t : tobj) : bool := negb (null (t_s t)).
(* slot and head object agree, nothing hangs off an empty slot, no empty text (the states outside are reached only
   through findings 15, 17, 28) *)
Definition chain_ok (ch : chain) : bool :=
  match ch_slot ch, ch_head ch with
  | None, None => null (ch_app ch)
  | Some s, Some _ => negb (null s) && forallb nonempty_text (ch_app ch)
  | _, _ => false
  end.
Definition chain_is_empty (ch : chain) : bool :=
  match ch_slot ch, ch_head ch, ch_app ch with None, None, [] => true | _, _, _ => false end.

Fixpoint el_ok (e : cel) : bool :=
  match e with
  | CEl _ k own data kids =>
      chain_ok data
      && (if is_ktag k then true
          else chain_is_empty data && null kids && match own with None => true | Some _ => false end)
      && forallb (fun kt => match kt with (c, t) => el_ok c && chain_ok t end) kids
  end.
Definition doc_ok (d : cdoc) : bool :=
  forallb (fun e => el_ok e && negb (is_ktag (ckind_of e))) (d_pro d)
  && el_ok (d_root d) && is_ktag (ckind_of (d_root d))
  && forallb (fun e => el_ok e && negb (is_ktag (ckind_of e))) (d_epi d).
Definition loose_ok (l : cloose) : bool := match l with LEl e => el_ok e | LText t => nonempty_text t end.

Definition cwf_b (w : cworld) : bool :=
  nodupb (world_ids w) && forallb doc_ok (w_docs w) && forallb loose_ok (w_loose w).
Definition cwf (w : cworld) : Prop := cwf_b w = true.
