(* The stated rules for the refusable values, written by hand and independent of the source: they are what the
   generated validators (Gen/*.v) are compared with, and they stay available as an oracle when a validator in the source
   changes into something the translator does not take.  Definitions only. *)
From Delb.Base Require Import PyStr.

(* XML 1.0, 2.5: a comment contains no "--" and does not end in "-" *)
Definition comment_rule (s : str) : bool := (py_contains s [45%N; 45%N] || py_endswith s [45%N])%bool.
