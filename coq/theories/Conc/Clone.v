(* Cloning, on the concrete tree and on the plain tree.  Definitions only.

   TagNode.clone: `new_tag_node(local_name, attributes=self.attributes, namespace, children=[clones])` -- a fresh
   element that owns no default-namespace declaration; the attributes are re-created through the mapping, i.e.
   stored under the keys the original *presents*; the children are cloned and appended one by one, which rebuilds
   the text chains in the same shape.  Comment / PI: lxml copy with the tail dropped.  TextNode.clone: a DETACHED
   text node with the same content.  Document.clone: the root cloned, the comments and PIs around it copied in
   order (`_copy_root_siblings`).
   The identities of the new objects are given by a renaming `ren` (original id -> clone id): the harness reads it off
   the real objects; the theorems hold for every renaming. *)
From Delb.Base Require Import PyStr.
From Delb.Tree Require Import ATree ITree AOps.
From Delb.Conc Require Import CTree COps CGuard.

Definition rename (ren : list (nid * nid)) (x : nid) : nid :=
  match find (fun p => N.eqb (fst p) x) ren with Some p => snd p | None => x end.

Definition clone_tobj (ren : list (nid * nid)) (t : tobj) : tobj := {| t_id := rename ren (t_id t); t_s := t_s t |}.
Definition clone_chain (ren : list (nid * nid)) (ch : chain) : chain := chain_of (map (clone_tobj ren) (chain_texts ch)).
Definition clone_kind (dns : str) (k : ckind) : ckind :=
  match k with KTag ns name attrs => KTag ns name (map (present_attr dns) attrs) | _ => k end.

Fixpoint clone_el (ren : list (nid * nid)) (inh : str) (e : cel) {struct e} : cel :=
  match e with
  | CEl i k own data kids =>
      let dns := in_scope inh own in
      CEl (rename ren i) (clone_kind dns k) None (clone_chain ren data)
          (map (fun kt => match kt with (c, t) => (clone_el ren dns c, clone_chain ren t) end) kids)
  end.
Definition clone_shallow (ren : list (nid * nid)) (inh : str) (e : cel) : cel :=
  match e with
  | CEl i k own _ _ => CEl (rename ren i) (clone_kind (in_scope inh own) k) None no_chain []
  end.

(* locating the node to clone: an element with the default namespace inherited at it, or a text object *)
Definition f_get (x : nid) (inh : str) (e : cel) : option (cel * (cel * str)) :=
  if N.eqb (cid e) x then Some (e, (e, inh)) else None.
Definition f_get_text (x : nid) (_ : str) (e : cel) : option (cel * tobj) :=
  match e with
  | CEl _ _ _ data kids =>
      match split_texts x (chain_texts data) with
      | Some (_, m, _) => Some (e, m)
      | None => match split_kids x kids with
                | Some (_, _, _, KTail _ m _) => Some (e, m)
                | _ => None
                end
      end
  end.
Definition top_els (w : cworld) : list cel :=
  flat_map (fun d => d_pro d ++ d_epi d) (w_docs w).
Definition c_find_el (w : cworld) (x : nid) : option (cel * str) :=
  match cw_rw (f_get x) w with
  | Some (_, r) => Some r
  | None => match find (fun e => N.eqb (cid e) x) (top_els w) with Some e => Some (e, []) | None => None end
  end.
Definition c_find_text (w : cworld) (x : nid) : option tobj :=
  match find (fun l => match l with LText t => is_tobj x t | _ => false end) (w_loose w) with
  | Some (LText t) => Some t
  | _ => match cw_rw (f_get_text x) w with Some (_, t) => Some t | None => None end
  end.

(* node.clone(deep): the clone becomes a new parentless node; nothing else changes *)
Definition c_clone (w : cworld) (x : nid) (deep : bool) (ren : list (nid * nid)) : option cloose :=
  match c_find_el w x with
  | Some (e, inh) => Some (LEl (if deep then clone_el ren inh e else clone_shallow ren inh e))
  | None => match c_find_text w x with Some t => Some (LText (clone_tobj ren t)) | None => None end
  end.
Definition c_clone_step (w : cworld) (x : nid) (deep : bool) (ren : list (nid * nid)) : cworld :=
  match c_clone w x deep ren with Some l => cadd_loose l w | None => w end.

(* Document.clone *)
Definition clone_doc (ren : list (nid * nid)) (d : cdoc) : cdoc :=
  {| d_pro := map (clone_el ren []) (d_pro d); d_root := clone_el ren [] (d_root d);
     d_epi := map (clone_el ren []) (d_epi d) |}.
Definition c_clone_doc_step (w : cworld) (i : nat) (ren : list (nid * nid)) : cworld :=
  match nth_error (w_docs w) i with
  | Some d => {| w_docs := w_docs w ++ [clone_doc ren d]; w_loose := w_loose w |}
  | None => w
  end.

(* the same on the plain tree: a copy with renamed identities *)
Fixpoint a_rename (ren : list (nid * nid)) (t : itree) : itree :=
  match t with INode i p kids => INode (rename ren i) p (map (a_rename ren) kids) end.

(* histories with clone events *)
Inductive event :=
| EvOp (F : filt) (o : op)
| EvClone (x : nid) (deep : bool) (ren : list (nid * nid))
| EvCloneDoc (i : nat) (ren : list (nid * nid)).
Definition cev (w : cworld) (e : event) : cworld * result :=
  match e with
  | EvOp F o => cstep F w o
  | EvClone x deep ren => (c_clone_step w x deep ren, ROk)
  | EvCloneDoc i ren => (c_clone_doc_step w i ren, ROk)
  end.

(* encoding of a history with clone events, for the C10 check *)
From Delb.Conc Require Import CEncode.
Fixpoint cev_hist (w : cworld) (evs : list event) : list N :=
  match evs with
  | [] => []
  | e :: r => let '(w', res) := cev w e in framed (enc_result res) ++ framed (enc_cworld w') ++ cev_hist w' r
  end.

(* for the C10 check: after the first clone event, for every later call and every tree of the world, whether the call's
   updates avoid that tree (the guard of C10_independent) *)
From Delb.Tree Require Import AGuard.
Definition comp_roots (w : world) : list itree := map doc_root (docs w) ++ loose w.
Definition is_clone_ev (e : event) : bool := match e with EvOp _ _ => false | _ => true end.
Fixpoint avoid_report (seen : bool) (w : cworld) (evs : list event) : list N :=
  match evs with
  | [] => []
  | e :: r =>
      framed (match e with
              | EvOp F o =>
                  if seen
                  then flat_map (fun t => [iid t; if run_avoids t (script F o) (abs_world w) then 1%N else 0%N])
                                (comp_roots (abs_world w))
                  else []
              | _ => []
              end)
      ++ avoid_report (seen || is_clone_ev e) (fst (cev w e)) r
  end.
