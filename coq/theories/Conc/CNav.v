(* C05 - the navigation routines of delb-py modelled AS THE CODE WALKS.  Definitions only (facts: CNavFacts.v).

   Layer 1  the object graph.  `heap_top e` lists, for every Python object of the concrete tree `e` (Conc/CTree.v),
            the fields the navigation code reads: for an element wrapper the lxml pointers getnext / getprevious /
            getparent / [0] and its `_tail_node` / `_data_node` heads with their `_exists`; for a TextNode
            `_position`, `_bound_to`, `_appended_text_node`, content.  (Back pointers are implied by the structure,
            DESIGN 3.)
   Layer 2  the pointer primitives, one case per text state, as in _delb/nodes.py:
            `_ElementWrappingNode._fetch_following_sibling`, `TextNode._fetch_following_sibling`
            (`__next_candidate_of_tail`, `__next_candidate_of_last_appended`, `_tail_sequence_head`), the candidate
            computed by `fetch_preceding_sibling` (walking to the end of a chain), `parent`, and the first candidate of
            `TagNode.iterate_children`.
   Layer 3  the walks (Section Walk), written over the primitives only: iterate_children, __len__, __getitem__,
            first/last_child, index, fetch/iterate_*_sibling(s), the explicit-stack loop of iterate_descendants,
            last_descendant, iterate_ancestors and depth (parents tested with `is not None`), _iterate_following (climb to an ancestor's sibling), _iterate_preceding (each
            navigation step under `altered_default_filters()`: independent of the ambient filter), full_text, the three traversers,
            _sort_nodes_in_document_order.
   `D` is the ambient filter `default_filters[-1]` (as one predicate), `F` the filters passed by the caller.
   Every loop has explicit fuel; `OutOfFuel` is excluded by theorem in CNavFacts.v. *)
From Coq Require Import List NArith ZArith Bool.
From Delb.Base Require Import PyStr.
From Delb.Tree Require Import ATree ITree ANav.
From Delb.Conc Require Import CTree.
Import ListNotations.

Definition rbind {A B} (r : res A) (f : A -> res B) : res B :=
  match r with Ok a => f a | Rejected e => Rejected e | Crash e => Crash e | OutOfFuel => OutOfFuel end.
Notation "x <- r ;; k" := (rbind r (fun x => k)) (at level 61, r at next level, right associativity).

(* ------------------------------------------------------------------------------------------------ *)
(* Layer 1: objects *)

Inductive tpos := DATA | TAIL | APPENDED | DETACHED.
Record elobj := { e_tag : bool;
                  e_tail_exists : bool; e_tail_node : option nid;
                  e_getnext : option nid; e_getprevious : option nid; e_getparent : option nid;
                  e_data_exists : bool; e_data_node : option nid;
                  e_first_el : option nid }.                       (* self._etree_obj[0] if len(self._etree_obj) *)
Record txobj := { x_pos : tpos; x_bound_to : nid; x_appended : option nid; x_content : str }.
Inductive cobj := OEl (o : elobj) | OText (o : txobj).
Definition heap := list (nid * cobj).

Definition slot_str (ch : chain) : str := match ch_slot ch with Some s => s | None => [] end.
Definition el_ids (l : list (cel * chain)) : list nid := map (fun kt => cid (fst kt)) l.

Fixpoint app_objs (prev : nid) (l : list tobj) : heap :=
  match l with
  | [] => []
  | t :: r => (t_id t, OText {| x_pos := APPENDED; x_bound_to := prev; x_appended := hd_error (map t_id r);
                                x_content := t_s t |}) :: app_objs (t_id t) r
  end.
Definition chain_objs (pos : tpos) (b : nid) (ch : chain) : heap :=
  match ch_head ch with
  | Some h => (h, OText {| x_pos := pos; x_bound_to := b; x_appended := hd_error (map t_id (ch_app ch));
                           x_content := slot_str ch |}) :: app_objs h (ch_app ch)
  | None => app_objs b (ch_app ch)
  end.

Definition el_obj (e : cel) (tail : chain) (next prev up : option nid) : cobj :=
  OEl {| e_tag := is_ktag (ckind_of e);
         e_tail_exists := ch_exists tail; e_tail_node := ch_head tail;
         e_getnext := next; e_getprevious := prev; e_getparent := up;
         e_data_exists := ch_exists (cdata e); e_data_node := ch_head (cdata e);
         e_first_el := hd_error (el_ids (ckids e)) |}.

Definition heap_kids (rec : option nid -> option nid -> chain -> cel -> heap) :=
  fix go (prev : option nid) (l : list (cel * chain)) : heap :=
    match l with
    | [] => []
    | (c, t) :: r => rec (hd_error (el_ids r)) prev t c ++ chain_objs TAIL (cid c) t ++ go (Some (cid c)) r
    end.
Fixpoint heap_el (up next prev : option nid) (tail : chain) (e : cel) {struct e} : heap :=
  match e with
  | CEl i _ _ data kids =>
      (i, el_obj e tail next prev up) :: chain_objs DATA i data ++ heap_kids (heap_el (Some i)) None kids
  end.
Definition heap_top (e : cel) : heap := heap_el None None None no_chain e.
Definition heap_loose (l : cloose) : heap :=
  match l with
  | LEl e => heap_top e
  | LText t => [(t_id t, OText {| x_pos := DETACHED; x_bound_to := 0%N; x_appended := None; x_content := t_s t |})]
  end.

(* a document: prologue nodes, root element, epilogue nodes are lxml siblings of each other (getnext / getprevious),
   have no tails and no parent.  `docid` is a fresh identity used only to lay the siblings out. *)
Definition doc_cel (docid : nid) (d : cdoc) : cel :=
  CEl docid (KTag [] [] []) None no_chain (map (fun e => (e, no_chain)) (d_pro d ++ d_root d :: d_epi d)).
Definition unparent (docid : nid) (o : cobj) : cobj :=
  match o with
  | OEl e => OEl {| e_tag := e_tag e; e_tail_exists := e_tail_exists e; e_tail_node := e_tail_node e;
                    e_getnext := e_getnext e; e_getprevious := e_getprevious e;
                    e_getparent := match e_getparent e with
                                   | Some p => if N.eqb p docid then None else Some p
                                   | None => None
                                   end;
                    e_data_exists := e_data_exists e; e_data_node := e_data_node e; e_first_el := e_first_el e |}
  | OText _ => o
  end.
(* the entry of `docid` itself stays in the heap but no pointer leads to it *)
Definition heap_doc (docid : nid) (d : cdoc) : heap :=
  map (fun kv => (fst kv, unparent docid (snd kv))) (heap_top (doc_cel docid d)).

Definition lookup (h : heap) (n : nid) : option cobj :=
  option_map snd (find (fun kv => N.eqb (fst kv) n) h).

(* ------------------------------------------------------------------------------------------------ *)
(* Layer 2: pointer primitives *)

Definition h_is_tag (h : heap) (n : nid) : bool := match lookup h n with Some (OEl o) => e_tag o | _ => false end.
Definition h_is_text (h : heap) (n : nid) : bool := match lookup h n with Some (OText _) => true | _ => false end.
Definition h_content (h : heap) (n : nid) : str := match lookup h n with Some (OText o) => x_content o | _ => [] end.
(* `if self._appended_text_node:` - a TextNode is falsy when its content is empty (len) *)
Definition text_truthy (h : heap) (a : option nid) : bool :=
  match a with Some i => h_is_text h i && negb (null (h_content h i)) | None => false end.

Definition first_el_of (h : heap) (e : nid) : res (option nid) :=
  match lookup h e with Some (OEl o) => Ok (e_first_el o) | _ => Crash AttributeError end.
Definition getnext_of (h : heap) (e : nid) : res (option nid) :=
  match lookup h e with Some (OEl o) => Ok (e_getnext o) | _ => Crash AttributeError end.
Definition getparent_of (h : heap) (e : nid) : res (option nid) :=
  match lookup h e with Some (OEl o) => Ok (e_getparent o) | _ => Crash AttributeError end.

(* TextNode._tail_sequence_head *)
Fixpoint tail_sequence_head (fuel : nat) (h : heap) (n : nid) : res (nid * txobj) :=
  match fuel with
  | O => OutOfFuel
  | S f => match lookup h n with
           | Some (OText o) => match x_pos o with
                               | DATA | TAIL => Ok (n, o)
                               | APPENDED => tail_sequence_head f h (x_bound_to o)
                               | DETACHED => Crash InvalidCodePath
                               end
           | _ => Crash AssertionError
           end
  end.

(* _fetch_following_sibling *)
Definition c_next_raw (fuel : nat) (h : heap) (n : nid) : res (option nid) :=
  match lookup h n with
  | None => Crash AttributeError
  | Some (OEl o) => if e_tail_exists o then Ok (e_tail_node o) else Ok (e_getnext o)
  | Some (OText o) =>
      match x_pos o with
      | DETACHED => Ok None
      | pos =>
          if text_truthy h (x_appended o) then Ok (x_appended o)
          else match pos with
               | DATA => first_el_of h (x_bound_to o)                    (* len(bound_to) -> bound_to[0] *)
               | TAIL => getnext_of h (x_bound_to o)                     (* __next_candidate_of_tail *)
               | _ =>                                                    (* __next_candidate_of_last_appended *)
                   hd <- tail_sequence_head fuel h n ;;
                   match x_pos (snd hd) with
                   | DATA => first_el_of h (x_bound_to (snd hd))
                   | TAIL => getnext_of h (x_bound_to (snd hd))
                   | _ => Crash InvalidCodePath
                   end
               end
      end
  end.

(* while candidate._appended_text_node: candidate = candidate._appended_text_node *)
Fixpoint chain_end (fuel : nat) (h : heap) (n : nid) : res nid :=
  match fuel with
  | O => OutOfFuel
  | S f => match lookup h n with
           | Some (OText o) => if text_truthy h (x_appended o)
                               then match x_appended o with Some a => chain_end f h a | None => Ok n end
                               else Ok n
           | _ => Crash AssertionError
           end
  end.
Definition end_of_chain (fuel : nat) (h : heap) (head : option nid) : res (option nid) :=
  match head with Some d => r <- chain_end fuel h d ;; Ok (Some r) | None => Crash AssertionError end.

(* the `candidate` of fetch_preceding_sibling, before the filter test *)
Definition c_prev_cand (fuel : nat) (h : heap) (n : nid) : res (option nid) :=
  match lookup h n with
  | None => Crash AttributeError
  | Some (OEl o) =>
      match e_getprevious o with
      | None => match e_getparent o with
                | None => Ok None
                | Some p => match lookup h p with
                            | Some (OEl po) => if e_data_exists po then end_of_chain fuel h (e_data_node po) else Ok None
                            | _ => Crash AttributeError
                            end
                end
      | Some q => match lookup h q with
                  | Some (OEl qo) => if e_tail_exists qo then end_of_chain fuel h (e_tail_node qo) else Ok (Some q)
                  | _ => Crash AttributeError
                  end
      end
  | Some (OText o) =>
      match x_pos o with
      | DATA | DETACHED => Ok None
      | TAIL | APPENDED => Ok (Some (x_bound_to o))
      end
  end.

(* .parent *)
Definition c_parent (fuel : nat) (h : heap) (n : nid) : res (option nid) :=
  match lookup h n with
  | None => Crash AttributeError
  | Some (OEl o) => Ok (e_getparent o)
  | Some (OText o) =>
      match x_pos o with
      | DATA => Ok (Some (x_bound_to o))
      | TAIL => getparent_of h (x_bound_to o)
      | APPENDED => hd <- tail_sequence_head fuel h n ;;
                    match x_pos (snd hd) with
                    | DATA => Ok (Some (x_bound_to (snd hd)))
                    | TAIL => getparent_of h (x_bound_to (snd hd))
                    | _ => Crash InvalidCodePath
                    end
      | DETACHED => Ok None
      end
  end.

(* first candidate of TagNode.iterate_children *)
Definition c_first_raw (h : heap) (n : nid) : res (option nid) :=
  match lookup h n with
  | Some (OEl o) => if e_data_exists o then Ok (e_data_node o) else Ok (e_first_el o)
  | _ => Crash AttributeError
  end.

(* ------------------------------------------------------------------------------------------------ *)
(* Layer 3: the walks, over the primitives *)

(* _NodesSorter *)
Inductive trie := Trie (node : option nid) (items : list (nat * trie)).
(* the defaultdict is kept ordered by key here; the code sorts the keys when it emits *)
Fixpoint trie_add (path : list nat) (n : nid) (t : trie) {struct path} : trie :=
  match path, t with
  | [], Trie _ items => Trie (Some n) items
  | k :: rest, Trie nd items =>
      Trie nd ((fix go (l : list (nat * trie)) : list (nat * trie) :=
                  match l with
                  | [] => [(k, trie_add rest n (Trie None []))]
                  | (k', sub) :: r =>
                      if Nat.eqb k' k then (k', trie_add rest n sub) :: r
                      else if Nat.ltb k k' then (k, trie_add rest n (Trie None [])) :: (k', sub) :: r
                      else (k', sub) :: go r
                  end) items)
  end.
Fixpoint trie_emit (t : trie) : list nid :=
  match t with
  | Trie nd items =>
      (match nd with Some n => [n] | None => [] end)
      ++ flat_map (fun kv => match kv with (_, sub) => trie_emit sub end) items
  end.

Section Walk.
  Variables first_raw next_raw prev_cand parent : nid -> res (option nid).
  Variables is_tag is_text : nid -> bool.
  Variable content : nid -> str.
  Variable fc : nat.                       (* fuel of inner loops *)

  (* candidate = start; while candidate is not None: if all(filters): yield; candidate = candidate._fetch_following_sibling() *)
  Fixpoint follow (fuel : nat) (P : nfilter) (cand : option nid) : res (list nid) :=
    match fuel with
    | O => OutOfFuel
    | S f => match cand with
             | None => Ok []
             | Some x => nx <- next_raw x ;; l <- follow f P nx ;; Ok (if P x then x :: l else l)
             end
    end.

  Definition w_iterate_children (D F : nfilter) (n : nid) : res (list nid) :=
    if is_tag n then c <- first_raw n ;; follow fc (fand D F) c else Ok [].
  Definition w_len (D : nfilter) (n : nid) : res nat :=
    l <- w_iterate_children D ftrue n ;; Ok (length l).
  Definition w_truthy (D : nfilter) (n : nid) : res bool :=          (* bool(tag_node) *)
    k <- w_len D n ;; Ok (negb (Nat.eqb k 0)).
  Definition w_first_child (D : nfilter) (n : nid) : res (option nid) :=
    l <- w_iterate_children D ftrue n ;; Ok (hd_error l).
  Definition w_last_child (D : nfilter) (n : nid) : res (option nid) :=
    l <- w_iterate_children D ftrue n ;; Ok (last_error l).
  Definition w_getitem (D : nfilter) (n : nid) (i : Z) : res nid :=
    k <- w_len D n ;;
    let item := if (i <? 0)%Z then (Z.of_nat k + i)%Z else i in
    l <- w_iterate_children D ftrue n ;;
    match (if (item <? 0)%Z then None else nth_error l (Z.to_nat item)) with
    | Some x => Ok x
    | None => Crash IndexError
    end.
  Definition w_getslice (D : nfilter) (n : nid) (start stop : option Z) : res (list nid) :=
    l <- w_iterate_children D ftrue n ;; Ok (py_slice l start stop).
  Definition w_index (D : nfilter) (n : nid) : res (option nat) :=
    p <- parent n ;;
    match p with
    | None => Ok None
    | Some p => l <- w_iterate_children D ftrue p ;;
                match index_of n l with Some i => Ok (Some i) | None => Crash InvalidCodePath end
    end.

  (* fetch_following_sibling *)
  Fixpoint fetch_fs (fuel : nat) (P : nfilter) (cand : option nid) : res (option nid) :=
    match fuel with
    | O => OutOfFuel
    | S f => match cand with
             | None => Ok None
             | Some x => if P x then Ok (Some x) else nx <- next_raw x ;; fetch_fs f P nx
             end
    end.
  Definition w_fetch_following_sibling (D F : nfilter) (n : nid) : res (option nid) :=
    c <- next_raw n ;; fetch_fs fc (fand D F) c.
  Fixpoint iter_fs (fuel : nat) (D F : nfilter) (n : nid) : res (list nid) :=
    match fuel with
    | O => OutOfFuel
    | S f => nx <- w_fetch_following_sibling D F n ;;
             match nx with None => Ok [] | Some x => l <- iter_fs f D F x ;; Ok (x :: l) end
    end.
  Definition w_iterate_following_siblings := iter_fs fc.

  (* fetch_preceding_sibling: candidate; test; else recurse on the candidate *)
  Fixpoint fetch_ps (fuel : nat) (P : nfilter) (n : nid) : res (option nid) :=
    match fuel with
    | O => OutOfFuel
    | S f => c <- prev_cand n ;;
             match c with
             | None => Ok None
             | Some x => if P x then Ok (Some x) else fetch_ps f P x
             end
    end.
  Definition w_fetch_preceding_sibling (D F : nfilter) (n : nid) : res (option nid) := fetch_ps fc (fand D F) n.
  Fixpoint iter_ps (fuel : nat) (D F : nfilter) (n : nid) : res (list nid) :=
    match fuel with
    | O => OutOfFuel
    | S f => pv <- w_fetch_preceding_sibling D F n ;;
             match pv with None => Ok [] | Some x => l <- iter_ps f D F x ;; Ok (x :: l) end
    end.
  Definition w_iterate_preceding_siblings := iter_ps fc.

  (* iterate_descendants: the explicit stack; runs inside `with altered_default_filters()`, the filters were read before *)
  Fixpoint desc_loop (fuel : nat) (P : nfilter) (cand : option nid) (stack : list (option nid)) : res (list nid) :=
    match fuel with
    | O => OutOfFuel
    | S f =>
        match cand with
        | None => match stack with [] => Ok [] | s :: st => desc_loop f P s st end
        | Some x =>
            l <- (if is_tag x
                  then nx <- next_raw x ;; c <- w_first_child ftrue x ;; desc_loop f P c (nx :: stack)
                  else nx <- next_raw x ;; desc_loop f P nx stack) ;;
            Ok (if P x then x :: l else l)
        end
    end.
  Definition w_iterate_descendants (fuel : nat) (D F : nfilter) (n : nid) : res (list nid) :=
    if is_tag n then c <- w_first_child ftrue n ;; desc_loop fuel (fand D F) c [] else Ok [].

  (* last_descendant *)
  Fixpoint ld_loop (fuel : nat) (D : nfilter) (node : nid) : res nid :=
    match fuel with
    | O => OutOfFuel
    | S f => c <- w_last_child D node ;; match c with None => Ok node | Some x => ld_loop f D x end
    end.
  Definition w_last_descendant (D : nfilter) (n : nid) : res (option nid) :=
    c <- w_last_child D n ;; match c with None => Ok None | Some x => r <- ld_loop fc D x ;; Ok (Some r) end.

  (* iterate_ancestors: `if parent is not None:` (the ambient filter is not consulted) *)
  Fixpoint anc_loop (fuel : nat) (F : nfilter) (n : nid) : res (list nid) :=
    match fuel with
    | O => OutOfFuel
    | S f => p <- parent n ;;
             match p with
             | None => Ok []
             | Some p => r <- anc_loop f F p ;; Ok (if F p then p :: r else r)
             end
    end.
  Definition w_iterate_ancestors := anc_loop fc.

  (* depth: TagNode counts `while node.parent is not None:`; the others: 0 without parent, else parent.depth + 1 *)
  Fixpoint tag_depth (fuel : nat) (node : nid) (acc : nat) : res nat :=
    match fuel with
    | O => OutOfFuel
    | S f => p <- parent node ;;
             match p with
             | None => Ok acc
             | Some p => tag_depth f p (S acc)
             end
    end.
  Definition w_depth (n : nid) : res nat :=
    if is_tag n then tag_depth fc n 0
    else p <- parent n ;;
         match p with
         | None => Ok 0%nat                                   (* `if parent is None: return 0` *)
         | Some p => d <- tag_depth fc p 0 ;; Ok (S d)
         end.

  (* .document: a TagNode takes the top of its ancestor chain (itself without parent) and reads its `__document__`;
     the others ask their parent, and have none without parent.  Modelled up to the node that carries `__document__`. *)
  Definition w_document_root (n : nid) : res (option nid) :=
    p <- parent n ;;
    match p with
    | None => Ok (if is_tag n then Some n else None)
    | Some q => if is_tag n then l <- w_iterate_ancestors ftrue n ;; Ok (last_error l)
                else pp <- parent q ;;
                     match pp with
                     | None => Ok (Some q)
                     | Some _ => l <- w_iterate_ancestors ftrue q ;; Ok (last_error l)
                     end
    end.

  (* TagNode.location_path: inside `with altered_default_filters(is_tag_node):` - the caller's ambient filter is
     replaced - the ancestors without the root, reversed, then the node; each step is its index + 1.
     Result: the list of step numbers ([] stands for "/*"). *)
  Definition map_res {A B} (f : A -> res B) :=
    fix go (l : list A) : res (list B) :=
      match l with [] => Ok [] | x :: r => y <- f x ;; ys <- go r ;; Ok (y :: ys) end.
  Definition w_location_path (n : nid) : res (list nat) :=
    p <- parent n ;;
    match p with
    | None => Ok []
    | Some _ =>
        anc <- w_iterate_ancestors ftrue n ;;
        map_res (fun x => i <- w_index is_tag x ;; match i with Some k => Ok (S k) | None => Crash TypeError end)
                (rev (removelast anc) ++ [n])
    end.

  (* _iterate_following *)
  Fixpoint climb (fuel : nat) (node : nid) : res (option nid) :=       (* next_sibling_of_an_ancestor *)
    match fuel with
    | O => OutOfFuel
    | S f => p <- parent node ;;
             match p with
             | None => Ok None
             | Some p => pn <- next_raw p ;; match pn with None => climb f p | Some x => Ok (Some x) end
             end
    end.
  Fixpoint fol_loop (fuel : nat) (D : nfilter) (pointer : nid) : res (list nid) :=
    match fuel with
    | O => OutOfFuel
    | S f =>
        c <- w_first_child D pointer ;;
        nx <- match c with
              | Some x => Ok (Some x)
              | None => s <- next_raw pointer ;; match s with Some x => Ok (Some x) | None => climb fc pointer end
              end ;;
        match nx with None => Ok [] | Some x => r <- fol_loop f D x ;; Ok (x :: r) end
    end.
  Definition w_iterate_following (fuel : nat) (D F : nfilter) (n : nid) : res (list nid) :=
    l <- fol_loop fuel D n ;; Ok (filter (fand D F) l).

  (* _iterate_preceding: every navigation step runs inside `with altered_default_filters():`, so the walk sees all
     nodes whatever the caller's ambient filter is; iterate_preceding then tests the passed filters only *)
  Definition concat_res (rec : nid -> res (list nid)) (post : bool) :=
    fix go (l : list nid) : res (list nid) :=
      match l with
      | [] => Ok []
      | c :: r => a <- rec c ;; b <- go r ;; Ok (if post then a ++ c :: b else a ++ b)
      end.
  Fixpoint rev_sub (fuel : nat) (node : nid) : res (list nid) :=      (* iter_children(node) *)
    match fuel with
    | O => OutOfFuel
    | S f => kids <- w_iterate_children ftrue ftrue node ;; concat_res (rev_sub f) true (rev kids)
    end.
  Fixpoint prec_loop (fuel : nat) (pointer : nid) : res (list nid) :=
    match fuel with
    | O => OutOfFuel
    | S f =>
        p <- fetch_ps fc (fand ftrue ftrue) pointer ;;
        match p with
        | Some q => a <- rev_sub fc q ;; r <- prec_loop f q ;; Ok (a ++ q :: r)
        | None => up <- parent pointer ;;
                  match up with None => Ok [] | Some u => r <- prec_loop f u ;; Ok (u :: r) end
        end
    end.
  Definition w_iterate_preceding (fuel : nat) (F : nfilter) (n : nid) : res (list nid) :=
    l <- prec_loop fuel n ;; Ok (filter F l).

  (* fetch_following / fetch_preceding: the first item of the axis iterator, None on StopIteration *)
  Definition w_fetch_following (fuel : nat) (D F : nfilter) (n : nid) : res (option nid) :=
    l <- w_iterate_following fuel D F n ;; Ok (hd_error l).
  Definition w_fetch_preceding (fuel : nat) (F : nfilter) (n : nid) : res (option nid) :=
    l <- w_iterate_preceding fuel F n ;; Ok (hd_error l).

  (* full_text *)
  Definition w_full_text (fuel : nat) (D : nfilter) (n : nid) : res str :=
    if is_tag n then l <- w_iterate_descendants fuel D ftrue n ;;
                     Ok (flat_map (fun i => if is_text i then content i else []) l)
    else if is_text n then Ok (content n) else Ok [].

  (* utils.traverse_bf_ltr_ttb / traverse_df_ltr_btt / traverse_df_ltr_ttb *)
  Fixpoint bf_loop (fuel : nat) (D F : nfilter) (queue : list nid) : res (list nid) :=
    match fuel with
    | O => OutOfFuel
    | S f => match queue with
             | [] => Ok []
             | node :: q => ext <- (if is_tag node then w_iterate_children D ftrue node else Ok []) ;;
                            r <- bf_loop f D F (q ++ ext) ;; Ok (if F node then node :: r else r)
             end
    end.
  Definition w_traverse_bf (fuel : nat) (D F : nfilter) (root : nid) : res (list nid) :=
    q <- w_iterate_children D ftrue root ;; r <- bf_loop fuel D F q ;; Ok (if F root then root :: r else r).
  (* yield_children: all children (ambient filter only), then the node itself if it is the given root or matches *)
  Fixpoint btt (fuel : nat) (D F : nfilter) (root node : nid) : res (list nid) :=
    match fuel with
    | O => OutOfFuel
    | S f => kids <- w_iterate_children D ftrue node ;; r <- concat_res (btt f D F root) false kids ;;
             Ok (if N.eqb node root || F node then r ++ [node] else r)
    end.
  Definition w_traverse_df_btt (fuel : nat) (D F : nfilter) (root : nid) : res (list nid) := btt fuel D F root root.
  Definition w_traverse_df_ttb (fuel : nat) (D F : nfilter) (root : nid) : res (list nid) :=
    l <- w_iterate_descendants fuel D F root ;; Ok (root :: l).

  (* utils._sort_nodes_in_document_order (tag nodes only): index path of every node, trie, emit *)
  Fixpoint index_path (fuel : nat) (D : nfilter) (cursor : nid) (acc : list nat) : res (list nat) :=
    match fuel with
    | O => OutOfFuel
    | S f => p <- parent cursor ;;
             match p with
             | None => Ok acc                                  (* acc is already reversed: outermost first *)
             | Some p => i <- w_index D cursor ;;
                         match i with Some k => index_path f D p (k :: acc) | None => Crash AssertionError end
             end
    end.
  Fixpoint sort_add (D : nfilter) (nodes : list nid) (t : trie) : res trie :=
    match nodes with
    | [] => Ok t
    | n :: r => if is_tag n then path <- index_path fc D n [] ;; sort_add D r (trie_add path n t)
                else Crash OtherError                           (* NotImplementedError *)
    end.
  Definition w_sort (D : nfilter) (nodes : list nid) : res (list nid) :=
    t <- sort_add D nodes (Trie None []) ;; Ok (trie_emit t).
End Walk.

(* ------------------------------------------------------------------------------------------------ *)
(* the routines on a concrete tree *)

Definition c_fuel_h (h : heap) : nat := 2 * length h + 2.

Section OnHeap.
  Variable h : heap.
  Let fu := c_fuel_h h.
  Let FR := c_first_raw h.
  Let NX := c_next_raw fu h.
  Let PV := c_prev_cand fu h.
  Let PA := c_parent fu h.
  Let TG := h_is_tag h.
  Let TX := h_is_text h.
  Let CT := h_content h.

  Definition h_iterate_children := w_iterate_children FR NX TG fu.
  Definition h_len := w_len FR NX TG fu.
  Definition h_first_child := w_first_child FR NX TG fu.
  Definition h_last_child := w_last_child FR NX TG fu.
  Definition h_getitem := w_getitem FR NX TG fu.
  Definition h_getslice := w_getslice FR NX TG fu.
  Definition h_index := w_index FR NX PA TG fu.
  Definition h_parent := PA.
  Definition h_fetch_following_sibling := w_fetch_following_sibling NX fu.
  Definition h_iterate_following_siblings := w_iterate_following_siblings NX fu.
  Definition h_fetch_preceding_sibling := w_fetch_preceding_sibling PV fu.
  Definition h_iterate_preceding_siblings := w_iterate_preceding_siblings PV fu.
  Definition h_iterate_descendants := w_iterate_descendants FR NX TG fu fu.
  Definition h_last_descendant := w_last_descendant FR NX TG fu.
  Definition h_iterate_ancestors (D : nfilter) := w_iterate_ancestors PA fu.      (* D: not consulted *)
  Definition h_depth (D : nfilter) := w_depth PA TG fu.
  Definition h_document_root (D : nfilter) := w_document_root PA TG fu.          (* D: not consulted *)
  Definition h_location_path (D : nfilter) := w_location_path FR NX PA TG fu.    (* D: replaced by is_tag_node *)
  Definition h_iterate_following := w_iterate_following FR NX PA TG fu fu.
  Definition h_iterate_preceding (D : nfilter) := w_iterate_preceding FR NX PV PA TG fu fu.     (* D: not consulted *)
  Definition h_fetch_following := w_fetch_following FR NX PA TG fu fu.
  Definition h_fetch_preceding (D : nfilter) := w_fetch_preceding FR NX PV PA TG fu fu.
  Definition h_full_text := w_full_text FR NX TG TX CT fu fu.
  Definition h_traverse_bf := w_traverse_bf FR NX TG fu fu.
  Definition h_traverse_df_btt := w_traverse_df_btt FR NX TG fu fu.
  Definition h_traverse_df_ttb := w_traverse_df_ttb FR NX TG fu fu.
  Definition h_sort := w_sort FR NX PA TG fu.
End OnHeap.

(* on a tree rooted in an element (a document root without root-level siblings, or a parentless element) *)
Definition c_iterate_children (e : cel) := h_iterate_children (heap_top e).
Definition c_len (e : cel) := h_len (heap_top e).
Definition c_first_child (e : cel) := h_first_child (heap_top e).
Definition c_last_child (e : cel) := h_last_child (heap_top e).
Definition c_getitem (e : cel) := h_getitem (heap_top e).
Definition c_getslice (e : cel) := h_getslice (heap_top e).
Definition c_index (e : cel) := h_index (heap_top e).
Definition c_parent_of (e : cel) := h_parent (heap_top e).
Definition c_fetch_following_sibling (e : cel) := h_fetch_following_sibling (heap_top e).
Definition c_iterate_following_siblings (e : cel) := h_iterate_following_siblings (heap_top e).
Definition c_fetch_preceding_sibling (e : cel) := h_fetch_preceding_sibling (heap_top e).
Definition c_iterate_preceding_siblings (e : cel) := h_iterate_preceding_siblings (heap_top e).
Definition c_iterate_descendants (e : cel) := h_iterate_descendants (heap_top e).
Definition c_last_descendant (e : cel) := h_last_descendant (heap_top e).
Definition c_iterate_ancestors (e : cel) := h_iterate_ancestors (heap_top e).
Definition c_depth (e : cel) := h_depth (heap_top e).
Definition c_document_root (e : cel) := h_document_root (heap_top e).
Definition c_location_path (e : cel) := h_location_path (heap_top e).
Definition c_iterate_following (e : cel) := h_iterate_following (heap_top e).
Definition c_iterate_preceding (e : cel) := h_iterate_preceding (heap_top e).
Definition c_fetch_following (e : cel) := h_fetch_following (heap_top e).
Definition c_fetch_preceding (e : cel) := h_fetch_preceding (heap_top e).
Definition c_full_text (e : cel) := h_full_text (heap_top e).
Definition c_traverse_bf (e : cel) := h_traverse_bf (heap_top e).
Definition c_traverse_df_btt (e : cel) := h_traverse_df_btt (heap_top e).
Definition c_traverse_df_ttb (e : cel) := h_traverse_df_ttb (heap_top e).
Definition c_sort (e : cel) := h_sort (heap_top e).

(* ------------------------------------------------------------------------------------------------ *)
(* encodings for the harness (results as `list N`) *)
Definition enc_opt (o : option nid) : list N := match o with Some i => [1; i]%N | None => [0%N] end.
Definition enc_res {A} (enc : A -> list N) (r : res A) : list N :=
  match r with
  | Ok a => 0%N :: enc a
  | Rejected _ => [1%N]
  | Crash IndexError => [2; 1]%N
  | Crash InvalidCodePath => [2; 2]%N
  | Crash AttributeError => [2; 3]%N
  | Crash _ => [2; 0]%N
  | OutOfFuel => [3%N]
  end.
Definition enc_ids (l : list nid) : list N := l.
Definition enc_nat (n : nat) : list N := [N.of_nat n].
Definition enc_optnat (o : option nat) : list N := match o with Some i => [1%N; N.of_nat i] | None => [0%N] end.
Definition enc_bool (b : bool) : list N := [if b then 1%N else 0%N].
Definition in_list (l : list nid) : nfilter := fun i => memb i l.
