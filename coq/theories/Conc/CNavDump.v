(* C05 - evaluation drivers for the check (definitions only): every navigation result of every node of a tree as one
   `list N`, once computed by the concrete model (Conc/CNav.v) and once by the specification (Tree/ANav.v).
   Frame = [tag; aux; length; payload...].  harness/props/c05.py computes the same frames from the real API. *)
From Coq Require Import List NArith ZArith Bool.
From Delb.Base Require Import PyStr.
From Delb.Tree Require Import ATree ITree ANav.
From Delb.Conc Require Import CTree CNav.
Import ListNotations.

Definition frame (tag aux : N) (payload : list N) : list N := tag :: aux :: N.of_nat (length payload) :: payload.
Definition enc_str (s : str) : list N := s.
Definition enc_id (i : nid) : list N := [i].

Definition SLICES : list (option Z * option Z) :=
  [(None, None); (Some 0%Z, Some 2%Z); (Some 1%Z, None); (None, Some (-1)%Z); (Some (-2)%Z, None); (Some 1%Z, Some 3%Z)].
Definition item_range (k : nat) : list (N * Z) :=          (* -(k+1) .. k *)
  map (fun j => (N.of_nat j, (Z.of_nat j - Z.of_nat (S k))%Z)) (seq 0 (2 * k + 2)).
Fixpoint numbered {A} (i : N) (l : list A) : list (N * A) :=
  match l with [] => [] | x :: r => (i, x) :: numbered (N.succ i) r end.

(* ---- concrete model ---- *)
Definition c_dump_node (h : heap) (D : nfilter) (Fs : list nfilter) (kcount : nid -> nat) (n : nid) : list N :=
  frame 100 0 [n]
  ++ (if h_is_tag h n
      then frame 2 0 (enc_res enc_nat (h_len h D n))
           ++ flat_map (fun jz => frame 5 (fst jz) (enc_res enc_id (h_getitem h D n (snd jz)))) (item_range (kcount n))
           ++ flat_map (fun sl => frame 6 (fst sl) (enc_res enc_ids (h_getslice h D n (fst (snd sl)) (snd (snd sl)))))
                (numbered 0 SLICES)
      else [])
  ++ frame 3 0 (enc_res enc_opt (h_first_child h D n))
  ++ frame 4 0 (enc_res enc_opt (h_last_child h D n))
  ++ frame 7 0 (enc_res enc_optnat (h_index h D n))
  ++ frame 8 0 (enc_res enc_opt (h_parent h n))
  ++ frame 14 0 (enc_res enc_opt (h_last_descendant h D n))
  ++ frame 16 0 (enc_res enc_nat (h_depth h D n))
  ++ frame 19 0 (enc_res enc_str (h_full_text h D n))
  ++ frame 26 0 (enc_res (map N.of_nat) (h_location_path h D n))
  ++ frame 27 0 (enc_res enc_opt (h_document_root h D n))
  ++ flat_map (fun fF => let i := fst fF in let F := snd fF in
       frame 1 i (enc_res enc_ids (h_iterate_children h D F n))
       ++ frame 9 i (enc_res enc_opt (h_fetch_following_sibling h D F n))
       ++ frame 10 i (enc_res enc_ids (h_iterate_following_siblings h D F n))
       ++ frame 11 i (enc_res enc_opt (h_fetch_preceding_sibling h D F n))
       ++ frame 12 i (enc_res enc_ids (h_iterate_preceding_siblings h D F n))
       ++ frame 13 i (enc_res enc_ids (h_iterate_descendants h D F n))
       ++ frame 15 i (enc_res enc_ids (h_iterate_ancestors h D F n))
       ++ frame 17 i (enc_res enc_ids (h_iterate_following h D F n))
       ++ frame 18 i (enc_res enc_ids (h_iterate_preceding h D F n))
       ++ frame 24 i (enc_res enc_opt (h_fetch_following h D F n))
       ++ frame 25 i (enc_res enc_opt (h_fetch_preceding h D F n))
       ++ frame 20 i (enc_res enc_ids (h_traverse_bf h D F n))
       ++ frame 21 i (enc_res enc_ids (h_traverse_df_btt h D F n))
       ++ frame 22 i (enc_res enc_ids (h_traverse_df_ttb h D F n)))
     (numbered 0 Fs).

Definition c_dump (e : cel) (D : list nid) (Fs : list (list nid)) (nodes : list nid) (to_sort : list nid) : list N :=
  let h := heap_top e in
  let kc := fun n => match h_len h ftrue n with Ok k => k | _ => 0%nat end in
  flat_map (c_dump_node h (in_list D) (map in_list Fs) kc) nodes
  ++ frame 23 0 (enc_res enc_ids (h_sort h (in_list D) to_sort)).
Definition c_dump_doc (docid : nid) (d : cdoc) (D : list nid) (Fs : list (list nid)) (nodes : list nid) (to_sort : list nid) : list N :=
  let h := heap_doc docid d in
  let kc := fun n => match h_len h ftrue n with Ok k => k | _ => 0%nat end in
  flat_map (c_dump_node h (in_list D) (map in_list Fs) kc) nodes
  ++ frame 23 0 (enc_res enc_ids (h_sort h (in_list D) to_sort)).
Definition c_dump_loose_text (t : tobj) (D : list nid) (Fs : list (list nid)) : list N :=
  let h := heap_loose (LText t) in
  c_dump_node h (in_list D) (map in_list Fs) (fun _ => 0%nat) (t_id t)
  ++ frame 23 0 (enc_res enc_ids (h_sort h (in_list D) [])).

(* ---- specification: what each relation has to return under ambient filter D and passed filter F ---- *)
Definition ok {A} (enc : A -> list N) (a : A) : list N := 0%N :: enc a.
Definition a_dump_node (t : itree) (D : nfilter) (Fs : list nfilter) (n : nid) : list N :=
  let kids := filter D (a_children t n) in
  let root_first := fun (l : list nid) (P : nfilter) =>
                      match l with [] => [] | r :: rest => r :: filter P rest end in
  frame 100 0 [n]
  ++ (if a_is_tag t n
      then frame 2 0 (ok enc_nat (length kids))
           ++ flat_map (fun jz => frame 5 (fst jz)
                                    (match py_index kids (snd jz) with Some x => ok enc_id x | None => [2; 1]%N end))
                (item_range (a_len t n))
           ++ flat_map (fun sl => frame 6 (fst sl) (ok enc_ids (py_slice kids (fst (snd sl)) (snd (snd sl)))))
                (numbered 0 SLICES)
      else [])
  ++ frame 3 0 (ok enc_opt (hd_error kids))
  ++ frame 4 0 (ok enc_opt (last_error kids))
  ++ frame 7 0 (ok enc_optnat (match a_parent t n with
                              | Some _ => index_of n (filter D (a_siblings t n))
                              | None => None end))
  ++ frame 8 0 (ok enc_opt (a_parent t n))
  ++ frame 14 0 (ok enc_opt (last_error (filter D (a_descendants t n))))
  ++ frame 16 0 (ok enc_nat (a_depth t n))
  ++ frame 19 0 (ok enc_str (if a_is_text t n then a_text t n else a_text_concat t (filter D (a_descendants t n))))
  ++ flat_map (fun fF => let i := fst fF in let F := snd fF in let P := fand D F in
       frame 1 i (ok enc_ids (filter P (a_children t n)))
       ++ frame 9 i (ok enc_opt (hd_error (filter P (a_fsibs t n))))
       ++ frame 10 i (ok enc_ids (filter P (a_fsibs t n)))
       ++ frame 11 i (ok enc_opt (hd_error (filter P (a_psibs t n))))
       ++ frame 12 i (ok enc_ids (filter P (a_psibs t n)))
       ++ frame 13 i (ok enc_ids (filter P (a_descendants t n)))
       ++ frame 15 i (ok enc_ids (filter F (a_ancestors t n)))
       ++ frame 17 i (ok enc_ids (filter P (a_following t n)))
       ++ frame 18 i (ok enc_ids (filter F (a_preceding t n)))      (* the ambient filter does not apply *)
       ++ frame 24 i (ok enc_opt (hd_error (filter P (a_following t n))))
       ++ frame 25 i (ok enc_opt (hd_error (filter F (a_preceding t n))))
       (* traversers: the given root is always part of the enumeration; the rest is the documented order *)
       ++ frame 20 i (ok enc_ids (root_first (a_bf_ttb t n) P))
       ++ frame 21 i (ok enc_ids (filter (fun x => N.eqb x n || P x) (a_df_btt t n)))
       ++ frame 22 i (ok enc_ids (root_first (a_df_ttb t n) P)))
     (numbered 0 Fs).
Definition a_dump (t : itree) (D : list nid) (Fs : list (list nid)) (nodes : list nid) (to_sort : list nid) : list N :=
  flat_map (a_dump_node t (in_list D) (map in_list Fs)) nodes
  ++ frame 23 0 (ok enc_ids (a_doc_sort t to_sort)).
