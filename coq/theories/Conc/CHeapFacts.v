(* C05 - the pointer primitives of Conc/CNav.v, evaluated on the object graph of a well-formed concrete tree,
   return what the abstract tree `abs_el inh c` determines (next / previous sibling, parent, first child). *)
From Coq Require Import List NArith ZArith Bool Lia.
From Delb.Base Require Import PyStr.
From Delb.Tree Require Import ATree ITree ANav ANavFacts.
From Delb.Conc Require Import CTree CNav.
Import ListNotations.

(* ---------------------------------------------------------------- the child sequence of an element *)
Definition kitem (kt : cel * chain) : list nid := cid (fst kt) :: map t_id (chain_texts (snd kt)).
Definition c_items (e : cel) : list nid := map t_id (chain_texts (cdata e)) ++ flat_map kitem (ckids e).
Fixpoint c_subels (e : cel) : list cel :=
  match e with CEl _ _ _ _ kids => e :: flat_map (fun kt => match kt with (k, _) => c_subels k end) kids end.

Lemma abs_iid inh e : iid (abs_el inh e) = cid e.
Proof. destruct e. reflexivity. Qed.
Lemma map_iid_atext l : map iid (map atext l) = map t_id l.
Proof. rewrite map_map. reflexivity. Qed.
Lemma abs_kid_ids inh e : kid_ids (abs_el inh e) = c_items e.
Proof.
  destruct e as [i k own data kids]. unfold kid_ids, c_items. cbn [abs_el ikids cdata ckids].
  rewrite map_app, map_iid_atext. f_equal.
  induction kids as [|[c tl] r IH]; [reflexivity|]. cbn [flat_map]. rewrite map_app, IH. f_equal.
  unfold kitem. cbn [fst snd map]. rewrite abs_iid, map_iid_atext. reflexivity.
Qed.
Lemma self_in_subels e : In e (c_subels e).
Proof. destruct e. left. reflexivity. Qed.
Lemma subels_kid e k tl e' : In (k, tl) (ckids e) -> In e' (c_subels k) -> In e' (c_subels e).
Proof.
  intros Hk He. destruct e as [i kd own data kids]. cbn [c_subels]. right. apply in_flat_map. exists (k, tl). auto.
Qed.

Lemma subels_trans c : forall e x, In e (c_subels c) -> In x (c_subels e) -> In x (c_subels c).
Proof.
  induction c as [i k own data kids IH] using cel_ind'. intros e x He Hx. cbn [c_subels] in He.
  destruct He as [<-|He]; [exact Hx|]. apply in_flat_map in He. destruct He as [[y ty] [Hy He]].
  rewrite Forall_forall in IH. cbn [c_subels]. right. apply in_flat_map. exists (y, ty). split; [exact Hy|].
  exact (IH (y, ty) Hy e x He Hx).
Qed.
Lemma subel_subtree c : forall inh e, In e (c_subels c) -> exists inh', In (abs_el inh' e) (subtrees (abs_el inh c)).
Proof.
  induction c as [i k own data kids IH] using cel_ind'. intros inh e He. cbn [c_subels] in He.
  destruct He as [<-|He]; [exists inh; apply self_in_subtrees|].
  apply in_flat_map in He. destruct He as [[c tl] [Hc He]]. rewrite Forall_forall in IH.
  destruct (IH (c, tl) Hc (in_scope inh own) e He) as [inh' Hin]. exists inh'.
  cbn [abs_el]. rewrite subtrees_unfold. right. apply in_flat_map. exists (abs_el (in_scope inh own) c). split; [|exact Hin].
  apply in_or_app. right. apply in_flat_map. exists (c, tl). split; [exact Hc|left; reflexivity].
Qed.

(* every node of the abstract tree is the root or sits in the child sequence of a sub-element *)
Lemma ids_abs_place c : forall inh n, In n (ids (abs_el inh c)) ->
  n = cid c \/ exists e, In e (c_subels c) /\ In n (c_items e).
Proof.
  induction c as [i k own data kids IH] using cel_ind'. intros inh n Hn.
  cbn [abs_el] in Hn. rewrite ids_unfold in Hn. destruct Hn as [<-|Hn]; [left; reflexivity|]. right.
  rewrite flat_map_app in Hn. apply in_app_or in Hn. destruct Hn as [Hn|Hn].
  - exists (CEl i k own data kids). split; [apply self_in_subels|]. unfold c_items. cbn [cdata]. apply in_or_app. left.
    apply in_flat_map in Hn. destruct Hn as [x [Hx Hn]]. apply in_map_iff in Hx. destruct Hx as [tx [<- Htx]].
    cbn in Hn. destruct Hn as [<-|[]]. apply in_map. exact Htx.
  - apply in_flat_map in Hn. destruct Hn as [x [Hx Hn]]. apply in_flat_map in Hx. destruct Hx as [[c tl] [Hc Hx]].
    destruct Hx as [<-|Hx].
    + rewrite Forall_forall in IH. destruct (IH (c, tl) Hc _ n Hn) as [->|[e [He Hin]]].
      * exists (CEl i k own data kids). split; [apply self_in_subels|]. unfold c_items. cbn [ckids]. apply in_or_app. right.
        apply in_flat_map. exists (c, tl). split; [exact Hc|left; reflexivity].
      * exists e. split; [|exact Hin]. exact (subels_kid (CEl i k own data kids) c tl e Hc He).
    + apply in_map_iff in Hx. destruct Hx as [tx [<- Htx]]. cbn in Hn. destruct Hn as [<-|[]].
      exists (CEl i k own data kids). split; [apply self_in_subels|]. unfold c_items. cbn [ckids]. apply in_or_app. right.
      apply in_flat_map. exists (c, tl). split; [exact Hc|]. right. apply in_map. exact Htx.
Qed.

(* ---------------------------------------------------------------- heap: keys and membership *)
Lemma app_objs_keys : forall l p, map fst (app_objs p l) = map t_id l.
Proof. induction l as [|x r IH]; intros p; [reflexivity|]. cbn. rewrite IH. reflexivity. Qed.
Lemma chain_objs_keys pos b ch : map fst (chain_objs pos b ch) = chain_ids ch.
Proof. unfold chain_objs, chain_ids. destruct (ch_head ch); cbn; rewrite app_objs_keys; reflexivity. Qed.
Lemma heap_kids_cons rec prev c tl r :
  heap_kids rec prev ((c, tl) :: r) = rec (hd_error (el_ids r)) prev tl c ++ chain_objs TAIL (cid c) tl ++ heap_kids rec (Some (cid c)) r.
Proof. reflexivity. Qed.
Lemma heap_el_unfold up nx pv tl i k own data kids :
  heap_el up nx pv tl (CEl i k own data kids) =
  (i, el_obj (CEl i k own data kids) tl nx pv up) :: chain_objs DATA i data ++ heap_kids (heap_el (Some i)) None kids.
Proof. reflexivity. Qed.
Lemma heap_keys e : forall up nx pv tl, map fst (heap_el up nx pv tl e) = cel_ids e.
Proof.
  induction e as [i k own data kids IH] using cel_ind'. intros up nx pv tl. rewrite heap_el_unfold. cbn [map fst cel_ids].
  f_equal. rewrite map_app, chain_objs_keys. f_equal. generalize (@None nid) as prev.
  induction IH as [|[c t] r Hc _ IHr]; intros prev; [reflexivity|].
  rewrite heap_kids_cons. cbn [flat_map]. rewrite !map_app, Hc, chain_objs_keys, IHr, <- app_assoc. reflexivity.
Qed.

Lemma lookup_in (h : heap) n o : NoDup (map fst h) -> In (n, o) h -> lookup h n = Some o.
Proof.
  intros Hnd Hin. unfold lookup. rewrite (find_unique (fun kv => N.eqb (fst kv) n) h (n, o)); [reflexivity|exact Hin|apply N.eqb_refl|].
  intros y Hy E. apply N.eqb_eq in E. exact (nodup_map_inj fst h y (n, o) Hnd Hy Hin E).
Qed.

Definition prev_of (prev : option nid) (k1 : list (cel * chain)) : option nid :=
  match last_error (el_ids k1) with Some q => Some q | None => prev end.
Lemma last_error_none {A} (l : list A) : last_error l = None -> l = [].
Proof. induction l as [|x r IH]; [reflexivity|]. destruct r as [|y r']; [discriminate|]. intros H. apply IH in H. discriminate. Qed.
Lemma last_error_cons {A} (x : A) l : last_error (x :: l) = match last_error l with Some y => Some y | None => Some x end.
Proof.
  destruct l as [|y r]; [reflexivity|]. change (last_error (x :: y :: r)) with (last_error (y :: r)).
  destruct (last_error (y :: r)) eqn:E; [reflexivity|]. apply last_error_none in E. discriminate.
Qed.

Lemma heap_el_head up nx pv tl e : In (cid e, el_obj e tl nx pv up) (heap_el up nx pv tl e).
Proof. destruct e. left. reflexivity. Qed.
(* what the kid at a split of the kids list contributes *)
Lemma heap_kids_split up : forall k1 prev x tx k2,
  incl (heap_el up (hd_error (el_ids k2)) (prev_of prev k1) tx x ++ chain_objs TAIL (cid x) tx)
       (heap_kids (heap_el up) prev (k1 ++ (x, tx) :: k2)).
Proof.
  induction k1 as [|[y ty] k1' IH]; intros prev x tx k2 o Ho.
  - cbn [app]. rewrite heap_kids_cons. unfold prev_of in Ho. cbn in Ho. rewrite app_assoc. apply in_or_app. left. exact Ho.
  - cbn [app]. rewrite heap_kids_cons. apply in_or_app. right. apply in_or_app. right.
    apply (IH (Some (cid y))). unfold prev_of in *. cbn [el_ids map fst] in Ho. rewrite last_error_cons in Ho.
    fold (el_ids k1') in Ho. destruct (last_error (el_ids k1')); exact Ho.
Qed.

(* objects of a sub-element are objects of the tree *)
Lemma heap_sub c : forall up nx pv tl e, In e (c_subels c) ->
  exists up' nx' pv' tl', incl (heap_el up' nx' pv' tl' e) (heap_el up nx pv tl c).
Proof.
  induction c as [i k own data kids IH] using cel_ind'. intros up nx pv tl e He. cbn [c_subels] in He.
  destruct He as [<-|He]; [exists up, nx, pv, tl; apply incl_refl|].
  apply in_flat_map in He. destruct He as [[x tx] [Hx He]]. rewrite Forall_forall in IH.
  destruct (in_split _ _ Hx) as [k1 [k2 E]].
  destruct (IH (x, tx) Hx (Some i) (hd_error (el_ids k2)) (prev_of None k1) tx e He) as [up' [nx' [pv' [tl' Hincl]]]].
  exists up', nx', pv', tl'. intros o Ho. rewrite heap_el_unfold. right. apply in_or_app. right. rewrite E.
  apply (heap_kids_split (Some i) k1 None x tx k2). apply in_or_app. left. apply Hincl. exact Ho.
Qed.

Section Tree.
  Variable c : cel.
  Hypothesis Hok : el_ok c = true.
  Hypothesis Hnd : NoDup (cel_ids c).
  Let h := heap_top c.

  Lemma h_keys : NoDup (map fst h).
  Proof. unfold h, heap_top. rewrite heap_keys. exact Hnd. Qed.
  Lemma h_lookup n o : In (n, o) h -> lookup h n = Some o.
  Proof. apply lookup_in. exact h_keys. Qed.

  (* the object of a sub-element, and of the kid at a split, with its chains *)
  Lemma subel_obj e : In e (c_subels c) -> exists up nx pv tl, lookup h (cid e) = Some (el_obj e tl nx pv up).
  Proof.
    intros He. destruct (heap_sub c None None None no_chain e He) as [up [nx [pv [tl Hincl]]]].
    exists up, nx, pv, tl. apply h_lookup. apply Hincl. apply heap_el_head.
  Qed.
  Lemma subel_data e : In e (c_subels c) -> incl (chain_objs DATA (cid e) (cdata e)) h.
  Proof.
    intros He. destruct (heap_sub c None None None no_chain e He) as [up [nx [pv [tl Hincl]]]].
    intros o Ho. apply Hincl. destruct e as [i k own data kids]. rewrite heap_el_unfold. right. apply in_or_app. left. exact Ho.
  Qed.
  Lemma subel_kid e k1 x tx k2 : In e (c_subels c) -> ckids e = k1 ++ (x, tx) :: k2 ->
    lookup h (cid x) = Some (el_obj x tx (hd_error (el_ids k2)) (last_error (el_ids k1)) (Some (cid e)))
    /\ incl (chain_objs TAIL (cid x) tx) h.
  Proof.
    intros He E. destruct (heap_sub c None None None no_chain e He) as [up [nx [pv [tl Hincl]]]].
    destruct e as [i k own data kids]. cbn [ckids cid] in *. subst kids.
    assert (Hk : incl (heap_el (Some i) (hd_error (el_ids k2)) (prev_of None k1) tx x ++ chain_objs TAIL (cid x) tx) h).
    { intros o Ho. apply Hincl. rewrite heap_el_unfold. right. apply in_or_app. right.
      exact (heap_kids_split (Some i) k1 None x tx k2 o Ho). }
    split.
    - apply h_lookup. apply Hk. apply in_or_app. left.
      replace (last_error (el_ids k1)) with (prev_of None k1) by (unfold prev_of; destruct (last_error (el_ids k1)); reflexivity).
      apply heap_el_head.
    - intros o Ho. apply Hk. apply in_or_app. right. exact Ho.
  Qed.
End Tree.

(* ---------------------------------------------------------------- one chain of text objects in a heap *)
Lemma last_cons_default {A} : forall (l : list A) x d, last (x :: l) d = last l x.
Proof. induction l as [|y r IH]; intros x d; [reflexivity|]. change (last (x :: y :: r) d) with (last (y :: r) d). rewrite !IH. reflexivity. Qed.
Lemma last_error_last {A} : forall (l : list A) x, last_error (x :: l) = Some (last l x).
Proof.
  induction l as [|y r IH]; intros x; [reflexivity|]. change (last_error (x :: y :: r)) with (last_error (y :: r)).
  rewrite IH. rewrite last_cons_default. reflexivity.
Qed.
Definition bound_of (prev : nid) (la : list tobj) : nid :=
  match last_error (map t_id la) with Some q => q | None => prev end.
Lemma bound_of_cons prev x la : bound_of prev (x :: la) = bound_of (t_id x) la.
Proof. unfold bound_of. cbn [map]. rewrite last_error_cons. destruct (last_error (map t_id la)); reflexivity. Qed.
Lemma bound_of_snoc prev la x : bound_of prev (la ++ [x]) = t_id x.
Proof. unfold bound_of. rewrite map_app. cbn [map]. rewrite last_error_app. reflexivity. Qed.
Lemma app_objs_at : forall la a lb prev,
  In (t_id a, OText {| x_pos := APPENDED; x_bound_to := bound_of prev la; x_appended := hd_error (map t_id lb);
                       x_content := t_s a |}) (app_objs prev (la ++ a :: lb)).
Proof.
  induction la as [|x la' IH]; intros a lb prev.
  - left. reflexivity.
  - cbn [app app_objs]. right. rewrite bound_of_cons. apply IH.
Qed.

Section Chain.
  Variable h : heap.
  Hypothesis Hkeys : NoDup (map fst h).
  Variables (pos : tpos) (b hid : nid) (s : str) (app : list tobj).
  Local Notation ch := ({| ch_head := Some hid; ch_slot := Some s; ch_app := app |}).
  Hypothesis Hpos : pos = DATA \/ pos = TAIL.
  Hypothesis Hincl : incl (chain_objs pos b ch) h.
  Hypothesis Happ : forallb nonempty_text app = true.
  Variable fu : nat.
  Hypothesis Hfu : length app + 2 <= fu.

  Local Notation headobj := ({| x_pos := pos; x_bound_to := b; x_appended := hd_error (map t_id app); x_content := s |}).
  Definition after_chain : res (option nid) := match pos with DATA => first_el_of h b | _ => getnext_of h b end.
  Definition chain_parent : res (option nid) := match pos with DATA => Ok (Some b) | _ => getparent_of h b end.

  Lemma L_head : lookup h hid = Some (OText headobj).
  Proof. apply lookup_in; [exact Hkeys|]. apply Hincl. left. reflexivity. Qed.
  Lemma L_app la a lb : app = la ++ a :: lb ->
    lookup h (t_id a) = Some (OText {| x_pos := APPENDED; x_bound_to := bound_of hid la;
                                       x_appended := hd_error (map t_id lb); x_content := t_s a |}).
  Proof.
    intros E. apply lookup_in; [exact Hkeys|]. apply Hincl. unfold chain_objs. cbn [ch_head ch_app]. right.
    rewrite E. apply app_objs_at.
  Qed.
  Lemma truthy_rest la a lb : app = la ++ a :: lb -> text_truthy h (hd_error (map t_id lb)) = negb (null lb).
  Proof.
    intros E. destruct lb as [|a' lb']; [reflexivity|]. cbn [map hd_error text_truthy null negb].
    assert (E' : app = (la ++ [a]) ++ a' :: lb') by (rewrite <- app_assoc; exact E).
    unfold h_is_text, h_content. rewrite (L_app _ a' lb' E'). cbn [x_content].
    pose proof Happ as Ha. rewrite E' in Ha. rewrite forallb_app in Ha. apply andb_prop in Ha. destruct Ha as [_ H2].
    cbn [forallb] in H2. apply andb_prop in H2. destruct H2 as [H2 _]. exact H2.
  Qed.
  Lemma truthy_app : text_truthy h (hd_error (map t_id app)) = negb (null app).
  Proof.
    assert (H : forall l, app = l -> text_truthy h (hd_error (map t_id l)) = negb (null l)); [|exact (H app eq_refl)].
    intros l E. destruct l as [|a lb]; [reflexivity|]. cbn [map hd_error text_truthy null negb].
    unfold h_is_text, h_content. rewrite (L_app [] a lb E). cbn [x_content].
    pose proof Happ as Ha. rewrite E in Ha. cbn [forallb] in Ha. apply andb_prop in Ha. destruct Ha as [H2 _]. exact H2.
  Qed.

  Lemma tsh : forall la a lb f, app = la ++ a :: lb -> length la + 2 <= f ->
    tail_sequence_head f h (t_id a) = Ok (hid, headobj).
  Proof.
    induction la as [|a' la' IH] using rev_ind; intros a lb f E Hf.
    - destruct f as [|[|f']]; [cbn in Hf; lia|cbn in Hf; lia|]. cbn [tail_sequence_head].
      rewrite (L_app [] a lb E). cbn [x_pos x_bound_to bound_of map last_error]. rewrite L_head.
      destruct Hpos as [-> | ->]; reflexivity.
    - destruct f as [|f']; [lia|]. cbn [tail_sequence_head]. rewrite (L_app _ a lb E). cbn [x_pos x_bound_to].
      rewrite bound_of_snoc. apply (IH a' (a :: lb)); [rewrite E, <- app_assoc; reflexivity|].
      rewrite app_length in Hf. cbn in Hf. lia.
  Qed.

  Lemma cend_app : forall lb la a f, app = la ++ a :: lb -> length lb + 1 <= f ->
    chain_end f h (t_id a) = Ok (last (map t_id lb) (t_id a)).
  Proof.
    induction lb as [|a' lb' IH]; intros la a f E Hf; (destruct f as [|f']; [cbn in Hf; lia|]); cbn [chain_end].
    - rewrite (L_app la a [] E). cbn [x_appended map hd_error text_truthy]. reflexivity.
    - rewrite (L_app la a _ E). cbn [x_appended]. rewrite (truthy_rest la a _ E). cbn [null negb map hd_error].
      rewrite (IH (la ++ [a]) a' f'); [|rewrite <- app_assoc; exact E|cbn in Hf; lia].
      cbn [map]. rewrite last_cons_default. reflexivity.
  Qed.
  Lemma cend_head_gen : forall l f, app = l -> length l + 1 <= f ->
    end_of_chain f h (Some hid) = Ok (last_error (hid :: map t_id l)).
  Proof.
    intros l f E Hf. unfold end_of_chain. destruct f as [|f']; [lia|]. cbn [chain_end]. rewrite L_head. cbn [x_appended].
    rewrite truthy_app, E. destruct l as [|a lb]; cbn [null negb map hd_error rbind last_error]; [reflexivity|].
    rewrite (cend_app lb [] a f' E) by (cbn in Hf; lia). cbn [rbind]. f_equal.
    destruct (map t_id lb) as [|y r]; [reflexivity|]. rewrite last_error_last, last_cons_default. reflexivity.
  Qed.
  Lemma cend_head : end_of_chain fu h (Some hid) = Ok (last_error (hid :: map t_id app)).
  Proof. apply cend_head_gen; [reflexivity|lia]. Qed.

  (* the head object *)
  Lemma head_next : c_next_raw fu h hid = match app with a :: _ => Ok (Some (t_id a)) | [] => after_chain end.
  Proof.
    unfold c_next_raw. rewrite L_head. cbn [x_pos x_appended x_bound_to]. unfold after_chain.
    rewrite truthy_app. destruct Hpos as [-> | ->]; destruct app; reflexivity.
  Qed.
  Lemma head_prev : c_prev_cand fu h hid = match pos with DATA => Ok None | _ => Ok (Some b) end.
  Proof. unfold c_prev_cand. rewrite L_head. cbn [x_pos x_bound_to]. destruct Hpos as [-> | ->]; reflexivity. Qed.
  Lemma head_parent : c_parent fu h hid = chain_parent.
  Proof. unfold c_parent, chain_parent. rewrite L_head. cbn [x_pos x_bound_to]. destruct Hpos as [-> | ->]; reflexivity. Qed.

  (* an appended object *)
  Lemma app_next la a lb : app = la ++ a :: lb ->
    c_next_raw fu h (t_id a) = match lb with a' :: _ => Ok (Some (t_id a')) | [] => after_chain end.
  Proof.
    intros E. unfold c_next_raw. rewrite (L_app la a lb E). cbn [x_pos x_appended x_bound_to].
    rewrite (truthy_rest la a lb E). destruct lb as [|a' lb']; [|reflexivity]. cbn [null negb].
    rewrite (tsh la a [] fu E); [|rewrite E, app_length in Hfu; cbn in Hfu; lia]. cbn [rbind snd x_pos x_bound_to].
    unfold after_chain. destruct Hpos as [-> | ->]; reflexivity.
  Qed.
  Lemma app_prev la a lb : app = la ++ a :: lb -> c_prev_cand fu h (t_id a) = Ok (Some (bound_of hid la)).
  Proof. intros E. unfold c_prev_cand. rewrite (L_app la a lb E). reflexivity. Qed.
  Lemma app_parent la a lb : app = la ++ a :: lb -> c_parent fu h (t_id a) = chain_parent.
  Proof.
    intros E. unfold c_parent. rewrite (L_app la a lb E). cbn [x_pos].
    rewrite (tsh la a lb fu E); [|rewrite E, app_length in Hfu; cbn in Hfu; lia]. cbn [rbind snd x_pos x_bound_to].
    unfold chain_parent. destruct Hpos as [-> | ->]; reflexivity.
  Qed.
End Chain.

Section ChainPlace.
  Variable h : heap.
  Hypothesis Hkeys : NoDup (map fst h).
  Variables (pos : tpos) (b hid : nid) (s : str) (app : list tobj).
  Hypothesis Hpos : pos = DATA \/ pos = TAIL.
  Hypothesis Hincl : incl (chain_objs pos b {| ch_head := Some hid; ch_slot := Some s; ch_app := app |}) h.
  Hypothesis Happ : forallb nonempty_text app = true.
  Variable fu : nat.
  Hypothesis Hfu : length app + 2 <= fu.

  Lemma chain_place n : In n (hid :: map t_id app) ->
    exists m1 m2, hid :: map t_id app = m1 ++ n :: m2
      /\ c_next_raw fu h n = (match m2 with x :: _ => Ok (Some x) | [] => after_chain h pos b end)
      /\ c_prev_cand fu h n = (match last_error m1 with
                               | Some q => Ok (Some q)
                               | None => match pos with DATA => Ok None | _ => Ok (Some b) end
                               end)
      /\ c_parent fu h n = chain_parent h pos b.
  Proof.
    intros [<-|Hin].
    - exists [], (map t_id app). split; [reflexivity|]. split; [|split].
      + rewrite (head_next h Hkeys pos b hid s app Hpos Hincl Happ fu Hfu). destruct app; reflexivity.
      + rewrite (head_prev h Hkeys pos b hid s app Hpos Hincl fu). reflexivity.
      + exact (head_parent h Hkeys pos b hid s app Hpos Hincl fu).
    - apply in_map_iff in Hin. destruct Hin as [a [<- Ha]]. destruct (in_split _ _ Ha) as [la [lb E]].
      exists (hid :: map t_id la), (map t_id lb). split; [rewrite E, map_app; reflexivity|]. split; [|split].
      + rewrite (app_next h Hkeys pos b hid s app Hpos Hincl Happ fu Hfu la a lb E). destruct lb; reflexivity.
      + rewrite (app_prev h Hkeys pos b hid s app Hincl fu la a lb E). rewrite last_error_cons. unfold bound_of.
        destruct (last_error (map t_id la)); reflexivity.
      + exact (app_parent h Hkeys pos b hid s app Hpos Hincl fu Hfu la a lb E).
  Qed.
End ChainPlace.

Lemma chain_cases ch : chain_ok ch = true ->
  (ch_slot ch = None /\ ch_head ch = None /\ ch_app ch = [])
  \/ exists hid s, ch_head ch = Some hid /\ ch_slot ch = Some s /\ forallb nonempty_text (ch_app ch) = true.
Proof.
  unfold chain_ok. destruct ch as [hd sl ap]. cbn. destruct sl as [s|], hd as [hid|]; try discriminate.
  - intros H. apply andb_prop in H. destruct H as [_ H]. right. exists hid, s. auto.
  - intros H. left. destruct ap; [auto|discriminate].
Qed.
Lemma chain_ids_texts ch : chain_ok ch = true -> chain_ids ch = map t_id (chain_texts ch).
Proof.
  intros H. destruct (chain_cases ch H) as [[E1 [E2 E3]]|[hid [s [E1 [E2 _]]]]]; unfold chain_ids, chain_texts; rewrite E1, E2.
  - rewrite E3. reflexivity.
  - reflexivity.
Qed.
Lemma subel_ok c : forall e, el_ok c = true -> In e (c_subels c) -> el_ok e = true.
Proof.
  induction c as [i k own data kids IH] using cel_ind'. intros e Hok He. cbn [c_subels] in He.
  destruct He as [<-|He]; [exact Hok|]. apply in_flat_map in He. destruct He as [[x tx] [Hx He]].
  rewrite Forall_forall in IH. apply (IH (x, tx) Hx e); [|exact He].
  cbn [el_ok] in Hok. apply andb_prop in Hok. destruct Hok as [_ Hk]. rewrite forallb_forall in Hk.
  specialize (Hk (x, tx) Hx). cbn in Hk. apply andb_prop in Hk. tauto.
Qed.
Lemma el_ok_parts e : el_ok e = true ->
  chain_ok (cdata e) = true /\ (forall x tx, In (x, tx) (ckids e) -> chain_ok tx = true)
  /\ (is_ktag (ckind_of e) = false -> c_items e = []).
Proof.
  destruct e as [i k own data kids]. cbn [el_ok cdata ckids ckind_of]. intros H.
  apply andb_prop in H. destruct H as [H Hk]. apply andb_prop in H. destruct H as [Hd Hnt].
  split; [exact Hd|split].
  - intros x tx Hx. rewrite forallb_forall in Hk. specialize (Hk (x, tx) Hx). cbn in Hk. apply andb_prop in Hk. tauto.
  - intros Ht. rewrite Ht in Hnt. apply andb_prop in Hnt. destruct Hnt as [Hnt _]. apply andb_prop in Hnt. destruct Hnt as [He Hn].
    unfold c_items. cbn [cdata ckids]. destruct kids; [|discriminate]. unfold chain_is_empty in He. unfold chain_texts.
    destruct (ch_slot data); [discriminate|reflexivity].
Qed.
Lemma hd_flat_kitem l : hd_error (flat_map kitem l) = hd_error (el_ids l).
Proof. destruct l as [|[x tx] r]; reflexivity. Qed.
Lemma last_error_app2 {A} (l1 l2 : list A) :
  last_error (l1 ++ l2) = match last_error l2 with Some q => Some q | None => last_error l1 end.
Proof.
  induction l2 as [|x r IH] using rev_ind; [rewrite app_nil_r; reflexivity|].
  rewrite app_assoc, !last_error_app. reflexivity.
Qed.
Lemma el_ids_app l1 l2 : el_ids (l1 ++ l2) = el_ids l1 ++ el_ids l2.
Proof. apply map_app. Qed.
Lemma last_flat_kitem_empty_tail k1 q tq : chain_texts tq = [] ->
  last_error (flat_map kitem (k1 ++ [(q, tq)])) = Some (cid q).
Proof. intros E. rewrite flat_map_app. cbn [flat_map]. unfold kitem at 2. cbn [fst snd]. rewrite E, app_nil_r. cbn [map]. apply last_error_app. Qed.
Lemma flat_ids_atext l : flat_map ids (map atext l) = map t_id l.
Proof. induction l as [|x r IH]; [reflexivity|]. cbn. rewrite IH. reflexivity. Qed.
(* on a well-formed tree the abstract nodes are exactly the objects, in the same order *)
Lemma abs_ids c : forall inh, el_ok c = true -> ids (abs_el inh c) = cel_ids c.
Proof.
  induction c as [i k own data kids IH] using cel_ind'. intros inh Hok.
  destruct (el_ok_parts _ Hok) as [Hd [Hk _]]. cbn [cdata ckids] in Hd, Hk.
  assert (Hkok : forall x tx, In (x, tx) kids -> el_ok x = true).
  { intros x tx Hx. apply (subel_ok (CEl i k own data kids) x Hok). apply (subels_kid (CEl i k own data kids) x tx x Hx). apply self_in_subels. }
  cbn [abs_el cel_ids]. rewrite ids_unfold. f_equal. rewrite flat_map_app, flat_ids_atext, <- chain_ids_texts by exact Hd. f_equal.
  clear Hok Hd. induction IH as [|[x tx] r Hx _ IHr]; [reflexivity|].
  cbn [flat_map]. rewrite flat_map_app. cbn [flat_map].
  rewrite flat_ids_atext, <- chain_ids_texts by (apply (Hk x tx); left; reflexivity).
  cbn [fst] in Hx. rewrite Hx by (apply (Hkok x tx); left; reflexivity).
  rewrite IHr; [rewrite <- ?app_assoc; reflexivity| |].
  - intros x0 tx0 H0. apply (Hk x0 tx0). right. exact H0.
  - intros x0 tx0 H0. apply (Hkok x0 tx0). right. exact H0.
Qed.

Lemma kid_len_in (x : cel) (tx : chain) kids : In (x, tx) kids ->
  length (cel_ids x) + length (chain_ids tx)
  <= length (flat_map (fun kt : cel * chain => match kt with (c, t) => cel_ids c ++ chain_ids t end) kids).
Proof.
  induction kids as [|[y ty] r IH]; intros H; [destruct H|]. cbn [flat_map]. rewrite !app_length.
  destruct H as [H|H]; [injection H as -> ->; lia|specialize (IH H); lia].
Qed.
Lemma subel_ids_len c : forall e, In e (c_subels c) -> length (cel_ids e) <= length (cel_ids c).
Proof.
  induction c as [i k own data kids IH] using cel_ind'. intros e He. cbn [c_subels] in He.
  destruct He as [<-|He]; [lia|]. apply in_flat_map in He. destruct He as [[x tx] [Hx He]].
  rewrite Forall_forall in IH. specialize (IH (x, tx) Hx e He). cbn [fst] in IH.
  pose proof (kid_len_in x tx kids Hx). cbn [cel_ids length]. rewrite app_length. lia.
Qed.
Lemma last_el_ids_split k1 q : last_error (el_ids k1) = Some q ->
  exists k1' q' tq, k1 = k1' ++ [(q', tq)] /\ cid q' = q.
Proof.
  destruct k1 as [|[q' tq] k1'] using rev_ind; [discriminate|]. intros H. unfold el_ids in H. rewrite map_app in H.
  cbn [map fst] in H. rewrite last_error_app in H. injection H as H. exists k1', q', tq. auto.
Qed.

Section Prims.
  Variable c : cel.
  Variable inh : str.
  Hypothesis Hok : el_ok c = true.
  Hypothesis Hnd : NoDup (cel_ids c).
  Variable fu : nat.
  Hypothesis Hfu : length (cel_ids c) + 2 <= fu.
  Local Notation t := (abs_el inh c).
  Local Notation h := (heap_top c).

  Lemma t_nodup : NoDup (ids t).
  Proof. rewrite abs_ids by exact Hok. exact Hnd. Qed.
  Lemma t_size : length (ids t) = length (cel_ids c).
  Proof. rewrite abs_ids by exact Hok. reflexivity. Qed.

  Lemma data_len e : In e (c_subels c) -> length (ch_app (cdata e)) + 2 <= fu.
  Proof.
    intros He. pose proof (subel_ids_len c e He) as H. destruct e as [i k own data kids]. cbn [cel_ids length cdata] in *.
    rewrite app_length in H. unfold chain_ids in H. rewrite app_length, map_length in H. lia.
  Qed.
  Lemma tail_len e x tx : In e (c_subels c) -> In (x, tx) (ckids e) -> length (ch_app tx) + 2 <= fu.
  Proof.
    intros He Hx. pose proof (subel_ids_len c e He) as H. destruct e as [i k own data kids]. cbn [cel_ids length ckids] in *.
    rewrite app_length in H. pose proof (kid_len_in x tx kids Hx) as H1. unfold chain_ids in H1 at 1.
    rewrite app_length, map_length in H1. lia.
  Qed.

  Lemma prims_at e n : In e (c_subels c) -> In n (c_items e) ->
    exists l1 l2, c_items e = l1 ++ n :: l2
      /\ c_next_raw fu h n = Ok (hd_error l2)
      /\ c_prev_cand fu h n = Ok (last_error l1)
      /\ c_parent fu h n = Ok (Some (cid e)).
  Proof.
    intros He Hn. pose proof (subel_ok c e Hok He) as Heok. destruct (el_ok_parts e Heok) as [Hd [Hk _]].
    destruct (subel_obj c Hnd e He) as [up [nx [pv [tl Hobj]]]].
    pose proof (h_keys c Hnd) as Hkeys.
    unfold c_items in Hn. apply in_app_or in Hn. destruct Hn as [Hn|Hn].
    - (* a text node of the data chain *)
      destruct (chain_cases _ Hd) as [[E1 [E2 E3]]|[hid [s [E1 [E2 Happ]]]]].
      { unfold chain_texts in Hn. rewrite E1 in Hn. destruct Hn. }
      assert (Et : map t_id (chain_texts (cdata e)) = hid :: map t_id (ch_app (cdata e))).
      { unfold chain_texts. rewrite E1, E2. reflexivity. }
      assert (Hch : cdata e = {| ch_head := Some hid; ch_slot := Some s; ch_app := ch_app (cdata e) |}).
      { destruct (cdata e). cbn in *. subst. reflexivity. }
      pose proof (subel_data c e He) as Hincl. rewrite Hch in Hincl. cbn [ch_app] in Hincl. rewrite Et in Hn.
      destruct (chain_place h Hkeys DATA (cid e) hid s (ch_app (cdata e)) (or_introl eq_refl) Hincl Happ fu (data_len e He) n Hn)
        as [m1 [m2 [Em [Hnx [Hpv Hpa]]]]].
      exists m1, (m2 ++ flat_map kitem (ckids e)). split; [unfold c_items; rewrite Et, Em, <- app_assoc; reflexivity|].
      split; [|split].
      + rewrite Hnx. destruct m2 as [|y m2']; [|reflexivity]. unfold after_chain, first_el_of. rewrite Hobj.
        cbn [el_obj e_first_el app]. rewrite hd_flat_kitem. reflexivity.
      + rewrite Hpv. destruct (last_error m1); reflexivity.
      + rewrite Hpa. reflexivity.
    - apply in_flat_map in Hn. destruct Hn as [[x tx] [Hx Hn]]. destruct (in_split _ _ Hx) as [k1 [k2 Ek]].
      destruct (subel_kid c Hnd e k1 x tx k2 He Ek) as [Hxobj Hxincl].
      pose proof (Hk x tx Hx) as Htx.
      set (P := map t_id (chain_texts (cdata e)) ++ flat_map kitem k1).
      assert (Eitems : c_items e = P ++ cid x :: map t_id (chain_texts tx) ++ flat_map kitem k2).
      { unfold c_items, P. rewrite Ek, flat_map_app. cbn [flat_map]. unfold kitem at 2. cbn [fst snd].
        rewrite <- !app_assoc. reflexivity. }
      unfold kitem in Hn. cbn [fst snd] in Hn. destruct Hn as [<-|Hn].
      + (* the element-like node x *)
        exists P, (map t_id (chain_texts tx) ++ flat_map kitem k2). split; [exact Eitems|]. split; [|split].
        * unfold c_next_raw. rewrite Hxobj. cbn [el_obj e_tail_exists e_tail_node e_getnext].
          destruct (chain_cases _ Htx) as [[E1 [E2 E3]]|[hid [s [E1 [E2 _]]]]]; unfold ch_exists, chain_texts;
            destruct tx as [thd tsl tap]; cbn [ch_slot ch_head ch_app] in *; subst thd tsl.
          -- cbn [map app]. rewrite hd_flat_kitem. reflexivity.
          -- reflexivity.
        * unfold c_prev_cand. rewrite Hxobj. cbn [el_obj e_getprevious e_getparent].
          destruct (last_error (el_ids k1)) as [q|] eqn:Eq.
          -- destruct (last_el_ids_split k1 q Eq) as [k1' [q' [tq [Ek1 Eqq]]]]. subst q.
             assert (Ek' : ckids e = k1' ++ (q', tq) :: (x, tx) :: k2) by (rewrite Ek, Ek1, <- app_assoc; reflexivity).
             destruct (subel_kid c Hnd e k1' q' tq _ He Ek') as [Hqobj Hqincl]. rewrite Hqobj.
             cbn [el_obj e_tail_exists e_tail_node].
             assert (Hq : In (q', tq) (ckids e)) by (rewrite Ek'; apply in_or_app; right; left; reflexivity).
             pose proof (Hk q' tq Hq) as Htq.
             destruct (chain_cases _ Htq) as [[E1 [E2 E3]]|[hid [s [E1 [E2 Happ]]]]]; unfold ch_exists; rewrite E1.
             ++ f_equal. unfold P. rewrite Ek1, last_error_app2, last_flat_kitem_empty_tail; [reflexivity|].
                unfold chain_texts. rewrite E1. reflexivity.
             ++ rewrite E2.
                assert (Hch : tq = {| ch_head := Some hid; ch_slot := Some s; ch_app := ch_app tq |}).
                { destruct tq. cbn in *. subst. reflexivity. }
                rewrite Hch in Hqincl. cbn [ch_app] in Hqincl.
                rewrite (cend_head h Hkeys TAIL (cid q') hid s (ch_app tq) Hqincl Happ fu (tail_len e q' tq He Hq)).
                f_equal. unfold P. rewrite Ek1, last_error_app2, flat_map_app, last_error_app2. cbn [flat_map]. rewrite app_nil_r.
                unfold kitem. cbn [fst snd]. unfold chain_texts. rewrite E1, E2. cbn [map t_id].
                rewrite (last_error_cons (cid q')). destruct (last_error (hid :: map t_id (ch_app tq))) eqn:El; [reflexivity|].
                apply last_error_none in El. discriminate.
          -- assert (k1 = []) as -> by (apply last_error_none in Eq; destruct k1; [reflexivity|discriminate]).
             rewrite Hobj. cbn [el_obj e_data_exists e_data_node]. unfold P. cbn [flat_map]. rewrite app_nil_r.
             destruct (chain_cases _ Hd) as [[E1 [E2 E3]]|[hid [s [E1 [E2 Happ]]]]]; unfold ch_exists; rewrite E1.
             ++ unfold chain_texts. rewrite E1. reflexivity.
             ++ rewrite E2.
                assert (Hch : cdata e = {| ch_head := Some hid; ch_slot := Some s; ch_app := ch_app (cdata e) |}).
                { destruct (cdata e). cbn in *. subst. reflexivity. }
                pose proof (subel_data c e He) as Hincl. rewrite Hch in Hincl. cbn [ch_app] in Hincl.
                rewrite (cend_head h Hkeys DATA (cid e) hid s (ch_app (cdata e)) Hincl Happ fu (data_len e He)).
                unfold chain_texts. rewrite E1, E2. reflexivity.
        * unfold c_parent. rewrite Hxobj. reflexivity.
      + (* a text node of the tail chain of x *)
        destruct (chain_cases _ Htx) as [[E1 [E2 E3]]|[hid [s [E1 [E2 Happ]]]]].
        { unfold chain_texts in Hn. rewrite E1 in Hn. destruct Hn. }
        assert (Et : map t_id (chain_texts tx) = hid :: map t_id (ch_app tx)).
        { unfold chain_texts. rewrite E1, E2. reflexivity. }
        assert (Hch : tx = {| ch_head := Some hid; ch_slot := Some s; ch_app := ch_app tx |}).
        { destruct tx. cbn in *. subst. reflexivity. }
        rewrite Hch in Hxincl. cbn [ch_app] in Hxincl. rewrite Et in Hn.
        destruct (chain_place h Hkeys TAIL (cid x) hid s (ch_app tx) (or_intror eq_refl) Hxincl Happ fu (tail_len e x tx He Hx) n Hn)
          as [m1 [m2 [Em [Hnx [Hpv Hpa]]]]].
        exists (P ++ cid x :: m1), (m2 ++ flat_map kitem k2).
        split; [rewrite Eitems, Et, Em, <- !app_assoc; reflexivity|]. split; [|split].
        * rewrite Hnx. destruct m2 as [|y m2']; [|reflexivity]. unfold after_chain, getnext_of. rewrite Hxobj.
          cbn [el_obj e_getnext app]. rewrite hd_flat_kitem. reflexivity.
        * rewrite Hpv, last_error_app2, last_error_cons. destruct (last_error m1); reflexivity.
        * rewrite Hpa. unfold chain_parent, getparent_of. rewrite Hxobj. reflexivity.
  Qed.
End Prims.

(* ---------------------------------------------------------------- what kind of object a node is *)
Lemma chain_lookup_text (h : heap) pos b hid s app n : NoDup (map fst h) ->
  incl (chain_objs pos b {| ch_head := Some hid; ch_slot := Some s; ch_app := app |}) h ->
  In n (hid :: map t_id app) -> exists o, lookup h n = Some (OText o).
Proof.
  intros Hkeys Hincl [<-|Hin].
  - eexists. exact (L_head h Hkeys pos b hid s app Hincl).
  - apply in_map_iff in Hin. destruct Hin as [a [<- Ha]]. destruct (in_split _ _ Ha) as [la [lb E]].
    eexists. exact (L_app h Hkeys pos b hid s app Hincl la a lb E).
Qed.

Lemma chain_lookup_tb (h : heap) pos b hid s app tb : NoDup (map fst h) ->
  incl (chain_objs pos b {| ch_head := Some hid; ch_slot := Some s; ch_app := app |}) h ->
  In tb ({| t_id := hid; t_s := s |} :: app) -> exists o, lookup h (t_id tb) = Some (OText o) /\ x_content o = t_s tb.
Proof.
  intros Hkeys Hincl [<-|Hin].
  - eexists. split; [exact (L_head h Hkeys pos b hid s app Hincl)|reflexivity].
  - destruct (in_split _ _ Hin) as [la [lb E]].
    eexists. split; [exact (L_app h Hkeys pos b hid s app Hincl la tb lb E)|reflexivity].
Qed.

Section Kinds.
  Variable c : cel.
  Variable inh : str.
  Hypothesis Hok : el_ok c = true.
  Hypothesis Hnd : NoDup (cel_ids c).
  Local Notation t := (abs_el inh c).
  Local Notation h := (heap_top c).

  Lemma text_in_chain ch n : chain_ok ch = true -> In n (map t_id (chain_texts ch)) ->
    exists hid s, ch = {| ch_head := Some hid; ch_slot := Some s; ch_app := ch_app ch |} /\ In n (hid :: map t_id (ch_app ch))
                  /\ exists tb, In tb (chain_texts ch) /\ t_id tb = n.
  Proof.
    intros Hc Hn. destruct (chain_cases _ Hc) as [[E1 [E2 E3]]|[hid [s [E1 [E2 _]]]]].
    - unfold chain_texts in Hn. rewrite E1 in Hn. destruct Hn.
    - exists hid, s. split; [destruct ch; cbn in *; subst; reflexivity|]. split.
      + unfold chain_texts in Hn. rewrite E1, E2 in Hn. exact Hn.
      + apply in_map_iff in Hn. destruct Hn as [tb [E Hin]]. exists tb. auto.
  Qed.

  Lemma node_kind n : In n (ids t) ->
    (exists e, In e (c_subels c) /\ cid e = n)
    \/ ((exists o, lookup h n = Some (OText o)) /\ exists tb, In (atext tb) (subtrees t) /\ t_id tb = n).
  Proof.
    intros Hn. destruct (ids_abs_place c inh n Hn) as [->|[e [He Hin]]]; [left; exists c; split; [apply self_in_subels|reflexivity]|].
    pose proof (subel_ok c e Hok He) as Heok. destruct (el_ok_parts e Heok) as [Hd [Hk _]].
    destruct (subel_subtree c inh e He) as [inh' Hs]. pose proof (h_keys c Hnd) as Hkeys.
    unfold c_items in Hin. apply in_app_or in Hin. destruct Hin as [Hin|Hin].
    - right. destruct (text_in_chain _ n Hd Hin) as [hid [s [Hch [Hin' [tb [Htb Eid]]]]]]. split.
      + pose proof (subel_data c e He) as Hincl. rewrite Hch in Hincl. cbn [ch_app] in Hincl.
        exact (chain_lookup_text h DATA (cid e) hid s _ n Hkeys Hincl Hin').
      + exists tb. split; [|exact Eid]. apply (kid_in_subtrees t _ (atext tb) Hs).
        destruct e as [i k own data kids]. cbn [abs_el ikids cdata] in *. apply in_or_app. left. apply in_map. exact Htb.
    - apply in_flat_map in Hin. destruct Hin as [[x tx] [Hx Hin]]. unfold kitem in Hin. cbn [fst snd] in Hin.
      destruct Hin as [<-|Hin].
      + left. exists x. split; [|reflexivity]. exact (subels_trans c e x He (subels_kid e x tx x Hx (self_in_subels x))).
      + right. destruct (text_in_chain _ n (Hk x tx Hx) Hin) as [hid [s [Hch [Hin' [tb [Htb Eid]]]]]]. split.
        * destruct (in_split _ _ Hx) as [k1 [k2 Ek]]. destruct (subel_kid c Hnd e k1 x tx k2 He Ek) as [_ Hincl].
          rewrite Hch in Hincl. cbn [ch_app] in Hincl.
          exact (chain_lookup_text h TAIL (cid x) hid s _ n Hkeys Hincl Hin').
        * exists tb. split; [|exact Eid]. apply (kid_in_subtrees t _ (atext tb) Hs).
          destruct e as [i k own data kids]. cbn [abs_el ikids ckids] in *. apply in_or_app. right.
          apply in_flat_map. exists (x, tx). split; [exact Hx|]. right. apply in_map. exact Htb.
  Qed.
  Lemma texts_of_chain ch : chain_ok ch = true -> chain_texts ch <> [] ->
    exists hid s, ch = {| ch_head := Some hid; ch_slot := Some s; ch_app := ch_app ch |}
                  /\ chain_texts ch = {| t_id := hid; t_s := s |} :: ch_app ch.
  Proof.
    intros Hc Hn. destruct (chain_cases _ Hc) as [[E1 [E2 E3]]|[hid [s [E1 [E2 _]]]]].
    - exfalso. apply Hn. unfold chain_texts. rewrite E1. reflexivity.
    - exists hid, s. split; [destruct ch; cbn in *; subst; reflexivity|]. unfold chain_texts. rewrite E1, E2. reflexivity.
  Qed.
  (* the nodes of the abstract tree: element-like objects and text objects with their content *)
  Lemma node_kind_content n : In n (ids t) ->
    (exists e inh', In e (c_subels c) /\ cid e = n /\ In (abs_el inh' e) (subtrees t))
    \/ (exists tb o, lookup h n = Some (OText o) /\ x_content o = t_s tb /\ In (atext tb) (subtrees t) /\ t_id tb = n).
  Proof.
    intros Hn. destruct (ids_abs_place c inh n Hn) as [->|[e [He Hin]]].
    { left. exists c, inh. split; [apply self_in_subels|]. split; [reflexivity|apply self_in_subtrees]. }
    pose proof (subel_ok c e Hok He) as Heok. destruct (el_ok_parts e Heok) as [Hd [Hk _]].
    destruct (subel_subtree c inh e He) as [inh' Hs]. pose proof (h_keys c Hnd) as Hkeys.
    unfold c_items in Hin. apply in_app_or in Hin. destruct Hin as [Hin|Hin].
    - right. apply in_map_iff in Hin. destruct Hin as [tb [<- Htb]].
      destruct (texts_of_chain _ Hd) as [hid [s [Hch Et]]]; [intros E0; rewrite E0 in Htb; destruct Htb|].
      pose proof (subel_data c e He) as Hincl. rewrite Hch in Hincl. cbn [ch_app] in Hincl. rewrite Et in Htb.
      destruct (chain_lookup_tb h DATA (cid e) hid s _ tb Hkeys Hincl Htb) as [o [Ho Hc]].
      exists tb, o. split; [exact Ho|]. split; [exact Hc|]. split; [|reflexivity].
      apply (kid_in_subtrees t _ (atext tb) Hs). rewrite <- Et in Htb.
      destruct e as [i k own data kids]. cbn [abs_el ikids cdata] in *. apply in_or_app. left. apply in_map. exact Htb.
    - apply in_flat_map in Hin. destruct Hin as [[x tx] [Hx Hin]]. unfold kitem in Hin. cbn [fst snd] in Hin.
      destruct Hin as [<-|Hin].
      + left. pose proof (subels_trans c e x He (subels_kid e x tx x Hx (self_in_subels x))) as Hxe.
        destruct (subel_subtree c inh x Hxe) as [inhx Hsx]. exists x, inhx. auto.
      + right. apply in_map_iff in Hin. destruct Hin as [tb [<- Htb]].
        destruct (texts_of_chain _ (Hk x tx Hx)) as [hid [s [Hch Et]]]; [intros E0; rewrite E0 in Htb; destruct Htb|].
        destruct (in_split _ _ Hx) as [k1 [k2 Ek]]. destruct (subel_kid c Hnd e k1 x tx k2 He Ek) as [_ Hincl].
        rewrite Hch in Hincl. cbn [ch_app] in Hincl. rewrite Et in Htb.
        destruct (chain_lookup_tb h TAIL (cid x) hid s _ tb Hkeys Hincl Htb) as [o [Ho Hc]].
        exists tb, o. split; [exact Ho|]. split; [exact Hc|]. split; [|reflexivity].
        apply (kid_in_subtrees t _ (atext tb) Hs). rewrite <- Et in Htb.
        destruct e as [i k own data kids]. cbn [abs_el ikids ckids] in *. apply in_or_app. right.
        apply in_flat_map. exists (x, tx). split; [exact Hx|]. right. apply in_map. exact Htb.
  Qed.
End Kinds.
