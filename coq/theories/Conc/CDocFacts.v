(* C05 - documents: prologue nodes, root element and epilogue nodes are siblings of each other without a parent.
   The object graph `heap_doc docid d` is the graph of the virtual-document tree `doc_cel docid d` in which the
   root-level nodes have lost their `getparent()`.  Every lookup is the patched lookup of that graph, so the pointer
   primitives that do not read `getparent()` are unchanged, and `parent` is the parent in the virtual tree unless that
   is the virtual document node. *)
From Coq Require Import List NArith ZArith Bool Lia.
From Delb.Base Require Import PyStr.
From Delb.Tree Require Import ATree ITree ANav ANavFacts ANavOrderFacts.
From Delb.Conc Require Import CTree CNav CHeapFacts CWalkFacts CNavFacts.
Import ListNotations.

Lemma lookup_map (g : cobj -> cobj) (h : heap) n :
  lookup (map (fun kv => (fst kv, g (snd kv))) h) n = option_map g (lookup h n).
Proof.
  unfold lookup. induction h as [|[k o] r IH]; [reflexivity|]. cbn [map find fst snd].
  destruct (N.eqb k n); [reflexivity|exact IH].
Qed.

Section Doc.
  Variable docid : nid.
  Variable d : cdoc.
  Local Notation fake := (doc_cel docid d).
  Local Notation hf := (heap_top (doc_cel docid d)).
  Local Notation hd := (heap_doc docid d).
  Local Notation patch := (unparent docid).

  Lemma lookup_doc n : lookup hd n = option_map patch (lookup hf n).
  Proof. apply lookup_map. Qed.
  Lemma doc_fuel : c_fuel_h hd = c_fuel_h hf.
  Proof. unfold c_fuel_h, heap_doc. rewrite map_length. reflexivity. Qed.

  Lemma d_is_tag n : h_is_tag hd n = h_is_tag hf n.
  Proof. unfold h_is_tag. rewrite lookup_doc. destruct (lookup hf n) as [[o|o]|]; reflexivity. Qed.
  Lemma d_is_text n : h_is_text hd n = h_is_text hf n.
  Proof. unfold h_is_text. rewrite lookup_doc. destruct (lookup hf n) as [[o|o]|]; reflexivity. Qed.
  Lemma d_content n : h_content hd n = h_content hf n.
  Proof. unfold h_content. rewrite lookup_doc. destruct (lookup hf n) as [[o|o]|]; reflexivity. Qed.
  Lemma d_truthy a : text_truthy hd a = text_truthy hf a.
  Proof. destruct a as [i|]; [|reflexivity]. cbn [text_truthy]. rewrite d_is_text, d_content. reflexivity. Qed.
  Lemma d_first_el e : first_el_of hd e = first_el_of hf e.
  Proof. unfold first_el_of. rewrite lookup_doc. destruct (lookup hf e) as [[o|o]|]; reflexivity. Qed.
  Lemma d_getnext e : getnext_of hd e = getnext_of hf e.
  Proof. unfold getnext_of. rewrite lookup_doc. destruct (lookup hf e) as [[o|o]|]; reflexivity. Qed.
  Lemma d_tsh : forall f n, tail_sequence_head f hd n = tail_sequence_head f hf n.
  Proof.
    induction f as [|f IH]; intros n; [reflexivity|]. cbn [tail_sequence_head]. rewrite lookup_doc.
    destruct (lookup hf n) as [[o|o]|]; cbn [option_map unparent]; try reflexivity. destruct (x_pos o); try reflexivity. apply IH.
  Qed.
  Lemma d_chain_end : forall f n, chain_end f hd n = chain_end f hf n.
  Proof.
    induction f as [|f IH]; intros n; [reflexivity|]. cbn [chain_end]. rewrite lookup_doc.
    destruct (lookup hf n) as [[o|o]|]; cbn [option_map unparent]; try reflexivity. rewrite d_truthy.
    destruct (text_truthy hf (x_appended o)); [|reflexivity]. destruct (x_appended o); [apply IH|reflexivity].
  Qed.
  Lemma d_end_of_chain f a : end_of_chain f hd a = end_of_chain f hf a.
  Proof. unfold end_of_chain. destruct a; [rewrite d_chain_end|]; reflexivity. Qed.

  (* _fetch_following_sibling and the first candidate of iterate_children never read getparent() *)
  Lemma d_next_raw f n : c_next_raw f hd n = c_next_raw f hf n.
  Proof.
    unfold c_next_raw. rewrite lookup_doc. destruct (lookup hf n) as [[o|o]|]; cbn [option_map unparent]; try reflexivity.
    rewrite d_truthy, d_first_el, d_getnext, d_tsh.
    destruct (x_pos o); try reflexivity; destruct (text_truthy hf (x_appended o)); try reflexivity.
    destruct (tail_sequence_head f hf n) as [[hid ho]| | |]; cbn [rbind snd]; try reflexivity.
    rewrite d_first_el, d_getnext. reflexivity.
  Qed.
  Lemma d_first_raw n : c_first_raw hd n = c_first_raw hf n.
  Proof. unfold c_first_raw. rewrite lookup_doc. destruct (lookup hf n) as [[o|o]|]; reflexivity. Qed.

  Hypothesis Hok : el_ok fake = true.
  Hypothesis Hnd : NoDup (cel_ids fake).
  Variable inh : str.
  Local Notation t := (abs_el inh (doc_cel docid d)).
  Local Notation fu := (c_fuel_h (heap_doc docid d)).

  Lemma doc_obj : lookup hf docid = Some (el_obj fake no_chain None None None).
  Proof. exact (root_obj fake Hnd). Qed.

  (* the candidate of fetch_preceding_sibling: a root-level node without previous element sibling has no parent to look
     for a data node; in the virtual tree the document node has no data node either *)
  Lemma d_prev_cand f n : c_prev_cand f hd n = c_prev_cand f hf n.
  Proof.
    unfold c_prev_cand. rewrite lookup_doc. destruct (lookup hf n) as [[o|o]|]; cbn [option_map unparent]; try reflexivity.
    cbn [e_getprevious e_getparent]. destruct (e_getprevious o) as [q|].
    - rewrite lookup_doc. destruct (lookup hf q) as [[qo|qo]|]; cbn [option_map unparent]; try reflexivity.
      cbn [e_tail_exists e_tail_node]. rewrite d_end_of_chain. reflexivity.
    - destruct (e_getparent o) as [p|]; [|reflexivity]. destruct (N.eqb p docid) eqn:E.
      + apply N.eqb_eq in E. subst p. rewrite doc_obj. reflexivity.
      + rewrite lookup_doc. destruct (lookup hf p) as [[po|po]|]; cbn [option_map unparent]; try reflexivity.
        cbn [e_data_exists e_data_node]. rewrite d_end_of_chain. reflexivity.
  Qed.

  Lemma Tnd_doc : NoDup (ids t).
  Proof. exact (Tnd fake inh Hok Hnd). Qed.
  Lemma fu_doc : 2 * length (ids t) + 1 < fu.
  Proof. rewrite doc_fuel. exact (fu_walk fake inh Hok). Qed.
  Lemma D_next n : In n (ids t) -> c_next_raw fu hd n = Ok (a_next_sibling t n).
  Proof. intros Hn. rewrite d_next_raw, doc_fuel. exact (P_next fake inh Hok Hnd n Hn). Qed.
  Lemma D_prev n : In n (ids t) -> c_prev_cand fu hd n = Ok (a_prev_sibling t n).
  Proof. intros Hn. rewrite d_prev_cand, doc_fuel. exact (P_prev fake inh Hok Hnd n Hn). Qed.
  Lemma D_first n : In n (ids t) -> h_is_tag hd n = true -> c_first_raw hd n = Ok (a_first_child t n).
  Proof. intros Hn Ht. rewrite d_first_raw. rewrite d_is_tag in Ht. exact (P_first fake inh Hok Hnd n Hn Ht). Qed.
  Lemma D_leaf n : In n (ids t) -> h_is_tag hd n = false -> a_children t n = [].
  Proof. intros Hn Ht. rewrite d_is_tag in Ht. exact (P_leaf fake inh Hok Hnd n Hn Ht). Qed.

  Ltac side :=
    try exact Tnd_doc; try exact fu_doc; try exact D_first; try exact D_next; try exact D_prev; try exact D_leaf; try assumption.

  (* ---- everything that does not climb: as in the virtual tree, for every node of the document ---- *)
  Theorem doc_children D F n : In n (ids t) -> h_iterate_children hd D F n = Ok (filter (fand D F) (a_children t n)).
  Proof. intros Hn. unfold h_iterate_children. cbv zeta. eapply children_spec; side. Qed.
  Theorem doc_fetch_following_sibling D F n : In n (ids t) ->
    h_fetch_following_sibling hd D F n = Ok (hd_error (filter (fand D F) (a_fsibs t n))).
  Proof. intros Hn. unfold h_fetch_following_sibling. cbv zeta. eapply fetch_following_sibling_spec; side. Qed.
  Theorem doc_iterate_following_siblings D F n : In n (ids t) ->
    h_iterate_following_siblings hd D F n = Ok (filter (fand D F) (a_fsibs t n)).
  Proof. intros Hn. unfold h_iterate_following_siblings. cbv zeta. eapply iterate_following_siblings_spec; side. Qed.
  Theorem doc_fetch_preceding_sibling D F n : In n (ids t) ->
    h_fetch_preceding_sibling hd D F n = Ok (hd_error (filter (fand D F) (a_psibs t n))).
  Proof. intros Hn. unfold h_fetch_preceding_sibling. cbv zeta. eapply fetch_preceding_sibling_spec; side. Qed.
  Theorem doc_iterate_preceding_siblings D F n : In n (ids t) ->
    h_iterate_preceding_siblings hd D F n = Ok (filter (fand D F) (a_psibs t n)).
  Proof. intros Hn. unfold h_iterate_preceding_siblings. cbv zeta. eapply iterate_preceding_siblings_spec; side. Qed.
  Theorem doc_descendants D F n : In n (ids t) -> h_iterate_descendants hd D F n = Ok (filter (fand D F) (a_descendants t n)).
  Proof. intros Hn. unfold h_iterate_descendants. cbv zeta. eapply descendants_spec; side. Qed.

  Theorem doc_siblings D F n : In n (ids t) ->
    h_fetch_following_sibling hd D F n = Ok (hd_error (filter (fand D F) (a_fsibs t n)))
    /\ h_fetch_preceding_sibling hd D F n = Ok (hd_error (filter (fand D F) (a_psibs t n))).
  Proof. intros Hn. exact (conj (doc_fetch_following_sibling D F n Hn) (doc_fetch_preceding_sibling D F n Hn)). Qed.
  (* following / preceding sibling of the root-level nodes (and of all others) are inverse *)
  Theorem doc_siblings_inverse n m : In n (ids t) -> In m (ids t) ->
    (h_fetch_following_sibling hd ftrue ftrue n = Ok (Some m) <-> h_fetch_preceding_sibling hd ftrue ftrue m = Ok (Some n)).
  Proof.
    intros Hn Hm. rewrite (doc_fetch_following_sibling ftrue ftrue n Hn), (doc_fetch_preceding_sibling ftrue ftrue m Hm).
    rewrite !(filter_ext (fand ftrue ftrue) ftrue) by reflexivity. rewrite !filter_ftrue.
    pose proof (siblings_inverse t Tnd_doc n m Hn Hm) as H. unfold a_next_sibling, a_prev_sibling in H.
    split; intros E; injection E as E; f_equal; apply H; exact E.
  Qed.
  (* ---- parent: the parent in the virtual tree, unless that is the virtual document node ---- *)
  Definition patchopt (r : option nid) : option nid :=
    match r with Some p => if N.eqb p docid then None else Some p | None => None end.
  Lemma d_getparent e : getparent_of hd e = match getparent_of hf e with Ok r => Ok (patchopt r) | x => x end.
  Proof. unfold getparent_of. rewrite lookup_doc. destruct (lookup hf e) as [[o|o]|]; reflexivity. Qed.
  Lemma doc_items : c_items fake = el_ids (ckids fake).
  Proof.
    unfold c_items. cbn [cdata ckids doc_cel]. cbn [chain_texts no_chain ch_slot map app].
    induction (d_pro d ++ d_root d :: d_epi d) as [|e r IH]; [reflexivity|]. cbn [map flat_map]. rewrite IH. reflexivity.
  Qed.
  Lemma toplevel_is_el n : a_parent t n = Some docid -> exists o, lookup hf n = Some (OEl o).
  Proof.
    intros Hp. assert (Hin : In n (a_children t docid)).
    { apply (parent_iff_child t Tnd_doc n docid); [|exact Hp].
      pose proof (sub_id_in t t (self_in_subtrees t)) as H. rewrite abs_iid in H. exact H. }
    pose proof (el_children fake inh Hok Hnd fake (self_in_subels fake)) as Hc. change (cid (doc_cel docid d)) with docid in Hc.
    rewrite Hc, doc_items in Hin.
    unfold el_ids in Hin. apply in_map_iff in Hin. destruct Hin as [[e tl] [<- He]].
    destruct (subel_obj fake Hnd e (subels_kid fake e tl e He (self_in_subels e))) as [up [nx [pv [tl' Ho]]]].
    eexists. exact Ho.
  Qed.
  Lemma D_parent n : In n (ids t) -> c_parent fu hd n = Ok (patchopt (a_parent t n)).
  Proof.
    intros Hn. pose proof (P_parent fake inh Hok Hnd n Hn) as HP. rewrite <- doc_fuel in HP.
    unfold c_parent in *. rewrite lookup_doc. destruct (lookup hf n) as [[o|o]|] eqn:El; cbn [option_map unparent]; try discriminate.
    - cbn [e_getparent]. injection HP as HP. rewrite HP. reflexivity.
    - assert (Hnt : patchopt (a_parent t n) = a_parent t n).
      { unfold patchopt. destruct (a_parent t n) as [p|] eqn:Hp; [|reflexivity]. destruct (N.eqb p docid) eqn:E; [|reflexivity].
        apply N.eqb_eq in E. subst p. destruct (toplevel_is_el n Hp) as [o' Ho']. congruence. }
      rewrite d_tsh, !d_getparent.
      destruct (x_pos o); try exact (eq_trans HP (f_equal (@Ok _) (eq_sym Hnt))).
      + destruct (getparent_of hf (x_bound_to o)) as [r| | |]; try discriminate. injection HP as ->. reflexivity.
      + destruct (tail_sequence_head fu hf n) as [[hid ho]| | |]; cbn [rbind snd] in *; try discriminate.
        rewrite d_getparent. destruct (x_pos ho); try discriminate; try exact (eq_trans HP (f_equal (@Ok _) (eq_sym Hnt))).
        destruct (getparent_of hf (x_bound_to ho)) as [r| | |]; try discriminate. injection HP as ->. reflexivity.
  Qed.

  (* the root-level nodes: no parent, no index, depth 0, no ancestors *)
  Theorem doc_toplevel D F n : In n (ids t) -> a_parent t n = Some docid ->
    h_parent hd n = Ok None /\ h_index hd D n = Ok None /\ h_depth hd D n = Ok 0%nat /\ h_iterate_ancestors hd D F n = Ok [].
  Proof.
    intros Hn Hp. pose proof (D_parent n Hn) as HP. rewrite Hp in HP. unfold patchopt in HP. rewrite N.eqb_refl in HP.
    assert (Hfu : exists f, fu = S f).
    { unfold c_fuel_h. exists (2 * length hd + 1)%nat. rewrite <- plus_n_Sm. reflexivity. }
    destruct Hfu as [f Hf].
    unfold h_parent, h_index, h_depth, h_iterate_ancestors, w_index, w_depth, w_iterate_ancestors. cbv zeta. rewrite Hf in *.
    cbn [tag_depth anc_loop]. rewrite HP. cbn [rbind]. repeat split; try reflexivity. destruct (h_is_tag hd n); reflexivity.
  Qed.

  (* every node of the document: its ancestors are those of the virtual tree without the virtual document node *)
  Lemma root_no_ancestors : a_ancestors t docid = [].
  Proof.
    change docid with (cid fake). rewrite <- (abs_iid inh fake). unfold a_ancestors. rewrite a_path_root. reflexivity.
  Qed.
  Lemma anc_doc F : forall fuel n, In n (ids t) -> n <> docid -> length (a_ancestors t n) < fuel ->
    anc_loop (c_parent fu hd) fuel F n = Ok (filter F (removelast (a_ancestors t n))).
  Proof.
    induction fuel as [|f IH]; intros n Hn Hne Hf; [lia|]. cbn [anc_loop]. rewrite (D_parent n Hn). cbn [rbind].
    rewrite (ancestors_chain t Tnd_doc n Hn) in Hf |- *. destruct (a_parent t n) as [p|] eqn:Hp.
    - unfold patchopt. destruct (N.eqb p docid) eqn:E.
      + apply N.eqb_eq in E. subst p. rewrite root_no_ancestors. reflexivity.
      + apply N.eqb_neq in E. assert (Hpin : In p (ids t)).
        { destruct (a_parent_some t n p Hp) as [s [Hs [<- _]]]. apply sub_id_in. exact Hs. }
        rewrite (IH p Hpin E) by (cbn [length] in Hf; lia). cbn [rbind].
        destruct (a_ancestors t p) as [|x A] eqn:EA.
        * exfalso. rewrite (ancestors_chain t Tnd_doc p Hpin) in EA. destruct (a_parent t p) eqn:Hpp; [discriminate|].
          apply E. change docid with (cid fake). rewrite <- (abs_iid inh fake).
          destruct (N.eq_dec p (iid t)) as [->|Hne']; [reflexivity|].
          destruct (has_parent t p Hpin Hne') as [s [Hs Hk]]. rewrite (a_parent_of_kid t Tnd_doc s p Hs Hk) in Hpp. discriminate.
        * change (removelast (p :: x :: A)) with (p :: removelast (x :: A)). reflexivity.
    - exfalso. apply Hne. change docid with (cid fake). rewrite <- (abs_iid inh fake).
      destruct (N.eq_dec n (iid t)) as [->|Hne']; [reflexivity|].
      destruct (has_parent t n Hn Hne') as [s [Hs Hk]]. rewrite (a_parent_of_kid t Tnd_doc s n Hs Hk) in Hp. discriminate.
  Qed.
  Theorem doc_ancestors D F n : In n (ids t) -> n <> docid ->
    h_iterate_ancestors hd D F n = Ok (filter F (removelast (a_ancestors t n))).
  Proof.
    intros Hn Hne. unfold h_iterate_ancestors, w_iterate_ancestors. cbv zeta. apply anc_doc; [exact Hn|exact Hne|].
    destruct (ancestors_length t n) as [H|H]; [pose proof fu_doc; lia|rewrite H; cbn; pose proof fu_doc; lia].
  Qed.
End Doc.
