(* C11 - model of TagAttributes / Attribute (_delb/nodes.py) next to lxml's attribute store, and
   the dictionary specification.  Definitions only; lemmas are in AttrFacts.v, statements in Props/C11.v.

   Model = transliteration of design_probes/at_model.py, which reproduced the implementation on
   9000 operation sequences; it is compared with the real classes on every run by harness/props/c11.py.
   `deconstruct_clark_notation` is the definition regenerated from _delb/names.py (Gen/GenAttr.v). *)
From Coq Require Import List NArith Bool Arith.
From Delb.Base Require Import PyStr PySplit.
From Delb.Gen Require Import GenAttr.
Import ListNotations.

(* ------------------------------------------------------------------------------------------ *)
(* association lists in insertion order: `l[k] = v` replaces in place or appends (python dict,  *)
(* and lxml's _Attrib);  `del l[k]` removes the entry                                           *)
Section Assoc.
  Context {K V : Type} (eqb : K -> K -> bool).
  Fixpoint aget (l : list (K * V)) (k : K) : option V :=
    match l with
    | [] => None
    | (a, w) :: r => if eqb a k then Some w else aget r k
    end.
  Definition ahas (l : list (K * V)) (k : K) : bool :=
    match aget l k with Some _ => true | None => false end.
  Fixpoint aset (l : list (K * V)) (k : K) (v : V) : list (K * V) :=
    match l with
    | [] => [(k, v)]
    | (a, w) :: r => if eqb a k then (a, v) :: r else (a, w) :: aset r k v
    end.
  Fixpoint adel (l : list (K * V)) (k : K) : list (K * V) :=
    match l with
    | [] => []
    | (a, w) :: r => if eqb a k then r else (a, w) :: adel r k
    end.
End Assoc.

Fixpoint set_nth {A} (l : list A) (n : nat) (x : A) : list A :=
  match l, n with
  | [], _ => []
  | _ :: r, O => x :: r
  | a :: r, S m => a :: set_nth r m x
  end.

Fixpoint nodupb (l : list str) : bool :=
  match l with [] => true | x :: r => (negb (existsb (str_eqb x) r) && nodupb r)%bool end.

Fixpoint nodupn (l : list nat) : bool :=
  match l with [] => true | x :: r => (negb (existsb (Nat.eqb x) r) && nodupn r)%bool end.

Fixpoint index_of (o : nat) (l : list nat) : option nat :=
  match l with
  | [] => None
  | x :: r => if Nat.eqb x o then Some O else option_map S (index_of o r)
  end.

(* ------------------------------------------------------------------------------------------ *)
(* names                                                                                        *)
Definition qname := (str * str)%type.                      (* (namespace, local name) *)
Definition qname_eqb (a b : qname) : bool := (str_eqb (fst a) (fst b) && str_eqb (snd a) (snd b))%bool.
Definition oid := nat.
Definition LBRACE : char := 123%N.
Definition RBRACE : char := 125%N.

(* no brace characters: what lxml accepts in names / namespace URIs *)
Definition plainc (c : char) : bool := negb (N.eqb c LBRACE || N.eqb c RBRACE)%bool.
Definition plain (s : str) : bool := forallb plainc s.
Definition plainq (q : qname) : bool := (plain (fst q) && plain (snd q))%bool.

(* how an attribute is addressed: a string (local name or Clark notation), a pair
   (namespace or None, local name) - also the slice form `node[ns:name]` -, anything else *)
Inductive acc := AStr (s : str) | APair (ns : option str) (name : str) | ABad.

(* ------------------------------------------------------------------------------------------ *)
(* the model state                                                                              *)
Inductive ostate :=
  | Live (q : qname)                (* Attribute._attributes is the mapping; _qualified_name = q *)
  | Dead (v : str) (q : qname).     (* _attributes is None; _detached_value = v *)
Definition oq (x : ostate) : qname := match x with Live q => q | Dead _ q => q end.

Record astate := mkA {
  st_store : list (str * str);      (* lxml's attrib: Clark-notation key -> value, document order *)
  st_dns : str;                     (* nsmap.get(None): the in-scope default namespace; [] = none *)
  st_node_ns : str;                 (* TagNode.namespace *)
  st_cache : list (qname * oid);    (* TagAttributes._attributes *)
  st_objs : list ostate             (* every Attribute object created so far; oid = position *)
}.
Definition with_store (s : astate) st := mkA st (st_dns s) (st_node_ns s) (st_cache s) (st_objs s).
Definition with_cache (s : astate) c := mkA (st_store s) (st_dns s) (st_node_ns s) c (st_objs s).
Definition with_objs (s : astate) o := mkA (st_store s) (st_dns s) (st_node_ns s) (st_cache s) o.

Inductive out :=
  | RNone | RBool (b : bool) | RNat (n : nat) | RKeys (l : list qname) | RObj (o : nat) | RStr (s : str)
  | RKeyError                       (* the documented exception of a mapping *)
  | RCrash (e : exn)                (* any other exception *)
  | RUnspec                         (* specification only: the property does not say *)
  | RViolation.                     (* specification only: no correct implementation can have answered so *)

(* deconstruct_clark_notation(key) with the default `null` *)
Definition decon_key (k : str) : res (option str * str) :=
  deconstruct_clark_notation k deconstruct_clark_notation_null_default.

(* TagAttributes.__resolve_accessor *)
Definition resolve (s : astate) (a : acc) : res qname :=
  match a with
  | AStr x => match decon_key x with
              | Ok (Some ns, name) => Ok (ns, name)
              | Ok (None, name) => Ok (st_node_ns s, name)
              | Rejected e => Rejected e
              | Crash e => Crash e
              | OutOfFuel => OutOfFuel
              end
  | APair (Some ns) name => Ok (ns, name)
  | APair None name => Ok (st_node_ns s, name)
  | ABad => Crash TypeError
  end.

(* TagAttributes._etree_key: `{ns}name` when ns is not the default namespace in scope, or when the store
   already holds `{ns}name` (the lookup prefers an existing entry); for no namespace, `{d}name` when d is
   the default namespace in scope and only that entry exists; else the plain name *)
Definition clark (q : qname) : str := LBRACE :: fst q ++ RBRACE :: snd q.
Definition etree_key (dns : str) (st : list (str * str)) (q : qname) : str :=
  if (negb (null (fst q)) && (negb (str_eqb dns (fst q)) || ahas str_eqb st (clark q)))%bool
  then clark q
  else if (null (fst q) && negb (null dns) && negb (ahas str_eqb st (snd q)) && ahas str_eqb st (clark (dns, snd q)))%bool
  then clark (dns, snd q)
  else snd q.
Definition skey (s : astate) (q : qname) : str := etree_key (st_dns s) (st_store s) q.

(* one key of TagAttributes.__iter__ *)
Definition present (dns : str) (k : str) : qname :=
  match decon_key k with
  | Ok (Some ns, name) => (ns, name)
  | Ok (None, name) => (dns, name)
  | _ => ([], k)
  end.
Definition decon_ok (k : str) : bool := match decon_key k with Ok _ => true | _ => false end.

Definition contains_q (s : astate) (q : qname) : bool := ahas str_eqb (st_store s) (skey s q).

Definition new_obj (s : astate) (q : qname) : astate * oid :=
  (with_objs s (st_objs s ++ [Live q]), length (st_objs s)).

(* TagAttributes.__getitem__ *)
Definition getitem_q (s : astate) (q : qname) : astate * out :=
  if contains_q s q then
    match aget qname_eqb (st_cache s) q with
    | Some o => (s, RObj o)
    | None => let '(s1, o) := new_obj s q in (with_cache s1 (aset qname_eqb (st_cache s1) q o), RObj o)
    end
  else (s, RKeyError).

(* Attribute.value (getter) *)
Definition obj_value (s : astate) (o : oid) : out :=
  match nth_error (st_objs s) o with
  | Some (Live q) => match aget str_eqb (st_store s) (skey s q) with Some v => RStr v | None => RKeyError end
  | Some (Dead v _) => RStr v
  | None => RUnspec
  end.

(* Attribute.value (setter) *)
Definition obj_set_value (s : astate) (o : oid) (v : str) : astate * out :=
  match nth_error (st_objs s) o with
  | Some (Live q) => (with_store s (aset str_eqb (st_store s) (skey s q) v), RNone)
  | Some (Dead _ q) => (with_objs s (set_nth (st_objs s) o (Dead v q)), RNone)
  | None => (s, RUnspec)
  end.

(* TagAttributes.__setitem__: the cached Attribute object, if any, is kept *)
Definition setitem_q (s : astate) (q : qname) (v : str) : astate :=
  let s0 := with_store s (aset str_eqb (st_store s) (skey s q) v) in
  match aget qname_eqb (st_cache s) q with
  | Some _ => s0
  | None => let '(s1, o) := new_obj s0 q in with_cache s1 (aset qname_eqb (st_cache s1) q o)
  end.

(* TagAttributes.__delitem__ *)
Definition delitem_q (s : astate) (q : qname) : astate * out :=
  if contains_q s q then
    let '(s1, r) := getitem_q s q in
    match r with
    | RObj o =>
        match obj_value s1 o, nth_error (st_objs s1) o with
        | RStr v, Some x =>
            (mkA (adel str_eqb (st_store s1) (skey s1 q)) (st_dns s1) (st_node_ns s1)
                 (adel qname_eqb (st_cache s1) q) (set_nth (st_objs s1) o (Dead v (oq x))), RNone)
        | e, _ => (s1, e)
        end
    | e => (s1, e)
    end
  else (s, RKeyError).

(* Attribute._set_new_key *)
Definition set_new_key (s : astate) (o : oid) (q' : qname) : astate * out :=
  match nth_error (st_objs s) o with
  | None => (s, RUnspec)
  | Some x =>
      if qname_eqb (oq x) q' then (s, RNone)
      else match x with
           | Dead _ _ => (s, RCrash AssertionError)
           | Live q =>
               if str_eqb (skey s q) (skey s q')
               then (* both names address the same entry: only the cache entry moves *)
                 (mkA (st_store s) (st_dns s) (st_node_ns s)
                      (aset qname_eqb (adel qname_eqb (st_cache s) q) q' o)
                      (set_nth (st_objs s) o (Live q')), RNone)
               else
               match obj_value s o with
               | RStr v =>
                   let s1 := setitem_q s q' v in
                   let '(s3, r) := delitem_q s1 q in
                   match r with
                   | RNone => (mkA (st_store s3) (st_dns s3) (st_node_ns s3)
                                   (aset qname_eqb (st_cache s3) q' o)
                                   (set_nth (st_objs s3) o (Live q')), RNone)
                   | e => (s3, e)
                   end
               | e => (s, e)
               end
           end
  end.

(* MutableMapping.pop(item, None) *)
Definition pop_q (s : astate) (q : qname) : astate * out :=
  let '(s1, r) := getitem_q s q in
  match r with
  | RObj o => let '(s2, r2) := delitem_q s1 q in
              match r2 with RNone => (s2, RObj o) | e => (s2, e) end
  | RKeyError => (s, RNone)
  | e => (s1, e)
  end.

(* TagAttributes.__iter__ *)
Definition iter_keys (s : astate) : out :=
  if forallb decon_ok (map fst (st_store s))
  then RKeys (map (present (st_dns s)) (map fst (st_store s)))
  else RCrash ValueError.

Definition res_err (A : Type) (r : res A) : out :=
  match r with Ok _ => RUnspec | Rejected e => RCrash e | Crash e => RCrash e | OutOfFuel => RUnspec end.
Arguments res_err {A} r.

(* MutableMapping.update(mapping) *)
Fixpoint update_l (s : astate) (l : list (acc * str)) : astate * out :=
  match l with
  | [] => (s, RNone)
  | (a, v) :: r => match resolve s a with
                   | Ok q => update_l (setitem_q s q v) r
                   | e => (s, res_err e)
                   end
  end.

(* operations a client can perform; `o` refers to an Attribute object obtained earlier *)
Inductive op :=
  | OGet (a : acc) | OSet (a : acc) (v : str) | ODel (a : acc) | OContains (a : acc)
  | OIter | OLen | OPop (a : acc) | OUpdate (l : list (acc * str))
  | ONodeGet (a : acc) | ONodeSet (a : acc) (v : str) | ONodeDel (a : acc) | ONodeContains (a : acc)
  | OValue (o : nat) | OSetValue (o : nat) (v : str)
  | OSetLocal (o : nat) (name : str) | OSetNs (o : nat) (ns : str).

Definition with_q (s : astate) (a : acc) (k : qname -> astate * out) : astate * out :=
  match resolve s a with Ok q => k q | e => (s, res_err e) end.

(* one operation on the model; object references are oids.  The TagNode subscripts delegate to
   the mapping (TagNode.__getitem__/__setitem__/__delitem__/__contains__ for str / tuple / slice) *)
Definition astep (s : astate) (x : op) : astate * out :=
  match x with
  | OGet a | ONodeGet a => with_q s a (getitem_q s)
  | OSet a v | ONodeSet a v => with_q s a (fun q => (setitem_q s q v, RNone))
  | ODel a | ONodeDel a => with_q s a (delitem_q s)
  | OContains a | ONodeContains a => with_q s a (fun q => (s, RBool (contains_q s q)))
  | OIter => (s, iter_keys s)
  | OLen => (s, RNat (length (st_store s)))
  | OPop a => with_q s a (pop_q s)
  | OUpdate l => update_l s l
  | OValue o => (s, obj_value s o)
  | OSetValue o v => obj_set_value s o v
  | OSetLocal o name => match nth_error (st_objs s) o with
                        | Some x => set_new_key s o (fst (oq x), name)
                        | None => (s, RUnspec)
                        end
  | OSetNs o ns => match nth_error (st_objs s) o with
                   | Some x => set_new_key s o (ns, snd (oq x))
                   | None => (s, RUnspec)
                   end
  end.

(* The client: it keeps the Attribute objects it was handed, in order of first appearance, and
   refers to them by that position.  `RObj i` at this level is the position of the returned object. *)
Definition sys := (astate * list oid)%type.

Definition retarget (T : list oid) (x : op) : option op :=
  match x with
  | OValue i => option_map OValue (nth_error T i)
  | OSetValue i v => option_map (fun o => OSetValue o v) (nth_error T i)
  | OSetLocal i n => option_map (fun o => OSetLocal o n) (nth_error T i)
  | OSetNs i n => option_map (fun o => OSetNs o n) (nth_error T i)
  | _ => Some x
  end.

Definition track (T : list oid) (o : oid) : list oid * nat :=
  match index_of o T with Some i => (T, i) | None => (T ++ [o], length T) end.

Definition sys_step (y : sys) (x : op) : sys * out :=
  let '(s, T) := y in
  match retarget T x with
  | None => (y, RUnspec)
  | Some x' => let '(s', r) := astep s x' in
               match r with
               | RObj o => let '(T', i) := track T o in ((s', T'), RObj i)
               | _ => ((s', T), r)
               end
  end.

Fixpoint sys_run (y : sys) (l : list op) : sys * list out :=
  match l with
  | [] => (y, [])
  | x :: r => let '(y1, o) := sys_step y x in let '(y2, os) := sys_run y1 r in (y2, o :: os)
  end.

(* TagAttributes.__eq__(other) for another TagAttributes: equal sizes, and every item of self has its key
   among the keys other presents and is found in other with an equal value (the Attribute objects created
   on the way are not modelled) *)
Definition eq_item (s1 s2 : astate) (k : str) : out :=
  let q := present (st_dns s1) k in
  match aget str_eqb (st_store s1) (skey s1 q) with
  | None => RKeyError                                       (* self[key] *)
  | Some v1 =>
      if existsb (qname_eqb q) (map (present (st_dns s2)) (map fst (st_store s2)))
      then match aget str_eqb (st_store s2) (skey s2 q) with
           | None => RBool false                             (* other.get(...) is None *)
           | Some v2 => RBool (str_eqb v1 v2)
           end
      else RBool false                                       (* key not in set(other) *)
  end.
Fixpoint eq_items (s1 s2 : astate) (ks : list str) : out :=
  match ks with
  | [] => RBool true
  | k :: r => match eq_item s1 s2 k with
              | RBool true => eq_items s1 s2 r
              | e => e
              end
  end.
Definition attrs_eq (s1 s2 : astate) : out :=
  if Nat.eqb (length (st_store s1)) (length (st_store s2))
  then (if (forallb decon_ok (map fst (st_store s1)) && forallb decon_ok (map fst (st_store s2)))%bool
        then eq_items s1 s2 (map fst (st_store s1)) else RCrash ValueError)
  else RBool false.

(* ------------------------------------------------------------------------------------------ *)
(* the specification: a dictionary keyed by (namespace, local name), and views on its entries   *)

Definition dict := list (qname * str).
Inductive vstate := VLive (k : qname) | VDead (v : str).
Record dstate := mkD {
  d_dict : dict;
  d_views : list vstate;       (* the Attribute objects the client holds, by position *)
  d_dns : str;                 (* context: the default namespace in scope ([] = none) ... *)
  d_node_ns : str              (* ... and the namespace of the node *)
}.
Definition with_dict (d : dstate) x := mkD x (d_views d) (d_dns d) (d_node_ns d).
Definition with_views (d : dstate) x := mkD (d_dict d) x (d_dns d) (d_node_ns d).

(* "no namespace" and "the default namespace in scope" are the same namespace (the documented
   limitation of the lxml backend); keys are kept in this normal form *)
Definition norm (dns : str) (q : qname) : qname := (if null (fst q) then dns else fst q, snd q).

(* "{ns}name" | "name" *)
Definition spec_clark (s : str) : option (option str * str) :=
  match s with
  | c :: r => if N.eqb c LBRACE
              then match py_split1 r RBRACE with Some (ns, n) => Some (Some ns, n) | None => None end
              else Some (None, s)
  | [] => Some (None, [])
  end.

(* which (namespace, local name) an accessor denotes on this node; None = not a legal accessor *)
Definition acc_q (node_ns : str) (a : acc) : option qname :=
  match a with
  | AStr s => match spec_clark s with
              | Some (Some ns, n) => Some (ns, n)
              | Some (None, n) => Some (node_ns, n)
              | None => None
              end
  | APair (Some ns) n => Some (ns, n)
  | APair None n => Some (node_ns, n)
  | ABad => None
  end.
Definition acc_key (d : dstate) (a : acc) : option qname := option_map (norm (d_dns d)) (acc_q (d_node_ns d) a).

Definition dget (d : dict) (k : qname) := aget qname_eqb d k.
Definition dhas (d : dict) (k : qname) := ahas qname_eqb d k.
Definition dset (d : dict) (k : qname) (v : str) := aset qname_eqb d k v.
Definition ddel (d : dict) (k : qname) := adel qname_eqb d k.

(* an entry is removed: the views on it keep its last value *)
Definition kill_views (k : qname) (v : str) (vs : list vstate) : list vstate :=
  map (fun w => match w with VLive k' => if qname_eqb k' k then VDead v else w | VDead _ => w end) vs.

(* attributes[k]: a live view of entry k; `hint` = which of the client's objects came back
   (its position, or the next free position for an object not seen before) *)
Definition d_get (d : dstate) (k : qname) (hint : option nat) : dstate * out :=
  if dhas (d_dict d) k then
    match hint with
    | None => (d, RViolation)
    | Some i => match nth_error (d_views d) i with
                | Some (VLive k') => if qname_eqb k' k then (d, RObj i) else (d, RViolation)
                | Some (VDead _) => (d, RViolation)
                | None => if Nat.eqb i (length (d_views d))
                          then (with_views d (d_views d ++ [VLive k]), RObj i)
                          else (d, RViolation)
                end
    end
  else (d, RKeyError).

Definition d_del (d : dstate) (k : qname) : dstate * out :=
  match dget (d_dict d) k with
  | Some v => (mkD (ddel (d_dict d) k) (kill_views k v (d_views d)) (d_dns d) (d_node_ns d), RNone)
  | None => (d, RKeyError)
  end.

Definition d_pop (d : dstate) (k : qname) (hint : option nat) : dstate * out :=
  if dhas (d_dict d) k then
    let '(d1, r) := d_get d k hint in
    match r with
    | RObj i => let '(d2, _) := d_del d1 k in (d2, RObj i)
    | e => (d1, e)
    end
  else (d, RNone).

Definition d_rename (d : dstate) (i : nat) (k k' : qname) : dstate * out :=
  if qname_eqb k k' then (d, RNone)
  else match dget (d_dict d) k with
       | Some v => (mkD (ddel (dset (d_dict d) k' v) k) (set_nth (kill_views k v (d_views d)) i (VLive k'))
                        (d_dns d) (d_node_ns d), RNone)
       | None => (d, RUnspec)
       end.

Fixpoint d_update (d : dstate) (l : list (acc * str)) : dstate * out :=
  match l with
  | [] => (d, RNone)
  | (a, v) :: r => match acc_key d a with
                   | Some k => d_update (with_dict d (dset (d_dict d) k v)) r
                   | None => (d, RUnspec)
                   end
  end.

Definition with_k (d : dstate) (a : acc) (f : qname -> dstate * out) : dstate * out :=
  match acc_key d a with Some k => f k | None => (d, RUnspec) end.

Definition dict_step (d : dstate) (x : op) (hint : option nat) : dstate * out :=
  match x with
  | OGet a | ONodeGet a => with_k d a (fun k => d_get d k hint)
  | OSet a v | ONodeSet a v => with_k d a (fun k => (with_dict d (dset (d_dict d) k v), RNone))
  | ODel a | ONodeDel a => with_k d a (d_del d)
  | OContains a | ONodeContains a => with_k d a (fun k => (d, RBool (dhas (d_dict d) k)))
  | OIter => (d, RKeys (map fst (d_dict d)))
  | OLen => (d, RNat (length (d_dict d)))
  | OPop a => with_k d a (fun k => d_pop d k hint)
  | OUpdate l => d_update d l
  | OValue i => match nth_error (d_views d) i with
                | Some (VLive k) => (d, match dget (d_dict d) k with Some v => RStr v | None => RUnspec end)
                | Some (VDead v) => (d, RStr v)
                | None => (d, RUnspec)
                end
  | OSetValue i v => match nth_error (d_views d) i with
                     | Some (VLive k) => (with_dict d (dset (d_dict d) k v), RNone)
                     | Some (VDead _) => (with_views d (set_nth (d_views d) i (VDead v)), RNone)
                     | None => (d, RUnspec)
                     end
  | OSetLocal i n => match nth_error (d_views d) i with
                     | Some (VLive k) => d_rename d i k (fst k, n)
                     | _ => (d, RUnspec)           (* renaming a removed attribute: not specified *)
                     end
  | OSetNs i ns => match nth_error (d_views d) i with
                   | Some (VLive k) => d_rename d i k (norm (d_dns d) (ns, snd k))
                   | _ => (d, RUnspec)
                   end
  end.

Definition hint_of (r : out) : option nat := match r with RObj i => Some i | _ => None end.

(* the specification's answer agrees with an observed answer *)
Definition out_agrees (spec observed : out) : Prop := spec = RUnspec \/ spec = observed.

(* run the specification along observed answers (they only supply the identity hints) *)
Fixpoint dict_run (d : dstate) (l : list op) (obs : list out) : dstate * list out :=
  match l, obs with
  | x :: r, o :: os => let '(d1, a) := dict_step d x (hint_of o) in
                       let '(d2, az) := dict_run d1 r os in (d2, a :: az)
  | _, _ => (d, [])
  end.

(* equality of dictionaries (python: same keys with same values, order irrelevant) *)
Definition dict_eqb (d1 d2 : dict) : bool :=
  (Nat.eqb (length d1) (length d2)
   && forallb (fun kv => match dget d2 (fst kv) with Some v => str_eqb (snd kv) v | None => false end) d1)%bool.
Definition dict_equiv (d1 d2 : dict) : Prop := forall k, dget d1 k = dget d2 k.

(* ------------------------------------------------------------------------------------------ *)
(* abstraction                                                                                  *)
Definition abs_store (dns : str) (st : list (str * str)) : dict :=
  map (fun kv => (present dns (fst kv), snd kv)) st.
Definition abs_obj (dns : str) (x : ostate) : vstate :=
  match x with Live q => VLive (norm dns q) | Dead v _ => VDead v end.
Definition obj_at (s : astate) (o : oid) : ostate := nth o (st_objs s) (Dead [] ([], [])).
Definition abs_sys (y : sys) : dstate :=
  let '(s, T) := y in
  mkD (abs_store (st_dns s) (st_store s)) (map (fun o => abs_obj (st_dns s) (obj_at s o)) T)
      (st_dns s) (st_node_ns s).

(* ------------------------------------------------------------------------------------------ *)
(* well-formedness and the guards (all decidable)                                               *)

(* shape of a store key: `name` or `{ns}name`, ns not empty, no further braces *)
Definition skey_shape (k : str) : bool :=
  match spec_clark k with
  | Some (Some ns, n) => (negb (null ns) && plain ns && plain n)%bool
  | Some (None, n) => plain n
  | None => false
  end.
(* a key `{d}name` while d is the default namespace in scope (DESIGN 13b/13e): since the fixes bde0777 and
   badd57c such an entry is reached under both spellings (d, name) and ("", name) of its key.  What remains
   ambiguous is a store that holds BOTH `name` and `{d}name` (two XML attributes presented under one key);
   it is not reachable by attribute operations (no_double is preserved) but it can be parsed:
   <x xmlns="d" xmlns:p="d" k="1" p:k="2"/> *)
Definition collides (dns : str) (k : str) : bool :=
  match spec_clark k with Some (Some ns, _) => str_eqb dns ns | _ => false end.

Definition store_shape (s : astate) : bool :=
  (plain (st_node_ns s) && plain (st_dns s) && forallb skey_shape (map fst (st_store s)) && nodupb (map fst (st_store s)))%bool.
Definition no_collision (s : astate) : bool :=
  forallb (fun k => negb (collides (st_dns s) k)) (map fst (st_store s)).
Definition plain_of (k : str) : str := match spec_clark k with Some (_, n) => n | None => k end.
Definition no_double (s : astate) : bool :=
  forallb (fun k => negb (collides (st_dns s) k && ahas str_eqb (st_store s) (plain_of k))%bool) (map fst (st_store s)).
Fixpoint nodupq (l : list qname) : bool :=
  match l with [] => true | x :: r => (negb (existsb (qname_eqb x) r) && nodupq r)%bool end.
Definition cache_ok (s : astate) : bool :=
  (nodupq (map fst (st_cache s))
   && forallb (fun e => match nth_error (st_objs s) (snd e) with
                        | Some (Live q) => qname_eqb q (fst e)
                        | _ => false
                        end) (st_cache s))%bool.
Definition attr_wf (s : astate) : bool := (store_shape s && no_double s && cache_ok s)%bool.

(* the objects the client holds exist, and the live ones have their entry *)
Definition view_ok (s : astate) (o : oid) : bool :=
  match nth_error (st_objs s) o with
  | Some (Live q) => (plainq q && contains_q s q)%bool
  | Some (Dead _ _) => true
  | None => false
  end.
Definition sys_wf (y : sys) : bool :=
  (attr_wf (fst y) && forallb (view_ok (fst y)) (snd y) && nodupn (snd y))%bool.

Definition acc_wf (node_ns : str) (a : acc) : bool :=
  match acc_q node_ns a with Some q => plainq q | None => false end.

(* Removing the entry of q detaches only the object cached for q; the guard says that no *other* object
   the client holds is a live view of that entry (`but` = the object doing a rename).  Since fix 3e7a286
   (__setitem__ keeps the cached object, a renamed object is cached under its new name) this can only
   happen when two live objects exist for one entry: fetched under both spellings (no namespace /
   default namespace), or after renaming one attribute onto another that has a held object *)
Definition same_entry (s : astate) (q q' : qname) : bool := qname_eqb (norm (st_dns s) q) (norm (st_dns s) q').
Definition no_stale (s : astate) (T : list oid) (q : qname) (but : option oid) : bool :=
  forallb (fun o => match nth_error (st_objs s) o with
                    | Some (Live q') =>
                        if same_entry s q' q
                        then (match but with Some b => Nat.eqb b o | None => false end
                              || match aget qname_eqb (st_cache s) q with Some c => Nat.eqb c o | None => false end)%bool
                        else true
                    | _ => true
                    end) T.

Definition rename_safe (s : astate) (T : list oid) (o : oid) (q' : qname) : bool :=
  match nth_error (st_objs s) o with
  | Some (Live q) =>
      if qname_eqb q q' then true
      else if same_entry s q q' then true       (* only the spelling changes *)
      else no_stale s T q (Some o)
  | _ => true
  end.

Definition step_safe (y : sys) (x : op) : bool :=
  let '(s, T) := y in
  match x with
  | OGet a | ONodeGet a | OSet a _ | ONodeSet a _ | OContains a | ONodeContains a => acc_wf (st_node_ns s) a
  | ODel a | ONodeDel a | OPop a =>
      match acc_q (st_node_ns s) a with
      | Some q => (plainq q && (negb (contains_q s q) || no_stale s T q None))%bool
      | None => false
      end
  | OIter | OLen => true
  | OUpdate l => forallb (fun e => acc_wf (st_node_ns s) (fst e)) l
  | OValue i | OSetValue i _ => Nat.ltb i (length T)
  | OSetLocal i n => match nth_error T i with
                     | Some o => (plain n && rename_safe s T o (fst (oq (obj_at s o)), n))%bool
                     | None => false
                     end
  | OSetNs i ns => match nth_error T i with
                   | Some o => (plain ns && rename_safe s T o (ns, snd (oq (obj_at s o))))%bool
                   | None => false
                   end
  end.

Fixpoint run_safe (y : sys) (l : list op) : bool :=
  match l with
  | [] => true
  | x :: r => (step_safe y x && run_safe (fst (sys_step y x)) r)%bool
  end.

(* initial states: a node whose lxml store holds `st` *)
Definition init_state (dns node_ns : str) (st : list (str * str)) : astate := mkA st dns node_ns [] [].
Definition init_sys (dns node_ns : str) (st : list (str * str)) : sys := (init_state dns node_ns st, []).
