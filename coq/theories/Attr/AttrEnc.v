(* C11 - encodings that bring runs of the model and of the specification out of Coq for
   harness/props/c11.py (which computes the same numbers from the implementation), and the
   classification of a run by the guards of the theorems.  Definitions only. *)
From Coq Require Import List NArith Bool Arith.
From Delb.Base Require Import PyStr.
From Delb.Attr Require Import AttrModel.
Import ListNotations.

Definition enc_s (s : str) : list N := N.of_nat (length s) :: s.
Definition enc_q (q : qname) : list N := enc_s (fst q) ++ enc_s (snd q).
Definition exn_code (e : exn) : N :=
  match e with
  | InvalidOperation => 0 | ValueError => 1 | TypeError => 2 | IndexError => 3 | KeyError => 4
  | AssertionError => 5 | AttributeError => 6 | _ => 11
  end%N.
Definition enc_out (r : out) : list N :=
  match r with
  | RNone => [0]
  | RBool b => [1; if b then 1 else 0]
  | RNat n => [2; N.of_nat n]
  | RKeys l => 3 :: N.of_nat (length l) :: flat_map enc_q l
  | RObj i => [4; N.of_nat i]
  | RStr s => 5 :: enc_s s
  | RKeyError => [6]
  | RCrash e => [7; exn_code e]
  | RUnspec => [8]
  | RViolation => [9]
  end%N.

(* what is compared with the implementation after every step *)
Definition enc_obj (s : astate) (o : oid) : list N :=
  match nth_error (st_objs s) o with
  | Some x => (match x with Live _ => 0 | Dead _ _ => 1 end)%N :: enc_q (oq x) ++ enc_out (obj_value s o)
  | None => [99%N]
  end.
Definition enc_model_obs (y : sys) (r : out) : list N :=
  let '(s, T) := y in
  enc_out r
  ++ N.of_nat (length (st_store s)) :: flat_map (fun kv => enc_s (fst kv) ++ enc_s (snd kv)) (st_store s)
  ++ enc_out (iter_keys s)
  ++ N.of_nat (length T) :: flat_map (enc_obj s) T.

Definition view_value (d : dstate) (w : vstate) : out :=
  match w with
  | VLive k => match dget (d_dict d) k with Some v => RStr v | None => RUnspec end
  | VDead v => RStr v
  end.
(* the state part and the answer part are compared separately: an answer RUnspec binds nobody *)
Definition enc_spec_state (d : dstate) : list N :=
  N.of_nat (length (d_dict d)) :: flat_map (fun kv => enc_q (fst kv) ++ enc_s (snd kv)) (d_dict d)
  ++ N.of_nat (length (d_views d)) :: flat_map (fun w => enc_out (view_value d w)) (d_views d).

(* 30-bit djb2-style checksum (small constant first in the product, mask instead of mod: cheap in vm_compute) *)
Definition cks (l : list N) : N :=
  fold_left (fun h x => N.land (33 * h + x + 1) 1073741823)%N l 7%N.

Fixpoint model_obs_run (y : sys) (l : list op) : list (list N) :=
  match l with
  | [] => []
  | x :: r => let '(y1, o) := sys_step y x in enc_model_obs y1 o :: model_obs_run y1 r
  end.
Definition model_trace (y : sys) (l : list op) : list N := map cks (model_obs_run y l).
Definition model_full (y : sys) (l : list op) : list N :=
  flat_map (fun o => N.of_nat (length o) :: o) (model_obs_run y l).

Definition cks_out (r : out) : N := match r with RUnspec => 0%N | _ => cks (enc_out r) end.
(* per step two numbers: checksum of the answer (0 = unspecified), checksum of dictionary + views *)
Fixpoint spec_trace (d : dstate) (l : list (op * option nat)) : list N :=
  match l with
  | [] => []
  | (x, h) :: r => let '(d1, o) := dict_step d x h in cks_out o :: cks (enc_spec_state d1) :: spec_trace d1 r
  end.
Fixpoint spec_full (d : dstate) (l : list (op * option nat)) : list N :=
  match l with
  | [] => []
  | (x, h) :: r => let '(d1, o) := dict_step d x h in
                   let e := enc_out o ++ enc_spec_state d1 in
                   N.of_nat (length e) :: e ++ spec_full d1 r
  end.

(* equality of two attribute collections: [model answer ; dictionary answer] *)
Definition eq_obs (s1 s2 : astate) : list N :=
  enc_out (attrs_eq s1 s2)
  ++ [if dict_eqb (abs_store (st_dns s1) (st_store s1)) (abs_store (st_dns s2) (st_store s2)) then 1%N else 0%N;
      if str_eqb (st_dns s1) (st_dns s2) then 1%N else 0%N;
      if (attr_wf s1 && attr_wf s2)%bool then 1%N else 0%N].

(* Which guard of the theorems does a run leave first?  [class; step]:
   0 = none (C11_refines_run applies to the whole run), 1 = the initial store holds both name and {d}name
   for the default namespace d (two XML attributes presented under one key), 2 = an entry is
   removed while another held object is a live view of it (two live objects for one entry), 3 = unused since
   fix 159ed68 (renaming between no namespace and the default namespace is inside the guard), 4 = outside
   the stated domain (illegal accessor, no such object), 5 = the initial state is not well-formed otherwise *)
Definition is_rename_alias (y : sys) (x : op) : bool :=
  let '(s, T) := y in
  let chk (i : nat) (f : qname -> qname) :=
    match nth_error T i with
    | Some o => match nth_error (st_objs s) o with
                | Some (Live q) => (negb (qname_eqb q (f q)) && same_entry s q (f q))%bool
                | _ => false
                end
    | None => false
    end in
  match x with
  | OSetLocal i n => chk i (fun q => (fst q, n))
  | OSetNs i ns => chk i (fun q => (ns, snd q))
  | _ => false
  end.
Definition op_in_domain (y : sys) (x : op) : bool :=
  let '(s, T) := y in
  match x with
  | OGet a | ONodeGet a | OSet a _ | ONodeSet a _ | OContains a | ONodeContains a
  | ODel a | ONodeDel a | OPop a => acc_wf (st_node_ns s) a
  | OIter | OLen => true
  | OUpdate l => forallb (fun e => acc_wf (st_node_ns s) (fst e)) l
  | OValue i | OSetValue i _ => Nat.ltb i (length T)
  | OSetLocal i n => (Nat.ltb i (length T) && plain n)%bool
  | OSetNs i n => (Nat.ltb i (length T) && plain n)%bool
  end.
Definition step_class (y : sys) (x : op) : N :=
  if step_safe y x then 0%N
  else if negb (op_in_domain y x) then 4%N
  else if is_rename_alias y x then 3%N else 2%N.
Fixpoint run_class_from (y : sys) (l : list op) (i : N) : list N :=
  match l with
  | [] => [0%N; i]
  | x :: r => match step_class y x with
              | 0%N => run_class_from (fst (sys_step y x)) r (i + 1)%N
              | c => [c; i]
              end
  end.
Definition run_class (y : sys) (l : list op) : list N :=
  if negb (no_double (fst y)) then [1%N; 0%N]
  else if negb (sys_wf y) then [5%N; 0%N]
  else run_class_from y l 0%N.
