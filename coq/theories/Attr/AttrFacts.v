(* C11 - lemmas about the attribute model (AttrModel.v): Clark-notation keys, the abstraction to
   the dictionary, preservation of well-formedness, refinement of every operation. *)
From Coq Require Import List NArith Bool Arith Lia.
From Delb.Base Require Import PyStr PyStrFacts PySplit.
From Delb.Gen Require Import GenAttr.
From Delb.Attr Require Import AttrModel.
Import ListNotations.

(* ------------------------------------------------------------------------------------------ *)
(* association lists                                                                            *)
Section AssocFacts.
  Context {K V : Type} (eqb : K -> K -> bool).
  Hypothesis eqb_spec : forall a b, eqb a b = true <-> a = b.

  Lemma eqb_rfl a : eqb a a = true.
  Proof. apply eqb_spec. reflexivity. Qed.

  Lemma eqb_neq a b : a <> b -> eqb a b = false.
  Proof. intros H. destruct (eqb a b) eqn:E; [|reflexivity]. apply eqb_spec in E. contradiction. Qed.

  Lemma aget_aset_same (l : list (K * V)) k v : aget eqb (aset eqb l k v) k = Some v.
  Proof.
    induction l as [|[a w] r IH]; cbn.
    - rewrite eqb_rfl. reflexivity.
    - destruct (eqb a k) eqn:E; cbn; rewrite E; [reflexivity|exact IH].
  Qed.

  Lemma aget_aset_other (l : list (K * V)) k k' v : k <> k' -> aget eqb (aset eqb l k v) k' = aget eqb l k'.
  Proof.
    intros N. induction l as [|[a w] r IH]; cbn.
    - rewrite (eqb_neq k k' N). reflexivity.
    - destruct (eqb a k) eqn:E; cbn.
      + apply eqb_spec in E. subst a. rewrite (eqb_neq k k' N). reflexivity.
      + destruct (eqb a k'); [reflexivity|exact IH].
  Qed.

  Lemma aget_none_notin (l : list (K * V)) k : aget eqb l k = None <-> ~ In k (map fst l).
  Proof.
    induction l as [|[a w] r IH]; cbn.
    - split; [intros _ []|reflexivity].
    - destruct (eqb a k) eqn:E.
      + apply eqb_spec in E. subst. split; [discriminate|]. intros H. exfalso. apply H. left. reflexivity.
      + rewrite IH. split.
        * intros H [H1|H1]; [|exact (H H1)]. subst. rewrite eqb_rfl in E. discriminate.
        * intros H H1. apply H. right. exact H1.
  Qed.

  Lemma aget_some_in (l : list (K * V)) k v : aget eqb l k = Some v -> In (k, v) l.
  Proof.
    induction l as [|[a w] r IH]; cbn; [discriminate|].
    destruct (eqb a k) eqn:E.
    - apply eqb_spec in E. subst. intros H. inversion H. left. reflexivity.
    - intros H. right. exact (IH H).
  Qed.

  Lemma in_aget_nodup (l : list (K * V)) k v : NoDup (map fst l) -> In (k, v) l -> aget eqb l k = Some v.
  Proof.
    induction l as [|[a w] r IH]; cbn; [intros _ []|].
    intros ND [H|H].
    - inversion H. subst. rewrite eqb_rfl. reflexivity.
    - inversion ND as [|? ? Hn ND']. subst. destruct (eqb a k) eqn:E.
      + apply eqb_spec in E. subst. exfalso. apply Hn. apply (in_map fst) in H. exact H.
      + exact (IH ND' H).
  Qed.

  Lemma ahas_in (l : list (K * V)) k : ahas eqb l k = true <-> In k (map fst l).
  Proof.
    unfold ahas. destruct (aget eqb l k) eqn:E.
    - split; [|reflexivity]. intros _. apply aget_some_in in E. apply (in_map fst) in E. exact E.
    - split; [discriminate|]. intros H. apply aget_none_notin in E. contradiction.
  Qed.

  Lemma keys_aset (l : list (K * V)) k v :
    map fst (aset eqb l k v) = if ahas eqb l k then map fst l else map fst l ++ [k].
  Proof.
    unfold ahas. induction l as [|[a w] r IH]; cbn; [reflexivity|].
    destruct (eqb a k) eqn:E; cbn; [reflexivity|].
    rewrite IH. destruct (aget eqb r k); reflexivity.
  Qed.

  Lemma in_keys_aset (l : list (K * V)) k v x :
    In x (map fst (aset eqb l k v)) <-> In x (map fst l) \/ x = k.
  Proof.
    rewrite keys_aset. destruct (ahas eqb l k) eqn:E.
    - split; [intros H; left; exact H|]. intros [H|H]; [exact H|]. subst. apply ahas_in. exact E.
    - rewrite in_app_iff. cbn. split.
      + intros [H|[H|[]]]; [left; exact H|right; symmetry; exact H].
      + intros [H|H]; [left; exact H|right; left; symmetry; exact H].
  Qed.

  Lemma nodup_aset (l : list (K * V)) k v : NoDup (map fst l) -> NoDup (map fst (aset eqb l k v)).
  Proof.
    intros ND. rewrite keys_aset. destruct (ahas eqb l k) eqn:E; [exact ND|].
    assert (~ In k (map fst l)) as Hn.
    { intros H. apply ahas_in in H. rewrite H in E. discriminate. }
    clear E. induction (map fst l) as [|a r IH]; cbn.
    - constructor; [intros []|constructor].
    - inversion ND as [|? ? Ha ND']. subst. constructor.
      + rewrite in_app_iff. intros [H|[H|[]]]; [exact (Ha H)|]. subst. apply Hn. left. reflexivity.
      + apply IH; [exact ND'|]. intros H. apply Hn. right. exact H.
  Qed.

  Lemma in_adel (l : list (K * V)) k x : In x (adel eqb l k) -> In x l.
  Proof.
    induction l as [|[a w] r IH]; cbn; [intros []|].
    destruct (eqb a k); [intros H; right; exact H|].
    intros [H|H]; [left; exact H|right; exact (IH H)].
  Qed.

  Lemma in_keys_adel (l : list (K * V)) k x : In x (map fst (adel eqb l k)) -> In x (map fst l).
  Proof.
    intros H. apply in_map_iff in H. destruct H as [[a w] [H1 H2]]. apply in_adel in H2.
    apply in_map_iff. exists (a, w). split; assumption.
  Qed.

  Lemma nodup_adel (l : list (K * V)) k : NoDup (map fst l) -> NoDup (map fst (adel eqb l k)).
  Proof.
    induction l as [|[a w] r IH]; cbn; [intros H; exact H|].
    intros ND. inversion ND as [|? ? Ha ND']. subst. destruct (eqb a k); [exact ND'|].
    cbn. constructor; [|exact (IH ND')]. intros H. apply Ha. exact (in_keys_adel _ _ _ H).
  Qed.

  Lemma aget_adel_same (l : list (K * V)) k : NoDup (map fst l) -> aget eqb (adel eqb l k) k = None.
  Proof.
    induction l as [|[a w] r IH]; cbn; [reflexivity|].
    intros ND. inversion ND as [|? ? Ha ND']. subst. destruct (eqb a k) eqn:E.
    - apply eqb_spec in E. subst. apply aget_none_notin. exact Ha.
    - cbn. rewrite E. exact (IH ND').
  Qed.

  Lemma aget_adel_other (l : list (K * V)) k k' : k <> k' -> aget eqb (adel eqb l k) k' = aget eqb l k'.
  Proof.
    intros N. induction l as [|[a w] r IH]; cbn; [reflexivity|].
    destruct (eqb a k) eqn:E.
    - apply eqb_spec in E. subst. rewrite (eqb_neq k k' N). reflexivity.
    - cbn. destruct (eqb a k'); [reflexivity|exact IH].
  Qed.

  Lemma in_keys_adel_iff (l : list (K * V)) k x :
    NoDup (map fst l) -> (In x (map fst (adel eqb l k)) <-> In x (map fst l) /\ x <> k).
  Proof.
    intros ND. split.
    - intros H. split; [exact (in_keys_adel _ _ _ H)|]. intros ->.
      apply (proj1 (ahas_in _ _)) in H || idtac.
      assert (aget eqb (adel eqb l k) k = None) as A by (apply aget_adel_same; exact ND).
      apply aget_none_notin in A. contradiction.
    - intros [H N]. apply ahas_in. apply ahas_in in H. unfold ahas in *.
      rewrite aget_adel_other; [exact H|]. intros ->. apply N. reflexivity.
  Qed.

  Lemma length_adel (l : list (K * V)) k : ahas eqb l k = true -> S (length (adel eqb l k)) = length l.
  Proof.
    unfold ahas. induction l as [|[a w] r IH]; cbn; [discriminate|].
    destruct (eqb a k); [reflexivity|]. intros H. cbn. rewrite (IH H). reflexivity.
  Qed.
End AssocFacts.

(* mapping the keys of an association list by a function that is injective on a domain *)
Section MapKeys.
  Context {K K2 V : Type} (eqb : K -> K -> bool) (eqb2 : K2 -> K2 -> bool) (f : K -> K2) (P : K -> Prop).
  Hypothesis eqb_spec : forall a b, eqb a b = true <-> a = b.
  Hypothesis eqb2_spec : forall a b, eqb2 a b = true <-> a = b.
  Hypothesis f_inj : forall a b, P a -> P b -> f a = f b -> a = b.
  Definition mapk (l : list (K * V)) : list (K2 * V) := map (fun kv => (f (fst kv), snd kv)) l.

  Lemma eqb2_f a b : P a -> P b -> eqb2 (f a) (f b) = eqb a b.
  Proof.
    intros Pa Pb. destruct (eqb a b) eqn:E.
    - apply eqb_spec in E. subst. apply eqb2_spec. reflexivity.
    - destruct (eqb2 (f a) (f b)) eqn:E2; [|reflexivity]. apply eqb2_spec in E2.
      apply f_inj in E2; [|exact Pa|exact Pb]. subst. rewrite (eqb_rfl eqb eqb_spec) in E. discriminate.
  Qed.

  Lemma mapk_aget l k : Forall P (map fst l) -> P k -> aget eqb2 (mapk l) (f k) = aget eqb l k.
  Proof.
    intros Hl Pk. induction l as [|[a w] r IH]; cbn; [reflexivity|].
    inversion Hl as [|? ? Pa Hr]. subst. cbn in Pa. rewrite (eqb2_f a k Pa Pk).
    destruct (eqb a k); [reflexivity|exact (IH Hr)].
  Qed.

  Lemma mapk_aset l k v : Forall P (map fst l) -> P k -> mapk (aset eqb l k v) = aset eqb2 (mapk l) (f k) v.
  Proof.
    intros Hl Pk. unfold mapk. induction l as [|[a w] r IH]; cbn; [reflexivity|].
    inversion Hl as [|? ? Pa Hr]. subst. cbn in Pa. rewrite (eqb2_f a k Pa Pk).
    destruct (eqb a k); cbn; [reflexivity|]. f_equal. exact (IH Hr).
  Qed.

  Lemma mapk_adel l k : Forall P (map fst l) -> P k -> mapk (adel eqb l k) = adel eqb2 (mapk l) (f k).
  Proof.
    intros Hl Pk. unfold mapk. induction l as [|[a w] r IH]; cbn; [reflexivity|].
    inversion Hl as [|? ? Pa Hr]. subst. cbn in Pa. rewrite (eqb2_f a k Pa Pk).
    destruct (eqb a k); cbn; [reflexivity|]. f_equal. exact (IH Hr).
  Qed.

  Lemma mapk_keys l : map fst (mapk l) = map f (map fst l).
  Proof. unfold mapk. rewrite !map_map. reflexivity. Qed.

  Lemma mapk_nodup l : Forall P (map fst l) -> NoDup (map fst l) -> NoDup (map fst (mapk l)).
  Proof.
    rewrite mapk_keys. induction (map fst l) as [|a r IH]; cbn; [constructor|].
    intros Hl ND. inversion Hl as [|? ? Pa Hr]. inversion ND as [|? ? Ha ND']. subst. constructor; [|exact (IH Hr ND')].
    intros H. apply in_map_iff in H. destruct H as [b [H1 H2]]. apply Ha.
    rewrite Forall_forall in Hr. rewrite <- (f_inj b a (Hr b H2) Pa H1). exact H2.
  Qed.
End MapKeys.

(* ------------------------------------------------------------------------------------------ *)
(* names                                                                                        *)
Lemma qname_eqb_eq a b : qname_eqb a b = true <-> a = b.
Proof.
  destruct a as [a1 a2], b as [b1 b2]. unfold qname_eqb. cbn. rewrite andb_true_iff, !str_eqb_eq.
  split; [intros [-> ->]; reflexivity|intros H; inversion H; auto].
Qed.
Lemma qname_eqb_refl a : qname_eqb a a = true.
Proof. apply qname_eqb_eq. reflexivity. Qed.

Lemma nat_eqb_eq a b : Nat.eqb a b = true <-> a = b.
Proof. apply Nat.eqb_eq. Qed.

Lemma split1_spec s c a b : py_split1 s c = Some (a, b) -> s = a ++ c :: b.
Proof.
  revert a b. induction s as [|x r IH]; cbn; [discriminate|]. intros a b.
  destruct (N.eqb x c) eqn:E.
  - apply N.eqb_eq in E. subst. intros H. inversion H. reflexivity.
  - destruct (py_split1 r c) as [[a' b']|]; [|discriminate]. intros H. inversion H. subst.
    cbn. rewrite (IH a' b eq_refl). reflexivity.
Qed.

Lemma split1_plain ns n : plain ns = true -> py_split1 (ns ++ RBRACE :: n) RBRACE = Some (ns, n).
Proof.
  induction ns as [|x r IH]; cbn.
  - intros _. reflexivity.
  - rewrite andb_true_iff. intros [Hx Hr]. unfold plainc in Hx. rewrite negb_true_iff, orb_false_iff in Hx.
    destruct Hx as [_ Hx]. rewrite Hx. rewrite (IH Hr). reflexivity.
Qed.

Lemma decon_spec s :
  decon_key s = match spec_clark s with Some p => Ok p | None => Crash ValueError end.
Proof.
  unfold decon_key, deconstruct_clark_notation, deconstruct_clark_notation_null_default, py_startswith.
  destruct s as [|c r]; [reflexivity|].
  change (py_prefix [123%N] (c :: r)) with (N.eqb LBRACE c && true)%bool.
  rewrite andb_true_r, N.eqb_sym. unfold spec_clark.
  destruct (N.eqb c LBRACE) eqn:E; [|reflexivity].
  apply N.eqb_eq in E. subst c.
  change (py_split1 (LBRACE :: r) 125%N)
    with (match py_split1 r RBRACE with Some (a, b) => Some (LBRACE :: a, b) | None => None end).
  destruct (py_split1 r RBRACE) as [[a b]|]; reflexivity.
Qed.

Lemma spec_clark_plain n : plain n = true -> spec_clark n = Some (None, n).
Proof.
  destruct n as [|c r]; cbn; [reflexivity|]. rewrite andb_true_iff. intros [Hc _].
  unfold plainc in Hc. rewrite negb_true_iff, orb_false_iff in Hc. destruct Hc as [Hc _]. rewrite Hc. reflexivity.
Qed.

Lemma spec_clark_braced ns n : plain ns = true -> spec_clark (LBRACE :: ns ++ RBRACE :: n) = Some (Some ns, n).
Proof. intros H. cbn. rewrite (split1_plain ns n H). reflexivity. Qed.

Lemma spec_clark_inv k o n :
  spec_clark k = Some (o, n) -> match o with Some ns => k = LBRACE :: ns ++ RBRACE :: n | None => k = n end.
Proof.
  destruct k as [|c r]; cbn.
  - intros H. inversion H. reflexivity.
  - destruct (N.eqb c LBRACE) eqn:E.
    + apply N.eqb_eq in E. subst. destruct (py_split1 r RBRACE) as [[a b]|] eqn:S; [|discriminate].
      intros H. inversion H. subst. apply split1_spec in S. rewrite S. reflexivity.
    + intros H. inversion H. reflexivity.
Qed.

Lemma present_spec dns k :
  present dns k = match spec_clark k with
                  | Some (Some ns, n) => (ns, n)
                  | Some (None, n) => (dns, n)
                  | None => ([], k)
                  end.
Proof.
  unfold present. rewrite decon_spec. destruct (spec_clark k) as [[[ns|] n]|]; reflexivity.
Qed.

Lemma decon_ok_spec k : decon_ok k = match spec_clark k with Some _ => true | None => false end.
Proof. unfold decon_ok. rewrite decon_spec. destruct (spec_clark k); reflexivity. Qed.

(* a store key that has the right shape and does not collide with the default namespace *)
Definition skey_ok (dns k : str) : bool := (skey_shape k && negb (collides dns k))%bool.

Lemma present_inj dns k k' :
  skey_ok dns k = true -> skey_ok dns k' = true -> present dns k = present dns k' -> k = k'.
Proof.
  unfold skey_ok. rewrite !andb_true_iff, !negb_true_iff. intros [S1 C1] [S2 C2].
  unfold skey_shape in S1, S2. unfold collides in C1, C2. rewrite !present_spec.
  destruct (spec_clark k) as [[[ns|] n]|] eqn:E1; [| |discriminate];
    (destruct (spec_clark k') as [[[ns'|] n']|] eqn:E2; [| |discriminate]);
    intros H; inversion H; subst; apply spec_clark_inv in E1, E2; try congruence.
  - rewrite str_eqb_refl in C1. discriminate.
  - rewrite str_eqb_refl in C2. discriminate.
Qed.

Lemma null_false_iff {A} (l : list A) : null l = false <-> l <> [].
Proof. destruct l; cbn; split; intros H; try discriminate; try reflexivity; try (exfalso; apply H; reflexivity). Qed.

Lemma str_eqb_false a b : str_eqb a b = false <-> a <> b.
Proof.
  split.
  - intros H E. subst. rewrite str_eqb_refl in H. discriminate.
  - intros H. destruct (str_eqb a b) eqn:E; [|reflexivity]. apply str_eqb_eq in E. contradiction.
Qed.

Lemma etree_key_ok dns q : plainq q = true -> skey_ok dns (etree_key dns q) = true.
Proof.
  destruct q as [ns n]. unfold plainq, etree_key, skey_ok, skey_shape, collides. cbn [fst snd].
  rewrite andb_true_iff. intros [Hns Hn].
  destruct (null ns) eqn:En; cbn [negb andb].
  - rewrite (spec_clark_plain n Hn). rewrite Hn. reflexivity.
  - destruct (str_eqb dns ns) eqn:Ed; cbn [negb andb].
    + rewrite (spec_clark_plain n Hn). rewrite Hn. reflexivity.
    + rewrite (spec_clark_braced ns n Hns). rewrite En, Hns, Hn, Ed. reflexivity.
Qed.

Lemma present_etree_key dns q : plainq q = true -> present dns (etree_key dns q) = norm dns q.
Proof.
  destruct q as [ns n]. unfold plainq, etree_key, norm. rewrite present_spec. cbn [fst snd].
  rewrite andb_true_iff. intros [Hns Hn].
  destruct (null ns) eqn:En; cbn [negb andb].
  - rewrite (spec_clark_plain n Hn). reflexivity.
  - destruct (str_eqb dns ns) eqn:Ed; cbn [negb andb].
    + rewrite (spec_clark_plain n Hn). apply str_eqb_eq in Ed. subst. reflexivity.
    + rewrite (spec_clark_braced ns n Hns). reflexivity.
Qed.

Lemma etree_key_norm_iff dns q q' :
  plainq q = true -> plainq q' = true -> (etree_key dns q = etree_key dns q' <-> norm dns q = norm dns q').
Proof.
  intros H H'. rewrite <- (present_etree_key dns q H), <- (present_etree_key dns q' H'). split.
  - intros ->. reflexivity.
  - apply present_inj; apply etree_key_ok; assumption.
Qed.

Lemma plainq_norm dns q : plain dns = true -> plainq q = true -> plainq (norm dns q) = true.
Proof.
  destruct q as [ns n]. unfold plainq, norm. cbn. rewrite !andb_true_iff. intros Hd [Hns Hn].
  destruct (null ns); auto.
Qed.

Lemma norm_idem dns q : norm dns (norm dns q) = norm dns q.
Proof.
  destruct q as [ns n]. unfold norm. cbn. destruct (null ns) eqn:E; cbn; [|rewrite E; reflexivity].
  destruct (null dns) eqn:E2; [|reflexivity]. destruct dns; [reflexivity|discriminate].
Qed.

(* the accessor forms: the model's resolution is the specification's reading *)
Lemma resolve_acc_q s a :
  resolve s a = match acc_q (st_node_ns s) a with Some q => Ok q | None =>
                  match a with ABad => Crash TypeError | _ => Crash ValueError end end.
Proof.
  destruct a as [x|[ns|] n|]; cbn; try reflexivity.
  rewrite decon_spec. destruct (spec_clark x) as [[[ns|] n]|]; reflexivity.
Qed.
