(* C11 - lemmas about the attribute model (AttrModel.v): Clark-notation keys, the abstraction to
   the dictionary, preservation of well-formedness, refinement of every operation. *)
From Coq Require Import List NArith Bool Arith Lia.
From Delb.Base Require Import PyStr PyStrFacts PySplit.
From Delb.Gen Require Import GenAttr GenAttrKey.
From Delb.Attr Require Import AttrModel.
Import ListNotations.

(* ------------------------------------------------------------------------------------------ *)
(* association lists                                                                            *)
Section AssocFacts.
  Context {K V : Type} (eqb : K -> K -> bool).
  Hypothesis eqb_spec : forall a b, eqb a b = true <-> a = b.

  Lemma eqb_rfl a : eqb a a = true.
  Proof. apply eqb_spec. reflexivity. Qed.

  Lemma eqb_neq a b : a <> b -> eqb a b = false.
  Proof. intros H. destruct (eqb a b) eqn:E; [|reflexivity]. apply eqb_spec in E. contradiction. Qed.

  Lemma aget_aset_same (l : list (K * V)) k v : aget eqb (aset eqb l k v) k = Some v.
  Proof.
    induction l as [|[a w] r IH]; cbn.
    - rewrite eqb_rfl. reflexivity.
    - destruct (eqb a k) eqn:E; cbn; rewrite E; [reflexivity|exact IH].
  Qed.

  Lemma aget_aset_other (l : list (K * V)) k k' v : k <> k' -> aget eqb (aset eqb l k v) k' = aget eqb l k'.
  Proof.
    intros N. induction l as [|[a w] r IH]; cbn.
    - rewrite (eqb_neq k k' N). reflexivity.
    - destruct (eqb a k) eqn:E; cbn.
      + apply eqb_spec in E. subst a. rewrite (eqb_neq k k' N). reflexivity.
      + destruct (eqb a k'); [reflexivity|exact IH].
  Qed.

  Lemma aget_none_notin (l : list (K * V)) k : aget eqb l k = None <-> ~ In k (map fst l).
  Proof.
    induction l as [|[a w] r IH]; cbn.
    - split; [intros _ []|reflexivity].
    - destruct (eqb a k) eqn:E.
      + apply eqb_spec in E. subst. split; [discriminate|]. intros H. exfalso. apply H. left. reflexivity.
      + rewrite IH. split.
        * intros H [H1|H1]; [|exact (H H1)]. subst. rewrite eqb_rfl in E. discriminate.
        * intros H H1. apply H. right. exact H1.
  Qed.

  Lemma aget_some_in (l : list (K * V)) k v : aget eqb l k = Some v -> In (k, v) l.
  Proof.
    induction l as [|[a w] r IH]; cbn; [discriminate|].
    destruct (eqb a k) eqn:E.
    - apply eqb_spec in E. subst. intros H. inversion H. left. reflexivity.
    - intros H. right. exact (IH H).
  Qed.

  Lemma in_aget_nodup (l : list (K * V)) k v : NoDup (map fst l) -> In (k, v) l -> aget eqb l k = Some v.
  Proof.
    induction l as [|[a w] r IH]; cbn; [intros _ []|].
    intros ND [H|H].
    - inversion H. subst. rewrite eqb_rfl. reflexivity.
    - inversion ND as [|? ? Hn ND']. subst. destruct (eqb a k) eqn:E.
      + apply eqb_spec in E. subst. exfalso. apply Hn. apply (in_map fst) in H. exact H.
      + exact (IH ND' H).
  Qed.

  Lemma ahas_in (l : list (K * V)) k : ahas eqb l k = true <-> In k (map fst l).
  Proof.
    unfold ahas. destruct (aget eqb l k) eqn:E.
    - split; [|reflexivity]. intros _. apply aget_some_in in E. apply (in_map fst) in E. exact E.
    - split; [discriminate|]. intros H. apply aget_none_notin in E. contradiction.
  Qed.

  Lemma keys_aset (l : list (K * V)) k v :
    map fst (aset eqb l k v) = if ahas eqb l k then map fst l else map fst l ++ [k].
  Proof.
    unfold ahas. induction l as [|[a w] r IH]; cbn; [reflexivity|].
    destruct (eqb a k) eqn:E; cbn; [reflexivity|].
    rewrite IH. destruct (aget eqb r k); reflexivity.
  Qed.

  Lemma in_keys_aset (l : list (K * V)) k v x :
    In x (map fst (aset eqb l k v)) <-> In x (map fst l) \/ x = k.
  Proof.
    rewrite keys_aset. destruct (ahas eqb l k) eqn:E.
    - split; [intros H; left; exact H|]. intros [H|H]; [exact H|]. subst. apply ahas_in. exact E.
    - rewrite in_app_iff. cbn. split.
      + intros [H|[H|[]]]; [left; exact H|right; symmetry; exact H].
      + intros [H|H]; [left; exact H|right; left; symmetry; exact H].
  Qed.

  Lemma nodup_aset (l : list (K * V)) k v : NoDup (map fst l) -> NoDup (map fst (aset eqb l k v)).
  Proof.
    intros ND. rewrite keys_aset. destruct (ahas eqb l k) eqn:E; [exact ND|].
    assert (~ In k (map fst l)) as Hn.
    { intros H. apply ahas_in in H. rewrite H in E. discriminate. }
    clear E. induction (map fst l) as [|a r IH]; cbn.
    - constructor; [intros []|constructor].
    - inversion ND as [|? ? Ha ND']. subst. constructor.
      + rewrite in_app_iff. intros [H|[H|[]]]; [exact (Ha H)|]. subst. apply Hn. left. reflexivity.
      + apply IH; [exact ND'|]. intros H. apply Hn. right. exact H.
  Qed.

  Lemma in_adel (l : list (K * V)) k x : In x (adel eqb l k) -> In x l.
  Proof.
    induction l as [|[a w] r IH]; cbn; [intros []|].
    destruct (eqb a k); [intros H; right; exact H|].
    intros [H|H]; [left; exact H|right; exact (IH H)].
  Qed.

  Lemma in_keys_adel (l : list (K * V)) k x : In x (map fst (adel eqb l k)) -> In x (map fst l).
  Proof.
    intros H. apply in_map_iff in H. destruct H as [[a w] [H1 H2]]. apply in_adel in H2.
    apply in_map_iff. exists (a, w). split; assumption.
  Qed.

  Lemma nodup_adel (l : list (K * V)) k : NoDup (map fst l) -> NoDup (map fst (adel eqb l k)).
  Proof.
    induction l as [|[a w] r IH]; cbn; [intros H; exact H|].
    intros ND. inversion ND as [|? ? Ha ND']. subst. destruct (eqb a k); [exact ND'|].
    cbn. constructor; [|exact (IH ND')]. intros H. apply Ha. exact (in_keys_adel _ _ _ H).
  Qed.

  Lemma aget_adel_same (l : list (K * V)) k : NoDup (map fst l) -> aget eqb (adel eqb l k) k = None.
  Proof.
    induction l as [|[a w] r IH]; cbn; [reflexivity|].
    intros ND. inversion ND as [|? ? Ha ND']. subst. destruct (eqb a k) eqn:E.
    - apply eqb_spec in E. subst. apply aget_none_notin. exact Ha.
    - cbn. rewrite E. exact (IH ND').
  Qed.

  Lemma aget_adel_other (l : list (K * V)) k k' : k <> k' -> aget eqb (adel eqb l k) k' = aget eqb l k'.
  Proof.
    intros N. induction l as [|[a w] r IH]; cbn; [reflexivity|].
    destruct (eqb a k) eqn:E.
    - apply eqb_spec in E. subst. rewrite (eqb_neq k k' N). reflexivity.
    - cbn. destruct (eqb a k'); [reflexivity|exact IH].
  Qed.

  Lemma in_keys_adel_iff (l : list (K * V)) k x :
    NoDup (map fst l) -> (In x (map fst (adel eqb l k)) <-> In x (map fst l) /\ x <> k).
  Proof.
    intros ND. split.
    - intros H. split; [exact (in_keys_adel _ _ _ H)|]. intros ->.
      apply (proj1 (ahas_in _ _)) in H || idtac.
      assert (aget eqb (adel eqb l k) k = None) as A by (apply aget_adel_same; exact ND).
      apply aget_none_notin in A. contradiction.
    - intros [H N]. apply ahas_in. apply ahas_in in H. unfold ahas in *.
      rewrite aget_adel_other; [exact H|]. intros ->. apply N. reflexivity.
  Qed.

  Lemma length_adel (l : list (K * V)) k : ahas eqb l k = true -> S (length (adel eqb l k)) = length l.
  Proof.
    unfold ahas. induction l as [|[a w] r IH]; cbn; [discriminate|].
    destruct (eqb a k); [reflexivity|]. intros H. cbn. rewrite (IH H). reflexivity.
  Qed.
End AssocFacts.

(* mapping the keys of an association list by a function that is injective on a domain *)
Section MapKeys.
  Context {K K2 V : Type} (eqb : K -> K -> bool) (eqb2 : K2 -> K2 -> bool) (f : K -> K2) (P : K -> Prop).
  Hypothesis eqb_spec : forall a b, eqb a b = true <-> a = b.
  Hypothesis eqb2_spec : forall a b, eqb2 a b = true <-> a = b.
  Hypothesis f_inj : forall a b, P a -> P b -> f a = f b -> a = b.
  Definition mapk (l : list (K * V)) : list (K2 * V) := map (fun kv => (f (fst kv), snd kv)) l.

  Lemma eqb2_f a b : P a -> P b -> eqb2 (f a) (f b) = eqb a b.
  Proof.
    intros Pa Pb. destruct (eqb a b) eqn:E.
    - apply eqb_spec in E. subst. apply eqb2_spec. reflexivity.
    - destruct (eqb2 (f a) (f b)) eqn:E2; [|reflexivity]. apply eqb2_spec in E2.
      apply f_inj in E2; [|exact Pa|exact Pb]. subst. rewrite (eqb_rfl eqb eqb_spec) in E. discriminate.
  Qed.

  Lemma mapk_aget l k : Forall P (map fst l) -> P k -> aget eqb2 (mapk l) (f k) = aget eqb l k.
  Proof.
    intros Hl Pk. induction l as [|[a w] r IH]; cbn; [reflexivity|].
    inversion Hl as [|? ? Pa Hr]. subst. cbn in Pa. rewrite (eqb2_f a k Pa Pk).
    destruct (eqb a k); [reflexivity|exact (IH Hr)].
  Qed.

  Lemma mapk_aset l k v : Forall P (map fst l) -> P k -> mapk (aset eqb l k v) = aset eqb2 (mapk l) (f k) v.
  Proof.
    intros Hl Pk. unfold mapk. induction l as [|[a w] r IH]; cbn; [reflexivity|].
    inversion Hl as [|? ? Pa Hr]. subst. cbn in Pa. rewrite (eqb2_f a k Pa Pk).
    destruct (eqb a k); cbn; [reflexivity|]. f_equal. exact (IH Hr).
  Qed.

  Lemma mapk_adel l k : Forall P (map fst l) -> P k -> mapk (adel eqb l k) = adel eqb2 (mapk l) (f k).
  Proof.
    intros Hl Pk. unfold mapk. induction l as [|[a w] r IH]; cbn; [reflexivity|].
    inversion Hl as [|? ? Pa Hr]. subst. cbn in Pa. rewrite (eqb2_f a k Pa Pk).
    destruct (eqb a k); cbn; [reflexivity|]. f_equal. exact (IH Hr).
  Qed.

  Lemma mapk_keys l : map fst (mapk l) = map f (map fst l).
  Proof. unfold mapk. rewrite !map_map. reflexivity. Qed.

  Lemma mapk_nodup l : Forall P (map fst l) -> NoDup (map fst l) -> NoDup (map fst (mapk l)).
  Proof.
    rewrite mapk_keys. induction (map fst l) as [|a r IH]; cbn; [constructor|].
    intros Hl ND. inversion Hl as [|? ? Pa Hr]. inversion ND as [|? ? Ha ND']. subst. constructor; [|exact (IH Hr ND')].
    intros H. apply in_map_iff in H. destruct H as [b [H1 H2]]. apply Ha.
    rewrite Forall_forall in Hr. rewrite <- (f_inj b a (Hr b H2) Pa H1). exact H2.
  Qed.
End MapKeys.

(* ------------------------------------------------------------------------------------------ *)
(* names                                                                                        *)
Lemma qname_eqb_eq a b : qname_eqb a b = true <-> a = b.
Proof.
  destruct a as [a1 a2], b as [b1 b2]. unfold qname_eqb. cbn. rewrite andb_true_iff, !str_eqb_eq.
  split; [intros [-> ->]; reflexivity|intros H; inversion H; auto].
Qed.
Lemma qname_eqb_refl a : qname_eqb a a = true.
Proof. apply qname_eqb_eq. reflexivity. Qed.

Lemma nat_eqb_eq a b : Nat.eqb a b = true <-> a = b.
Proof. apply Nat.eqb_eq. Qed.

Lemma split1_spec s c a b : py_split1 s c = Some (a, b) -> s = a ++ c :: b.
Proof.
  revert a b. induction s as [|x r IH]; cbn; [discriminate|]. intros a b.
  destruct (N.eqb x c) eqn:E.
  - apply N.eqb_eq in E. subst. intros H. inversion H. reflexivity.
  - destruct (py_split1 r c) as [[a' b']|]; [|discriminate]. intros H. inversion H. subst.
    cbn. rewrite (IH a' b eq_refl). reflexivity.
Qed.

Lemma split1_plain ns n : plain ns = true -> py_split1 (ns ++ RBRACE :: n) RBRACE = Some (ns, n).
Proof.
  induction ns as [|x r IH]; cbn.
  - intros _. reflexivity.
  - rewrite andb_true_iff. intros [Hx Hr]. unfold plainc in Hx. rewrite negb_true_iff, orb_false_iff in Hx.
    destruct Hx as [_ Hx]. rewrite Hx. rewrite (IH Hr). reflexivity.
Qed.

Lemma decon_spec s :
  decon_key s = match spec_clark s with Some p => Ok p | None => Crash ValueError end.
Proof.
  unfold decon_key, deconstruct_clark_notation, deconstruct_clark_notation_null_default, py_startswith.
  destruct s as [|c r]; [reflexivity|].
  change (py_prefix [123%N] (c :: r)) with (N.eqb LBRACE c && true)%bool.
  rewrite andb_true_r, N.eqb_sym. unfold spec_clark.
  destruct (N.eqb c LBRACE) eqn:E; [|reflexivity].
  apply N.eqb_eq in E. subst c.
  change (py_split1 (LBRACE :: r) 125%N)
    with (match py_split1 r RBRACE with Some (a, b) => Some (LBRACE :: a, b) | None => None end).
  destruct (py_split1 r RBRACE) as [[a b]|]; reflexivity.
Qed.

Lemma spec_clark_plain n : plain n = true -> spec_clark n = Some (None, n).
Proof.
  destruct n as [|c r]; cbn; [reflexivity|]. rewrite andb_true_iff. intros [Hc _].
  unfold plainc in Hc. rewrite negb_true_iff, orb_false_iff in Hc. destruct Hc as [Hc _]. rewrite Hc. reflexivity.
Qed.

Lemma spec_clark_braced ns n : plain ns = true -> spec_clark (LBRACE :: ns ++ RBRACE :: n) = Some (Some ns, n).
Proof. intros H. cbn. rewrite (split1_plain ns n H). reflexivity. Qed.

Lemma spec_clark_inv k o n :
  spec_clark k = Some (o, n) -> match o with Some ns => k = LBRACE :: ns ++ RBRACE :: n | None => k = n end.
Proof.
  destruct k as [|c r]; cbn.
  - intros H. inversion H. reflexivity.
  - destruct (N.eqb c LBRACE) eqn:E.
    + apply N.eqb_eq in E. subst. destruct (py_split1 r RBRACE) as [[a b]|] eqn:S; [|discriminate].
      intros H. inversion H. subst. apply split1_spec in S. rewrite S. reflexivity.
    + intros H. inversion H. reflexivity.
Qed.

Lemma present_spec dns k :
  present dns k = match spec_clark k with
                  | Some (Some ns, n) => (ns, n)
                  | Some (None, n) => (dns, n)
                  | None => ([], k)
                  end.
Proof.
  unfold present. rewrite decon_spec. destruct (spec_clark k) as [[[ns|] n]|]; reflexivity.
Qed.

Lemma decon_ok_spec k : decon_ok k = match spec_clark k with Some _ => true | None => false end.
Proof. unfold decon_ok. rewrite decon_spec. destruct (spec_clark k); reflexivity. Qed.

(* a store key that has the right shape and does not collide with the default namespace *)
Definition skey_ok (dns k : str) : bool := (skey_shape k && negb (collides dns k))%bool.

Lemma present_inj dns k k' :
  skey_ok dns k = true -> skey_ok dns k' = true -> present dns k = present dns k' -> k = k'.
Proof.
  unfold skey_ok. rewrite !andb_true_iff, !negb_true_iff. intros [S1 C1] [S2 C2].
  unfold skey_shape in S1, S2. unfold collides in C1, C2. rewrite !present_spec.
  destruct (spec_clark k) as [[[ns|] n]|] eqn:E1; [| |discriminate];
    (destruct (spec_clark k') as [[[ns'|] n']|] eqn:E2; [| |discriminate]);
    intros H; inversion H; subst; apply spec_clark_inv in E1, E2; try congruence.
  - rewrite str_eqb_refl in C1. discriminate.
  - rewrite str_eqb_refl in C2. discriminate.
Qed.

Lemma null_false_iff {A} (l : list A) : null l = false <-> l <> [].
Proof. destruct l; cbn; split; intros H; try discriminate; try reflexivity; try (exfalso; apply H; reflexivity). Qed.

Lemma str_eqb_false a b : str_eqb a b = false <-> a <> b.
Proof.
  split.
  - intros H E. subst. rewrite str_eqb_refl in H. discriminate.
  - intros H. destruct (str_eqb a b) eqn:E; [|reflexivity]. apply str_eqb_eq in E. contradiction.
Qed.

(* the key function without the store test; it is what `etree_key` computes on stores without a
   `{d}name` key for the default namespace d (etree_key_nc below) *)
Definition etree_key0 (dns : str) (q : qname) : str :=
  if (negb (null (fst q)) && negb (str_eqb dns (fst q)))%bool then clark q else snd q.
Definition skey0 (s : astate) (q : qname) : str := etree_key0 (st_dns s) q.

Lemma etree_key_ok dns q : plainq q = true -> skey_ok dns (etree_key0 dns q) = true.
Proof.
  destruct q as [ns n]. unfold plainq, etree_key0, clark, skey_ok, skey_shape, collides. cbn [fst snd].
  rewrite andb_true_iff. intros [Hns Hn].
  destruct (null ns) eqn:En; cbn [negb andb].
  - rewrite (spec_clark_plain n Hn). rewrite Hn. reflexivity.
  - destruct (str_eqb dns ns) eqn:Ed; cbn [negb andb].
    + rewrite (spec_clark_plain n Hn). rewrite Hn. reflexivity.
    + rewrite (spec_clark_braced ns n Hns). rewrite En, Hns, Hn, Ed. reflexivity.
Qed.

Lemma present_etree_key dns q : plainq q = true -> present dns (etree_key0 dns q) = norm dns q.
Proof.
  destruct q as [ns n]. unfold plainq, etree_key0, clark, norm. rewrite present_spec. cbn [fst snd].
  rewrite andb_true_iff. intros [Hns Hn].
  destruct (null ns) eqn:En; cbn [negb andb].
  - rewrite (spec_clark_plain n Hn). reflexivity.
  - destruct (str_eqb dns ns) eqn:Ed; cbn [negb andb].
    + rewrite (spec_clark_plain n Hn). apply str_eqb_eq in Ed. subst. reflexivity.
    + rewrite (spec_clark_braced ns n Hns). reflexivity.
Qed.

Lemma etree_key_norm_iff dns q q' :
  plainq q = true -> plainq q' = true -> (etree_key0 dns q = etree_key0 dns q' <-> norm dns q = norm dns q').
Proof.
  intros H H'. rewrite <- (present_etree_key dns q H), <- (present_etree_key dns q' H'). split.
  - intros ->. reflexivity.
  - apply present_inj; apply etree_key_ok; assumption.
Qed.

Lemma norm_present0 dns k : skey_ok dns k = true -> norm dns (present dns k) = present dns k.
Proof.
  unfold skey_ok, skey_shape, norm. rewrite present_spec.
  destruct (spec_clark k) as [[[ns|] n]|]; [| |discriminate]; cbn [fst snd].
  - rewrite !andb_true_iff, !negb_true_iff. intros [[[Hn _] _] _]. rewrite Hn. reflexivity.
  - intros _. destruct (null dns); reflexivity.
Qed.
Lemma shape_decon k : skey_shape k = true -> decon_ok k = true.
Proof. unfold skey_shape. rewrite decon_ok_spec. destruct (spec_clark k); [reflexivity|discriminate]. Qed.

Lemma plainq_present0 dns k : plain dns = true -> skey_ok dns k = true -> plainq (present dns k) = true.
Proof.
  intros Hd. unfold skey_ok, skey_shape, plainq. rewrite present_spec.
  destruct (spec_clark k) as [[[ns|] n]|]; [| |discriminate]; cbn [fst snd]; rewrite !andb_true_iff.
  - intros [[[_ H1] H2] _]. auto.
  - intros [H _]. auto.
Qed.

(* ------------------------------------------------------------------------------------------ *)
(* stores that may hold `{d}name` for the default namespace d: `canon` renames such a key to `name`; a store
   that never holds both is, up to this renaming, a store without such keys, and `etree_key` picks the
   member of {name, {d}name} that is present *)
Definition canon (dns k : str) : str := if collides dns k then plain_of k else k.

Definition SWf (dns : str) (st : list (str * str)) : Prop :=
  Forall (fun k => skey_shape k = true) (map fst st) /\ NoDup (map fst st) /\
  (forall k, In k (map fst st) -> collides dns k = true -> ~ In (plain_of k) (map fst st)).

Lemma plain_not_clark x q : plain x = true -> x <> clark q.
Proof. intros H ->. unfold clark in H. cbn in H. discriminate. Qed.

Lemma clark_spec a b : plain a = true -> spec_clark (clark (a, b)) = Some (Some a, b).
Proof. intros H. unfold clark. cbn [fst snd]. apply spec_clark_braced. exact H. Qed.
Lemma clark_collides dns a b : plain a = true -> collides dns (clark (a, b)) = str_eqb dns a.
Proof. intros H. unfold collides. rewrite (clark_spec a b H). reflexivity. Qed.
Lemma clark_plain_of a b : plain a = true -> plain_of (clark (a, b)) = b.
Proof. intros H. unfold plain_of. rewrite (clark_spec a b H). reflexivity. Qed.
Lemma plain_collides dns n : plain n = true -> collides dns n = false.
Proof. intros H. unfold collides. rewrite (spec_clark_plain n H). reflexivity. Qed.
Lemma plain_canon dns n : plain n = true -> canon dns n = n.
Proof. intros H. unfold canon. rewrite (plain_collides dns n H). reflexivity. Qed.

Lemma shape_cases k : skey_shape k = true ->
  (exists ns n, k = clark (ns, n) /\ null ns = false /\ plain ns = true /\ plain n = true) \/ plain k = true.
Proof.
  unfold skey_shape. destruct (spec_clark k) as [[[ns|] n]|] eqn:E; [| |discriminate]; apply spec_clark_inv in E.
  - rewrite !andb_true_iff, negb_true_iff. intros [[H1 H2] H3]. left. exists ns, n. subst k. auto.
  - intros H. right. subst k. exact H.
Qed.

Lemma canon_eq_cases dns k x : skey_shape k = true -> canon dns k = x ->
  (k = x /\ collides dns k = false) \/
  (k = clark (dns, x) /\ collides dns k = true /\ null dns = false /\ plain dns = true /\ plain x = true).
Proof.
  intros Hs Hc. unfold canon in Hc. destruct (shape_cases k Hs) as [[ns [n [-> [Hn [Hp1 Hp2]]]]]|Hp].
  - rewrite (clark_collides dns ns n Hp1), (clark_plain_of ns n Hp1) in Hc. rewrite (clark_collides dns ns n Hp1).
    destruct (str_eqb dns ns) eqn:E.
    + apply str_eqb_eq in E. subst. right. auto.
    + left. auto.
  - rewrite (plain_collides dns k Hp) in Hc |- *. left. auto.
Qed.

Lemma canon_ok dns k : skey_shape k = true -> skey_ok dns (canon dns k) = true.
Proof.
  intros Hs. unfold canon, skey_ok. destruct (shape_cases k Hs) as [[ns [n [-> [Hn [Hp1 Hp2]]]]]|Hp].
  - rewrite (clark_collides dns ns n Hp1), (clark_plain_of ns n Hp1). destruct (str_eqb dns ns) eqn:E.
    + unfold skey_shape. rewrite (spec_clark_plain n Hp2), Hp2, (plain_collides dns n Hp2). reflexivity.
    + rewrite Hs, (clark_collides dns ns n Hp1), E. reflexivity.
  - rewrite (plain_collides dns k Hp), Hs, (plain_collides dns k Hp). reflexivity.
Qed.

Lemma present_canon dns k : skey_shape k = true -> present dns (canon dns k) = present dns k.
Proof.
  intros Hs. unfold canon. destruct (shape_cases k Hs) as [[ns [n [-> [Hn [Hp1 Hp2]]]]]|Hp].
  - rewrite (clark_collides dns ns n Hp1), (clark_plain_of ns n Hp1). destruct (str_eqb dns ns) eqn:E; [|reflexivity].
    apply str_eqb_eq in E. subst. rewrite !present_spec, (spec_clark_plain n Hp2), (clark_spec ns n Hp1). reflexivity.
  - rewrite (plain_collides dns k Hp). reflexivity.
Qed.


Lemma plainq_norm dns q : plain dns = true -> plainq q = true -> plainq (norm dns q) = true.
Proof.
  destruct q as [ns n]. unfold plainq, norm. cbn. rewrite !andb_true_iff. intros Hd [Hns Hn].
  destruct (null ns); auto.
Qed.

Lemma norm_idem dns q : norm dns (norm dns q) = norm dns q.
Proof.
  destruct q as [ns n]. unfold norm. cbn. destruct (null ns) eqn:E; cbn; [|rewrite E; reflexivity].
  destruct (null dns) eqn:E2; [|reflexivity]. destruct dns; [reflexivity|discriminate].
Qed.

(* the accessor forms: the model's resolution is the specification's reading *)
Lemma resolve_acc_q s a :
  resolve s a = match acc_q (st_node_ns s) a with Some q => Ok q | None =>
                  match a with ABad => Crash TypeError | _ => Crash ValueError end end.
Proof.
  destruct a as [x|[ns|] n|]; cbn; try reflexivity.
  rewrite decon_spec. destruct (spec_clark x) as [[[ns|] n]|]; reflexivity.
Qed.

(* ------------------------------------------------------------------------------------------ *)
(* well-formedness as a proposition                                                             *)
Record Wf (s : astate) (T : list oid) : Prop := mkWf {
  wf_nns : plain (st_node_ns s) = true;
  wf_dns : plain (st_dns s) = true;
  wf_st : SWf (st_dns s) (st_store s);
  wf_nodup : NoDup (map fst (st_store s));
  wf_cnodup : NoDup (map fst (st_cache s));
  wf_cache : forall q o, In (q, o) (st_cache s) -> nth_error (st_objs s) o = Some (Live q);
  wf_T : NoDup T;
  wf_views : forall o, In o T -> view_ok s o = true
}.

Section NoDupB.
  Context {A : Type} (eqb : A -> A -> bool).
  Hypothesis eqb_spec : forall a b, eqb a b = true <-> a = b.
  Lemma existsb_eqb_in x l : existsb (eqb x) l = true <-> In x l.
  Proof.
    rewrite existsb_exists. split.
    - intros [y [H1 H2]]. apply eqb_spec in H2. subst. exact H1.
    - intros H. exists x. split; [exact H|]. apply eqb_spec. reflexivity.
  Qed.
  Lemma nodup_gen (nd : list A -> bool) :
    (forall l, nd l = match l with [] => true | x :: r => (negb (existsb (eqb x) r) && nd r)%bool end) ->
    forall l, nd l = true <-> NoDup l.
  Proof.
    intros Hnd. induction l as [|x r IH]; rewrite Hnd.
    - split; [constructor|reflexivity].
    - rewrite andb_true_iff, negb_true_iff, IH. split.
      + intros [H1 H2]. constructor; [|exact H2]. intros H. apply existsb_eqb_in in H. rewrite H in H1. discriminate.
      + intros H. inversion H as [|? ? Hx Hr]. subst. split; [|exact Hr].
        destruct (existsb (eqb x) r) eqn:E; [|reflexivity]. apply existsb_eqb_in in E. contradiction.
  Qed.
End NoDupB.

Lemma nodupb_iff l : nodupb l = true <-> NoDup l.
Proof. apply (nodup_gen str_eqb str_eqb_eq nodupb). intros [|x r]; reflexivity. Qed.
Lemma nodupq_iff l : nodupq l = true <-> NoDup l.
Proof. apply (nodup_gen qname_eqb qname_eqb_eq nodupq). intros [|x r]; reflexivity. Qed.
Lemma nodupn_iff l : nodupn l = true <-> NoDup l.
Proof. apply (nodup_gen Nat.eqb nat_eqb_eq nodupn). intros [|x r]; reflexivity. Qed.

Lemma sys_wf_iff y : sys_wf y = true <-> Wf (fst y) (snd y).
Proof.
  destruct y as [s T]. unfold sys_wf, attr_wf, store_shape, no_double, cache_ok. cbn [fst snd].
  rewrite !andb_true_iff, !forallb_forall, nodupb_iff, nodupq_iff, nodupn_iff. split.
  - intros [[[[[[[H1 H2] H3] H4] H5] [H6 H7]] H8] H9]. constructor; try assumption.
    + split; [apply Forall_forall; exact H3|]. split; [exact H4|].
      intros k Hk Hc Hp. specialize (H5 k Hk). rewrite Hc in H5. apply (ahas_in str_eqb str_eqb_eq) in Hp.
      rewrite Hp in H5. discriminate.
    + intros q o Hin. specialize (H7 (q, o) Hin). cbn in H7.
      destruct (nth_error (st_objs s) o) as [[q'|]|]; try discriminate. apply qname_eqb_eq in H7. subst. reflexivity.
  - intros [H1 H2 [H3 [H3' H3'']] H4 H5 H6 H7 H8]. rewrite Forall_forall in H3.
    repeat split; try assumption.
    + intros k Hk. destruct (collides (st_dns s) k) eqn:Hc; [|reflexivity].
      destruct (ahas str_eqb (st_store s) (plain_of k)) eqn:Hp; [|reflexivity].
      apply (ahas_in str_eqb str_eqb_eq) in Hp. destruct (H3'' k Hk Hc Hp).
    + intros [q o] Hin. cbn. rewrite (H6 q o Hin). apply qname_eqb_refl.
Qed.

(* ------------------------------------------------------------------------------------------ *)
(* the abstraction of the store commutes with lookups and updates                                *)
Lemma abs_store_mapk dns st : abs_store dns st = mapk (present dns) st.
Proof. reflexivity. Qed.

Section AbsStore.
  Variables (dns : str) (st : list (str * str)) (q : qname).
  Hypothesis Hkeys : Forall (fun k => skey_ok dns k = true) (map fst st).
  Hypothesis Hq : plainq q = true.

  Lemma abs_get : dget (abs_store dns st) (norm dns q) = aget str_eqb st (etree_key0 dns q).
  Proof.
    rewrite <- (present_etree_key dns q Hq). unfold dget. rewrite abs_store_mapk.
    apply (mapk_aget str_eqb qname_eqb (present dns) (fun k => skey_ok dns k = true) str_eqb_eq qname_eqb_eq
             (present_inj dns)); [exact Hkeys|apply etree_key_ok; exact Hq].
  Qed.
  Lemma abs_has : dhas (abs_store dns st) (norm dns q) = ahas str_eqb st (etree_key0 dns q).
  Proof. unfold dhas, ahas. fold (dget (abs_store dns st) (norm dns q)). rewrite abs_get. reflexivity. Qed.
  Lemma abs_set v : abs_store dns (aset str_eqb st (etree_key0 dns q) v) = dset (abs_store dns st) (norm dns q) v.
  Proof.
    rewrite <- (present_etree_key dns q Hq). unfold dset. rewrite !abs_store_mapk.
    apply (mapk_aset str_eqb qname_eqb (present dns) (fun k => skey_ok dns k = true) str_eqb_eq qname_eqb_eq
             (present_inj dns)); [exact Hkeys|apply etree_key_ok; exact Hq].
  Qed.
  Lemma abs_del : abs_store dns (adel str_eqb st (etree_key0 dns q)) = ddel (abs_store dns st) (norm dns q).
  Proof.
    rewrite <- (present_etree_key dns q Hq). unfold ddel. rewrite !abs_store_mapk.
    apply (mapk_adel str_eqb qname_eqb (present dns) (fun k => skey_ok dns k = true) str_eqb_eq qname_eqb_eq
             (present_inj dns)); [exact Hkeys|apply etree_key_ok; exact Hq].
  Qed.
  Lemma keys_ok_set v : Forall (fun k => skey_ok dns k = true) (map fst (aset str_eqb st (etree_key0 dns q) v)).
  Proof.
    apply Forall_forall. intros k Hk. apply (in_keys_aset str_eqb str_eqb_eq) in Hk. destruct Hk as [Hk| ->].
    - rewrite Forall_forall in Hkeys. exact (Hkeys k Hk).
    - apply etree_key_ok. exact Hq.
  Qed.
  Lemma keys_ok_del k : Forall (fun k => skey_ok dns k = true) (map fst (adel str_eqb st k)).
  Proof.
    apply Forall_forall. intros k' Hk. apply in_keys_adel in Hk. rewrite Forall_forall in Hkeys. exact (Hkeys k' Hk).
  Qed.
End AbsStore.

Lemma abs_store_keys dns st : map fst (abs_store dns st) = map (present dns) (map fst st).
Proof. unfold abs_store. rewrite !map_map. reflexivity. Qed.
Lemma abs_store_length dns st : length (abs_store dns st) = length st.
Proof. unfold abs_store. apply map_length. Qed.

Lemma etree_key_present dns k : skey_ok dns k = true -> etree_key0 dns (present dns k) = k.
Proof.
  unfold skey_ok, skey_shape, collides. rewrite present_spec.
  destruct (spec_clark k) as [[[ns|] n]|] eqn:E; [| |discriminate]; apply spec_clark_inv in E; subst k.
  - rewrite !andb_true_iff, !negb_true_iff. intros [[[Hn _] _] Hc]. unfold etree_key0, clark. cbn [fst snd].
    rewrite Hn, Hc. reflexivity.
  - intros _. unfold etree_key0. cbn [fst snd]. rewrite str_eqb_refl, andb_false_r. reflexivity.
Qed.

Section Keys.
  Variables (dns : str) (st : list (str * str)).
  Hypothesis Hdns : plain dns = true.

  Lemma canon_key q : plainq q = true -> canon dns (etree_key dns st q) = etree_key0 dns q.
  Proof.
    destruct q as [ns n]. unfold plainq. cbn [fst snd]. rewrite andb_true_iff. intros [Hns Hn].
    unfold etree_key, etree_key0. cbn [fst snd]. destruct (null ns) eqn:En; cbn [negb andb].
    - destruct (negb (null dns) && negb (ahas str_eqb st n) && ahas str_eqb st (clark (dns, n)))%bool.
      + unfold canon. rewrite (clark_collides dns dns n Hdns), str_eqb_refl. apply clark_plain_of. exact Hdns.
      + apply plain_canon. exact Hn.
    - destruct (str_eqb dns ns) eqn:Ed; cbn [negb orb].
      + destruct (ahas str_eqb st (clark (ns, n))).
        * unfold canon. rewrite (clark_collides dns ns n Hns), Ed. apply clark_plain_of. exact Hns.
        * apply plain_canon. exact Hn.
      + unfold canon. rewrite (clark_collides dns ns n Hns), Ed. reflexivity.
  Qed.

  Lemma key_shape q : plainq q = true -> skey_shape (etree_key dns st q) = true.
  Proof.
    destruct q as [ns n]. unfold plainq. cbn [fst snd]. rewrite andb_true_iff. intros [Hns Hn].
    assert (forall a, plain a = true -> null a = false -> skey_shape (clark (a, n)) = true) as Hc.
    { intros a Ha Hna. unfold skey_shape. rewrite (clark_spec a n Ha), Hna, Ha, Hn. reflexivity. }
    assert (skey_shape n = true) as Hpn by (unfold skey_shape; rewrite (spec_clark_plain n Hn); exact Hn).
    unfold etree_key. cbn [fst snd]. destruct (null ns) eqn:En; cbn [negb andb].
    - destruct (null dns) eqn:Ednull; cbn [negb andb]; [exact Hpn|].
      destruct (negb (ahas str_eqb st n) && ahas str_eqb st (clark (dns, n)))%bool; [apply Hc; assumption|exact Hpn].
    - destruct (negb (str_eqb dns ns) || ahas str_eqb st (clark (ns, n)))%bool; [apply Hc; assumption|exact Hpn].
  Qed.

  Hypothesis Hst : SWf dns st.

  Lemma in_ahas k : In k (map fst st) <-> ahas str_eqb st k = true.
  Proof. symmetry. apply (ahas_in str_eqb str_eqb_eq). Qed.

  (* the key chosen for q is the store key that is, up to `canon`, the plain key of q - if there is one *)
  Lemma key_choice q k :
    plainq q = true -> In k (map fst st) -> canon dns k = etree_key0 dns q -> etree_key dns st q = k.
  Proof.
    destruct Hst as [Hsh [_ Hnd]]. rewrite Forall_forall in Hsh.
    destruct q as [ns n]. unfold plainq. cbn [fst snd]. rewrite andb_true_iff. intros [Hns Hn] Hin Hc.
    destruct (canon_eq_cases dns k _ (Hsh k Hin) Hc) as [[Hk Hcol]|[Hk [Hcol [Hnd0 [_ Hpx]]]]];
      unfold etree_key, etree_key0 in *; cbn [fst snd] in *.
    - (* k is the plain key itself *)
      destruct (null ns) eqn:En; cbn [negb andb] in *.
      + subst k. apply in_ahas in Hin. rewrite Hin. cbn [negb andb]. rewrite andb_false_r. reflexivity.
      + destruct (str_eqb dns ns) eqn:Ed; cbn [negb orb] in *.
        * subst k. destruct (ahas str_eqb st (clark (ns, n))) eqn:Eh; [|reflexivity]. exfalso.
          apply in_ahas in Eh. apply (Hnd _ Eh).
          -- rewrite (clark_collides dns ns n Hns). exact Ed.
          -- rewrite (clark_plain_of ns n Hns). exact Hin.
        * symmetry. exact Hk.
    - (* k = {dns}x *)
      destruct (null ns) eqn:En; cbn [negb andb] in *.
      + subst k. rewrite Hnd0. cbn [negb andb].
        assert (ahas str_eqb st n = false) as Hn0.
        { destruct (ahas str_eqb st n) eqn:E; [|reflexivity]. exfalso. apply in_ahas in E. apply (Hnd _ Hin Hcol).
          rewrite (clark_plain_of dns n Hdns). exact E. }
        apply in_ahas in Hin. rewrite Hn0, Hin. reflexivity.
      + destruct (str_eqb dns ns) eqn:Ed; cbn [negb orb] in *.
        * apply str_eqb_eq in Ed. subst ns k. apply in_ahas in Hin. rewrite Hin. reflexivity.
        * exfalso. apply (plain_not_clark _ (ns, n) Hpx). reflexivity.
  Qed.

  Lemma key_absent q :
    plainq q = true -> (forall k, In k (map fst st) -> canon dns k <> etree_key0 dns q) ->
    etree_key dns st q = etree_key0 dns q.
  Proof.
    destruct q as [ns n]. unfold plainq. cbn [fst snd]. rewrite andb_true_iff. intros [Hns Hn] Hno.
    unfold etree_key, etree_key0 in *. cbn [fst snd] in *. destruct (null ns) eqn:En; cbn [negb andb] in *.
    - destruct (negb (null dns) && negb (ahas str_eqb st n) && ahas str_eqb st (clark (dns, n)))%bool eqn:E; [|reflexivity].
      exfalso. rewrite !andb_true_iff in E. destruct E as [_ E]. apply in_ahas in E. apply (Hno _ E).
      unfold canon. rewrite (clark_collides dns dns n Hdns), str_eqb_refl. apply clark_plain_of. exact Hdns.
    - destruct (str_eqb dns ns) eqn:Ed; cbn [negb orb] in *; [|reflexivity].
      destruct (ahas str_eqb st (clark (ns, n))) eqn:E; [|reflexivity].
      exfalso. apply in_ahas in E. apply (Hno _ E).
      unfold canon. rewrite (clark_collides dns ns n Hns), Ed. apply clark_plain_of. exact Hns.
  Qed.

  Lemma canon_inj k k' : In k (map fst st) -> In k' (map fst st) -> canon dns k = canon dns k' -> k = k'.
  Proof.
    destruct Hst as [Hsh [_ Hnd]]. rewrite Forall_forall in Hsh. intros Hi Hi' Hc.
    destruct (canon_eq_cases dns k _ (Hsh k Hi) Hc) as [[Hk Hcol]|[Hk [Hcol [_ [_ Hpx]]]]].
    - (* k = canon k' *)
      destruct (canon_eq_cases dns k' _ (Hsh k' Hi') eq_refl) as [[Hk' _]|[Hk' [Hcol' _]]]; [congruence|].
      exfalso. apply (Hnd _ Hi' Hcol'). unfold canon in Hk. rewrite Hcol' in Hk. rewrite <- Hk. exact Hi.
    - destruct (canon_eq_cases dns k' _ (Hsh k' Hi') eq_refl) as [[Hk' Hcol']|[Hk' _]]; [|congruence].
      exfalso. apply (Hnd _ Hi Hcol). unfold canon in Hc. rewrite Hcol, Hcol' in Hc. rewrite Hc. exact Hi'.
  Qed.

  (* `present` is injective on the store keys together with the key chosen for q *)
  Lemma dom_inj q : plainq q = true ->
    forall a b, In a (etree_key dns st q :: map fst st) -> In b (etree_key dns st q :: map fst st) ->
                present dns a = present dns b -> a = b.
  Proof.
    intros Hq a b Ha Hb Hp. destruct Hst as [Hsh _]. rewrite Forall_forall in Hsh.
    assert (forall x, In x (etree_key dns st q :: map fst st) -> skey_shape x = true) as Hshape.
    { intros x [<-|Hx]; [apply key_shape; exact Hq|exact (Hsh x Hx)]. }
    assert (canon dns a = canon dns b) as Hc.
    { apply (present_inj dns); [apply canon_ok; auto|apply canon_ok; auto|].
      rewrite !present_canon by auto. exact Hp. }
    destruct Ha as [<-|Ha], Hb as [<-|Hb]; [reflexivity| | |apply canon_inj; assumption].
    - apply key_choice; [exact Hq|exact Hb|]. rewrite <- Hc. apply canon_key. exact Hq.
    - symmetry. apply key_choice; [exact Hq|exact Ha|]. rewrite Hc. apply canon_key. exact Hq.
  Qed.

  Lemma present_key q : plainq q = true -> present dns (etree_key dns st q) = norm dns q.
  Proof.
    intros Hq. rewrite <- (present_canon dns _ (key_shape q Hq)), (canon_key q Hq). apply present_etree_key. exact Hq.
  Qed.

  Let P q := fun a => In a (etree_key dns st q :: map fst st).
  Lemma P_keys q : Forall (P q) (map fst st).
  Proof. apply Forall_forall. intros a Ha. right. exact Ha. Qed.

  Lemma abs_get_st q : plainq q = true ->
    dget (abs_store dns st) (norm dns q) = aget str_eqb st (etree_key dns st q).
  Proof.
    intros Hq. rewrite <- (present_key q Hq). unfold dget. rewrite abs_store_mapk.
    apply (mapk_aget str_eqb qname_eqb (present dns) (P q) str_eqb_eq qname_eqb_eq (dom_inj q Hq));
      [apply P_keys|left; reflexivity].
  Qed.
  Lemma abs_has_st q : plainq q = true ->
    dhas (abs_store dns st) (norm dns q) = ahas str_eqb st (etree_key dns st q).
  Proof. intros Hq. unfold dhas, ahas. fold (dget (abs_store dns st) (norm dns q)). rewrite (abs_get_st q Hq). reflexivity. Qed.
  Lemma abs_set_st q v : plainq q = true ->
    abs_store dns (aset str_eqb st (etree_key dns st q) v) = dset (abs_store dns st) (norm dns q) v.
  Proof.
    intros Hq. rewrite <- (present_key q Hq). unfold dset. rewrite !abs_store_mapk.
    apply (mapk_aset str_eqb qname_eqb (present dns) (P q) str_eqb_eq qname_eqb_eq (dom_inj q Hq));
      [apply P_keys|left; reflexivity].
  Qed.
  Lemma abs_del_st q : plainq q = true ->
    abs_store dns (adel str_eqb st (etree_key dns st q)) = ddel (abs_store dns st) (norm dns q).
  Proof.
    intros Hq. rewrite <- (present_key q Hq). unfold ddel. rewrite !abs_store_mapk.
    apply (mapk_adel str_eqb qname_eqb (present dns) (P q) str_eqb_eq qname_eqb_eq (dom_inj q Hq));
      [apply P_keys|left; reflexivity].
  Qed.

  Lemma abs_nodup_st : NoDup (map fst (abs_store dns st)).
  Proof.
    rewrite abs_store_mapk.
    apply (mapk_nodup (present dns) (fun a => In a (map fst st))).
    - intros a b Ha Hb Hp. apply (dom_inj ([], []) eq_refl a b); [right; exact Ha|right; exact Hb|exact Hp].
    - apply Forall_forall. auto.
    - apply Hst.
  Qed.

  Lemma key_norm_iff q q' : plainq q = true -> plainq q' = true ->
    (etree_key dns st q = etree_key dns st q' <-> norm dns q = norm dns q').
  Proof.
    intros Hq Hq'. split.
    - intros H. rewrite <- (present_key q Hq), <- (present_key q' Hq'), H. reflexivity.
    - intros H. apply (etree_key_norm_iff dns q q' Hq Hq') in H.
      destruct (existsb (fun k => str_eqb (canon dns k) (etree_key0 dns q)) (map fst st)) eqn:E.
      + apply existsb_exists in E. destruct E as [k [Hk Hc]]. apply str_eqb_eq in Hc.
        rewrite (key_choice q k Hq Hk Hc). symmetry. apply key_choice; [exact Hq'|exact Hk|]. rewrite Hc. exact H.
      + assert (forall k, In k (map fst st) -> canon dns k <> etree_key0 dns q) as Hno.
        { intros k Hk Hc. assert (existsb (fun k => str_eqb (canon dns k) (etree_key0 dns q)) (map fst st) = true) as Ht.
          { apply existsb_exists. exists k. split; [exact Hk|]. apply str_eqb_eq. exact Hc. }
          rewrite Ht in E. discriminate. }
        rewrite (key_absent q Hq Hno). rewrite H in Hno. rewrite (key_absent q' Hq' Hno). exact H.
  Qed.

  (* a key of the store is reached by the name it is presented under *)
  Lemma key_of_present k : In k (map fst st) -> etree_key dns st (present dns k) = k.
  Proof.
    intros Hk. destruct Hst as [Hsh _]. rewrite Forall_forall in Hsh. pose proof (Hsh k Hk) as Hs.
    assert (plainq (present dns k) = true) as Hpq.
    { rewrite <- (present_canon dns k Hs). apply plainq_present0; [exact Hdns|apply canon_ok; exact Hs]. }
    apply key_choice; [exact Hpq|exact Hk|].
    rewrite <- (present_canon dns k Hs). symmetry. apply etree_key_present. apply canon_ok. exact Hs.
  Qed.

  Lemma plainq_present_in k : In k (map fst st) -> plainq (present dns k) = true.
  Proof.
    intros Hk. destruct Hst as [Hsh _]. rewrite Forall_forall in Hsh. pose proof (Hsh k Hk) as Hs.
    rewrite <- (present_canon dns k Hs). apply plainq_present0; [exact Hdns|apply canon_ok; exact Hs].
  Qed.
  Lemma norm_present_in k : In k (map fst st) -> norm dns (present dns k) = present dns k.
  Proof.
    intros Hk. destruct Hst as [Hsh _]. rewrite Forall_forall in Hsh. pose proof (Hsh k Hk) as Hs.
    rewrite <- (present_canon dns k Hs). apply norm_present0. apply canon_ok. exact Hs.
  Qed.
  Lemma dget_present k : In k (map fst st) -> dget (abs_store dns st) (present dns k) = aget str_eqb st k.
  Proof.
    intros Hk. rewrite <- (norm_present_in k Hk). rewrite (abs_get_st _ (plainq_present_in k Hk)).
    rewrite (key_of_present k Hk). reflexivity.
  Qed.

  Lemma SWf_set q v : plainq q = true -> SWf dns (aset str_eqb st (etree_key dns st q) v).
  Proof.
    intros Hq. pose proof Hst as [Hsh [Hnd Hdb]]. split; [|split].
    - apply Forall_forall. intros k Hk. apply (in_keys_aset str_eqb str_eqb_eq) in Hk. destruct Hk as [Hk| ->].
      + rewrite Forall_forall in Hsh. exact (Hsh k Hk).
      + apply key_shape. exact Hq.
    - apply (nodup_aset str_eqb str_eqb_eq). exact Hnd.
    - intros k Hk Hcol Hpl. rewrite Forall_forall in Hsh.
      apply (in_keys_aset str_eqb str_eqb_eq) in Hk. apply (in_keys_aset str_eqb str_eqb_eq) in Hpl.
      assert (forall x, In x (map fst st) -> canon dns x = etree_key0 dns q -> In (etree_key dns st q) (map fst st)) as Hold.
      { intros x Hx Hc. rewrite (key_choice q x Hq Hx Hc). exact Hx. }
      pose proof (canon_key q Hq) as Hck.
      destruct Hk as [Hk|Hk], Hpl as [Hpl|Hpl].
      + exact (Hdb k Hk Hcol Hpl).
      + (* the plain twin of an old colliding key would be the new key *)
        assert (In (etree_key dns st q) (map fst st)) as Hin.
        { apply (Hold k Hk). unfold canon. rewrite Hcol, Hpl. rewrite <- Hck. symmetry. apply plain_canon.
          rewrite <- Hpl. destruct (shape_cases k (Hsh k Hk)) as [[ns [n [-> [_ [Hp1 Hp2]]]]]|Hp].
          - rewrite (clark_plain_of ns n Hp1). exact Hp2.
          - rewrite (plain_collides dns k Hp) in Hcol. discriminate. }
        rewrite <- Hpl in Hin. exact (Hdb k Hk Hcol Hin).
      + (* the new key collides and its plain twin is old *)
        subst k.
        assert (In (etree_key dns st q) (map fst st)) as Hin.
        { apply (Hold _ Hpl). rewrite <- Hck. unfold canon at 2. rewrite Hcol.
          apply plain_canon. destruct (shape_cases _ (key_shape q Hq)) as [[ns [n [He [_ [Hp1 Hp2]]]]]|Hp].
          - rewrite He, (clark_plain_of ns n Hp1). exact Hp2.
          - rewrite (plain_collides dns _ Hp) in Hcol. discriminate. }
        exact (Hdb _ Hin Hcol Hpl).
      + subst k. destruct (shape_cases _ (key_shape q Hq)) as [[ns [n [He [_ [Hp1 Hp2]]]]]|Hp].
        * rewrite He, (clark_plain_of ns n Hp1) in Hpl. apply (plain_not_clark n (ns, n) Hp2). exact Hpl.
        * rewrite (plain_collides dns _ Hp) in Hcol. discriminate.
  Qed.

  Lemma SWf_del k : SWf dns (adel str_eqb st k).
  Proof.
    destruct Hst as [Hsh [Hnd Hdb]]. split; [|split].
    - apply Forall_forall. intros k' Hk. apply in_keys_adel in Hk. rewrite Forall_forall in Hsh. exact (Hsh k' Hk).
    - apply (nodup_adel str_eqb). exact Hnd.
    - intros k' Hk Hcol Hpl. apply in_keys_adel in Hk. apply in_keys_adel in Hpl. exact (Hdb k' Hk Hcol Hpl).
  Qed.
End Keys.

(* the same at the level of a well-formed state *)
Lemma abs_get_s s T q : Wf s T -> plainq q = true ->
  dget (abs_store (st_dns s) (st_store s)) (norm (st_dns s) q) = aget str_eqb (st_store s) (skey s q).
Proof. intros W Hq. apply abs_get_st; [apply (wf_dns s T W)|apply (wf_st s T W)|exact Hq]. Qed.
Lemma abs_set_s s T q v : Wf s T -> plainq q = true ->
  abs_store (st_dns s) (aset str_eqb (st_store s) (skey s q) v) = dset (abs_store (st_dns s) (st_store s)) (norm (st_dns s) q) v.
Proof. intros W Hq. apply abs_set_st; [apply (wf_dns s T W)|apply (wf_st s T W)|exact Hq]. Qed.
Lemma abs_del_s s T q : Wf s T -> plainq q = true ->
  abs_store (st_dns s) (adel str_eqb (st_store s) (skey s q)) = ddel (abs_store (st_dns s) (st_store s)) (norm (st_dns s) q).
Proof. intros W Hq. apply abs_del_st; [apply (wf_dns s T W)|apply (wf_st s T W)|exact Hq]. Qed.
Lemma skey_norm_iff s T q q' : Wf s T -> plainq q = true -> plainq q' = true ->
  (skey s q = skey s q' <-> norm (st_dns s) q = norm (st_dns s) q').
Proof. intros W H H'. apply key_norm_iff; [apply (wf_dns s T W)|apply (wf_st s T W)|exact H|exact H']. Qed.
(* membership in the store, in terms of the dictionary *)
Lemma contains_dict dns st s q : st_dns s = dns -> st_store s = st -> plain dns = true -> SWf dns st -> plainq q = true ->
  contains_q s q = dhas (abs_store dns st) (norm dns q).
Proof. intros <- <- Hd Hs Hq. unfold contains_q, skey. symmetry. apply abs_has_st; assumption. Qed.
Lemma dhas_dset d k v k' : dhas d k' = true -> dhas (dset d k v) k' = true.
Proof.
  unfold dhas, dset. intros H. apply (ahas_in qname_eqb qname_eqb_eq). apply (in_keys_aset qname_eqb qname_eqb_eq). left.
  apply (ahas_in qname_eqb qname_eqb_eq). exact H.
Qed.
Lemma dhas_ddel d k k' : k <> k' -> dhas (ddel d k) k' = dhas d k'.
Proof. intros H. unfold dhas, ddel, ahas. rewrite (aget_adel_other qname_eqb qname_eqb_eq) by exact H. reflexivity. Qed.

(* ------------------------------------------------------------------------------------------ *)
(* objects and views                                                                            *)
Definition absv (s : astate) (T : list oid) : list vstate := map (fun o => abs_obj (st_dns s) (obj_at s o)) T.

Lemma abs_sys_eq s T :
  abs_sys (s, T) = mkD (abs_store (st_dns s) (st_store s)) (absv s T) (st_dns s) (st_node_ns s).
Proof. reflexivity. Qed.

Lemma mkD_eq a a' b b' c c' d d' : a = a' -> b = b' -> c = c' -> d = d' -> mkD a b c d = mkD a' b' c' d'.
Proof. intros -> -> -> ->. reflexivity. Qed.

Lemma obj_at_nth s o x : nth_error (st_objs s) o = Some x -> obj_at s o = x.
Proof. intros H. unfold obj_at. apply nth_error_nth. exact H. Qed.

Lemma view_ok_lt s o : view_ok s o = true -> o < length (st_objs s).
Proof.
  unfold view_ok. destruct (nth_error (st_objs s) o) eqn:E; [|discriminate]. intros _.
  apply nth_error_Some. rewrite E. discriminate.
Qed.

Lemma absv_ext s s' T :
  st_dns s' = st_dns s -> (forall o, In o T -> obj_at s' o = obj_at s o) -> absv s' T = absv s T.
Proof. intros Hd H. unfold absv. rewrite Hd. apply map_ext_in. intros o Ho. rewrite (H o Ho). reflexivity. Qed.

Lemma nth_error_app_l {A} (l e : list A) o : o < length l -> nth_error (l ++ e) o = nth_error l o.
Proof. intros H. apply nth_error_app1. exact H. Qed.

Lemma nth_error_set_nth_same {A} (l : list A) o x : o < length l -> nth_error (set_nth l o x) o = Some x.
Proof. revert o. induction l as [|a r IH]; intros [|o] H; cbn in *; try lia; [reflexivity|]. apply IH. lia. Qed.
Lemma nth_error_set_nth_other {A} (l : list A) o o' x : o <> o' -> nth_error (set_nth l o x) o' = nth_error l o'.
Proof.
  revert o o'. induction l as [|a r IH]; intros [|o] [|o'] H; cbn; try reflexivity; try congruence.
  apply IH. congruence.
Qed.
Lemma length_set_nth {A} (l : list A) o x : length (set_nth l o x) = length l.
Proof. revert o. induction l as [|a r IH]; intros [|o]; cbn; try reflexivity. rewrite IH. reflexivity. Qed.

Lemma index_of_some o T i : index_of o T = Some i -> nth_error T i = Some o /\ In o T.
Proof.
  revert i. induction T as [|x r IH]; cbn; [discriminate|]. intros i.
  destruct (Nat.eqb x o) eqn:E.
  - apply Nat.eqb_eq in E. subst. intros H. inversion H. split; [reflexivity|left; reflexivity].
  - destruct (index_of o r) as [j|]; [|discriminate]. cbn. intros H. inversion H. subst.
    destruct (IH j eq_refl) as [H1 H2]. split; [exact H1|right; exact H2].
Qed.
Lemma index_of_none o T : index_of o T = None -> ~ In o T.
Proof.
  induction T as [|x r IH]; cbn; [intros _ []|].
  destruct (Nat.eqb x o) eqn:E; [discriminate|]. destruct (index_of o r); [discriminate|].
  intros _ [H|H]; [subst; rewrite Nat.eqb_refl in E; discriminate|exact (IH eq_refl H)].
Qed.

Lemma absv_app s T o : absv s (T ++ [o]) = absv s T ++ [abs_obj (st_dns s) (obj_at s o)].
Proof. unfold absv. rewrite map_app. reflexivity. Qed.
Lemma absv_length s T : length (absv s T) = length T.
Proof. apply map_length. Qed.
Lemma absv_nth s T i o : nth_error T i = Some o -> nth_error (absv s T) i = Some (abs_obj (st_dns s) (obj_at s o)).
Proof. intros H. unfold absv. rewrite nth_error_map, H. reflexivity. Qed.

(* accessors *)
Lemma with_q_some s a q k : acc_q (st_node_ns s) a = Some q -> with_q s a k = k q.
Proof. intros H. unfold with_q. rewrite resolve_acc_q, H. reflexivity. Qed.
Lemma with_k_some s T a q f :
  acc_q (st_node_ns s) a = Some q -> with_k (abs_sys (s, T)) a f = f (norm (st_dns s) q).
Proof. intros H. unfold with_k, acc_key. cbn. rewrite H. reflexivity. Qed.
Lemma acc_wf_some nns a : acc_wf nns a = true -> exists q, acc_q nns a = Some q /\ plainq q = true.
Proof. unfold acc_wf. destruct (acc_q nns a) as [q|]; [|discriminate]. intros H. exists q. auto. Qed.

Lemma out_agrees_refl r : out_agrees r r.
Proof. right. reflexivity. Qed.

(* ------------------------------------------------------------------------------------------ *)
(* preservation of well-formedness by the primitive state changes                               *)
Lemma in_aset_inv {K V} (eqb : K -> K -> bool) (l : list (K * V)) k v x :
  In x (aset eqb l k v) -> In x l \/ x = (k, v) \/ (exists w, In (fst x, w) l /\ snd x = v /\ eqb (fst x) k = true).
Proof.
  induction l as [|[a w] r IH]; cbn.
  - intros [H|[]]. right. left. symmetry. exact H.
  - destruct (eqb a k) eqn:E; cbn.
    + intros [H|H]; [|left; right; exact H]. right. right. subst x. cbn. exists w. auto.
    + intros [H|H]; [left; left; exact H|]. destruct (IH H) as [H1|[H1|[w' [H1 H2]]]]; auto.
      right. right. exists w'. auto.
Qed.

Lemma contains_mono (st : list (str * str)) k k2 v : ahas str_eqb st k = true -> ahas str_eqb (aset str_eqb st k2 v) k = true.
Proof.
  intros H. apply (ahas_in (V:=str) str_eqb str_eqb_eq). apply (in_keys_aset (V:=str) str_eqb str_eqb_eq). left.
  apply (ahas_in (V:=str) str_eqb str_eqb_eq). exact H.
Qed.

Lemma NoDup_app_one {A} (l : list A) x : NoDup l -> ~ In x l -> NoDup (l ++ [x]).
Proof.
  induction l as [|a r IH]; cbn; intros ND Hn.
  - constructor; [intros []|constructor].
  - inversion ND as [|? ? Ha ND']. subst. constructor.
    + rewrite in_app_iff. intros [H|[H|[]]]; [exact (Ha H)|]. subst. apply Hn. left. reflexivity.
    + apply IH; [exact ND'|]. intros H. apply Hn. right. exact H.
Qed.

Lemma wf_store_set s T q v :
  Wf s T -> plainq q = true -> Wf (with_store s (aset str_eqb (st_store s) (skey s q) v)) T.
Proof.
  intros W Hq.
  pose proof (SWf_set (st_dns s) (st_store s) (wf_dns s T W) (wf_st s T W) q v Hq) as Hs'.
  pose proof (abs_set_s s T q v W Hq) as Hab.
  destruct W as [H1 H2 H3 H4 H5 H6 H7 H8]. constructor; cbn; try assumption.
  - apply (nodup_aset str_eqb str_eqb_eq). exact H4.
  - intros o Ho. specialize (H8 o Ho). unfold view_ok in *. cbn.
    destruct (nth_error (st_objs s) o) as [[q'|]|]; try assumption.
    apply andb_true_iff in H8. destruct H8 as [Ha Hb]. rewrite Ha. cbn.
    rewrite (contains_dict (st_dns s) (aset str_eqb (st_store s) (skey s q) v)
               (with_store s (aset str_eqb (st_store s) (skey s q) v)) q' eq_refl eq_refl H2 Hs' Ha). rewrite Hab.
    apply dhas_dset. rewrite <- (contains_dict (st_dns s) (st_store s) s q' eq_refl eq_refl H2 H3 Ha). exact Hb.
Qed.

Lemma wf_new_cached s T q :
  Wf s T ->
  Wf (with_cache (with_objs s (st_objs s ++ [Live q])) (aset qname_eqb (st_cache s) q (length (st_objs s)))) T.
Proof.
  intros [H1 H2 H3 H4 H5 H6 H7 H8]. constructor; cbn; try assumption.
  - apply (nodup_aset qname_eqb qname_eqb_eq). exact H5.
  - intros q' o Hin. apply in_aset_inv in Hin. destruct Hin as [Hin|[Hin|[w [Hin [Hv He]]]]].
    + specialize (H6 q' o Hin). rewrite nth_error_app_l; [exact H6|]. apply nth_error_Some. rewrite H6. discriminate.
    + inversion Hin. subst. rewrite nth_error_app2 by lia. rewrite Nat.sub_diag. reflexivity.
    + cbn in *. subst o. apply qname_eqb_eq in He. subst q'.
      rewrite nth_error_app2 by lia. rewrite Nat.sub_diag. reflexivity.
  - intros o Ho. specialize (H8 o Ho). pose proof (view_ok_lt s o H8) as Hlt. unfold view_ok in *. cbn.
    rewrite nth_error_app_l by exact Hlt. exact H8.
Qed.

Lemma getitem_cases s q :
  contains_q s q = true ->
  (exists o, aget qname_eqb (st_cache s) q = Some o /\ getitem_q s q = (s, RObj o)) \/
  (aget qname_eqb (st_cache s) q = None /\
   getitem_q s q = (with_cache (with_objs s (st_objs s ++ [Live q]))
                               (aset qname_eqb (st_cache s) q (length (st_objs s))), RObj (length (st_objs s)))).
Proof.
  intros H. unfold getitem_q. rewrite H. destruct (aget qname_eqb (st_cache s) q) as [o|].
  - left. exists o. auto.
  - right. split; reflexivity.
Qed.

Lemma cache_live s T q o : Wf s T -> aget qname_eqb (st_cache s) q = Some o -> nth_error (st_objs s) o = Some (Live q).
Proof. intros W H. apply (wf_cache s T W). apply (aget_some_in qname_eqb qname_eqb_eq). exact H. Qed.

(* ------------------------------------------------------------------------------------------ *)
(* refinement, operation by operation                                                           *)
Definition finish (T : list oid) (p : astate * out) : sys * out :=
  let '(s', r) := p in
  match r with
  | RObj o => let '(T', i) := track T o in ((s', T'), RObj i)
  | _ => ((s', T), r)
  end.

Definition Good (p : sys * out) (spec : option nat -> dstate * out) : Prop :=
  Wf (fst (fst p)) (snd (fst p)) /\
  exists r', spec (hint_of (snd p)) = (abs_sys (fst p), r') /\ out_agrees r' (snd p).

Lemma contains_abs s T q :
  Wf s T -> plainq q = true -> dhas (abs_store (st_dns s) (st_store s)) (norm (st_dns s) q) = contains_q s q.
Proof. intros W Hq. unfold contains_q, dhas, ahas. fold (dget (abs_store (st_dns s) (st_store s)) (norm (st_dns s) q)).
  rewrite (abs_get_s s T q W Hq). reflexivity. Qed.

(* an extension of the object table (and any change of the cache) is invisible to the client's views *)
Lemma absv_grow s T objs' cache' e :
  Wf s T -> objs' = st_objs s ++ e ->
  absv (mkA (st_store s) (st_dns s) (st_node_ns s) cache' objs') T = absv s T.
Proof.
  intros W ->. apply absv_ext; [reflexivity|]. intros o Ho. unfold obj_at. cbn.
  apply app_nth1. apply view_ok_lt. apply (wf_views s T W). exact Ho.
Qed.

Lemma get_good s T q :
  Wf s T -> plainq q = true ->
  Good (finish T (getitem_q s q)) (fun h => d_get (abs_sys (s, T)) (norm (st_dns s) q) h).
Proof.
  intros W Hq. unfold Good, d_get. rewrite abs_sys_eq. cbn [d_dict d_views]. rewrite (contains_abs s T q W Hq).
  destruct (contains_q s q) eqn:C.
  2:{ unfold getitem_q. rewrite C. cbn. split; [exact W|]. eexists. split; [reflexivity|apply out_agrees_refl]. }
  destruct (getitem_cases s q C) as [[o [Hc ->]]|[Hc ->]].
  - (* the cached object *)
    pose proof (cache_live s T q o W Hc) as Hl. cbn [finish]. unfold track.
    destruct (index_of o T) as [i|] eqn:Ei.
    + destruct (index_of_some o T i Ei) as [Hn _]. cbn [fst snd hint_of]. split; [exact W|].
      rewrite (absv_nth s T i o Hn), (obj_at_nth s o _ Hl). cbn [abs_obj]. rewrite qname_eqb_refl.
      eexists. split; [reflexivity|apply out_agrees_refl].
    + pose proof (index_of_none o T Ei) as Hni. cbn [fst snd hint_of]. split.
      * destruct W as [H1 H2 H3 H4 H5 H6 H7 H8]. constructor; try assumption.
        -- apply NoDup_app_one; [exact H7|exact Hni].
        -- intros o' Ho'. apply in_app_iff in Ho'. destruct Ho' as [Ho'|[<-|[]]]; [exact (H8 o' Ho')|].
           unfold view_ok. rewrite Hl, Hq, C. reflexivity.
      * assert (nth_error (absv s T) (length T) = None) as Hnone.
        { apply nth_error_None. rewrite absv_length. lia. }
        rewrite Hnone, absv_length, Nat.eqb_refl. eexists. split; [|apply out_agrees_refl].
        rewrite abs_sys_eq, absv_app, (obj_at_nth s o _ Hl). reflexivity.
  - (* a new object *)
    set (n := length (st_objs s)). cbn [finish]. unfold track.
    assert (~ In n T) as Hni.
    { intros Hin. pose proof (view_ok_lt s n (wf_views s T W n Hin)). unfold n in *. lia. }
    destruct (index_of n T) as [i|] eqn:Ei; [destruct (index_of_some n T i Ei); contradiction|].
    cbn [fst snd hint_of]. pose proof (wf_new_cached s T q W) as W'. fold n in W'.
    assert (nth_error (st_objs s ++ [Live q]) n = Some (Live q)) as Hl.
    { unfold n. rewrite nth_error_app2 by lia. rewrite Nat.sub_diag. reflexivity. }
    split.
    + destruct W' as [H1 H2 H3 H4 H5 H6 H7 H8]. constructor; try assumption.
      * apply NoDup_app_one; [exact H7|exact Hni].
      * intros o' Ho'. apply in_app_iff in Ho'. destruct Ho' as [Ho'|[<-|[]]]; [exact (H8 o' Ho')|].
        unfold view_ok. cbn. rewrite Hl, Hq. cbn. exact C.
    + assert (nth_error (absv s T) (length T) = None) as Hnone.
      { apply nth_error_None. rewrite absv_length. lia. }
      rewrite Hnone, absv_length, Nat.eqb_refl. eexists. split; [|apply out_agrees_refl].
      set (s' := with_cache (with_objs s (st_objs s ++ [Live q])) (aset qname_eqb (st_cache s) q n)).
      assert (absv s' T = absv s T) as Ha by (apply (absv_grow s T _ _ [Live q] W); reflexivity).
      assert (obj_at s' n = Live q) as Ho by (apply obj_at_nth; exact Hl).
      rewrite abs_sys_eq, absv_app, Ha, Ho. reflexivity.
Qed.

Lemma absv_same s s' T e :
  Wf s T -> st_dns s' = st_dns s -> st_objs s' = st_objs s ++ e -> absv s' T = absv s T.
Proof.
  intros W Hd Ho. apply absv_ext; [exact Hd|]. intros o Hin. unfold obj_at. rewrite Ho.
  apply app_nth1. apply view_ok_lt. apply (wf_views s T W). exact Hin.
Qed.

Lemma nth_set_nth {A} (l : list A) o o' x d :
  o < length l -> nth o' (set_nth l o x) d = if Nat.eqb o' o then x else nth o' l d.
Proof.
  revert o o'. induction l as [|a r IH]; intros [|o] [|o'] H; cbn in *; try lia; try reflexivity.
  apply IH. lia.
Qed.

Lemma absv_set_nth s s' T i o x :
  NoDup T -> nth_error T i = Some o -> o < length (st_objs s) ->
  st_dns s' = st_dns s -> st_objs s' = set_nth (st_objs s) o x ->
  absv s' T = set_nth (absv s T) i (abs_obj (st_dns s) x).
Proof.
  intros ND Hn Hlt Hd Ho. unfold absv. rewrite Hd.
  assert (forall o', obj_at s' o' = if Nat.eqb o' o then x else obj_at s o') as Hat.
  { intros o'. unfold obj_at. rewrite Ho. apply nth_set_nth. exact Hlt. }
  clear Ho Hd. revert i Hn. induction T as [|t r IH]; intros [|i] Hn; cbn in *; try discriminate.
  - inversion Hn. subst t. rewrite Hat, Nat.eqb_refl. f_equal.
    inversion ND as [|? ? Ht ND']. subst. apply map_ext_in. intros o' Ho'. rewrite Hat.
    destruct (Nat.eqb o' o) eqn:E; [|reflexivity]. apply Nat.eqb_eq in E. subst. contradiction.
  - inversion ND as [|? ? Ht ND']. subst. rewrite Hat.
    destruct (Nat.eqb t o) eqn:E.
    + apply Nat.eqb_eq in E. subst. exfalso. apply Ht. apply nth_error_In in Hn. exact Hn.
    + f_equal. apply IH; assumption.
Qed.

Lemma set_good s T q v :
  Wf s T -> plainq q = true ->
  Good ((setitem_q s q v, T), RNone)
       (fun _ => (with_dict (abs_sys (s, T)) (dset (d_dict (abs_sys (s, T))) (norm (st_dns s) q) v), RNone)).
Proof.
  intros W Hq. unfold Good. cbn [fst snd].
  pose proof (wf_store_set s T q v W Hq) as W1.
  unfold setitem_q. destruct (aget qname_eqb (st_cache s) q) as [c|].
  - split; [exact W1|]. eexists. split; [|apply out_agrees_refl].
    rewrite !abs_sys_eq. unfold with_dict. cbn [d_dict d_views d_dns d_node_ns with_store st_store st_dns st_node_ns].
    apply f_equal2; [|reflexivity]. apply mkD_eq; try reflexivity.
    symmetry. apply (abs_set_s s T q v W Hq).
  - pose proof (wf_new_cached _ T q W1) as W2. cbn [st_objs st_cache with_store] in W2.
    split; [exact W2|]. eexists. split; [|apply out_agrees_refl].
    rewrite !abs_sys_eq. unfold with_dict. cbn [d_dict d_views d_dns d_node_ns]. cbn.
    apply f_equal2; [|reflexivity]. apply mkD_eq; try reflexivity.
    + symmetry. apply (abs_set_s s T q v W Hq).
    + symmetry. apply (absv_same s _ T [Live q] W); reflexivity.
Qed.

Lemma setitem_facts s q' v :
  st_store (setitem_q s q' v) = aset str_eqb (st_store s) (skey s q') v /\
  st_dns (setitem_q s q' v) = st_dns s /\ st_node_ns (setitem_q s q' v) = st_node_ns s /\
  (exists e, st_objs (setitem_q s q' v) = st_objs s ++ e) /\
  (forall q, q' <> q -> aget qname_eqb (st_cache (setitem_q s q' v)) q = aget qname_eqb (st_cache s) q).
Proof.
  unfold setitem_q. destruct (aget qname_eqb (st_cache s) q') as [c|]; cbn.
  - repeat split. exists []. rewrite app_nil_r. reflexivity.
  - repeat split; [exists [Live q']; reflexivity|]. intros q Hne. apply (aget_aset_other qname_eqb qname_eqb_eq). exact Hne.
Qed.

Lemma skey_ok_decon dns k : skey_ok dns k = true -> decon_ok k = true.
Proof.
  unfold skey_ok, skey_shape. rewrite decon_ok_spec. destruct (spec_clark k); [reflexivity|discriminate].
Qed.

Lemma iter_good s T :
  Wf s T -> iter_keys s = RKeys (map fst (abs_store (st_dns s) (st_store s))).
Proof.
  intros W. unfold iter_keys. rewrite abs_store_keys.
  assert (forallb decon_ok (map fst (st_store s)) = true) as H.
  { apply forallb_forall. intros k Hk. destruct (wf_st s T W) as [Hf _]. rewrite Forall_forall in Hf.
    apply shape_decon. exact (Hf k Hk). }
  rewrite H. reflexivity.
Qed.

Lemma view_cases s T o :
  Wf s T -> In o T ->
  (exists q v, nth_error (st_objs s) o = Some (Live q) /\ plainq q = true /\ contains_q s q = true /\
               aget str_eqb (st_store s) (skey s q) = Some v) \/
  (exists v q, nth_error (st_objs s) o = Some (Dead v q)).
Proof.
  intros W Hin. pose proof (wf_views s T W o Hin) as Hv. unfold view_ok in Hv.
  destruct (nth_error (st_objs s) o) as [[q|v q]|] eqn:E; [| |discriminate].
  - left. apply andb_true_iff in Hv. destruct Hv as [Hp Hc]. unfold contains_q, ahas in Hc.
    destruct (aget str_eqb (st_store s) (skey s q)) as [v|] eqn:Ev; [|discriminate].
    exists q, v. unfold contains_q, ahas. rewrite Ev. auto.
  - right. exists v, q. reflexivity.
Qed.

Lemma value_good s T i o :
  Wf s T -> nth_error T i = Some o ->
  Good ((s, T), obj_value s o) (fun h => dict_step (abs_sys (s, T)) (OValue i) h).
Proof.
  intros W Hn. unfold Good. cbn [fst snd dict_step]. split; [exact W|].
  rewrite abs_sys_eq. cbn [d_views d_dict]. rewrite (absv_nth s T i o Hn).
  destruct (view_cases s T o W (nth_error_In _ _ Hn)) as [[q [v [Hl [Hp [Hc Hv]]]]]|[v [q Hd]]].
  - rewrite (obj_at_nth s o _ Hl). cbn [abs_obj]. unfold obj_value. rewrite Hl, Hv.
    rewrite (abs_get_s s T q W Hp). rewrite Hv.
    eexists. split; [reflexivity|apply out_agrees_refl].
  - rewrite (obj_at_nth s o _ Hd). cbn [abs_obj]. unfold obj_value. rewrite Hd.
    eexists. split; [reflexivity|apply out_agrees_refl].
Qed.

Lemma setvalue_good s T i o v :
  Wf s T -> nth_error T i = Some o ->
  Good ((fst (obj_set_value s o v), T), snd (obj_set_value s o v))
       (fun h => dict_step (abs_sys (s, T)) (OSetValue i v) h).
Proof.
  intros W Hn. unfold Good. cbn [fst snd dict_step].
  rewrite abs_sys_eq. cbn [d_views d_dict]. rewrite (absv_nth s T i o Hn).
  pose proof (nth_error_In _ _ Hn) as Hin.
  destruct (view_cases s T o W Hin) as [[q [v0 [Hl [Hp [Hc Hv]]]]]|[v0 [q Hd]]].
  - rewrite (obj_at_nth s o _ Hl). cbn [abs_obj]. unfold obj_set_value. rewrite Hl. cbn [fst snd].
    split; [apply wf_store_set; assumption|]. eexists. split; [|apply out_agrees_refl].
    rewrite abs_sys_eq. unfold with_dict. cbn. f_equal. f_equal.
    symmetry. apply (abs_set_s s T q v W Hp).
  - rewrite (obj_at_nth s o _ Hd). cbn [abs_obj]. unfold obj_set_value. rewrite Hd. cbn [fst snd].
    assert (o < length (st_objs s)) as Hlt by (apply nth_error_Some; rewrite Hd; discriminate).
    split.
    + destruct W as [H1 H2 H3 H4 H5 H6 H7 H8]. constructor; cbn; try assumption.
      * intros q' c Hc. specialize (H6 q' c Hc). rewrite nth_error_set_nth_other; [exact H6|].
        intros ->. rewrite Hd in H6. discriminate.
      * intros o' Ho'. specialize (H8 o' Ho'). unfold view_ok in *. cbn.
        destruct (Nat.eq_dec o o') as [<-|Hne].
        -- rewrite nth_error_set_nth_same by exact Hlt. reflexivity.
        -- rewrite nth_error_set_nth_other by exact Hne. exact H8.
    + eexists. split; [|apply out_agrees_refl].
      rewrite abs_sys_eq.
      rewrite (absv_set_nth s (with_objs s (set_nth (st_objs s) o (Dead v q))) T i o (Dead v q)
                 (wf_T s T W) Hn Hlt eq_refl eq_refl).
      reflexivity.
Qed.

(* ------------------------------------------------------------------------------------------ *)
(* removing an entry                                                                            *)
Definition NoStale (s : astate) (T : list oid) (q : qname) (but : option oid) : Prop :=
  forall o q', In o T -> nth_error (st_objs s) o = Some (Live q') -> norm (st_dns s) q' = norm (st_dns s) q ->
               but = Some o \/ aget qname_eqb (st_cache s) q = Some o.

Lemma no_stale_prop s T q but : no_stale s T q but = true -> NoStale s T q but.
Proof.
  unfold no_stale, NoStale. rewrite forallb_forall. intros H o q' Hin Hl Hn. specialize (H o Hin).
  rewrite Hl in H. unfold same_entry in H. rewrite Hn, qname_eqb_refl in H.
  apply orb_true_iff in H. destruct H as [H|H].
  - left. destruct but as [b|]; [|discriminate]. apply Nat.eqb_eq in H. subst. reflexivity.
  - right. destruct (aget qname_eqb (st_cache s) q) as [c|]; [|discriminate]. apply Nat.eqb_eq in H. subst. reflexivity.
Qed.

Definition kill_state (s1 : astate) (q : qname) (c : oid) (v : str) (q0 : qname) : astate :=
  mkA (adel str_eqb (st_store s1) (skey s1 q)) (st_dns s1) (st_node_ns s1)
      (adel qname_eqb (st_cache s1) q) (set_nth (st_objs s1) c (Dead v q0)).

Lemma getitem_wf s T q :
  Wf s T -> plainq q = true -> contains_q s q = true ->
  exists s1 c, getitem_q s q = (s1, RObj c) /\ Wf s1 T /\
    st_store s1 = st_store s /\ st_dns s1 = st_dns s /\ st_node_ns s1 = st_node_ns s /\
    (exists e, st_objs s1 = st_objs s ++ e) /\
    aget qname_eqb (st_cache s1) q = Some c /\
    (forall o, aget qname_eqb (st_cache s) q = Some o -> s1 = s /\ c = o) /\
    (aget qname_eqb (st_cache s) q = None -> ~ In c T).
Proof.
  intros W Hq C. destruct (getitem_cases s q C) as [[o [Hc Hg]]|[Hc Hg]].
  - exists s, o. split; [exact Hg|]. split; [exact W|]. split; [reflexivity|]. split; [reflexivity|].
    split; [reflexivity|]. split; [exists []; rewrite app_nil_r; reflexivity|]. split; [exact Hc|]. split.
    + intros o' H. rewrite Hc in H. inversion H. auto.
    + intros H. rewrite Hc in H. discriminate.
  - eexists. eexists. split; [exact Hg|]. split; [apply wf_new_cached; exact W|]. cbn.
    split; [reflexivity|]. split; [reflexivity|]. split; [reflexivity|]. split; [exists [Live q]; reflexivity|].
    split; [apply (aget_aset_same qname_eqb qname_eqb_eq)|]. split.
    + intros o' H. rewrite Hc in H. discriminate.
    + intros _ Hin. pose proof (view_ok_lt s _ (wf_views s T W _ Hin)). lia.
Qed.

Lemma skey_same s s1 q : st_dns s1 = st_dns s -> st_store s1 = st_store s -> skey s1 q = skey s q.
Proof. intros H H2. unfold skey. rewrite H, H2. reflexivity. Qed.

Lemma contains_same s s1 q : st_dns s1 = st_dns s -> st_store s1 = st_store s -> contains_q s1 q = contains_q s q.
Proof. intros H1 H2. unfold contains_q. rewrite (skey_same s s1 q H1 H2), H2. reflexivity. Qed.

Lemma delitem_eq s T q :
  Wf s T -> plainq q = true -> contains_q s q = true ->
  exists s1 c v, getitem_q s q = (s1, RObj c) /\ Wf s1 T /\
    st_store s1 = st_store s /\ st_dns s1 = st_dns s /\ st_node_ns s1 = st_node_ns s /\
    (exists e, st_objs s1 = st_objs s ++ e) /\
    aget qname_eqb (st_cache s1) q = Some c /\
    (forall o, aget qname_eqb (st_cache s) q = Some o -> s1 = s /\ c = o) /\
    (aget qname_eqb (st_cache s) q = None -> ~ In c T) /\
    aget str_eqb (st_store s) (skey s q) = Some v /\
    delitem_q s q = (kill_state s1 q c v q, RNone).
Proof.
  intros W Hq C.
  destruct (getitem_wf s T q W Hq C) as [s1 [c [Hg [W1 [Hs [Hd [Hn [He [Hc [Hu Hf]]]]]]]]]].
  pose proof C as C'. unfold contains_q, ahas in C'.
  destruct (aget str_eqb (st_store s) (skey s q)) as [v|] eqn:Ev; [|discriminate].
  exists s1, c, v. do 9 (split; [assumption|]). split; [reflexivity|].
  pose proof (cache_live s1 T q c W1 Hc) as Hl.
  unfold delitem_q. rewrite C, Hg. unfold obj_value. rewrite Hl. unfold kill_state.
  rewrite (skey_same s s1 q Hd Hs), Hs, Ev. reflexivity.
Qed.

Lemma in_adel_neq {V} (l : list (qname * V)) k x :
  NoDup (map fst l) -> In x (adel qname_eqb l k) -> In x l /\ fst x <> k.
Proof.
  intros ND H. split; [exact (in_adel qname_eqb l k x H)|].
  apply (in_map fst) in H. apply (in_keys_adel_iff qname_eqb qname_eqb_eq l k (fst x) ND) in H. apply H.
Qed.

Lemma kill_views_map K v vs :
  kill_views K v vs = map (fun w => match w with VLive k' => if qname_eqb k' K then VDead v else w | VDead _ => w end) vs.
Proof. reflexivity. Qed.

Lemma kill_good s1 T q c v (but : option oid) :
  Wf s1 T -> plainq q = true ->
  aget qname_eqb (st_cache s1) q = Some c -> aget str_eqb (st_store s1) (skey s1 q) = Some v ->
  (forall o q', In o T -> nth_error (st_objs s1) o = Some (Live q') ->
                norm (st_dns s1) q' = norm (st_dns s1) q -> o = c) ->
  let s' := kill_state s1 q c v q in
  Wf s' T /\
  abs_store (st_dns s') (st_store s') = ddel (abs_store (st_dns s1) (st_store s1)) (norm (st_dns s1) q) /\
  absv s' T = kill_views (norm (st_dns s1) q) v (absv s1 T).
Proof.
  intros W Hq Hc Hv Hst s'. subst s'. unfold kill_state.
  pose proof (cache_live s1 T q c W Hc) as Hl.
  assert (c < length (st_objs s1)) as Hlt by (apply nth_error_Some; rewrite Hl; discriminate).
  pose proof (SWf_del (st_dns s1) (st_store s1) (wf_st s1 T W) (skey s1 q)) as Hs'.
  pose proof (abs_del_s s1 T q W Hq) as Hab.
  split; [|split].
  - destruct W as [H1 H2 H3 H4 H5 H6 H7 H8]. constructor; cbn; try assumption.
    + apply (nodup_adel str_eqb). exact H4.
    + apply (nodup_adel qname_eqb). exact H5.
    + intros q' o Hin. apply (in_adel_neq _ _ _ H5) in Hin. destruct Hin as [Hin Hne]. cbn in Hne.
      specialize (H6 q' o Hin). rewrite nth_error_set_nth_other; [exact H6|].
      intros <-. rewrite Hl in H6. inversion H6. subst. apply Hne. reflexivity.
    + intros o Ho. pose proof (H8 o Ho) as Hvo. unfold view_ok in *. cbn.
      destruct (Nat.eq_dec c o) as [<-|Hne].
      * rewrite nth_error_set_nth_same by exact Hlt. reflexivity.
      * rewrite nth_error_set_nth_other by exact Hne.
        destruct (nth_error (st_objs s1) o) as [[q'|]|] eqn:Eo; try assumption.
        apply andb_true_iff in Hvo. destruct Hvo as [Hp Hco]. rewrite Hp. cbn [andb].
        rewrite (contains_dict (st_dns s1) (adel str_eqb (st_store s1) (skey s1 q))
                   (mkA (adel str_eqb (st_store s1) (skey s1 q)) (st_dns s1) (st_node_ns s1)
                        (adel qname_eqb (st_cache s1) q) (set_nth (st_objs s1) c (Dead v q)))
                   q' eq_refl eq_refl H2 Hs' Hp).
        rewrite Hab, dhas_ddel.
        -- rewrite <- (contains_dict (st_dns s1) (st_store s1) s1 q' eq_refl eq_refl H2 H3 Hp). exact Hco.
        -- intros Hk. apply Hne. symmetry. apply (Hst o q' Ho Eo). symmetry. exact Hk.
  - cbn. exact Hab.
  - rewrite kill_views_map. unfold absv. rewrite map_map. cbn [st_dns].
    apply map_ext_in. intros o Ho. unfold obj_at. cbn [st_objs].
    rewrite (nth_set_nth _ c o _ _ Hlt).
    destruct (Nat.eqb o c) eqn:E.
    + apply Nat.eqb_eq in E. subst o. rewrite (nth_error_nth _ _ _ Hl). cbn [abs_obj].
      rewrite qname_eqb_refl. reflexivity.
    + pose proof (wf_views s1 T W o Ho) as Hvo. unfold view_ok in Hvo.
      destruct (nth_error (st_objs s1) o) as [[q'|v' q']|] eqn:Eo; [| |discriminate].
      * rewrite (nth_error_nth _ _ _ Eo). cbn [abs_obj].
        destruct (qname_eqb (norm (st_dns s1) q') (norm (st_dns s1) q)) eqn:En; [|reflexivity].
        apply qname_eqb_eq in En. rewrite (Hst o q' Ho Eo En) in E. rewrite Nat.eqb_refl in E. discriminate.
      * rewrite (nth_error_nth _ _ _ Eo). reflexivity.
Qed.

Lemma del_good s T q :
  Wf s T -> plainq q = true -> (contains_q s q = false \/ NoStale s T q None) ->
  Good ((fst (delitem_q s q), T), snd (delitem_q s q)) (fun _ => d_del (abs_sys (s, T)) (norm (st_dns s) q)).
Proof.
  intros W Hq Hsafe. unfold Good, d_del. cbn [fst snd]. rewrite abs_sys_eq. cbn [d_dict d_views d_dns d_node_ns].
  rewrite (abs_get_s s T q W Hq).
  destruct (contains_q s q) eqn:C.
  2:{ unfold delitem_q. rewrite C. cbn [fst snd]. split; [exact W|].
      unfold contains_q, ahas in C. destruct (aget str_eqb (st_store s) (skey s q)); [discriminate|].
      eexists. split; [reflexivity|apply out_agrees_refl]. }
  destruct Hsafe as [Hsafe|Hsafe]; [discriminate|].
  destruct (delitem_eq s T q W Hq C) as [s1 [c [v [Hg [W1 [Hs [Hd [Hn [[e He] [Hc [Hu [Hf [Hv ->]]]]]]]]]]]]].
  cbn [fst snd]. rewrite Hv.
  assert (forall o q', In o T -> nth_error (st_objs s1) o = Some (Live q') ->
                       norm (st_dns s1) q' = norm (st_dns s1) q -> o = c) as Hst.
  { intros o q' Ho Hl Hnm. rewrite Hd in Hnm.
    assert (nth_error (st_objs s) o = Some (Live q')) as Hl0.
    { rewrite He in Hl. rewrite nth_error_app_l in Hl; [exact Hl|]. apply view_ok_lt. apply (wf_views s T W). exact Ho. }
    destruct (Hsafe o q' Ho Hl0 Hnm) as [H|H]; [discriminate|]. destruct (Hu o H) as [_ ->]. reflexivity. }
  assert (aget str_eqb (st_store s1) (skey s1 q) = Some v) as Hv1 by (rewrite (skey_same s s1 q Hd Hs), Hs; exact Hv).
  destruct (kill_good s1 T q c v None W1 Hq Hc Hv1 Hst) as [W2 [Ha Hb]].
  split; [exact W2|]. eexists. split; [|apply out_agrees_refl].
  rewrite abs_sys_eq, Ha, Hb. cbn [kill_state st_dns st_node_ns]. rewrite Hs, Hd, Hn.
  rewrite (absv_same s s1 T e W Hd He). reflexivity.
Qed.

(* ------------------------------------------------------------------------------------------ *)
(* pop, update                                                                                  *)
Lemma d_get_not_unspec d k h : snd (d_get d k h) <> RUnspec.
Proof.
  unfold d_get. destruct (dhas (d_dict d) k); [|cbn; discriminate].
  destruct h as [i|]; [|cbn; discriminate].
  destruct (nth_error (d_views d) i) as [[k'|v]|]; cbn; try discriminate.
  - destruct (qname_eqb k' k); cbn; discriminate.
  - destruct (Nat.eqb i (length (d_views d))); cbn; discriminate.
Qed.

Lemma track_in T c T' i : track T c = (T', i) -> (forall o, In o T' -> In o T \/ o = c) /\ In c T'.
Proof.
  unfold track. destruct (index_of c T) as [j|] eqn:E; intros H; inversion H; subst.
  - split; [intros o Ho; left; exact Ho|]. apply (index_of_some c T' i E).
  - split.
    + intros o Ho. apply in_app_iff in Ho. destruct Ho as [Ho|[Ho|[]]]; [left; exact Ho|right; symmetry; exact Ho].
    + apply in_app_iff. right. left. reflexivity.
Qed.

Lemma pop_good s T q :
  Wf s T -> plainq q = true -> (contains_q s q = false \/ NoStale s T q None) ->
  Good (finish T (pop_q s q)) (fun h => d_pop (abs_sys (s, T)) (norm (st_dns s) q) h).
Proof.
  intros W Hq Hsafe. unfold d_pop.
  assert (dhas (d_dict (abs_sys (s, T))) (norm (st_dns s) q) = contains_q s q) as Hh.
  { rewrite abs_sys_eq. cbn [d_dict]. apply (contains_abs s T q W Hq). }
  destruct (contains_q s q) eqn:C.
  2:{ unfold pop_q, getitem_q. rewrite C. cbn [finish]. unfold Good. cbn [fst snd hint_of]. rewrite Hh.
      split; [exact W|]. eexists. split; [reflexivity|apply out_agrees_refl]. }
  destruct Hsafe as [Hsafe|Hsafe]; [discriminate|].
  pose proof (get_good s T q W Hq) as G.
  destruct (getitem_wf s T q W Hq C) as [s1 [c [Hg [W1 [Hs [Hd [Hn [[e He] [Hc [Hu Hf]]]]]]]]]].
  rewrite Hg in G. cbn [finish] in G. destruct (track T c) as [T' i] eqn:Et.
  destruct G as [WT' [r' [Hget Hag]]]. cbn [fst snd hint_of] in WT', Hget, Hag.
  assert (r' = RObj i) as ->.
  { destruct Hag as [Hag|Hag]; [|exact Hag]. exfalso.
    apply (d_get_not_unspec (abs_sys (s, T)) (norm (st_dns s) q) (Some i)). rewrite Hget. exact Hag. }
  (* the deletion, on the state after the lookup *)
  assert (contains_q s1 q = true) as C1 by (rewrite (contains_same s s1 q Hd Hs); exact C).
  destruct (delitem_eq s1 T' q WT' Hq C1) as [s1' [c' [v [Hg' [_ [_ [_ [_ [_ [_ [Hu' [_ [Hv' Hdel]]]]]]]]]]]]].
  destruct (Hu' c Hc) as [-> ->].
  unfold pop_q. rewrite Hg, Hdel. cbn [finish]. rewrite Et. unfold Good. cbn [fst snd hint_of].
  destruct (track_in T c T' i Et) as [HT' HcT'].
  assert (forall o q', In o T' -> nth_error (st_objs s1) o = Some (Live q') ->
                       norm (st_dns s1) q' = norm (st_dns s1) q -> o = c) as Hst.
  { intros o q' Ho Hl Hnm. destruct (HT' o Ho) as [HoT|HoT]; [|exact HoT]. rewrite Hd in Hnm.
    assert (nth_error (st_objs s) o = Some (Live q')) as Hl0.
    { rewrite He in Hl. rewrite nth_error_app_l in Hl; [exact Hl|]. apply view_ok_lt. apply (wf_views s T W). exact HoT. }
    destruct (Hsafe o q' HoT Hl0 Hnm) as [H|H]; [discriminate|]. destruct (Hu o H) as [_ ->]. reflexivity. }
  destruct (kill_good s1 T' q c v None WT' Hq Hc Hv' Hst) as [W2 [Ha Hb]].
  split; [exact W2|]. rewrite Hh, Hget. rewrite <- Hd. unfold d_del. rewrite abs_sys_eq. cbn [d_dict d_views d_dns d_node_ns].
  rewrite (abs_get_s s1 T' q WT' Hq). rewrite Hv'.
  eexists. split; [|apply out_agrees_refl].
  rewrite abs_sys_eq, Ha, Hb. reflexivity.
Qed.

Lemma set_effect s T q v :
  Wf s T -> plainq q = true ->
  Wf (setitem_q s q v) T /\
  abs_sys (setitem_q s q v, T) = with_dict (abs_sys (s, T)) (dset (d_dict (abs_sys (s, T))) (norm (st_dns s) q) v).
Proof.
  intros W Hq. destruct (set_good s T q v W Hq) as [W' [r' [H _]]]. cbn [fst snd] in *.
  split; [exact W'|]. apply (f_equal fst) in H. cbn [fst] in H. symmetry. exact H.
Qed.

Lemma update_good s T l :
  Wf s T -> forallb (fun e => acc_wf (st_node_ns s) (fst e)) l = true ->
  Good ((fst (update_l s l), T), snd (update_l s l)) (fun _ => d_update (abs_sys (s, T)) l).
Proof.
  revert s. induction l as [|[a v] r IH]; intros s W Hl.
  - cbn. unfold Good. cbn. split; [exact W|]. eexists. split; [reflexivity|apply out_agrees_refl].
  - cbn [forallb fst] in Hl. apply andb_true_iff in Hl. destruct Hl as [Ha Hr].
    destruct (acc_wf_some _ a Ha) as [q [Hq Hp]].
    cbn [update_l d_update]. rewrite resolve_acc_q, Hq.
    assert (acc_key (abs_sys (s, T)) a = Some (norm (st_dns s) q)) as Hk
      by (unfold acc_key; cbn; rewrite Hq; reflexivity).
    rewrite Hk. destruct (set_effect s T q v W Hp) as [W' Hab]. rewrite <- Hab.
    apply IH; [exact W'|]. destruct (setitem_facts s q v) as [_ [_ [En _]]]. rewrite En. exact Hr.
Qed.

(* ------------------------------------------------------------------------------------------ *)
(* renaming through an Attribute object                                                         *)
Lemma set_nth_set_nth {A} (l : list A) o x y : set_nth (set_nth l o x) o y = set_nth l o y.
Proof. revert o. induction l as [|a r IH]; intros [|o]; cbn; try reflexivity. rewrite IH. reflexivity. Qed.
Lemma set_nth_id {A} (l : list A) o x : nth_error l o = Some x -> set_nth l o x = l.
Proof.
  revert o. induction l as [|a r IH]; intros [|o]; cbn; try discriminate.
  - intros H. inversion H. reflexivity.
  - intros H. rewrite (IH o H). reflexivity.
Qed.
Lemma map_set_nth {A B} (f : A -> B) (l : list A) i x : map f (set_nth l i x) = set_nth (map f l) i (f x).
Proof. revert i. induction l as [|a r IH]; intros [|i]; cbn; try reflexivity. rewrite IH. reflexivity. Qed.

Lemma set_nth_ext {A} (l l' : list A) i x :
  length l = length l' -> (forall j, j <> i -> nth_error l j = nth_error l' j) -> set_nth l i x = set_nth l' i x.
Proof.
  revert l' i. induction l as [|a r IH]; intros [|a' r'] i Hlen H; cbn in *; try discriminate; [reflexivity|].
  destruct i as [|i].
  - f_equal. clear IH. revert r' Hlen H. induction r as [|b r IH]; intros [|b' r'] Hlen H; cbn in *; try discriminate; [reflexivity|].
    pose proof (H 1 (ltac:(discriminate))) as H1. cbn in H1. inversion H1. f_equal.
    apply IH; [lia|]. intros [|j] Hj; [contradiction|]. exact (H (S (S j)) (ltac:(discriminate))).
  - pose proof (H 0 (ltac:(discriminate))) as H0. cbn in H0. inversion H0. f_equal.
    apply IH; [lia|]. intros j Hj. apply (H (S j)). congruence.
Qed.

Lemma kill_set_nth_comm K v vs i K' :
  qname_eqb K' K = false ->
  kill_views K v (set_nth vs i (VLive K')) = set_nth (kill_views K v vs) i (VLive K').
Proof. intros H. rewrite !kill_views_map, map_set_nth. rewrite H. reflexivity. Qed.

(* The entry of q is removed (the object c cached for q is detached) and the object o, which viewed it,
   becomes the cached view of q'.  Every held live view of the entry is c or o. *)
Lemma move_good2 s1 T i o c q q' v :
  Wf s1 T -> plainq q = true -> plainq q' = true -> nth_error T i = Some o ->
  nth_error (st_objs s1) o = Some (Live q) ->
  aget qname_eqb (st_cache s1) q = Some c -> aget str_eqb (st_store s1) (skey s1 q) = Some v ->
  contains_q s1 q' = true -> norm (st_dns s1) q <> norm (st_dns s1) q' ->
  (forall t q'', In t T -> nth_error (st_objs s1) t = Some (Live q'') ->
                 norm (st_dns s1) q'' = norm (st_dns s1) q -> t = c \/ t = o) ->
  let F := mkA (adel str_eqb (st_store s1) (skey s1 q)) (st_dns s1) (st_node_ns s1)
               (aset qname_eqb (adel qname_eqb (st_cache s1) q) q' o)
               (set_nth (set_nth (st_objs s1) c (Dead v q)) o (Live q')) in
  Wf F T /\
  abs_store (st_dns F) (st_store F) = ddel (abs_store (st_dns s1) (st_store s1)) (norm (st_dns s1) q) /\
  absv F T = set_nth (kill_views (norm (st_dns s1) q) v (absv s1 T)) i (VLive (norm (st_dns s1) q')).
Proof.
  intros W Hq Hq' Hi Hlo Hc Hv Hc' Hne Hst F. subst F.
  pose proof (cache_live s1 T q c W Hc) as Hlc.
  assert (c < length (st_objs s1)) as Hltc by (apply nth_error_Some; rewrite Hlc; discriminate).
  assert (o < length (st_objs s1)) as Hlto by (apply nth_error_Some; rewrite Hlo; discriminate).
  set (objsF := set_nth (set_nth (st_objs s1) c (Dead v q)) o (Live q')).
  assert (nth_error objsF o = Some (Live q')) as HFo.
  { unfold objsF. apply nth_error_set_nth_same. rewrite length_set_nth. exact Hlto. }
  assert (forall t, t <> o -> t <> c -> nth_error objsF t = nth_error (st_objs s1) t) as HFt.
  { intros t H1 H2. unfold objsF. rewrite nth_error_set_nth_other by congruence.
    apply nth_error_set_nth_other. congruence. }
  assert (c <> o -> nth_error objsF c = Some (Dead v q)) as HFc.
  { intros H. unfold objsF. rewrite nth_error_set_nth_other by congruence. apply nth_error_set_nth_same. exact Hltc. }
  pose proof (SWf_del (st_dns s1) (st_store s1) (wf_st s1 T W) (skey s1 q)) as Hs'.
  pose proof (abs_del_s s1 T q W Hq) as Hab.
  assert (forall q0, plainq q0 = true -> norm (st_dns s1) q <> norm (st_dns s1) q0 -> contains_q s1 q0 = true ->
            contains_q (mkA (adel str_eqb (st_store s1) (skey s1 q)) (st_dns s1) (st_node_ns s1)
                            (aset qname_eqb (adel qname_eqb (st_cache s1) q) q' o) objsF) q0 = true) as Hkeep.
  { intros q0 Hp0 Hn0 Hc0.
    rewrite (contains_dict (st_dns s1) (adel str_eqb (st_store s1) (skey s1 q))
               (mkA (adel str_eqb (st_store s1) (skey s1 q)) (st_dns s1) (st_node_ns s1)
                    (aset qname_eqb (adel qname_eqb (st_cache s1) q) q' o) objsF)
               q0 eq_refl eq_refl (wf_dns s1 T W) Hs' Hp0).
    rewrite Hab, dhas_ddel by exact Hn0.
    rewrite <- (contains_dict (st_dns s1) (st_store s1) s1 q0 eq_refl eq_refl (wf_dns s1 T W) (wf_st s1 T W) Hp0). exact Hc0. }
  split; [|split].
  - destruct W as [H1 H2 H3 H4 H5 H6 H7 H8]. constructor; cbn [st_store st_dns st_node_ns st_cache st_objs]; try assumption.
    + apply (nodup_adel str_eqb). exact H4.
    + apply (nodup_aset qname_eqb qname_eqb_eq). apply (nodup_adel qname_eqb). exact H5.
    + intros q'' x Hin. apply in_aset_inv in Hin. destruct Hin as [Hin|[Hin|[w [Hin [Hw He]]]]].
      * apply (in_adel_neq _ _ _ H5) in Hin. destruct Hin as [Hin Hnq]. cbn in Hnq.
        pose proof (H6 q'' x Hin) as Hx. rewrite HFt; [exact Hx| |].
        -- intros ->. rewrite Hlo in Hx. inversion Hx. subst. apply Hnq. reflexivity.
        -- intros ->. rewrite Hlc in Hx. inversion Hx. subst. apply Hnq. reflexivity.
      * inversion Hin. subst. exact HFo.
      * cbn in Hw, He. subst x. apply qname_eqb_eq in He. subst q''. exact HFo.
    + intros t Ht. pose proof (H8 t Ht) as Hvt. unfold view_ok in *. cbn [st_objs].
      destruct (Nat.eq_dec t o) as [->|Hnto].
      * rewrite HFo, Hq'. cbn [andb]. apply Hkeep; [exact Hq'|exact Hne|exact Hc'].
      * destruct (Nat.eq_dec t c) as [->|Hntc]; [rewrite (HFc Hnto); reflexivity|].
        rewrite (HFt t Hnto Hntc).
        destruct (nth_error (st_objs s1) t) as [[q''|]|] eqn:Et; try assumption.
        apply andb_true_iff in Hvt. destruct Hvt as [Hp Hct]. rewrite Hp. cbn [andb].
        apply Hkeep; [exact Hp| |exact Hct].
        intros Hkk. destruct (Hst t q'' Ht Et (eq_sym Hkk)); contradiction.
  - cbn. exact Hab.
  - pose proof (wf_T s1 T W) as ND.
    set (F0 := mkA (st_store s1) (st_dns s1) (st_node_ns s1) (st_cache s1) (set_nth (st_objs s1) c (Dead v q))).
    rewrite (absv_set_nth F0 (mkA (adel str_eqb (st_store s1) (skey s1 q)) (st_dns s1) (st_node_ns s1)
                                  (aset qname_eqb (adel qname_eqb (st_cache s1) q) q' o) objsF)
               T i o (Live q') ND Hi); [|cbn; rewrite length_set_nth; exact Hlto|reflexivity|reflexivity].
    cbn [abs_obj st_dns F0]. apply set_nth_ext.
    + rewrite kill_views_map, map_length, !absv_length. reflexivity.
    + intros j Hj. rewrite kill_views_map. unfold absv. rewrite !nth_error_map.
      destruct (nth_error T j) as [t|] eqn:Ej; [|reflexivity]. cbn [option_map]. f_equal.
      assert (t <> o) as Hnto.
      { intros ->. apply Hj. apply (proj1 (NoDup_nth_error T) ND); [apply nth_error_Some; rewrite Ej; discriminate|].
        rewrite Ej, Hi. reflexivity. }
      pose proof (nth_error_In _ _ Ej) as Ht.
      unfold obj_at. cbn [st_objs st_dns F0]. rewrite (nth_set_nth _ c t _ _ Hltc).
      destruct (Nat.eqb t c) eqn:E.
      * apply Nat.eqb_eq in E. subst t. rewrite (nth_error_nth _ _ _ Hlc). cbn [abs_obj]. rewrite qname_eqb_refl. reflexivity.
      * pose proof (wf_views s1 T W t Ht) as Hvt. unfold view_ok in Hvt.
        destruct (nth_error (st_objs s1) t) as [[q''|v' q'']|] eqn:Et; [| |discriminate].
        -- rewrite (nth_error_nth _ _ _ Et). cbn [abs_obj].
           destruct (qname_eqb (norm (st_dns s1) q'') (norm (st_dns s1) q)) eqn:En; [|reflexivity].
           apply qname_eqb_eq in En. destruct (Hst t q'' Ht Et En) as [->| ->]; [|contradiction].
           rewrite Nat.eqb_refl in E. discriminate.
        -- rewrite (nth_error_nth _ _ _ Et). reflexivity.
Qed.

(* renaming between two spellings of the same entry: only the cache entry moves *)
Lemma rename_alias s T i o q q' :
  Wf s T -> nth_error T i = Some o -> nth_error (st_objs s) o = Some (Live q) -> plainq q = true ->
  plainq q' = true -> contains_q s q = true -> norm (st_dns s) q = norm (st_dns s) q' ->
  let F := mkA (st_store s) (st_dns s) (st_node_ns s) (aset qname_eqb (adel qname_eqb (st_cache s) q) q' o)
               (set_nth (st_objs s) o (Live q')) in
  Wf F T /\ abs_sys (F, T) = abs_sys (s, T).
Proof.
  intros W Hi Hlo Hq Hq' Hc Hn F.
  assert (o < length (st_objs s)) as Hlto by (apply nth_error_Some; rewrite Hlo; discriminate).
  assert (skey s q' = skey s q) as Hk by (symmetry; apply (skey_norm_iff s T q q' W Hq Hq'); exact Hn).
  split.
  - subst F. destruct W as [H1 H2 H3 H4 H5 H6 H7 H8]. constructor; cbn [st_store st_dns st_node_ns st_cache st_objs]; try assumption.
    + apply (nodup_aset qname_eqb qname_eqb_eq). apply (nodup_adel qname_eqb). exact H5.
    + intros q'' x Hin. apply in_aset_inv in Hin. destruct Hin as [Hin|[Hin|[w [Hin [Hw He]]]]].
      * apply (in_adel_neq _ _ _ H5) in Hin. destruct Hin as [Hin Hnq]. cbn in Hnq.
        pose proof (H6 q'' x Hin) as Hx. rewrite nth_error_set_nth_other; [exact Hx|].
        intros <-. rewrite Hlo in Hx. inversion Hx. subst. apply Hnq. reflexivity.
      * inversion Hin. subst. apply nth_error_set_nth_same. exact Hlto.
      * cbn in Hw, He. subst x. apply qname_eqb_eq in He. subst q''. apply nth_error_set_nth_same. exact Hlto.
    + intros t Ht. pose proof (H8 t Ht) as Hvt. unfold view_ok in *. cbn [st_objs].
      destruct (Nat.eq_dec o t) as [<-|Hnt].
      * rewrite nth_error_set_nth_same by exact Hlto. rewrite Hq'. cbn [andb].
        unfold contains_q in *. change (skey _ q') with (skey s q'). cbn [st_store]. rewrite Hk. exact Hc.
      * rewrite nth_error_set_nth_other by exact Hnt. exact Hvt.
  - rewrite !abs_sys_eq. apply mkD_eq; try reflexivity.
    rewrite (absv_set_nth s F T i o (Live q') (wf_T s T W) Hi Hlto eq_refl eq_refl). cbn [abs_obj].
    apply set_nth_id. rewrite (absv_nth s T i o Hi), (obj_at_nth s o _ Hlo). cbn [abs_obj]. rewrite Hn. reflexivity.
Qed.

Lemma rename_main s T i o q q' v :
  Wf s T -> nth_error T i = Some o -> nth_error (st_objs s) o = Some (Live q) -> plainq q = true ->
  aget str_eqb (st_store s) (skey s q) = Some v -> plainq q' = true ->
  norm (st_dns s) q <> norm (st_dns s) q' -> NoStale s T q (Some o) ->
  exists F, set_new_key s o q' = (F, RNone) /\ Wf F T /\
    abs_sys (F, T) =
    mkD (ddel (dset (abs_store (st_dns s) (st_store s)) (norm (st_dns s) q') v) (norm (st_dns s) q))
        (set_nth (kill_views (norm (st_dns s) q) v (absv s T)) i (VLive (norm (st_dns s) q')))
        (st_dns s) (st_node_ns s).
Proof.
  intros W Hi Hl Hq Hv Hq' Hne Hns.
  assert (qname_eqb q q' = false) as Hqq.
  { destruct (qname_eqb q q') eqn:E; [|reflexivity]. apply qname_eqb_eq in E. subst. exfalso. apply Hne. reflexivity. }
  assert (q' <> q) as Hqn by (intros ->; rewrite qname_eqb_refl in Hqq; discriminate).
  assert (skey s q' <> skey s q) as Hk.
  { intros H. apply (skey_norm_iff s T q' q W Hq' Hq) in H. apply Hne. symmetry. exact H. }
  assert (str_eqb (skey s q) (skey s q') = false) as Hkb by (apply str_eqb_false; congruence).
  pose proof (nth_error_In _ _ Hi) as HoT.
  assert (o < length (st_objs s)) as Hlt by (apply nth_error_Some; rewrite Hl; discriminate).
  unfold set_new_key. rewrite Hl. cbn [oq]. rewrite Hqq, Hkb. unfold obj_value at 1. rewrite Hl, Hv.
  destruct (set_effect s T q' v W Hq') as [W1 Hab1].
  destruct (setitem_facts s q' v) as [Es [Ed [En [[e1 Eo] Ecq]]]].
  set (s1 := setitem_q s q' v) in *.
  assert (absv s1 T = absv s T) as Eav by (apply (absv_same s s1 T e1 W Ed Eo)).
  assert (abs_store (st_dns s1) (st_store s1) = dset (abs_store (st_dns s) (st_store s)) (norm (st_dns s) q') v) as Eas.
  { rewrite !abs_sys_eq in Hab1. apply (f_equal d_dict) in Hab1. exact Hab1. }
  assert (norm (st_dns s) q' <> norm (st_dns s) q) as Hne' by (intros H; apply Hne; symmetry; exact H).
  assert (aget str_eqb (st_store s1) (skey s1 q) = Some v) as Hv1.
  { rewrite <- (abs_get_s s1 T q W1 Hq), Eas, Ed. unfold dget, dset.
    rewrite (aget_aset_other qname_eqb qname_eqb_eq) by exact Hne'.
    fold (dget (abs_store (st_dns s) (st_store s)) (norm (st_dns s) q)). rewrite (abs_get_s s T q W Hq). exact Hv. }
  assert (contains_q s1 q' = true) as Hc1'.
  { unfold contains_q, ahas. rewrite <- (abs_get_s s1 T q' W1 Hq'), Eas, Ed. unfold dget, dset.
    rewrite (aget_aset_same qname_eqb qname_eqb_eq). reflexivity. }
  assert (contains_q s1 q = true) as Hc1 by (unfold contains_q, ahas; rewrite Hv1; reflexivity).
  destruct (delitem_eq s1 T q W1 Hq Hc1) as [s2 [c [v' [Hg [W2 [Hs2 [Hd2 [Hn2 [[e2 He2] [Hc2 [Hu2 [Hf2 [Hv2 Hdel]]]]]]]]]]]]].
  rewrite Hdel. rewrite Hv1 in Hv2. inversion Hv2. subst v'.
  eexists. split; [reflexivity|].
  assert (nth_error (st_objs s2) o = Some (Live q)) as Hl2.
  { rewrite He2, Eo, <- app_assoc, nth_error_app_l by exact Hlt. exact Hl. }
  assert (aget str_eqb (st_store s2) (skey s2 q) = Some v) as Hv2'.
  { rewrite (skey_same s1 s2 q Hd2 Hs2), Hs2. exact Hv1. }
  assert (contains_q s2 q' = true) as Hc2' by (rewrite (contains_same s1 s2 q' Hd2 Hs2); exact Hc1').
  assert (norm (st_dns s2) q <> norm (st_dns s2) q') as Hne2 by (rewrite Hd2, Ed; exact Hne).
  assert (forall t q'', In t T -> nth_error (st_objs s2) t = Some (Live q'') ->
                        norm (st_dns s2) q'' = norm (st_dns s2) q -> t = c \/ t = o) as Hst2.
  { intros t q'' Ht Et Hn. rewrite Hd2, Ed in Hn.
    assert (nth_error (st_objs s) t = Some (Live q'')) as Et0.
    { rewrite He2, Eo, <- app_assoc in Et. rewrite nth_error_app_l in Et; [exact Et|].
      apply view_ok_lt. apply (wf_views s T W t Ht). }
    destruct (Hns t q'' Ht Et0 Hn) as [H|H]; [right; inversion H; reflexivity|left].
    rewrite <- (Ecq q Hqn) in H. destruct (Hu2 t H) as [_ ->]. reflexivity. }
  destruct (move_good2 s2 T i o c q q' v W2 Hq Hq' Hi Hl2 Hc2 Hv2' Hc2' Hne2 Hst2) as [WF [Ha Hb]].
  unfold kill_state. cbn [st_store st_dns st_node_ns st_cache st_objs].
  split; [exact WF|]. rewrite abs_sys_eq. apply mkD_eq.
  - cbn [st_store st_dns] in Ha |- *. rewrite Ha, Hs2, Hd2, Eas, Ed. reflexivity.
  - rewrite Hb. rewrite (absv_same s1 s2 T e2 W1 Hd2 He2), Eav, Hd2, Ed. reflexivity.
  - cbn. rewrite Hd2, Ed. reflexivity.
  - cbn. rewrite Hn2, En. reflexivity.
Qed.

Lemma rename_good s T i o q' (fk : qname -> qname) :
  Wf s T -> nth_error T i = Some o ->
  (forall q, nth_error (st_objs s) o = Some (Live q) -> plainq q' = true /\ fk (norm (st_dns s) q) = norm (st_dns s) q') ->
  rename_safe s T o q' = true ->
  Good ((fst (set_new_key s o q'), T), snd (set_new_key s o q'))
       (fun _ => match abs_obj (st_dns s) (obj_at s o) with
                 | VLive k => d_rename (abs_sys (s, T)) i k (fk k)
                 | VDead _ => (abs_sys (s, T), RUnspec)
                 end).
Proof.
  intros W Hi Hfk Hsafe. unfold Good. cbn [fst snd].
  destruct (view_cases s T o W (nth_error_In _ _ Hi)) as [[q [v [Hl [Hp [Hc Hv]]]]]|[v [q Hd]]].
  - rewrite (obj_at_nth s o _ Hl). cbn [abs_obj]. destruct (Hfk q Hl) as [Hq' ->].
    unfold rename_safe in Hsafe. rewrite Hl in Hsafe. unfold d_rename.
    destruct (qname_eqb q q') eqn:E.
    + apply qname_eqb_eq in E. subst q'. unfold set_new_key. rewrite Hl. cbn [oq]. rewrite qname_eqb_refl.
      cbn [fst snd]. rewrite qname_eqb_refl. split; [exact W|]. eexists. split; [reflexivity|apply out_agrees_refl].
    + destruct (same_entry s q q') eqn:Hse.
      * (* another spelling of the same entry *)
        unfold same_entry in Hse. rewrite Hse. apply qname_eqb_eq in Hse.
        assert (skey s q = skey s q') as Hk by (apply (skey_norm_iff s T q q' W Hp Hq'); exact Hse).
        unfold set_new_key. rewrite Hl. cbn [oq]. rewrite E, Hk, str_eqb_refl. cbn [fst snd].
        destruct (rename_alias s T i o q q' W Hi Hl Hp Hq' Hc Hse) as [WF Hab].
        split; [exact WF|]. eexists. split; [|apply out_agrees_refl]. rewrite Hab. reflexivity.
      * unfold same_entry in Hse. rewrite Hse.
        assert (norm (st_dns s) q <> norm (st_dns s) q') as Hne.
        { intros H. rewrite H, qname_eqb_refl in Hse. discriminate. }
        destruct (rename_main s T i o q q' v W Hi Hl Hp Hv Hq' Hne (no_stale_prop _ _ _ _ Hsafe)) as [F [-> [WF Hab]]].
        cbn [fst snd]. split; [exact WF|].
        assert (dget (d_dict (abs_sys (s, T))) (norm (st_dns s) q) = Some v) as Hg.
        { rewrite abs_sys_eq. cbn [d_dict]. rewrite (abs_get_s s T q W Hp). exact Hv. }
        rewrite Hg. eexists. split; [|apply out_agrees_refl]. rewrite Hab. reflexivity.
  - rewrite (obj_at_nth s o _ Hd). cbn [abs_obj]. unfold set_new_key. rewrite Hd. cbn [oq].
    destruct (qname_eqb q q'); cbn [fst snd]; (split; [exact W|]); eexists; (split; [reflexivity|left; reflexivity]).
Qed.

(* answers that are never an object *)
Lemma obj_value_not_obj s o i : obj_value s o <> RObj i.
Proof.
  unfold obj_value. destruct (nth_error (st_objs s) o) as [[q|v q]|]; try discriminate.
  destruct (aget str_eqb (st_store s) (skey s q)); discriminate.
Qed.
Lemma delitem_not_obj s q i : snd (delitem_q s q) <> RObj i.
Proof.
  unfold delitem_q. destruct (contains_q s q); [|cbn; discriminate].
  destruct (getitem_q s q) as [s1 r]. destruct r; cbn; try discriminate.
  pose proof (obj_value_not_obj s1 o) as H.
  destruct (obj_value s1 o); cbn; try discriminate; try (exfalso; eapply H; reflexivity).
  destruct (nth_error (st_objs s1) o); cbn; discriminate.
Qed.
Lemma set_new_key_not_obj s o q' i : snd (set_new_key s o q') <> RObj i.
Proof.
  unfold set_new_key. destruct (nth_error (st_objs s) o) as [x|]; [|cbn; discriminate].
  destruct (qname_eqb (oq x) q'); [cbn; discriminate|]. destruct x as [q|v q]; [|cbn; discriminate].
  destruct (str_eqb (skey s q) (skey s q')); [cbn; discriminate|].
  pose proof (obj_value_not_obj s o) as H.
  destruct (obj_value s o) eqn:E; cbn; try discriminate; try (exfalso; eapply H; reflexivity).
  match goal with |- context [delitem_q ?a ?b] => pose proof (delitem_not_obj a b) as Hd; destruct (delitem_q a b) as [s3 r] end.
  cbn in Hd. destruct r; cbn; try discriminate. exact (Hd i).
Qed.
Lemma update_not_obj s l i : snd (update_l s l) <> RObj i.
Proof.
  revert s. induction l as [|[a v] r IH]; intros s; cbn; [discriminate|].
  destruct (resolve s a) as [q|e|e|]; cbn; try discriminate. apply IH.
Qed.
Lemma obj_set_value_not_obj s o v i : snd (obj_set_value s o v) <> RObj i.
Proof. unfold obj_set_value. destruct (nth_error (st_objs s) o) as [[q|v0 q]|]; cbn; discriminate. Qed.

Lemma finish_nonobj T p : (forall i, snd p <> RObj i) -> finish T p = ((fst p, T), snd p).
Proof. destruct p as [s r]. cbn. intros H. destruct r; try reflexivity. exfalso. exact (H o eq_refl). Qed.

Lemma sys_step_eq s T x :
  sys_step (s, T) x = match retarget T x with None => ((s, T), RUnspec) | Some x' => finish T (astep s x') end.
Proof. reflexivity. Qed.

Lemma ltb_nth {A} (T : list A) i : Nat.ltb i (length T) = true -> exists o, nth_error T i = Some o.
Proof.
  intros H. apply Nat.ltb_lt in H. destruct (nth_error T i) as [o|] eqn:E; [exists o; reflexivity|].
  apply nth_error_None in E. lia.
Qed.

(* ------------------------------------------------------------------------------------------ *)
(* every operation                                                                              *)
Theorem step_refines s T x :
  Wf s T -> step_safe (s, T) x = true -> Good (sys_step (s, T) x) (dict_step (abs_sys (s, T)) x).
Proof.
  intros W Hs. rewrite sys_step_eq.
  assert (forall a, acc_wf (st_node_ns s) a = true ->
            Good (finish T (with_q s a (getitem_q s))) (fun h => with_k (abs_sys (s, T)) a (fun k => d_get (abs_sys (s, T)) k h))) as Hget.
  { intros a Ha. destruct (acc_wf_some _ a Ha) as [q [Hq Hp]].
    rewrite (with_q_some s a q _ Hq). unfold Good. rewrite (with_k_some s T a q _ Hq). apply get_good; assumption. }
  assert (forall a v, acc_wf (st_node_ns s) a = true ->
            Good (finish T (with_q s a (fun q => (setitem_q s q v, RNone))))
                 (fun _ => with_k (abs_sys (s, T)) a (fun k => (with_dict (abs_sys (s, T)) (dset (d_dict (abs_sys (s, T))) k v), RNone)))) as Hset.
  { intros a v Ha. destruct (acc_wf_some _ a Ha) as [q [Hq Hp]].
    rewrite (with_q_some s a q _ Hq). unfold Good. rewrite (with_k_some s T a q _ Hq). cbn [finish].
    apply set_good; assumption. }
  assert (forall a, match acc_q (st_node_ns s) a with
                    | Some q => (plainq q && (negb (contains_q s q) || no_stale s T q None))%bool
                    | None => false end = true ->
            Good (finish T (with_q s a (delitem_q s))) (fun _ => with_k (abs_sys (s, T)) a (d_del (abs_sys (s, T))))) as Hdel.
  { intros a Ha. destruct (acc_q (st_node_ns s) a) as [q|] eqn:Hq; [|discriminate].
    apply andb_true_iff in Ha. destruct Ha as [Hp Hst].
    rewrite (with_q_some s a q _ Hq). unfold Good. rewrite (with_k_some s T a q _ Hq).
    rewrite finish_nonobj by (intros i; apply delitem_not_obj).
    apply del_good; [exact W|exact Hp|]. apply orb_true_iff in Hst. destruct Hst as [H|H].
    - left. apply negb_true_iff in H. exact H.
    - right. apply no_stale_prop. exact H. }
  assert (forall a, acc_wf (st_node_ns s) a = true ->
            Good (finish T (with_q s a (fun q => (s, RBool (contains_q s q)))))
                 (fun _ => with_k (abs_sys (s, T)) a (fun k => (abs_sys (s, T), RBool (dhas (d_dict (abs_sys (s, T))) k))))) as Hcon.
  { intros a Ha. destruct (acc_wf_some _ a Ha) as [q [Hq Hp]].
    rewrite (with_q_some s a q _ Hq). unfold Good. rewrite (with_k_some s T a q _ Hq). cbn [finish fst snd].
    split; [exact W|]. rewrite abs_sys_eq. cbn [d_dict]. rewrite (contains_abs s T q W Hp).
    eexists. split; [reflexivity|apply out_agrees_refl]. }
  destruct x; cbn [retarget astep dict_step step_safe] in *.
  - apply Hget. exact Hs.
  - apply Hset. exact Hs.
  - apply Hdel. exact Hs.
  - apply Hcon. exact Hs.
  - (* iter *) cbn [finish]. rewrite (iter_good s T W). cbn [finish]. unfold Good. cbn [fst snd].
    split; [exact W|]. eexists. split; [reflexivity|apply out_agrees_refl].
  - (* len *) cbn [finish]. unfold Good. cbn [fst snd]. split; [exact W|].
    eexists. split; [reflexivity|]. right. f_equal. apply abs_store_length.
  - (* pop *) destruct (acc_q (st_node_ns s) a) as [q|] eqn:Hq; [|discriminate].
    apply andb_true_iff in Hs. destruct Hs as [Hp Hst].
    rewrite (with_q_some s a q _ Hq). unfold Good. cbn [dict_step]. rewrite (with_k_some s T a q _ Hq).
    apply pop_good; [exact W|exact Hp|]. apply orb_true_iff in Hst. destruct Hst as [H|H].
    + left. apply negb_true_iff in H. exact H.
    + right. apply no_stale_prop. exact H.
  - (* update *) rewrite finish_nonobj by (intros i; apply update_not_obj). apply update_good; assumption.
  - apply Hget. exact Hs.
  - apply Hset. exact Hs.
  - apply Hdel. exact Hs.
  - apply Hcon. exact Hs.
  - (* value *) destruct (ltb_nth T o Hs) as [c Hc]. rewrite Hc. cbn [option_map astep].
    rewrite finish_nonobj by (intros i; apply obj_value_not_obj). cbn [fst snd].
    apply (value_good s T o c W Hc).
  - (* set value *) destruct (ltb_nth T o Hs) as [c Hc]. rewrite Hc. cbn [option_map astep].
    rewrite finish_nonobj by (intros i; apply obj_set_value_not_obj).
    apply (setvalue_good s T o c v W Hc).
  - (* local name *) destruct (nth_error T o) as [c|] eqn:Hc; [|discriminate]. cbn [option_map astep].
    apply andb_true_iff in Hs. destruct Hs as [Hn Hsafe].
    pose proof (wf_views s T W c (nth_error_In _ _ Hc)) as Hv. unfold view_ok in Hv.
    destruct (nth_error (st_objs s) c) as [x|] eqn:Hx; [|discriminate].
    rewrite (obj_at_nth s c x Hx) in Hsafe.
    rewrite finish_nonobj by (intros i; apply set_new_key_not_obj).
    assert (forall h, dict_step (abs_sys (s, T)) (OSetLocal o name) h =
                      match abs_obj (st_dns s) (obj_at s c) with
                      | VLive k => d_rename (abs_sys (s, T)) o k (fst k, name)
                      | VDead _ => (abs_sys (s, T), RUnspec)
                      end) as Hspec.
    { intros h. cbn [dict_step]. rewrite abs_sys_eq. cbn [d_views]. rewrite (absv_nth s T o c Hc).
      destruct (abs_obj (st_dns s) (obj_at s c)); reflexivity. }
    unfold Good. rewrite Hspec.
    apply (rename_good s T o c (fst (oq x), name) (fun k => (fst k, name)) W Hc); [|exact Hsafe].
    intros q Hq. assert (x = Live q) as -> by (rewrite Hx in Hq; inversion Hq; reflexivity). cbn [oq]. apply andb_true_iff in Hv. destruct Hv as [Hp _].
    unfold plainq in *. cbn [fst snd]. apply andb_true_iff in Hp. destruct Hp as [Hp1 _]. rewrite Hp1, Hn.
    split; reflexivity.
  - (* namespace *) destruct (nth_error T o) as [c|] eqn:Hc; [|discriminate]. cbn [option_map astep].
    apply andb_true_iff in Hs. destruct Hs as [Hn Hsafe].
    pose proof (wf_views s T W c (nth_error_In _ _ Hc)) as Hv. unfold view_ok in Hv.
    destruct (nth_error (st_objs s) c) as [x|] eqn:Hx; [|discriminate].
    rewrite (obj_at_nth s c x Hx) in Hsafe.
    rewrite finish_nonobj by (intros i; apply set_new_key_not_obj).
    assert (forall h, dict_step (abs_sys (s, T)) (OSetNs o ns) h =
                      match abs_obj (st_dns s) (obj_at s c) with
                      | VLive k => d_rename (abs_sys (s, T)) o k (norm (st_dns s) (ns, snd k))
                      | VDead _ => (abs_sys (s, T), RUnspec)
                      end) as Hspec.
    { intros h. cbn [dict_step]. rewrite abs_sys_eq. cbn [d_views d_dns]. rewrite (absv_nth s T o c Hc).
      destruct (abs_obj (st_dns s) (obj_at s c)); reflexivity. }
    unfold Good. rewrite Hspec.
    apply (rename_good s T o c (ns, snd (oq x)) (fun k => norm (st_dns s) (ns, snd k)) W Hc); [|exact Hsafe].
    intros q Hq. assert (x = Live q) as -> by (rewrite Hx in Hq; inversion Hq; reflexivity). cbn [oq]. apply andb_true_iff in Hv. destruct Hv as [Hp _].
    unfold plainq in *. cbn [fst snd]. apply andb_true_iff in Hp. destruct Hp as [_ Hp2]. rewrite Hp2, Hn.
    split; reflexivity.
Qed.

(* ------------------------------------------------------------------------------------------ *)
(* every sequence of operations                                                                 *)
Theorem run_refines l : forall y,
  Wf (fst y) (snd y) -> run_safe y l = true ->
  Wf (fst (fst (sys_run y l))) (snd (fst (sys_run y l))) /\
  exists souts, dict_run (abs_sys y) l (snd (sys_run y l)) = (abs_sys (fst (sys_run y l)), souts) /\
                Forall2 out_agrees souts (snd (sys_run y l)).
Proof.
  induction l as [|x r IH]; intros [s T] W Hs.
  - cbn. split; [exact W|]. exists []. split; [reflexivity|constructor].
  - cbn [run_safe] in Hs. apply andb_true_iff in Hs. destruct Hs as [Hx Hr].
    pose proof (step_refines s T x W Hx) as G. unfold Good in G.
    cbn [sys_run]. destruct (sys_step (s, T) x) as [y1 o] eqn:E1. cbn [fst snd] in G, Hr.
    destruct G as [W1 [r' [Hd Ha]]].
    specialize (IH y1 W1 Hr). destruct (sys_run y1 r) as [y2 os] eqn:E2. cbn [fst snd] in IH |- *.
    destruct IH as [W2 [souts [Hrun Hall]]]. split; [exact W2|].
    cbn [dict_run]. rewrite Hd, Hrun. exists (r' :: souts). split; [reflexivity|constructor; assumption].
Qed.

(* the three ways of naming an attribute *)
Lemma accessors_same s ns name :
  plain ns = true ->
  resolve s (AStr (LBRACE :: ns ++ RBRACE :: name)) = Ok (ns, name) /\
  resolve s (APair (Some ns) name) = Ok (ns, name) /\
  (plain name = true ->
   resolve s (AStr name) = Ok (st_node_ns s, name) /\ resolve s (APair None name) = Ok (st_node_ns s, name)).
Proof.
  intros Hns. split; [|split].
  - cbn [resolve]. rewrite decon_spec, (spec_clark_braced ns name Hns). reflexivity.
  - reflexivity.
  - intros Hn. split; [|reflexivity]. cbn [resolve]. rewrite decon_spec, (spec_clark_plain name Hn). reflexivity.
Qed.

Lemma astep_resolve s a1 a2 :
  resolve s a1 = resolve s a2 ->
  astep s (OGet a1) = astep s (OGet a2) /\ (forall v, astep s (OSet a1 v) = astep s (OSet a2 v)) /\
  astep s (ODel a1) = astep s (ODel a2) /\ astep s (OContains a1) = astep s (OContains a2) /\
  astep s (OPop a1) = astep s (OPop a2) /\
  astep s (ONodeGet a1) = astep s (ONodeGet a2) /\ (forall v, astep s (ONodeSet a1 v) = astep s (ONodeSet a2 v)) /\
  astep s (ONodeDel a1) = astep s (ONodeDel a2) /\ astep s (ONodeContains a1) = astep s (ONodeContains a2).
Proof. intros H. cbn [astep]. unfold with_q. rewrite H. repeat split. Qed.

(* "no namespace" and the default namespace in scope reach the same store entry *)
Lemma alias_same_entry dns st name :
  plain dns = true -> SWf dns st -> plain name = true -> etree_key dns st ([], name) = etree_key dns st (dns, name).
Proof.
  intros Hd Hs Hn. apply (key_norm_iff dns st Hd Hs).
  - unfold plainq. cbn [fst snd]. exact Hn.
  - unfold plainq. cbn [fst snd]. rewrite Hd, Hn. reflexivity.
  - unfold norm. cbn [fst snd null]. destruct (null dns); reflexivity.
Qed.

(* ------------------------------------------------------------------------------------------ *)
(* the statements in terms of the decidable well-formedness                                     *)
Definition step_ok (y : sys) (x : op) : Prop :=
  sys_wf (fst (sys_step y x)) = true /\
  exists r', dict_step (abs_sys y) x (hint_of (snd (sys_step y x))) = (abs_sys (fst (sys_step y x)), r') /\
             out_agrees r' (snd (sys_step y x)).

Theorem refines_all y x : sys_wf y = true -> step_safe y x = true -> step_ok y x.
Proof.
  intros W Hs. apply sys_wf_iff in W. destruct y as [s T]. cbn [fst snd] in W.
  destruct (step_refines s T x W Hs) as [W' H]. split; [|exact H]. apply sys_wf_iff. exact W'.
Qed.

Definition run_ok (y : sys) (l : list op) : Prop :=
  sys_wf (fst (sys_run y l)) = true /\
  exists souts, dict_run (abs_sys y) l (snd (sys_run y l)) = (abs_sys (fst (sys_run y l)), souts) /\
                Forall2 out_agrees souts (snd (sys_run y l)).

Theorem refines_run_all y l : sys_wf y = true -> run_safe y l = true -> run_ok y l.
Proof.
  intros W Hs. apply sys_wf_iff in W. destruct (run_refines l y W Hs) as [W' H].
  split; [|exact H]. apply sys_wf_iff. exact W'.
Qed.

(* a run on which the implementation's answers (as modelled) contradict the dictionary *)
Definition run_disagrees (y : sys) (l : list op) : Prop :=
  exists i a b, nth_error (snd (dict_run (abs_sys y) l (snd (sys_run y l)))) i = Some a /\
                nth_error (snd (sys_run y l)) i = Some b /\ a <> RUnspec /\ a <> b.

Lemma disagrees_not_ok y l : run_disagrees y l -> ~ run_ok y l.
Proof.
  intros [i [a [b [Ha [Hb [Hu Hab]]]]]] [_ [souts [Hrun Hall]]]. rewrite Hrun in Ha. cbn [snd] in Ha.
  clear Hrun. revert i Ha Hb. induction Hall as [|x z xs zs Hxz Hall IH]; intros [|i] Ha Hb; cbn in *; try discriminate.
  - inversion Ha. inversion Hb. subst. destruct Hxz as [H|H]; contradiction.
  - exact (IH i Ha Hb).
Qed.

(* ------------------------------------------------------------------------------------------ *)
(* equality of two attribute collections                                                        *)

Definition eq_chk (d2 : dict) (kv : qname * str) : bool :=
  match dget d2 (fst kv) with Some v => str_eqb (snd kv) v | None => false end.

Lemma eq_items_spec s1 s2 l :
  plain (st_dns s1) = true -> plain (st_dns s2) = true ->
  SWf (st_dns s1) (st_store s1) -> SWf (st_dns s2) (st_store s2) ->
  (forall k v, In (k, v) l -> aget str_eqb (st_store s1) k = Some v /\ In k (map fst (st_store s1))) ->
  eq_items s1 s2 (map fst l) = RBool (forallb (eq_chk (abs_store (st_dns s2) (st_store s2))) (abs_store (st_dns s1) l)).
Proof.
  intros Hp1 Hp2 Hs1 Hs2. induction l as [|[k v] r IH]; intros Hl; [reflexivity|].
  destruct (Hl k v (or_introl eq_refl)) as [Hv Hin].
  assert (forall k' v', In (k', v') r -> aget str_eqb (st_store s1) k' = Some v' /\ In k' (map fst (st_store s1))) as Hr
    by (intros k' v' Hi; apply Hl; right; exact Hi).
  cbn [map fst eq_items abs_store forallb snd]. unfold eq_item, eq_chk at 1. cbn [fst snd].
  unfold skey at 1. rewrite (key_of_present _ _ Hp1 Hs1 k Hin), Hv.
  destruct (existsb (qname_eqb (present (st_dns s1) k)) (map (present (st_dns s2)) (map fst (st_store s2)))) eqn:Ex.
  - apply existsb_exists in Ex. destruct Ex as [K2 [Hin2 He]]. apply qname_eqb_eq in He. subst K2.
    apply in_map_iff in Hin2. destruct Hin2 as [k2 [Hpk Hin2]].
    unfold skey. rewrite <- Hpk. rewrite (key_of_present _ _ Hp2 Hs2 k2 Hin2).
    rewrite (dget_present _ _ Hp2 Hs2 k2 Hin2).
    destruct (aget str_eqb (st_store s2) k2) as [v2|]; [|reflexivity].
    destruct (str_eqb v v2); [|reflexivity]. cbn [andb]. apply IH. exact Hr.
  - assert (dget (abs_store (st_dns s2) (st_store s2)) (present (st_dns s1) k) = None) as Hn.
    { apply (aget_none_notin qname_eqb qname_eqb_eq). rewrite abs_store_keys. intros Hi.
      assert (existsb (qname_eqb (present (st_dns s1) k)) (map (present (st_dns s2)) (map fst (st_store s2))) = true) as Ht.
      { apply existsb_exists. exists (present (st_dns s1) k). split; [exact Hi|apply qname_eqb_refl]. }
      rewrite Ht in Ex. discriminate. }
    rewrite Hn. reflexivity.
Qed.

Lemma attrs_eq_spec s1 s2 :
  Wf s1 [] -> Wf s2 [] ->
  attrs_eq s1 s2 = RBool (dict_eqb (abs_store (st_dns s1) (st_store s1)) (abs_store (st_dns s2) (st_store s2))).
Proof.
  intros W1 W2. unfold attrs_eq, dict_eqb. rewrite !abs_store_length.
  destruct (Nat.eqb (length (st_store s1)) (length (st_store s2))); [|reflexivity]. cbn [andb].
  assert (forall s, Wf s [] -> forallb decon_ok (map fst (st_store s)) = true) as H.
  { intros s W. apply forallb_forall. intros k Hk. destruct (wf_st s [] W) as [Hf _]. rewrite Forall_forall in Hf.
    apply shape_decon. exact (Hf k Hk). }
  rewrite (H s1 W1), (H s2 W2). cbn [andb].
  apply eq_items_spec; [apply (wf_dns s1 [] W1)|apply (wf_dns s2 [] W2)|apply (wf_st s1 [] W1)|apply (wf_st s2 [] W2)|].
  intros k v Hin. split.
  - apply (in_aget_nodup str_eqb str_eqb_eq _ _ _ (wf_nodup s1 [] W1) Hin).
  - apply (in_map fst) in Hin. exact Hin.
Qed.

Lemma dict_eqb_iff d1 d2 :
  NoDup (map fst d1) -> NoDup (map fst d2) -> (dict_eqb d1 d2 = true <-> dict_equiv d1 d2).
Proof.
  intros N1 N2. unfold dict_eqb, dict_equiv. rewrite andb_true_iff, forallb_forall, Nat.eqb_eq. split.
  - intros [Hlen Hall] k.
    assert (forall k v, In (k, v) d1 -> dget d2 k = Some v) as Hin.
    { intros k' v' Hi. specialize (Hall (k', v') Hi). cbn in Hall. destruct (dget d2 k') as [w|]; [|discriminate].
      apply str_eqb_eq in Hall. subst. reflexivity. }
    destruct (dget d1 k) as [v|] eqn:E1.
    + symmetry. apply Hin. apply (aget_some_in qname_eqb qname_eqb_eq). exact E1.
    + destruct (dget d2 k) as [w|] eqn:E2; [|reflexivity]. exfalso.
      apply (aget_none_notin qname_eqb qname_eqb_eq) in E1. apply E1.
      assert (incl (map fst d1) (map fst d2)) as Hincl.
      { intros k' Hk'. apply in_map_iff in Hk'. destruct Hk' as [[k'' v'] [<- Hi]]. cbn.
        apply (ahas_in qname_eqb qname_eqb_eq). unfold ahas. fold (dget d2 k''). rewrite (Hin k'' v' Hi). reflexivity. }
      assert (length (map fst d2) <= length (map fst d1)) as Hl by (rewrite !map_length; lia).
      apply (NoDup_length_incl N1 Hl Hincl k).
      apply (aget_some_in qname_eqb qname_eqb_eq) in E2. apply (in_map fst) in E2. exact E2.
  - intros Heq. split.
    + assert (incl (map fst d1) (map fst d2)) as I12.
      { intros k Hk. apply (ahas_in qname_eqb qname_eqb_eq). apply (ahas_in qname_eqb qname_eqb_eq) in Hk.
        unfold ahas in *. fold (dget d2 k). fold (dget d1 k) in Hk. rewrite <- Heq. exact Hk. }
      assert (incl (map fst d2) (map fst d1)) as I21.
      { intros k Hk. apply (ahas_in qname_eqb qname_eqb_eq). apply (ahas_in qname_eqb qname_eqb_eq) in Hk.
        unfold ahas in *. fold (dget d1 k). fold (dget d2 k) in Hk. rewrite Heq. exact Hk. }
      pose proof (NoDup_incl_length N1 I12) as L1. pose proof (NoDup_incl_length N2 I21) as L2.
      rewrite !map_length in L1, L2. lia.
    + intros [k v] Hi. cbn. rewrite <- Heq. unfold dget.
      rewrite (in_aget_nodup qname_eqb qname_eqb_eq _ _ _ N1 Hi). apply str_eqb_refl.
Qed.

Lemma abs_nodup s T : Wf s T -> NoDup (map fst (abs_store (st_dns s) (st_store s))).
Proof. intros W. apply abs_nodup_st; [apply (wf_dns s T W)|apply (wf_st s T W)]. Qed.

Theorem attrs_eq_dict s1 s2 :
  sys_wf (s1, []) = true -> sys_wf (s2, []) = true ->
  exists b, attrs_eq s1 s2 = RBool b /\
            (b = true <-> dict_equiv (abs_store (st_dns s1) (st_store s1)) (abs_store (st_dns s2) (st_store s2))).
Proof.
  intros W1 W2. apply sys_wf_iff in W1, W2. cbn [fst snd] in W1, W2.
  eexists. split; [apply (attrs_eq_spec s1 s2 W1 W2)|].
  apply dict_eqb_iff; [apply (abs_nodup s1 [] W1)|apply (abs_nodup s2 [] W2)].
Qed.

(* ------------------------------------------------------------------------------------------ *)
(* what the specification says about views (the model inherits it on guarded runs by run_refines) *)
Lemma spec_view_reads_node d i k v h :
  nth_error (d_views d) i = Some (VLive k) ->
  snd (dict_step (with_dict d (dset (d_dict d) k v)) (OValue i) h) = RStr v.
Proof.
  intros H. cbn [dict_step with_dict d_views d_dict]. rewrite H. cbn [snd]. unfold dget, dset.
  rewrite (aget_aset_same qname_eqb qname_eqb_eq). reflexivity.
Qed.

Lemma spec_view_writes_node d i k v h :
  nth_error (d_views d) i = Some (VLive k) ->
  dict_step d (OSetValue i v) h = (with_dict d (dset (d_dict d) k v), RNone).
Proof. intros H. cbn [dict_step]. rewrite H. reflexivity. Qed.

Lemma spec_view_removed d i k v :
  nth_error (d_views d) i = Some (VLive k) -> dget (d_dict d) k = Some v -> NoDup (map fst (d_dict d)) ->
  let d' := fst (d_del d k) in
  dget (d_dict d') k = None /\ nth_error (d_views d') i = Some (VDead v) /\
  (forall h, snd (dict_step d' (OValue i) h) = RStr v) /\
  (forall h w, snd (dict_step (fst (dict_step d' (OSetValue i w) h)) (OValue i) h) = RStr w).
Proof.
  intros Hi Hv ND. unfold d_del. rewrite Hv. cbn [fst d_dict d_views].
  assert (nth_error (kill_views k v (d_views d)) i = Some (VDead v)) as Hk.
  { rewrite kill_views_map, nth_error_map, Hi. cbn. rewrite qname_eqb_refl. reflexivity. }
  split; [apply (aget_adel_same qname_eqb qname_eqb_eq); exact ND|]. split; [exact Hk|]. split.
  - intros h. cbn [dict_step d_views]. rewrite Hk. reflexivity.
  - intros h w. cbn [dict_step d_views]. rewrite Hk. cbn [fst with_views d_views].
    assert (i < length (kill_views k v (d_views d))) as Hlt by (apply nth_error_Some; rewrite Hk; discriminate).
    rewrite (nth_error_set_nth_same _ i (VDead w) Hlt). reflexivity.
Qed.

Lemma spec_view_renamed d i k k' v :
  nth_error (d_views d) i = Some (VLive k) -> dget (d_dict d) k = Some v -> NoDup (map fst (d_dict d)) ->
  k <> k' ->
  let d' := fst (d_rename d i k k') in
  dget (d_dict d') k' = Some v /\ dget (d_dict d') k = None /\ nth_error (d_views d') i = Some (VLive k') /\
  (forall h, snd (dict_step d' (OValue i) h) = RStr v).
Proof.
  intros Hi Hv ND Hne. unfold d_rename.
  assert (qname_eqb k k' = false) as E by (apply (eqb_neq qname_eqb qname_eqb_eq); exact Hne).
  rewrite E, Hv. cbn [fst d_dict d_views].
  assert (i < length (kill_views k v (d_views d))) as Hlt.
  { rewrite kill_views_map, map_length. apply nth_error_Some. rewrite Hi. discriminate. }
  assert (dget (ddel (dset (d_dict d) k' v) k) k' = Some v) as Hg.
  { unfold dget, ddel, dset. rewrite (aget_adel_other qname_eqb qname_eqb_eq) by exact Hne.
    apply (aget_aset_same qname_eqb qname_eqb_eq). }
  split; [exact Hg|]. split.
  - unfold dget, ddel, dset. apply (aget_adel_same qname_eqb qname_eqb_eq).
    apply (nodup_aset qname_eqb qname_eqb_eq). exact ND.
  - split; [apply nth_error_set_nth_same; exact Hlt|].
    intros h. cbn [dict_step d_views d_dict]. rewrite (nth_error_set_nth_same _ i (VLive k') Hlt).
    cbn [snd]. rewrite Hg. reflexivity.
Qed.

Lemma abs_views_length y : length (d_views (abs_sys y)) = length (snd y).
Proof. destruct y as [s T]. cbn. apply map_length. Qed.

Lemma abs_nodup_sys y : sys_wf y = true -> NoDup (map fst (d_dict (abs_sys y))).
Proof. intros W. apply sys_wf_iff in W. destruct y as [s T]. cbn [fst snd] in W. apply (abs_nodup s T W). Qed.

(* the model: an object obtained earlier keeps its last value once its entry is removed (inside the guard) *)
Theorem view_keeps_value y a i k v :
  sys_wf y = true -> step_safe y (ODel a) = true -> acc_key (abs_sys y) a = Some k ->
  nth_error (d_views (abs_sys y)) i = Some (VLive k) -> dget (d_dict (abs_sys y)) k = Some v ->
  snd (sys_run y [ODel a; OValue i]) = [RNone; RStr v].
Proof.
  intros W Hs Hk Hi Hv.
  destruct (refines_all y (ODel a) W Hs) as [W1 [r1 [H1 A1]]].
  cbn [sys_run]. destruct (sys_step y (ODel a)) as [y1 o1] eqn:E1. cbn [fst snd] in *.
  cbn [dict_step] in H1. unfold with_k in H1. rewrite Hk in H1.
  destruct (spec_view_removed (abs_sys y) i k v Hi Hv (abs_nodup_sys y W)) as [_ [Hd [Hval _]]].
  assert (r1 = RNone /\ abs_sys y1 = fst (d_del (abs_sys y) k)) as [-> Hab].
  { unfold d_del in *. rewrite Hv in *. inversion H1. split; reflexivity. }
  assert (o1 = RNone) as -> by (destruct A1 as [A|A]; [discriminate|symmetry; exact A]).
  assert (step_safe y1 (OValue i) = true) as Hs2.
  { destruct y1 as [s1 T1]. cbn [step_safe]. apply Nat.ltb_lt.
    pose proof (abs_views_length (s1, T1)) as HL. cbn [snd] in HL. rewrite <- HL, Hab.
    apply nth_error_Some. rewrite Hd. discriminate. }
  destruct (refines_all y1 (OValue i) W1 Hs2) as [_ [r2 [H2 A2]]].
  destruct (sys_step y1 (OValue i)) as [y2 o2] eqn:E2. cbn [fst snd] in *.
  rewrite Hab in H2. specialize (Hval (hint_of o2)). rewrite H2 in Hval. cbn [snd] in Hval. subst r2.
  destruct A2 as [A|A]; [discriminate|]. rewrite <- A. reflexivity.
Qed.

(* ------------------------------------------------------------------------------------------ *)
(* the hand-written key function is the one generated from TagAttributes._etree_key              *)
Lemma py_in_keys_ahas (st : list (str * str)) k : py_in_keys k st = ahas str_eqb st k.
Proof.
  unfold py_in_keys, ahas. induction st as [|[a w] r IH]; cbn; [reflexivity|].
  destruct (str_eqb a k); [reflexivity|exact IH].
Qed.
Lemma etree_key_generated dns st q :
  etree_key dns st q = etree_key_gen (Some dns) st q /\
  (null dns = true -> etree_key dns st q = etree_key_gen None st q).
Proof.
  destruct q as [ns n]. unfold etree_key, etree_key_gen, clark. cbn [fst snd].
  rewrite !py_in_keys_ahas. unfold py_bool_str, py_bool_optstr, py_str_optstr, optstr_eqb, py_bool_str.
  change ([123%N] ++ ns ++ [125%N] ++ n) with (LBRACE :: ns ++ RBRACE :: n).
  change ([123%N] ++ dns ++ [125%N] ++ n) with (LBRACE :: dns ++ RBRACE :: n).
  split.
  - destruct (null ns); cbn [negb andb]; [|reflexivity]. reflexivity.
  - intros Hd. destruct dns; [|discriminate]. cbn [null negb andb].
    destruct (null ns) eqn:En; cbn [negb andb orb]; [reflexivity|].
    destruct ns; [discriminate|]. reflexivity.
Qed.

(* ------------------------------------------------------------------------------------------ *)
(* views at the level of the model: one guarded step whose specification answer is known        *)
Lemma step_via_spec y x d1 r1 :
  sys_wf y = true -> step_safe y x = true -> (forall h, dict_step (abs_sys y) x h = (d1, r1)) -> r1 <> RUnspec ->
  sys_wf (fst (sys_step y x)) = true /\ abs_sys (fst (sys_step y x)) = d1 /\ snd (sys_step y x) = r1.
Proof.
  intros W Hs Hspec Hr. destruct (refines_all y x W Hs) as [W1 [r' [H A]]]. rewrite Hspec in H. inversion H. subst.
  split; [exact W1|]. split; [reflexivity|]. destruct A as [A|A]; [contradiction|symmetry; exact A].
Qed.

Lemma value_safe y i w : nth_error (d_views (abs_sys y)) i = Some w -> step_safe y (OValue i) = true.
Proof.
  intros H. destruct y as [s T]. cbn [step_safe]. apply Nat.ltb_lt.
  pose proof (abs_views_length (s, T)) as HL. cbn [snd] in HL. rewrite <- HL. apply nth_error_Some. rewrite H. discriminate.
Qed.

(* a held object whose entry is renamed through it (local_name or namespace assignment `x`, which the
   specification reads as the move k -> k') views the moved entry *)
Theorem view_renamed y x i k k' v :
  sys_wf y = true -> step_safe y x = true ->
  (forall h, dict_step (abs_sys y) x h = d_rename (abs_sys y) i k k') ->
  nth_error (d_views (abs_sys y)) i = Some (VLive k) -> dget (d_dict (abs_sys y)) k = Some v -> k <> k' ->
  let y1 := fst (sys_step y x) in
  snd (sys_step y x) = RNone /\
  dget (d_dict (abs_sys y1)) k' = Some v /\ dget (d_dict (abs_sys y1)) k = None /\
  nth_error (d_views (abs_sys y1)) i = Some (VLive k') /\
  snd (sys_step y1 (OValue i)) = RStr v.
Proof.
  intros W Hs Hspec Hi Hv Hne y1.
  destruct (spec_view_renamed (abs_sys y) i k k' v Hi Hv (abs_nodup_sys y W) Hne) as [H1 [H2 [H3 H4]]].
  assert (snd (d_rename (abs_sys y) i k k') = RNone) as Hr.
  { unfold d_rename. rewrite (eqb_neq qname_eqb qname_eqb_eq k k' Hne), Hv. reflexivity. }
  destruct (step_via_spec y x (fst (d_rename (abs_sys y) i k k')) RNone W Hs) as [W1 [Hab Ho]].
  { intros h. rewrite Hspec, <- Hr. apply surjective_pairing. }
  { discriminate. }
  fold y1 in W1, Hab. split; [exact Ho|]. rewrite Hab. split; [exact H1|]. split; [exact H2|]. split; [exact H3|].
  assert (step_safe y1 (OValue i) = true) as Hs2 by (apply (value_safe y1 i (VLive k')); rewrite Hab; exact H3).
  destruct (step_via_spec y1 (OValue i) (abs_sys y1) (RStr v) W1 Hs2) as [_ [_ Ho2]]; [| discriminate | exact Ho2].
  intros h. rewrite Hab. specialize (H4 h). rewrite <- H4.
  cbn [dict_step]. rewrite H3. reflexivity.
Qed.

(* a value written through the mapping shows in the held object, and a value written through the object shows in the node *)
Theorem view_reads_write y a i k v' :
  sys_wf y = true -> step_safe y (OSet a v') = true -> acc_key (abs_sys y) a = Some k ->
  nth_error (d_views (abs_sys y)) i = Some (VLive k) ->
  snd (sys_run y [OSet a v'; OValue i]) = [RNone; RStr v'].
Proof.
  intros W Hs Hk Hi.
  destruct (step_via_spec y (OSet a v') (with_dict (abs_sys y) (dset (d_dict (abs_sys y)) k v')) RNone W Hs) as [W1 [Hab Ho]].
  { intros h. cbn [dict_step]. unfold with_k. rewrite Hk. reflexivity. }
  { discriminate. }
  cbn [sys_run]. destruct (sys_step y (OSet a v')) as [y1 o1] eqn:E1. cbn [fst snd] in *. subst o1.
  assert (nth_error (d_views (abs_sys y1)) i = Some (VLive k)) as Hi1 by (rewrite Hab; exact Hi).
  destruct (step_via_spec y1 (OValue i) (abs_sys y1) (RStr v') W1 (value_safe y1 i _ Hi1)) as [_ [_ Ho2]]; [|discriminate|].
  { intros h. pose proof (spec_view_reads_node (abs_sys y) i k v' h Hi) as Hsp. rewrite <- Hab in Hsp.
    rewrite <- Hsp. cbn [dict_step]. rewrite Hi1. reflexivity. }
  destruct (sys_step y1 (OValue i)) as [y2 o2]. cbn [snd] in *. subst o2. reflexivity.
Qed.

Theorem view_write_shows y i k v' :
  sys_wf y = true -> nth_error (d_views (abs_sys y)) i = Some (VLive k) ->
  let y1 := fst (sys_step y (OSetValue i v')) in
  snd (sys_step y (OSetValue i v')) = RNone /\ dget (d_dict (abs_sys y1)) k = Some v' /\
  snd (sys_step y1 (OValue i)) = RStr v'.
Proof.
  intros W Hi y1.
  assert (step_safe y (OSetValue i v') = true) as Hs.
  { pose proof (value_safe y i _ Hi) as H. destruct y as [s T]. exact H. }
  destruct (step_via_spec y (OSetValue i v') (with_dict (abs_sys y) (dset (d_dict (abs_sys y)) k v')) RNone W Hs) as [W1 [Hab Ho]].
  { intros h. apply (spec_view_writes_node (abs_sys y) i k v' h Hi). }
  { discriminate. }
  fold y1 in W1, Hab. split; [exact Ho|]. rewrite Hab. split.
  { cbn [d_dict with_dict]. unfold dget, dset. apply (aget_aset_same qname_eqb qname_eqb_eq). }
  assert (nth_error (d_views (abs_sys y1)) i = Some (VLive k)) as Hi1 by (rewrite Hab; exact Hi).
  destruct (step_via_spec y1 (OValue i) (abs_sys y1) (RStr v') W1 (value_safe y1 i _ Hi1)) as [_ [_ Ho2]]; [|discriminate|exact Ho2].
  intros h. pose proof (spec_view_reads_node (abs_sys y) i k v' h Hi) as Hsp. rewrite <- Hab in Hsp.
  rewrite <- Hsp. cbn [dict_step]. rewrite Hi1. reflexivity.
Qed.

Theorem view_renamed_local y i k v n :
  sys_wf y = true -> step_safe y (OSetLocal i n) = true ->
  nth_error (d_views (abs_sys y)) i = Some (VLive k) -> dget (d_dict (abs_sys y)) k = Some v -> k <> (fst k, n) ->
  let y1 := fst (sys_step y (OSetLocal i n)) in
  snd (sys_step y (OSetLocal i n)) = RNone /\
  dget (d_dict (abs_sys y1)) (fst k, n) = Some v /\ dget (d_dict (abs_sys y1)) k = None /\
  nth_error (d_views (abs_sys y1)) i = Some (VLive (fst k, n)) /\
  snd (sys_step y1 (OValue i)) = RStr v.
Proof.
  intros W Hs Hi Hv Hne. apply (view_renamed y (OSetLocal i n) i k (fst k, n) v); try assumption.
  intros h. cbn [dict_step]. rewrite Hi. reflexivity.
Qed.

Theorem view_renamed_ns y i k v ns :
  sys_wf y = true -> step_safe y (OSetNs i ns) = true ->
  nth_error (d_views (abs_sys y)) i = Some (VLive k) -> dget (d_dict (abs_sys y)) k = Some v ->
  k <> norm (d_dns (abs_sys y)) (ns, snd k) ->
  let k' := norm (d_dns (abs_sys y)) (ns, snd k) in
  let y1 := fst (sys_step y (OSetNs i ns)) in
  snd (sys_step y (OSetNs i ns)) = RNone /\
  dget (d_dict (abs_sys y1)) k' = Some v /\ dget (d_dict (abs_sys y1)) k = None /\
  nth_error (d_views (abs_sys y1)) i = Some (VLive k') /\
  snd (sys_step y1 (OValue i)) = RStr v.
Proof.
  intros W Hs Hi Hv Hne. apply (view_renamed y (OSetNs i ns) i k (norm (d_dns (abs_sys y)) (ns, snd k)) v); try assumption.
  intros h. cbn [dict_step]. rewrite Hi. reflexivity.
Qed.
