(* C02 for ALL well-formed trees, empty and adjacent text nodes included.
   The token stream the lexer produces for the serialization of any tree is described structurally
   (toksN: adjacent text nodes accumulate into one text token, an empty accumulation gives no token, an
   element is spelled <q></q> exactly when it has children, even if they are all empty text nodes), and the
   three steps of the round trip are re-proved for it; what the descent builds from it is merge_tree. *)
From Coq Require Import Lia.
From Delb.Base Require Import PyStr PyStrFacts PyDict PyDictFacts.
From Delb.Gen Require Import GenNames GenNs.
From Delb.Tree Require Import ATree Merge MergeFacts.
From Delb.Ns Require Import Namespaces NamespacesFacts Prefixes PrefixFacts.
From Delb.Xml Require Import Plain PlainFacts Reader Tokens RoundTrip NsResolve MergeTrip.

Definition flush (acc : str) : list token := match acc with [] => [] | _ => [TText acc] end.
Fixpoint toksN_node (pm : pmap) (n : node) : list token :=
  match n with
  | Text s => flush s
  | Comment s => [TComment s]
  | PI t c => [TPI t c]
  | Tag ns name attrs kids =>
      let q := qname pm ns name in
      if null kids then [TStart q (tok_attrs pm attrs) true]
      else TStart q (tok_attrs pm attrs) false
           :: (fix go (acc : str) (l : list node) : list token :=
                 match l with
                 | [] => flush acc
                 | k :: r => match k with
                             | Text s => go (acc ++ s) r
                             | _ => flush acc ++ toksN_node pm k ++ go [] r
                             end
                 end) [] kids ++ [TEnd q]
  end.
Fixpoint toksN_kids (pm : pmap) (acc : str) (l : list node) : list token :=
  match l with
  | [] => flush acc
  | k :: r => match k with
              | Text s => toksN_kids pm (acc ++ s) r
              | _ => flush acc ++ toksN_node pm k ++ toksN_kids pm [] r
              end
  end.
Definition toksN_root (pm : pmap) (t : node) : list token :=
  match t with
  | Tag ns name attrs kids =>
      let q := qname pm ns name in
      if null kids then [TStart q (root_tok_attrs pm attrs) true]
      else TStart q (root_tok_attrs pm attrs) false :: toksN_kids pm [] kids ++ [TEnd q]
  | _ => toksN_node pm t
  end.
(* what the descent builds from toksN_kids acc l: the merged children, `acc` being text met before them *)
Definition resN (acc : str) (l : list node) : list node := drop_empty (M (Text acc :: l)).
Definition flushN (acc : str) : list node := match acc with [] => [] | _ => [Text acc] end.

Lemma toksN_kids_fix pm : forall l acc,
  (fix go (acc : str) (l : list node) : list token :=
     match l with
     | [] => flush acc
     | k :: r => match k with
                 | Text s => go (acc ++ s) r
                 | _ => flush acc ++ toksN_node pm k ++ go [] r
                 end
     end) acc l = toksN_kids pm acc l.
Proof. induction l as [|k r IH]; intros acc; [reflexivity|]. destruct k; cbn [toksN_kids]; rewrite IH; reflexivity. Qed.
Lemma toksN_node_tag pm ns name attrs kids :
  toksN_node pm (Tag ns name attrs kids) =
  if null kids then [TStart (qname pm ns name) (tok_attrs pm attrs) true]
  else TStart (qname pm ns name) (tok_attrs pm attrs) false :: toksN_kids pm [] kids ++ [TEnd (qname pm ns name)].
Proof. cbn [toksN_node]. rewrite toksN_kids_fix. reflexivity. Qed.
Lemma toksN_kids_nontext pm acc k r : is_text k = false ->
  toksN_kids pm acc (k :: r) = flush acc ++ toksN_node pm k ++ toksN_kids pm [] r.
Proof. destruct k; try discriminate; reflexivity. Qed.

(* ---- the merged children, step by step ------------------------------------------------------------------- *)
Lemma M_text_text a b r : M (Text a :: Text b :: r) = M (Text (a ++ b) :: r).
Proof.
  rewrite (M_cons_text a (Text b :: r)), (M_cons_text b r), (M_cons_text (a ++ b) r).
  destruct (M r) as [|y r']; [reflexivity|]. destruct y; try reflexivity. rewrite app_assoc. reflexivity.
Qed.
Lemma resN_nil acc : resN acc [] = flushN acc.
Proof. destruct acc; reflexivity. Qed.
Lemma resN_text acc s r : resN acc (Text s :: r) = resN (acc ++ s) r.
Proof. unfold resN. rewrite M_text_text. reflexivity. Qed.
Lemma resN_empty r : resN [] r = drop_empty (M r).
Proof.
  unfold resN. rewrite M_cons_text. destruct (M r) as [|y r']; [reflexivity|]. destruct y; reflexivity.
Qed.
Lemma resN_nontext acc k r : is_text k = false -> resN acc (k :: r) = flushN acc ++ merge_tree k :: resN [] r.
Proof.
  intros Hk. unfold resN at 1. rewrite M_cons_text, (M_cons_nontext k r Hk).
  assert (Hm : is_text (merge_tree k) = false) by (rewrite merge_is_text; exact Hk).
  rewrite resN_empty.
  destruct (merge_tree k) as [ns name attrs kids|s|s|t c] eqn:Em; try discriminate;
    (destruct acc; reflexivity).
Qed.

(* ---- the descent ---------------------------------------------------------------------------------------------- *)
Lemma read_kids_tail f e rest : tail_ok rest -> read_kids (S f) e rest = Some ([], rest).
Proof. intros [->|[q [r ->]]]; reflexivity. Qed.

Theorem read_kids_toksN e pm : forall fuel ks acc rest,
  all_resolve e pm ks -> tail_ok rest -> length (toksN_kids pm acc ks) < fuel ->
  read_kids fuel e (toksN_kids pm acc ks ++ rest) = Some (resN acc ks, rest).
Proof.
  induction fuel as [|f IH]; intros ks acc rest HR HT HF; [lia|].
  revert acc HF. induction ks as [|k r IHr]; intros acc HF.
  - cbn [toksN_kids] in *. rewrite resN_nil. destruct acc as [|c acc']; cbn [flush flushN app] in *.
    + apply read_kids_tail. exact HT.
    + cbn [read_kids]. destruct f as [|f']; [cbn in HF; lia|]. rewrite (read_kids_tail f' e rest HT). reflexivity.
  - inversion HR as [|? ? Hk Hr]; subst. specialize (IHr Hr).
    destruct (is_text k) eqn:Ek.
    + destruct k as [|s| |]; try discriminate. cbn [toksN_kids] in *. rewrite resN_text. apply IHr. exact HF.
    + rewrite (resN_nontext acc k r Ek).
      destruct acc as [|c acc'].
      * (* no pending text: the node itself *)
        rewrite (toksN_kids_nontext pm [] k r Ek) in *. cbn [flush flushN app] in *. rewrite app_length in HF.
        rewrite <- app_assoc.
        destruct k as [ns name attrs kids|s|s|t c]; try discriminate.
        -- cbn [resolves] in Hk. destruct Hk as [HO HK]. apply resolves_fix in HK.
           rewrite toksN_node_tag in *. rewrite (resN_empty kids) || idtac.
           destruct kids as [|k0 kids'].
           ++ cbn [null app length] in *. cbn [read_kids]. rewrite HO. rewrite IH by (try assumption; lia). reflexivity.
           ++ cbn [null] in *. cbv iota in *. set (kids := k0 :: kids') in *. set (q := qname pm ns name) in *.
              cbn [length] in HF. rewrite app_length in HF. cbn [length] in HF.
              cbn [app]. rewrite <- app_assoc. cbn [app]. cbn [read_kids]. rewrite HO.
              rewrite (IH kids [] (TEnd q :: toksN_kids pm [] r ++ rest)) by
                (try assumption; try (right; eexists _, _; reflexivity); lia).
              rewrite str_eqb_refl. rewrite IH by (try assumption; lia).
              cbn [cons_kid merge_tree]. rewrite resN_empty. reflexivity.
        -- cbn [toksN_node app length] in *. cbn [read_kids]. rewrite IH by (try assumption; lia). reflexivity.
        -- cbn [toksN_node app length] in *. cbn [read_kids]. rewrite IH by (try assumption; lia). reflexivity.
      * (* pending text first, then the same at one unit of fuel less *)
        rewrite (toksN_kids_nontext pm (c :: acc') k r Ek) in *. cbn [flush flushN app length] in *.
        cbn [read_kids].
        pose proof (IH (k :: r) [] rest HR HT) as IHk. rewrite (toksN_kids_nontext pm [] k r Ek) in IHk.
        cbn [flush app] in IHk. rewrite IHk by lia. rewrite (resN_nontext [] k r Ek). reflexivity.
Qed.

(* ---- the serializer's output is the spelling of toksN ------------------------------------------------------- *)
Lemma render_flush acc : render_toks (flush acc) = escape_text acc.
Proof. destruct acc; [reflexivity|]. cbn [flush render_toks flat_map render_tok]. rewrite app_nil_r. reflexivity. Qed.

Lemma render_kids_toksN e pm ks :
  Forall (fun k => resolves e pm k -> render_node pm k = render_toks (toksN_node pm k)) ks ->
  all_resolve e pm ks ->
  forall acc, escape_text acc ++ render_kids pm ks = render_toks (toksN_kids pm acc ks).
Proof.
  induction 1 as [|k r Hk _ IH]; intros HR acc.
  - cbn [render_kids flat_map toksN_kids]. rewrite app_nil_r, render_flush. reflexivity.
  - inversion HR as [|? ? Rk Rr]; subst. specialize (IH Rr).
    destruct (is_text k) eqn:Ek.
    + destruct k as [|s| |]; try discriminate. cbn [toksN_kids render_kids flat_map render_node].
      fold (render_kids pm r). rewrite <- IH. rewrite escape_text_app, <- app_assoc. reflexivity.
    + rewrite (toksN_kids_nontext pm acc k r Ek). rewrite !render_toks_app, render_flush.
      cbn [render_kids flat_map]. fold (render_kids pm r). rewrite (Hk Rk). rewrite <- (IH []). reflexivity.
Qed.

Lemma render_node_toksN e pm n : resolves e pm n -> render_node pm n = render_toks (toksN_node pm n).
Proof.
  induction n as [ns name attrs kids IHk|s|s|t c] using node_ind'; intros HR.
  - cbn [resolves] in HR. destruct HR as [HO HK]. apply resolves_fix in HK.
    rewrite toksN_node_tag. cbn [render_node]. rewrite render_kids_fix.
    apply serialize_tag_toks.
    + apply gad_eq. eapply open_element_nodup. exact HO.
    + rewrite <- (render_kids_toksN e pm kids IHk HK []). reflexivity.
  - cbn [render_node toksN_node]. rewrite render_flush. reflexivity.
  - cbn [render_node toksN_node render_toks flat_map render_tok]. rewrite app_nil_r. unfold COMMENT_OPEN. reflexivity.
  - cbn [render_node toksN_node render_toks flat_map render_tok]. rewrite app_nil_r. unfold PI_OPEN, PI_CLOSE.
    cbn [app]. repeat rewrite <- app_assoc. reflexivity.
Qed.
Lemma render_root_toksN e0 pm ns name attrs kids x :
  open_element initial_env (qname pm ns name) (root_tok_attrs pm attrs) = Some x ->
  all_resolve e0 pm kids ->
  render_root pm (Tag ns name attrs kids) = render_toks (toksN_root pm (Tag ns name attrs kids)).
Proof.
  intros HO HK. cbn [render_root toksN_root]. apply serialize_tag_toks.
  - apply root_data_eq. eapply open_element_nodup. exact HO.
  - rewrite <- (render_kids_toksN e0 pm kids) with (acc := []); [reflexivity | | exact HK].
    apply Forall_forall. intros k _. apply render_node_toksN.
Qed.

(* ---- toksN of a well-formed tree is a well-formed token stream (no cleanliness needed) ----------------------- *)
Section ToksN.
  Variable pm : pmap.
  Hypothesis PF : pm_facts pm.
  Hypothesis URI : forall n, In n (dict_keys pm) -> uri_ok n.

  Definition nodeN_ok (n : node) : Prop :=
    Forall tok_ok (toksN_node pm n) /\ no_adj_ttext (toksN_node pm n)
    /\ starts_ttext (toksN_node pm n) = false /\ exists l x, toksN_node pm n = l ++ [x] /\ is_ttext x = false.

  Lemma flush_ok acc : Forall text_char_ok acc -> Forall tok_ok (flush acc).
  Proof. intros H. destruct acc as [|c a]; [constructor|]. constructor; [split; [discriminate | exact H] | constructor]. Qed.

  Lemma kidsN_ok ks :
    Forall (fun k => is_text k = false -> nodeN_ok k) ks ->
    Forall (fun k => match k with Text s => Forall text_char_ok s | _ => True end) ks ->
    forall acc, Forall text_char_ok acc ->
    Forall tok_ok (toksN_kids pm acc ks) /\ no_adj_ttext (toksN_kids pm acc ks).
  Proof.
    induction ks as [|k r IH]; intros HN HT acc HA.
    - cbn [toksN_kids]. split; [apply flush_ok; exact HA | destruct acc; exact I].
    - inversion HN as [|? ? Nk Nr]; subst. inversion HT as [|? ? Tk Tr]; subst. specialize (IH Nr Tr).
      destruct (is_text k) eqn:Ek.
      + destruct k as [|s| |]; try discriminate. cbn [toksN_kids]. apply IH. apply Forall_app. split; assumption.
      + rewrite (toksN_kids_nontext pm acc k r Ek).
        destruct (Nk eq_refl) as [K1 [K2 [K3 [l [x [El Hx]]]]]].
        destruct (IH [] (Forall_nil _)) as [I1 I2].
        assert (MID : no_adj_ttext (toksN_node pm k ++ toksN_kids pm [] r)).
        { rewrite El in *. apply no_adj_app_end; assumption. }
        split.
        * apply Forall_app. split; [apply flush_ok; exact HA|]. apply Forall_app. split; assumption.
        * destruct acc as [|c a]; [exact MID|]. cbn [flush app]. apply no_adj_cons; [|exact MID].
          cbn [is_ttext andb]. destruct (toksN_node pm k) as [|y t'] eqn:Et; [destruct l; discriminate El|]. exact K3.
  Qed.

  Lemma tag_toks_okG q ta (kids : list node) (mid : list token) :
    is_name q = true -> Forall (fun kv : str * str => is_name (fst kv) = true /\ Forall attr_char_ok (snd kv)) ta ->
    Forall tok_ok mid -> no_adj_ttext mid ->
    let toks := if null kids then [TStart q ta true] else TStart q ta false :: mid ++ [TEnd q] in
    Forall tok_ok toks /\ no_adj_ttext toks
    /\ starts_ttext toks = false /\ exists l x, toks = l ++ [x] /\ is_ttext x = false.
  Proof.
    intros Hq Ha HT HA. destruct kids as [|k0 r]; cbn [null]; cbv zeta iota.
    - split; [constructor; [split; assumption | constructor]|]. split; [exact I|]. split; [reflexivity|].
      exists [], (TStart q ta true). split; reflexivity.
    - split; [|split; [|split]].
      + constructor; [split; assumption|]. apply Forall_app. split; [exact HT|]. constructor; [exact Hq | constructor].
      + apply no_adj_cons; [reflexivity|]. apply no_adj_snoc; [exact HA | reflexivity].
      + reflexivity.
      + exists (TStart q ta false :: mid), (TEnd q). split; reflexivity.
  Qed.

  Lemma kidsN_premises kids :
    Forall wf_node kids ->
    Forall (fun k => wf_node k -> (forall x, In x (tree_nss k) -> In x (dict_keys pm)) -> is_text k = false -> nodeN_ok k) kids ->
    (forall k x, In k kids -> In x (tree_nss k) -> In x (dict_keys pm)) ->
    Forall (fun k => is_text k = false -> nodeN_ok k) kids
    /\ Forall (fun k => match k with Text s => Forall text_char_ok s | _ => True end) kids.
  Proof.
    intros HW HI HK. split; apply Forall_forall; intros k Hk; rewrite Forall_forall in HW, HI.
    - intros Ht. apply (HI k Hk (HW k Hk)); [|exact Ht]. intros x Hx. exact (HK k x Hk Hx).
    - destruct k as [| s | |]; try exact I. exact (HW _ Hk).
  Qed.

  Theorem wf_nodeN_ok n : wf_node n -> (forall x, In x (tree_nss n) -> In x (dict_keys pm)) ->
    is_text n = false -> nodeN_ok n.
  Proof.
    induction n as [ns name attrs kids IHk|s|s|tg c] using node_ind'; intros HW HK HT; try discriminate.
    - cbn [wf_node] in HW. destruct HW as [H1 [H2 [H3 [H4 [H5 [H6 H7]]]]]]. apply wf_fix in H7. apply attrs_wf0 in H4.
      destruct (kidsN_premises kids H7 IHk) as [P1 P2].
      { intros k x Hk Hx. apply HK. apply tree_nss_tag. right. right. exists k. split; assumption. }
      destruct (kidsN_ok kids P1 P2 [] (Forall_nil _)) as [K1 K2].
      assert (Hq : is_name (qname pm ns name) = true).
      { apply (qname_is_name pm PF); [apply HK; apply tree_nss_tag; left; reflexivity | exact H1]. }
      assert (Ha := tok_attrs_ok pm PF attrs H4 (attrs_in_of pm ns name attrs kids HK) H5).
      unfold nodeN_ok. rewrite toksN_node_tag. exact (tag_toks_okG _ _ kids _ Hq Ha K1 K2).
    - cbn [wf_node] in HW. unfold nodeN_ok. cbn [toksN_node]. split; [constructor; [split; [apply comment_validator_ok; exact (proj1 HW) | exact (proj2 HW)] | constructor]|].
      split; [exact I|]. split; [reflexivity|]. exists [], (TComment s). split; reflexivity.
    - cbn [wf_node] in HW. destruct HW as [H1 [H2 [H3 [H4 H5]]]]. apply pi_validator_ok in H4. unfold nodeN_ok. cbn [toksN_node].
      assert (Hn : is_name tg = true) by (unfold is_ncname in H1; apply andb_prop in H1; destruct H1; assumption).
      split; [constructor; [repeat split; assumption | constructor]|].
      split; [exact I|]. split; [reflexivity|]. exists [], (TPI tg c). split; reflexivity.
  Qed.

  Theorem wf_rootN_ok ns name attrs kids :
    let t := Tag ns name attrs kids in
    wf_node t -> (forall x, In x (tree_nss t) -> In x (dict_keys pm)) ->
    Forall tok_ok (toksN_root pm t) /\ no_adj_ttext (toksN_root pm t).
  Proof.
    intros t HW HK. unfold t in *. cbn [wf_node] in HW. destruct HW as [H1 [H2 [H3 [H4 [H5 [H6 H7]]]]]]. apply wf_fix in H7. apply attrs_wf0 in H4.
    assert (IHk : Forall (fun k => wf_node k -> (forall x, In x (tree_nss k) -> In x (dict_keys pm)) ->
                                   is_text k = false -> nodeN_ok k) kids).
    { apply Forall_forall. intros k _. apply wf_nodeN_ok. }
    destruct (kidsN_premises kids H7 IHk) as [P1 P2].
    { intros k x Hk Hx. apply HK. apply tree_nss_tag. right. right. exists k. split; assumption. }
    destruct (kidsN_ok kids P1 P2 [] (Forall_nil _)) as [K1 K2].
    assert (Hq : is_name (qname pm ns name) = true).
    { apply (qname_is_name pm PF); [apply HK; apply tree_nss_tag; left; reflexivity | exact H1]. }
    assert (Ha : Forall (fun kv : str * str => is_name (fst kv) = true /\ Forall attr_char_ok (snd kv)) (root_tok_attrs pm attrs)).
    { unfold root_tok_attrs. apply Forall_app. split; [apply (decl_attrs_ok pm PF URI)|].
      exact (tok_attrs_ok pm PF attrs H4 (attrs_in_of pm ns name attrs kids HK) H5). }
    destruct (tag_toks_okG _ _ kids _ Hq Ha K1 K2) as [T1 [T2 _]]. cbn [toksN_root]. split; assumption.
  Qed.
End ToksN.

(* ---- from the root's token stream to merge_tree ----------------------------------------------------------------- *)
Theorem parse_render_rootN pm e0 ns name attrs kids :
  let t := Tag ns name attrs kids in
  open_element initial_env (qname pm ns name) (root_tok_attrs pm attrs) = Some (e0, ns, name, attrs) ->
  all_resolve e0 pm kids ->
  Forall tok_ok (toksN_root pm t) -> no_adj_ttext (toksN_root pm t) ->
  parse (render_toks (toksN_root pm t)) = Some (merge_tree t).
Proof.
  intros t HO HK HT HA. unfold parse.
  rewrite lex_render; [|exact HT|exact HA|pose proof (render_toks_length _ HT); lia].
  unfold t in *. cbn [toksN_root] in *. cbv zeta in *. set (q := qname pm ns name) in *.
  destruct kids as [|k0 kids'].
  - cbn [null length]. cbn [read_kids].
    revert HO. match goal with |- context [open_element ?a ?b ?c] => destruct (open_element a b c) as [[[[e1 ns1] l1] ras1]|] end; intros HO; [|discriminate HO]. injection HO as -> -> -> ->. reflexivity.
  - cbn [null] in *. cbv iota in *. set (kids := k0 :: kids') in *.
    assert (HL : length (TStart q (root_tok_attrs pm attrs) false :: toksN_kids pm [] kids ++ [TEnd q])
                 = S (S (length (toksN_kids pm [] kids)))) by (cbn [length]; rewrite app_length; cbn [length]; lia).
    remember (length (TStart q (root_tok_attrs pm attrs) false :: toksN_kids pm [] kids ++ [TEnd q])) as f eqn:Ef.
    cbn [read_kids].
    revert HO. match goal with |- context [open_element ?a ?b ?c] => destruct (open_element a b c) as [[[[e1 ns1] l1] ras1]|] end; intros HO; [|discriminate HO]. injection HO as -> -> -> ->.
    rewrite (read_kids_toksN e0 pm f kids [] [TEnd q]); [|exact HK|right; eexists _, _; reflexivity|lia].
    rewrite str_eqb_refl. destruct f as [|f']; [lia|]. cbn [read_kids cons_kid pick_root filter is_tag forallb is_misc orb andb option_map].
    rewrite resN_empty. change (Tag ns name attrs (drop_empty (M kids))) with (merge_tree (Tag ns name attrs kids)).
    rewrite (merge_id _ (merge_clean (Tag ns name attrs kids))). reflexivity.
Qed.

(* ---- C02, all well-formed trees ------------------------------------------------------------------------------- *)
Theorem roundtrip_all t caller ord :
  wf_tree t -> valid_caller caller -> caller_prefixes_ncname caller ->
  order_ok (bfs_of t) ord -> (N.of_nat (n_namespaces t + length caller + 17) < 2 ^ 16)%N ->
  reparse (serialize caller ord t) = Some (merge_tree t).
Proof.
  intros [HT HW] HV CN HO HB.
  destruct (collect_tree_clauses t caller ord HT HV HO HB) as [data [pm [EN [EC [HI CL]]]]].
  pose proof (pm_facts_of_collect caller data pm (tree_nss t) (normalize_ok _ _ EN) CN HI CL) as PF.
  unfold serialize. rewrite EC. cbn [bind reparse].
  destruct t as [ns name attrs kids| | |]; try discriminate.
  assert (COV : forall x, In x (tree_nss (Tag ns name attrs kids)) -> In x (dict_keys pm)).
  { intros x Hx. destruct (c_covers _ _ _ CL x Hx) as [p Hp]. apply dict_get_In in Hp. eapply In_keys. exact Hp. }
  assert (URI : forall n, In n (dict_keys pm) -> uri_ok n).
  { intros n Hn. apply (wf_nss _ HW). destruct (collect_keys _ _ _ _ EC n Hn) as [->|Hn'].
    - apply root_ns_in_tree_nss. reflexivity.
    - apply (order_ok_same_set _ _ HO). exact Hn'. }
  pose proof HW as HW0. cbn [wf_node] in HW. destruct HW as [H1 [H2 [H3 [H4 [H5 [H6 H7]]]]]]. apply wf_fix in H7. apply attrs_wf0 in H4.
  set (E0 := decl_env (declared_attributes pm) ++ initial_env).
  assert (OR : open_element initial_env (qname pm ns name) (root_tok_attrs pm attrs) = Some (E0, ns, name, attrs)).
  { apply (open_root pm PF); try assumption.
    - apply COV. apply tree_nss_tag. left. reflexivity.
    - eapply attrs_in_of. exact COV. }
  assert (KR : all_resolve E0 pm kids).
  { unfold all_resolve. apply Forall_forall. intros k Hk. rewrite Forall_forall in H7. apply (wf_resolves pm PF k (H7 k Hk)).
    intros x Hx. apply COV. apply tree_nss_tag. right. right. exists k. split; assumption. }
  rewrite (render_root_toksN E0 pm ns name attrs kids _ OR KR).
  destruct (wf_rootN_ok pm PF URI ns name attrs kids HW0 COV) as [TO TA].
  exact (parse_render_rootN pm E0 ns name attrs kids OR KR TO TA).
Qed.
