(* Facts about the plain serializer model (Xml/Plain.v). *)
From Coq Require Import Lia.
From Delb.Base Require Import PyStr PyStrFacts PyDict PyDictFacts.
From Delb.Gen Require Import GenNames GenNs.
From Delb.Tree Require Import ATree.
From Delb.Ns Require Import Namespaces NamespacesFacts Prefixes PrefixFacts.
From Delb.Xml Require Import Plain.

Lemma insert_attr_In x y l : In x (insert_attr y l) <-> x = y \/ In x l.
Proof.
  induction l as [|z r IH]; cbn; [intuition|]. destruct (akey_ltb z y); cbn; [rewrite IH|]; intuition.
Qed.
Lemma sort_attrs_In x l : In x (sort_attrs l) <-> In x l.
Proof. induction l as [|y r IH]; cbn; [reflexivity|]. rewrite insert_attr_In, IH. intuition. Qed.

Definition attr_qname (pm : pmap) (a : attr) : str := qname pm (fst (fst a)) (snd (fst a)).
Lemma gad_fold_keys pm l : forall acc k,
  In k (dict_keys (fold_left (fun d (a : attr) => let '(ns, local, v) := a in
                                dict_set (qname pm ns local) (quote (escape_attr v)) d) l acc)) ->
  In k (dict_keys acc) \/ In k (map (attr_qname pm) l).
Proof.
  induction l as [|[[ns local] v] r IH]; cbn [fold_left map]; intros acc k H; [left; exact H|].
  apply IH in H. destruct H as [H|H]; [|right; right; exact H].
  apply dict_set_keys_inv in H. destruct H as [->|H]; [right; left; reflexivity | left; exact H].
Qed.
Lemma generated_keys pm attrs k :
  In k (dict_keys (generate_attributes_data pm attrs)) -> exists a, In a attrs /\ k = attr_qname pm a.
Proof.
  unfold generate_attributes_data. intros H. apply gad_fold_keys in H. destruct H as [[]|H].
  apply in_map_iff in H. destruct H as [a [<- Ha]]. exists a. split; [apply sort_attrs_In; exact Ha | reflexivity].
Qed.

(* names as the API admits them: colon-free local names other than "xmlns", no attribute in the xmlns namespace *)
Definition attr_name_ok (a : attr) : Prop :=
  colon_free (snd (fst a)) /\ snd (fst a) <> XMLNS_ /\ fst (fst a) <> xmlns_ns.

(* what is written for the attributes of any element (root or not) out of its own attributes never is a
   namespace declaration; declarations come from `declared_attributes` alone, which only serialize_root uses *)
Theorem own_attributes_never_declare caller data (pm : pmap) nss attrs :
  normalized caller data -> caller_prefixes_colon_free caller -> Inv data pm -> c13_clauses caller nss pm ->
  Forall attr_name_ok attrs ->
  forall k, In k (dict_keys (generate_attributes_data pm attrs)) -> is_decl_key k = false.
Proof.
  intros NZ CF HI HC HA k Hk. apply generated_keys in Hk. destruct Hk as [[[ns local] v] [Ha ->]].
  rewrite Forall_forall in HA. destruct (HA _ Ha) as [H1 [H2 H3]]. cbn in *.
  unfold attr_qname. cbn. eapply qname_not_decl; eassumption.
Qed.
