(* The serializer's output seen as a token stream, and the well-formedness conditions of the round trip
   (C02).  Definitions only. *)
From Delb.Base Require Import PyStr PyDict.
From Delb.Gen Require Import GenNames GenNs GenValidators GenNsValidators.
From Delb.Tree Require Import ATree Merge.
From Delb.Ns Require Import Namespaces Prefixes.
From Delb.Xml Require Import Plain Reader.

(* the canonical spelling of a token: one space before each attribute, double quotes, escaped values *)
Definition render_attr (kv : str * str) : str := SP :: fst kv ++ [EQ] ++ quote (escape_attr (snd kv)).
Definition render_tok (t : token) : str :=
  match t with
  | TStart n attrs e => [LT] ++ n ++ flat_map render_attr attrs ++ (if e then [SLASH; GT] else [GT])
  | TEnd n => [LT; SLASH] ++ n ++ [GT]
  | TText s => escape_text s
  | TComment s => COMMENT_OPEN ++ s ++ [DASH; DASH; GT]
  | TPI t c => PI_OPEN ++ t ++ [SP] ++ c ++ PI_CLOSE
  end.
Definition render_toks (l : list token) : str := flat_map render_tok l.

(* ---- characters ------------------------------------------------------------------------------------
   text: XML Chars except CR (the property's exclusion: no character references are produced);
   attribute values: additionally no TAB / LF (same exclusion) *)
Definition text_char_ok (c : char) : Prop := is_xml_char c = true /\ c <> CR.
Definition attr_char_ok (c : char) : Prop := is_xml_char c = true /\ c <> CR /\ c <> TAB /\ c <> LF.

(* no occurrence of the two-character sequence a b *)
Fixpoint no2 (a b : char) (s : str) : bool :=
  match s with [] => true | _ :: r => (negb (starts2 a b s) && no2 a b r)%bool end.
(* CommentNode content: no "--", not ending in "-" (what _validate_content enforces) *)
Definition comment_ok (s : str) : bool := no2 DASH DASH (s ++ [DASH]).
(* PI content: no "?>" *)
Definition pi_content_ok (s : str) : bool := no2 QM GT (s ++ [QM]).
Definition starts_ws (s : str) : bool := match s with c :: _ => is_xml_ws c | [] => false end.

Definition tok_ok (t : token) : Prop :=
  match t with
  | TStart n attrs _ => is_name n = true
                        /\ Forall (fun kv => is_name (fst kv) = true /\ Forall attr_char_ok (snd kv)) attrs
  | TEnd n => is_name n = true
  | TText s => s <> [] /\ Forall text_char_ok s
  | TComment s => comment_ok s = true /\ Forall text_char_ok s
  | TPI t c => is_name t = true /\ is_xml_target t = false /\ pi_content_ok c = true /\ starts_ws c = false
               /\ Forall text_char_ok c
  end.
Definition is_ttext (t : token) : bool := match t with TText _ => true | _ => false end.
Fixpoint no_adj_ttext (l : list token) : Prop :=
  match l with
  | a :: ((b :: _) as r) => (is_ttext a && is_ttext b)%bool = false /\ no_adj_ttext r
  | _ => True
  end.

(* ---- the token stream of a tree under a prefix table ---------------------------------------------------- *)
Definition tok_attrs (pm : pmap) (attrs : list attr) : list (str * str) :=
  map (fun a : attr => let '(ns, local, v) := a in (qname pm ns local, v)) (sort_attrs attrs).
Fixpoint toks_node (pm : pmap) (n : node) : list token :=
  match n with
  | Text s => [TText s]
  | Comment s => [TComment s]
  | PI t c => [TPI t c]
  | Tag ns name attrs kids =>
      let q := qname pm ns name in
      if null kids then [TStart q (tok_attrs pm attrs) true]
      else TStart q (tok_attrs pm attrs) false
           :: (fix go (l : list node) : list token :=
                 match l with [] => [] | k :: r => toks_node pm k ++ go r end) kids ++ [TEnd q]
  end.
Definition toks_kids (pm : pmap) (l : list node) : list token := flat_map (toks_node pm) l.

(* under environment e every element of the subtree opens without changing the environment and its names
   resolve to the expanded names of the tree (this is what the namespace stage has to establish from C13) *)
Fixpoint resolves (e : env) (pm : pmap) (n : node) : Prop :=
  match n with
  | Tag ns name attrs kids =>
      open_element e (qname pm ns name) (tok_attrs pm attrs) = Some (e, ns, name, attrs)
      /\ (fix all (l : list node) : Prop := match l with [] => True | k :: r => resolves e pm k /\ all r end) kids
  | _ => True
  end.
Definition all_resolve (e : env) (pm : pmap) (l : list node) : Prop := Forall (resolves e pm) l.
Definition tail_ok (rest : list token) : Prop := rest = [] \/ exists q r, rest = TEnd q :: r.

(* ---- the root: declarations first, then its own attributes ------------------------------------------------ *)
Definition root_tok_attrs (pm : pmap) (attrs : list attr) : list (str * str) :=
  declared_attributes pm ++ tok_attrs pm attrs.
Definition toks_root (pm : pmap) (t : node) : list token :=
  match t with
  | Tag ns name attrs kids =>
      let q := qname pm ns name in
      if null kids then [TStart q (root_tok_attrs pm attrs) true]
      else TStart q (root_tok_attrs pm attrs) false :: toks_kids pm kids ++ [TEnd q]
  | _ => toks_node pm t
  end.
Definition render_attr_data (kv : str * str) : str * str := (fst kv, quote (escape_attr (snd kv))).

(* ---- well-formed trees: what the API guarantees, the property's exclusions, the guards of the open findings
   - local names of elements and attributes and PI targets are NCNames (lxml validates them); no attribute is
     called "xmlns" or lives in the xmlns namespace (what the GENERATED validator TagAttributes._validate_name
     lets through); no element lives in the xmlns namespace (guard of the open finding
     element-in-xmlns-namespace);
   - namespace names and attribute values consist of XML Chars other than TAB, LF, CR (the property's
     exclusion: no character references are produced), text / comments / PI content of XML Chars other than CR;
   - attributes are listed in the order the serializer writes them (sorted by namespace and local name, as
     impl.extract presents them), each expanded name once;
   - comment content passes CommentNode._validate_content (the GENERATED validator comment_content_refused of
     Gen/GenValidators.v; RoundTrip.comment_validator_ok derives the reader-side condition comment_ok), PI content has no "?>" and passes the GENERATED
     validator ProcessingInstructionNode._validate_content (no leading XML white space), the target is not "xml". *)
Definition uri_ok (n : str) : Prop := Forall attr_char_ok n.
(* attribute names: what TagAttributes._validate_name lets through (GENERATED attribute_name_refused,
   Gen/GenNsValidators.v): not called xmlns, not in the xmlns namespace *)
Definition attr_wf (a : attr) : Prop :=
  let '(ns, l, v) := a in
  is_ncname l = true /\ attribute_name_refused ns l = false /\ uri_ok ns /\ Forall attr_char_ok v.
(* the same with the consequences of the validator spelled out (RoundTrip.attr_wf_wf0) *)
Definition attr_wf0 (a : attr) : Prop :=
  let '(ns, l, v) := a in
  is_ncname l = true /\ l <> XMLNS_ /\ ns <> xmlns_ns /\ uri_ok ns /\ Forall attr_char_ok v.
Fixpoint wf_node (n : node) : Prop :=
  match n with
  | Tag ns name attrs kids =>
      is_ncname name = true /\ ns <> xmlns_ns /\ uri_ok ns /\ Forall attr_wf attrs
      /\ sort_attrs attrs = attrs /\ nodup_keys attrs = true
      /\ (fix all (l : list node) : Prop := match l with [] => True | k :: r => wf_node k /\ all r end) kids
  | Text s => Forall text_char_ok s
  | Comment s => comment_content_refused s = false /\ Forall text_char_ok s
  | PI t c => is_ncname t = true /\ is_xml_target t = false /\ pi_content_ok c = true /\ pi_content_refused c = false
              /\ Forall text_char_ok c
  end.
Definition wf_tree (t : node) : Prop := is_tag t = true /\ wf_node t.

(* all namespaces of a tree, by structural recursion (the same set as tree_nss, which follows the
   breadth-first order) *)
Fixpoint all_nss (n : node) : list str :=
  match n with
  | Tag ns _ attrs kids =>
      ns :: map attr_ns attrs ++ (fix go (l : list node) : list str :=
                                    match l with [] => [] | k :: r => all_nss k ++ go r end) kids
  | _ => []
  end.
(* prefixes the caller supplies are NCNames (or empty for the default namespace); the code does not check it *)
Definition caller_prefixes_ncname (c : caller_map) : Prop :=
  forall p n, In (Some p, n) c -> p = [] \/ is_ncname p = true.
