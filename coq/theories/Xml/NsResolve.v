(* C02, namespace stage: the declarations written on the root, read back as an environment, resolve every name
   of the tree to its expanded name.  Lemmas. *)
From Coq Require Import Lia.
From Delb.Base Require Import PyStr PyStrFacts PyDict PyDictFacts.
From Delb.Gen Require Import GenNames GenNs.
From Delb.Tree Require Import ATree Merge MergeFacts.
From Delb.Ns Require Import Namespaces NamespacesFacts Prefixes PrefixFacts.
From Delb.Xml Require Import Plain PlainFacts Reader Tokens RoundTrip.

(* what the round trip needs to know about a prefix table (established from C13 in pm_facts_of_collect) *)
Record pm_facts (pm : pmap) : Prop := {
  pf_keys : NoDup (dict_keys pm);
  pf_values : NoDup (dict_values pm);
  pf_shape : forall n p, In (n, p) pm -> p = [] \/ exists q, p = q ++ [COLON] /\ is_ncname q = true;
  pf_empty : forall p, In ([], p) pm -> p = [];
  pf_xml : forall n p, In (n, p) pm ->
           (p = XML_ ++ [COLON] <-> n = xml_ns) /\ (p = XMLNS_ ++ [COLON] <-> n = xmlns_ns);
}.

(* ---- dict helpers ------------------------------------------------------------------------------------------ *)
Lemma dict_inverse_keys_NoDup (d : dict str) : NoDup (dict_keys (dict_inverse d)).
Proof.
  unfold dict_inverse. assert (H : forall acc : dict str, NoDup (dict_keys acc) ->
    NoDup (dict_keys (fold_left (fun acc kv => dict_set (snd kv) (fst kv) acc) d acc))).
  { induction d as [|kv r IH]; intros acc HA; [exact HA|]. cbn [fold_left]. apply IH. apply dict_set_NoDup_keys. exact HA. }
  apply H. constructor.
Qed.
Lemma dict_pop_In (d : dict str) k0 k v : In (k, v) (dict_pop k0 d) -> In (k, v) d.
Proof.
  induction d as [|[k' v'] r IH]; cbn [dict_pop]; [intros []|]. destruct (str_eqb k' k0).
  - intros H. right. exact H.
  - intros [H|H]; [left; exact H | right; apply IH; exact H].
Qed.
Lemma dict_pop_neq (d : dict str) k0 k v : NoDup (dict_keys d) -> In (k, v) (dict_pop k0 d) -> k <> k0.
Proof.
  induction d as [|[k' v'] r IH]; cbn [dict_pop]; [intros _ []|]. intros ND. inversion ND as [|? ? Hn ND']; subst.
  destruct (str_eqb k' k0) eqn:E.
  - apply str_eqb_eq in E. subst. intros H Ek. subst. apply Hn. eapply In_keys. exact H.
  - apply str_eqb_false in E. intros [H|H]; [injection H as <- <-; exact E | apply IH; assumption].
Qed.
Lemma dict_pop_keep (d : dict str) k0 k v : k <> k0 -> In (k, v) d -> In (k, v) (dict_pop k0 d).
Proof.
  intros Hk. induction d as [|[k' v'] r IH]; cbn [dict_pop]; [intros []|]. destruct (str_eqb k' k0) eqn:E.
  - apply str_eqb_eq in E. subst. intros [H|H]; [injection H as -> ->; contradiction | exact H].
  - intros [H|H]; [left; exact H | right; apply IH; exact H].
Qed.
Lemma dict_pop_keys_NoDup (d : dict str) k0 : NoDup (dict_keys d) -> NoDup (dict_keys (dict_pop k0 d)).
Proof.
  induction d as [|[k' v'] r IH]; cbn [dict_pop]; [auto|]. intros ND. inversion ND as [|? ? Hn ND']; subst.
  destruct (str_eqb k' k0); [exact ND'|]. cbn. constructor; [|apply IH; exact ND'].
  intros H. apply In_keys_ex in H. destruct H as [v H]. apply dict_pop_In in H. apply Hn. eapply In_keys. exact H.
Qed.
Lemma insert_str_In a x l : In a (insert_str x l) <-> a = x \/ In a l.
Proof.
  induction l as [|z r IH]; cbn [insert_str]; [cbn; intuition|].
  destruct (str_ltb z x); cbn [In]; [rewrite IH|]; intuition.
Qed.
Lemma insert_str_NoDup x l : NoDup l -> ~ In x l -> NoDup (insert_str x l).
Proof.
  induction l as [|y r IH]; cbn [insert_str]; intros ND Hn; [constructor; [exact Hn | constructor]|].
  inversion ND as [|? ? Hy ND']; subst. destruct (str_ltb y x).
  - constructor; [|apply IH; [exact ND' | intros H; apply Hn; right; exact H]].
    intros H. apply insert_str_In in H. destruct H as [->|H]; [apply Hn; left; reflexivity | exact (Hy H)].
  - constructor; [exact Hn | exact ND].
Qed.
Lemma py_sorted_str_NoDup l : NoDup l -> NoDup (py_sorted_str l).
Proof.
  induction 1 as [|x r Hn _ IH]; cbn [py_sorted_str fold_right]; [constructor|].
  apply insert_str_NoDup; [exact IH|]. intros H. apply Hn. apply (proj1 (py_sorted_str_In r x)). exact H.
Qed.
Lemma NoDup_map_inj_on {A B} (f : A -> B) l :
  (forall x y, In x l -> In y l -> f x = f y -> x = y) -> NoDup l -> NoDup (map f l).
Proof.
  intros Hf. induction 1 as [|x r Hn _ IH]; cbn [map]; [constructor|]. constructor.
  - intros H. apply in_map_iff in H. destruct H as [y [E Hy]]. apply Hn.
    rewrite (Hf x y); [exact Hy | left; reflexivity | right; exact Hy | symmetry; exact E].
  - apply IH. intros a b Ha Hb. apply Hf; right; assumption.
Qed.
Lemma removelast_snoc {A} (l : list A) x : removelast (l ++ [x]) = l.
Proof. apply removelast_last. Qed.

(* ---- what serialize_root declares, exactly ------------------------------------------------------------------ *)
Section Decl.
  Variable pm : pmap.
  Hypothesis PF : pm_facts pm.

  Lemma inv_pop_In p n : In (p, n) (dict_pop [] (dict_inverse pm)) -> In (n, p) pm /\ p <> [].
  Proof.
    intros H. split.
    - apply dict_inverse_In. eapply dict_pop_In. exact H.
    - eapply dict_pop_neq; [apply dict_inverse_keys_NoDup | exact H].
  Qed.
  Lemma inv_pop_get n p : In (n, p) pm -> p <> [] -> dict_get p (dict_pop [] (dict_inverse pm)) = Some n.
  Proof.
    intros Hin Hp. apply In_dict_get; [apply dict_pop_keys_NoDup; apply dict_inverse_keys_NoDup|].
    apply dict_pop_keep; [exact Hp|]. apply dict_get_In. apply dict_inverse_get; [apply (pf_values _ PF) | exact Hin].
  Qed.
  Lemma shaped n p : In (n, p) pm -> p <> [] -> exists q, p = q ++ [COLON] /\ is_ncname q = true /\ removelast p = q.
  Proof.
    intros Hin Hp. destruct (pf_shape _ PF _ _ Hin) as [->|[q [-> Hq]]]; [contradiction|].
    exists q. split; [reflexivity|]. split; [exact Hq | apply removelast_last].
  Qed.

  Definition decl_list : list str :=
    py_sorted_str (filter (fun p => negb (py_in_str (removelast p) global_prefixes))
                          (dict_keys (dict_pop [] (dict_inverse pm)))).
  Lemma decl_list_In p : In p decl_list <->
    (exists n, In (n, p) pm) /\ p <> [] /\ ~ In (removelast p) global_prefixes.
  Proof.
    unfold decl_list. rewrite py_sorted_str_In, filter_In. split.
    - intros [H1 H2]. apply In_keys_ex in H1. destruct H1 as [n H1]. destruct (inv_pop_In _ _ H1) as [H3 H4].
      split; [exists n; exact H3|]. split; [exact H4|]. apply py_in_str_nIn. destruct (py_in_str _ _); [discriminate | reflexivity].
    - intros [[n H1] [H2 H3]]. split.
      + pose proof (inv_pop_get _ _ H1 H2) as G. apply dict_get_In in G. eapply In_keys. exact G.
      + apply py_in_str_nIn in H3. rewrite H3. reflexivity.
  Qed.
  Lemma decl_list_NoDup : NoDup decl_list.
  Proof.
    unfold decl_list. apply py_sorted_str_NoDup. apply NoDup_filter. apply dict_pop_keys_NoDup. apply dict_inverse_keys_NoDup.
  Qed.

  Lemma declared_eq : declared_attributes pm =
    (match dict_get [] (dict_inverse pm) with Some n => if null n then [] else [(XMLNS_, n)] | None => [] end)
    ++ map (fun p => (XMLNS_ ++ [COLON] ++ removelast p,
                      match dict_get p (dict_pop [] (dict_inverse pm)) with Some n => n | None => [] end)) decl_list.
  Proof. reflexivity. Qed.

  Lemma decl_sound k v : In (k, v) (declared_attributes pm) ->
    (k = XMLNS_ /\ v <> [] /\ In (v, []) pm)
    \/ (exists q, k = XMLNS_ ++ [COLON] ++ q /\ In (v, q ++ [COLON]) pm /\ ~ In q global_prefixes /\ is_ncname q = true).
  Proof.
    rewrite declared_eq. intros H. apply in_app_or in H. destruct H as [H|H].
    - left. destruct (dict_get [] (dict_inverse pm)) as [n|] eqn:E; [|destruct H].
      destruct (null n) eqn:EN; [destruct H|]. destruct H as [H|[]]. injection H as <- <-.
      split; [reflexivity|]. split; [intros ->; discriminate | apply dict_inverse_get_inv; exact E].
    - right. apply in_map_iff in H. destruct H as [p [E Hp]]. injection E as <- <-.
      apply decl_list_In in Hp. destruct Hp as [[n Hn] [Hne Hg]].
      rewrite (inv_pop_get _ _ Hn Hne). destruct (shaped _ _ Hn Hne) as [q [-> [Hq Hr]]].
      rewrite Hr in *. exists q. repeat split; assumption.
  Qed.
  Lemma decl_complete_prefix n q : In (n, q ++ [COLON]) pm -> ~ In q global_prefixes ->
    In (XMLNS_ ++ [COLON] ++ q, n) (declared_attributes pm).
  Proof.
    intros Hin Hg. rewrite declared_eq. apply in_or_app. right. apply in_map_iff. exists (q ++ [COLON]).
    assert (Hne : q ++ [COLON] <> []) by (intros H; apply app_eq_nil in H; destruct H as [_ H]; discriminate).
    split.
    - rewrite removelast_last. rewrite (inv_pop_get _ _ Hin Hne). reflexivity.
    - apply decl_list_In. split; [exists n; exact Hin|]. split; [exact Hne|]. rewrite removelast_last. exact Hg.
  Qed.
  Lemma decl_complete_default n : In (n, []) pm -> n <> [] -> In (XMLNS_, n) (declared_attributes pm).
  Proof.
    intros Hin Hn. rewrite declared_eq. apply in_or_app. left.
    rewrite (dict_inverse_get pm [] n (pf_values _ PF) Hin). destruct n; [contradiction|]. left. reflexivity.
  Qed.
  Lemma decl_keys_NoDup : NoDup (map fst (declared_attributes pm)).
  Proof.
    rewrite declared_eq, map_app, map_map. cbn [fst].
    assert (N2 : NoDup (map (fun p => XMLNS_ ++ [COLON] ++ removelast p) decl_list)).
    { apply NoDup_map_inj_on; [|apply decl_list_NoDup]. intros x y Hx Hy E.
      apply decl_list_In in Hx. apply decl_list_In in Hy. destruct Hx as [[nx Hx] [Hxe _]]. destruct Hy as [[ny Hy] [Hye _]].
      destruct (shaped _ _ Hx Hxe) as [qx [-> [_ Rx]]]. destruct (shaped _ _ Hy Hye) as [qy [-> [_ Ry]]].
      rewrite Rx, Ry in E. apply app_inv_head in E. apply app_inv_head in E. subst. reflexivity. }
    destruct (dict_get [] (dict_inverse pm)) as [n|]; [|exact N2]. destruct (null n); [exact N2|].
    cbn [map fst app]. constructor; [|exact N2]. intros H. apply in_map_iff in H. destruct H as [p [E _]].
    unfold XMLNS_ in E. cbn in E. discriminate.
  Qed.
End Decl.

(* ---- the reader's view of those declarations ---------------------------------------------------------------- *)
Definition decl_env_entry (kv : str * str) : str * str :=
  (if str_eqb (fst kv) XMLNS_ then [] else skipn (length XMLNS_COLON) (fst kv), snd kv).
Definition decl_env (D : list (str * str)) : env := map decl_env_entry D.

Definition decl_ok (k v : str) : Prop :=
  (k = XMLNS_ /\ v <> xml_ns /\ v <> xmlns_ns)
  \/ (exists q, k = XMLNS_ ++ [COLON] ++ q /\ is_ncname q = true /\ v <> [] /\ q <> XMLNS_ /\ v <> xmlns_ns
                /\ q <> XML_ /\ v <> xml_ns).

Lemma process_decls_own own e : (forall k v, In (k, v) own -> is_decl_key k = false) ->
  process_decls own e = Some (e, own).
Proof.
  induction own as [|[k v] r IH]; intros H; [reflexivity|]. cbn [process_decls].
  pose proof (H k v (or_introl eq_refl)) as Hk. unfold is_decl_key in Hk. apply orb_false_iff in Hk. destruct Hk as [H1 H2].
  rewrite H1. unfold XMLNS_COLON. rewrite H2. rewrite IH; [reflexivity|]. intros k' v' Hin. apply (H k' v'). right. exact Hin.
Qed.
Lemma process_decls_app D : forall own e,
  (forall k v, In (k, v) D -> decl_ok k v) -> (forall k v, In (k, v) own -> is_decl_key k = false) ->
  process_decls (D ++ own) e = Some (decl_env D ++ e, own).
Proof.
  induction D as [|[k v] r IH]; intros own e HD HO; [apply process_decls_own; exact HO|].
  cbn [app process_decls]. assert (IH' := IH own e (fun k' v' H => HD k' v' (or_intror H)) HO).
  destruct (HD k v (or_introl eq_refl)) as [[-> [H1 H2]]|[q [-> [Hq [Hv [Hq1 [Hv1 [Hq2 Hv2]]]]]]]].
  - rewrite str_eqb_refl.
    replace (str_eqb v xml_ns) with false by (symmetry; apply str_eqb_false; exact H1).
    replace (str_eqb v xmlns_ns) with false by (symmetry; apply str_eqb_false; exact H2).
    cbn [orb]. rewrite IH'. reflexivity.
  - change (str_eqb (XMLNS_ ++ [COLON] ++ q) XMLNS_) with false.
    change (py_startswith (XMLNS_ ++ [COLON] ++ q) XMLNS_COLON) with true. cbv iota.
    change (skipn (length XMLNS_COLON) (XMLNS_ ++ [COLON] ++ q)) with q.
    rewrite Hq. destruct v as [|v0 v']; [contradiction|]. cbn [null negb andb].
    replace (str_eqb q XMLNS_) with false by (symmetry; apply str_eqb_false; exact Hq1).
    replace (str_eqb (v0 :: v') xmlns_ns) with false by (symmetry; apply str_eqb_false; exact Hv1).
    replace (str_eqb q XML_) with false by (symmetry; apply str_eqb_false; exact Hq2).
    replace (str_eqb (v0 :: v') xml_ns) with false by (symmetry; apply str_eqb_false; exact Hv2).
    cbn [negb andb Bool.eqb]. rewrite IH'. reflexivity.
Qed.

Lemma dict_get_all_same (d : dict str) k v : In (k, v) d -> (forall v', In (k, v') d -> v' = v) -> dict_get k d = Some v.
Proof.
  induction d as [|[k' v'] r IH]; cbn [dict_get]; [intros []|]. intros Hin Hall.
  destruct (str_eqb k' k) eqn:E.
  - apply str_eqb_eq in E. subst. f_equal. apply Hall. left. reflexivity.
  - apply str_eqb_false in E. destruct Hin as [H|H]; [injection H as -> ->; contradiction|].
    apply IH; [exact H|]. intros v'' H'. apply Hall. right. exact H'.
Qed.
Lemma dict_get_app_l (d e : dict str) k v : dict_get k d = Some v -> dict_get k (d ++ e) = Some v.
Proof. induction d as [|[k' v'] r IH]; cbn [dict_get app]; [discriminate|]. destruct (str_eqb k' k); [auto | exact IH]. Qed.
Lemma dict_get_app_r (d e : dict str) k : ~ In k (dict_keys d) -> dict_get k (d ++ e) = dict_get k e.
Proof.
  induction d as [|[k' v'] r IH]; cbn [dict_get app]; [reflexivity|]. intros H.
  destruct (str_eqb k' k) eqn:E; [apply str_eqb_eq in E; subst; exfalso; apply H; left; reflexivity|].
  apply IH. intros H'. apply H. right. exact H'.
Qed.

Lemma ncname_nonempty q : is_ncname q = true -> q <> [].
Proof. intros H ->. discriminate. Qed.
Lemma global_prefixes_In q : In q global_prefixes <-> q = XML_ \/ q = XMLNS_.
Proof. unfold global_prefixes. cbn. unfold XML_, XMLNS_. intuition. Qed.

Section Env.
  Variable pm : pmap.
  Hypothesis PF : pm_facts pm.
  Let D := declared_attributes pm.
  Let E : env := decl_env D ++ initial_env.

  Lemma decl_env_In key v : In (key, v) (decl_env D) ->
    (key = [] /\ v <> [] /\ In (v, []) pm)
    \/ (is_ncname key = true /\ In (v, key ++ [COLON]) pm /\ ~ In key global_prefixes).
  Proof.
    unfold decl_env. intros H. apply in_map_iff in H. destruct H as [[k v'] [Ee Hin]].
    unfold decl_env_entry in Ee. cbn [fst snd] in Ee. injection Ee as <- <-.
    destruct (decl_sound pm PF _ _ Hin) as [[-> [H1 H2]]|[q [-> [H1 [H2 H3]]]]].
    - left. rewrite str_eqb_refl. repeat split; assumption.
    - right. change (str_eqb (XMLNS_ ++ [COLON] ++ q) XMLNS_) with false. cbv iota.
      change (skipn (length XMLNS_COLON) (XMLNS_ ++ [COLON] ++ q)) with q. repeat split; assumption.
  Qed.
  Lemma decl_env_default n : In (XMLNS_, n) D -> In ([], n) (decl_env D).
  Proof. intros H. unfold decl_env. apply in_map_iff. exists (XMLNS_, n). split; [reflexivity | exact H]. Qed.
  Lemma decl_env_prefix q n : In (XMLNS_ ++ [COLON] ++ q, n) D -> In (q, n) (decl_env D).
  Proof. intros H. unfold decl_env. apply in_map_iff. exists (XMLNS_ ++ [COLON] ++ q, n). split; [reflexivity | exact H]. Qed.

  (* the namespace a written prefix resolves to *)
  Lemma env_lookup ns p : In (ns, p) pm -> ns <> xmlns_ns ->
    dict_get (removelast p) E = Some ns.
  Proof.
    intros Hin Hx. unfold E. destruct (pf_shape _ PF _ _ Hin) as [->|[q [-> Hq]]].
    - cbn [removelast]. destruct ns as [|c ns'].
      + rewrite dict_get_app_r; [reflexivity|]. intros H. apply In_keys_ex in H. destruct H as [v H].
        apply decl_env_In in H. destruct H as [[_ [Hv Hp]]|[Hk _]]; [|discriminate].
        apply Hv. eapply values_inj; [apply (pf_values _ PF) | exact Hp | exact Hin].
      + apply dict_get_app_l. apply dict_get_all_same.
        * apply decl_env_default. apply decl_complete_default; [exact PF | exact Hin | discriminate].
        * intros v' H. apply decl_env_In in H. destruct H as [[_ [_ Hp]]|[Hk _]]; [|discriminate].
          eapply values_inj; [apply (pf_values _ PF) | exact Hp | exact Hin].
    - rewrite removelast_last. destruct (str_eq_dec q XML_) as [->|Nq].
      + assert (ns = xml_ns) by (apply (pf_xml _ PF _ _ Hin); reflexivity). subst ns.
        rewrite dict_get_app_r; [reflexivity|]. intros H. apply In_keys_ex in H. destruct H as [v H].
        apply decl_env_In in H. destruct H as [[Hk _]|[_ [_ Hg]]]; [discriminate|]. apply Hg. apply global_prefixes_In. left. reflexivity.
      + assert (Nq2 : q <> XMLNS_).
        { intros ->. apply Hx. apply (pf_xml _ PF _ _ Hin). reflexivity. }
        assert (Hg : ~ In q global_prefixes) by (rewrite global_prefixes_In; intros [H|H]; contradiction).
        apply dict_get_app_l. apply dict_get_all_same.
        * apply decl_env_prefix. apply decl_complete_prefix; assumption.
        * intros v' H. apply decl_env_In in H. destruct H as [[Hk _]|[_ [Hp _]]].
          -- exfalso. apply (ncname_nonempty q Hq). exact Hk.
          -- eapply values_inj; [apply (pf_values _ PF) | exact Hp | exact Hin].
  Qed.
End Env.

(* ---- qualified names ---------------------------------------------------------------------------------------- *)
Lemma ncname_no_colon s : is_ncname s = true -> Forall (fun c => negb (N.eqb c COLON) = true) s.
Proof.
  unfold is_ncname. intros H. apply andb_prop in H. destruct H as [_ H]. apply negb_true_iff in H.
  apply Forall_forall. intros c Hc. apply negb_true_iff. apply N.eqb_neq. intros ->.
  assert (existsb (N.eqb COLON) s = true) by (apply existsb_exists; exists COLON; split; [exact Hc | apply N.eqb_refl]).
  congruence.
Qed.
Lemma ncname_colon_free s : is_ncname s = true -> colon_free s.
Proof.
  intros H Hc. pose proof (ncname_no_colon s H) as F. rewrite Forall_forall in F. specialize (F _ Hc).
  rewrite N.eqb_refl in F. discriminate.
Qed.
Lemma span_all p l : Forall (fun c => p c = true) l -> span p l = (l, []).
Proof. induction 1 as [|c r Hc _ IH]; [reflexivity|]. cbn [span]. rewrite Hc, IH. reflexivity. Qed.
Lemma split_qname_local l : is_ncname l = true -> split_qname l = Some ([], l).
Proof.
  intros H. unfold split_qname. rewrite (span_all _ l) by exact (ncname_no_colon l H). rewrite H. reflexivity.
Qed.
Lemma split_qname_prefixed q l : is_ncname q = true -> is_ncname l = true -> split_qname (q ++ COLON :: l) = Some (q, l).
Proof.
  intros Hq Hl. unfold split_qname. rewrite (span_app _ q (COLON :: l)) by (exact (ncname_no_colon q Hq) || reflexivity).
  rewrite Hq, Hl. reflexivity.
Qed.

Section Resolve.
  Variable pm : pmap.
  Hypothesis PF : pm_facts pm.
  Let D := declared_attributes pm.
  Let E : env := decl_env D ++ initial_env.

  Lemma prefix_of_In ns : In ns (dict_keys pm) -> In (ns, prefix_of pm ns) pm.
  Proof.
    intros H. apply In_keys_ex in H. destruct H as [p H]. unfold prefix_of.
    rewrite (In_dict_get _ _ _ (pf_keys _ PF) H). exact H.
  Qed.

  Lemma resolve_qname ns local : In ns (dict_keys pm) -> ns <> xmlns_ns -> is_ncname local = true ->
    resolve_name E (qname pm ns local) = Some (ns, local).
  Proof.
    intros Hk Hx Hl. pose proof (prefix_of_In ns Hk) as Hin. unfold qname, resolve_name.
    pose proof (env_lookup pm PF ns _ Hin Hx) as L. fold D in L. fold E in L.
    destruct (pf_shape _ PF _ _ Hin) as [Ep|[q [Ep Hq]]]; rewrite Ep in *.
    - cbn [app removelast] in *. rewrite (split_qname_local local Hl). rewrite L. reflexivity.
    - rewrite removelast_last in L. rewrite <- app_assoc. cbn [app].
      rewrite (split_qname_prefixed q local Hq Hl). rewrite L. reflexivity.
  Qed.

  Lemma qname_is_name ns local : In ns (dict_keys pm) -> is_ncname local = true -> is_name (qname pm ns local) = true.
  Proof.
    intros Hk Hl. pose proof (prefix_of_In ns Hk) as Hin. unfold qname.
    assert (Hn : is_name local = true) by (unfold is_ncname in Hl; apply andb_prop in Hl; destruct Hl; assumption).
    destruct (pf_shape _ PF _ _ Hin) as [->|[q [-> Hq]]]; [exact Hn|].
    unfold is_ncname in Hq. apply andb_prop in Hq. destruct Hq as [Hq _].
    destruct q as [|c r]; [discriminate|]. cbn [is_name app] in *. apply andb_prop in Hq. destruct Hq as [H1 H2].
    rewrite H1. cbn [andb]. rewrite <- app_assoc. rewrite forallb_app. rewrite H2. cbn [andb app forallb].
    change (is_name_char COLON) with true. cbn [andb].
    destruct local as [|c0 l']; [discriminate|]. cbn [is_name forallb] in *. apply andb_prop in Hn. destruct Hn as [H3 H4].
    rewrite H4. destruct (name_start_facts c0 H3) as [_ [_ [_ [_ [_ [_ H5]]]]]]. rewrite H5. reflexivity.
  Qed.

  Lemma qname_not_decl_key ns local : In ns (dict_keys pm) -> ns <> xmlns_ns -> is_ncname local = true -> local <> XMLNS_ ->
    is_decl_key (qname pm ns local) = false.
  Proof.
    intros Hk Hx Hl Hn. pose proof (prefix_of_In ns Hk) as Hin. unfold qname, is_decl_key.
    pose proof (ncname_colon_free local Hl) as CL.
    assert (LOCAL : (str_eqb local XMLNS_ || py_startswith local (XMLNS_ ++ [COLON]))%bool = false).
    { apply orb_false_iff. split; [apply str_eqb_false; exact Hn|].
      destruct (py_startswith local (XMLNS_ ++ [COLON])) eqn:E0; [|reflexivity]. exfalso.
      apply py_prefix_app in E0. destruct E0 as [r E0]. apply CL. rewrite E0. rewrite <- app_assoc. apply in_or_app. right. left. reflexivity. }
    destruct (pf_shape _ PF _ _ Hin) as [->|[q [Ep Hq]]]; [exact LOCAL|]. rewrite Ep.
    rewrite <- app_assoc. cbn [app]. apply orb_false_iff. split.
    - apply str_eqb_false. intros H. assert (HX : In COLON XMLNS_) by (rewrite <- H; apply in_or_app; right; left; reflexivity).
      unfold XMLNS_, COLON in HX. cbn in HX. repeat (destruct HX as [HX|HX]; [discriminate HX|]). exact HX.
    - destruct (py_startswith (q ++ COLON :: local) (XMLNS_ ++ [COLON])) eqn:E0; [|reflexivity]. exfalso.
      apply py_prefix_app in E0. destruct E0 as [r E0]. rewrite <- app_assoc in E0. cbn [app] in E0.
      apply split_colon in E0; [|apply ncname_colon_free; exact Hq
                                |unfold colon_free, XMLNS_, COLON; cbn; intros HX; repeat (destruct HX as [HX|HX]; [discriminate HX|]); exact HX].
      destruct E0 as [-> _]. apply Hx. apply (pf_xml _ PF _ _ Hin). exact Ep.
  Qed.

  (* an element's own attributes as the reader sees them *)
  Definition attrs_in (attrs : list attr) : Prop := forall a, In a attrs -> In (attr_ns a) (dict_keys pm).

  Lemma tok_attrs_cons a r : map (fun a : attr => let '(ns, local, v) := a in (qname pm ns local, v)) (a :: r)
    = (qname pm (fst (fst a)) (snd (fst a)), snd a) :: map (fun a : attr => let '(ns, local, v) := a in (qname pm ns local, v)) r.
  Proof. destruct a as [[ns l] v]. reflexivity. Qed.

  Lemma resolve_attrs_ok attrs : Forall attr_wf0 attrs -> attrs_in attrs ->
    resolve_attrs E (map (fun a : attr => let '(ns, local, v) := a in (qname pm ns local, v)) attrs) = Some attrs.
  Proof.
    induction 1 as [|[[ns l] v] r Ha _ IH]; intros HI; [reflexivity|]. cbn [map resolve_attrs].
    destruct Ha as [H1 [H2 [H3 _]]].
    rewrite resolve_qname; [|apply (HI (ns, l, v)); left; reflexivity | exact H3 | exact H1].
    rewrite IH; [reflexivity|]. intros a Ha. apply HI. right. exact Ha.
  Qed.
  Lemma own_not_decl attrs : Forall attr_wf0 attrs -> attrs_in attrs ->
    forall k v, In (k, v) (map (fun a : attr => let '(ns, local, v) := a in (qname pm ns local, v)) attrs) -> is_decl_key k = false.
  Proof.
    intros HW HI k v H. apply in_map_iff in H. destruct H as [[[ns l] v'] [Ee Ha]]. injection Ee as <- <-.
    rewrite Forall_forall in HW. destruct (HW _ Ha) as [H1 [H2 [H3 _]]].
    apply qname_not_decl_key; [apply (HI _ Ha) | exact H3 | exact H1 | exact H2].
  Qed.
  Lemma own_keys_NoDup attrs : Forall attr_wf0 attrs -> attrs_in attrs -> nodup_keys attrs = true ->
    NoDup (map fst (map (fun a : attr => let '(ns, local, v) := a in (qname pm ns local, v)) attrs)).
  Proof.
    induction 1 as [|[[ns l] v] r Ha HW IH]; intros HI ND; [constructor|]. cbn [map fst nodup_keys] in *.
    apply andb_prop in ND. destruct ND as [N1 N2]. apply negb_true_iff in N1.
    assert (HI' : attrs_in r) by (intros a Ha'; apply HI; right; exact Ha').
    constructor; [|apply IH; assumption].
    intros H. rewrite map_map in H. apply in_map_iff in H. destruct H as [[[ns' l'] v'] [Ee Ha']]. cbn [fst] in Ee.
    rewrite Forall_forall in HW. destruct (HW _ Ha') as [H1' [_ [H3' _]]]. destruct Ha as [H1 [_ [H3 _]]].
    pose proof (resolve_qname ns' l' (HI' _ Ha') H3' H1') as R1.
    pose proof (resolve_qname ns l (HI (ns, l, v) (or_introl eq_refl)) H3 H1) as R2.
    rewrite Ee in R1. rewrite R1 in R2. injection R2 as -> ->.
    assert (HE : existsb (fun a : attr => let '(n, k, _) := a in (str_eqb n ns && str_eqb k l)%bool) r = true).
    { apply existsb_exists. exists (ns, l, v'). split; [exact Ha'|]. rewrite !str_eqb_refl. reflexivity. }
    exact (eq_true_false_abs _ HE N1).
  Qed.
  Lemma NoDup_nodup_raw l : NoDup l -> nodup_raw l = true.
  Proof.
    induction 1 as [|x r Hn _ IH]; [reflexivity|]. cbn [nodup_raw]. rewrite IH.
    apply py_in_str_nIn in Hn. rewrite Hn. reflexivity.
  Qed.

  Theorem open_inner ns name attrs :
    In ns (dict_keys pm) -> ns <> xmlns_ns -> is_ncname name = true ->
    Forall attr_wf0 attrs -> attrs_in attrs -> sort_attrs attrs = attrs -> nodup_keys attrs = true ->
    open_element E (qname pm ns name) (tok_attrs pm attrs) = Some (E, ns, name, attrs).
  Proof.
    intros Hk Hx Hn HW HI HS HN. unfold open_element, tok_attrs. rewrite HS.
    rewrite (NoDup_nodup_raw _ (own_keys_NoDup attrs HW HI HN)).
    rewrite (process_decls_own _ E (own_not_decl attrs HW HI)).
    rewrite (resolve_qname ns name Hk Hx Hn). rewrite (resolve_attrs_ok attrs HW HI). rewrite HN. reflexivity.
  Qed.

  Lemma decl_all_ok k v : In (k, v) D -> decl_ok k v /\ is_decl_key k = true.
  Proof.
    intros H. destruct (decl_sound pm PF _ _ H) as [[-> [Hv Hin]]|[q [-> [Hin [Hg Hq]]]]].
    - split; [|reflexivity]. left. split; [reflexivity|]. split; intros ->.
      + assert (HE : [] = XML_ ++ [COLON]) by (apply (pf_xml _ PF _ _ Hin); reflexivity). discriminate HE.
      + assert (HE : [] = XMLNS_ ++ [COLON]) by (apply (pf_xml _ PF _ _ Hin); reflexivity). discriminate HE.
    - rewrite global_prefixes_In in Hg. split.
      + right. exists q. split; [reflexivity|]. split; [exact Hq|]. split.
        { intros ->. pose proof (pf_empty _ PF _ Hin) as HE. apply app_eq_nil in HE. destruct HE as [_ HE]. discriminate. }
        split; [intros ->; apply Hg; right; reflexivity|]. split.
        { intros ->. assert (HE : q ++ [COLON] = XMLNS_ ++ [COLON]) by (apply (pf_xml _ PF _ _ Hin); reflexivity).
          apply app_inj_tail in HE. destruct HE as [-> _]. apply Hg. right. reflexivity. }
        split; [intros ->; apply Hg; left; reflexivity|].
        intros ->. assert (HE : q ++ [COLON] = XML_ ++ [COLON]) by (apply (pf_xml _ PF _ _ Hin); reflexivity).
        apply app_inj_tail in HE. destruct HE as [-> _]. apply Hg. left. reflexivity.
      + reflexivity.
  Qed.

  Lemma NoDup_app_intro {A} (a b : list A) : NoDup a -> NoDup b -> (forall x, In x a -> ~ In x b) -> NoDup (a ++ b).
  Proof.
    induction 1 as [|x r Hn _ IH]; intros Nb HD; [exact Nb|]. cbn [app]. constructor.
    - intros H. apply in_app_or in H. destruct H as [H|H]; [contradiction | exact (HD x (or_introl eq_refl) H)].
    - apply IH; [exact Nb|]. intros y Hy. apply HD. right. exact Hy.
  Qed.

  Theorem open_root ns name attrs :
    In ns (dict_keys pm) -> ns <> xmlns_ns -> is_ncname name = true ->
    Forall attr_wf0 attrs -> attrs_in attrs -> sort_attrs attrs = attrs -> nodup_keys attrs = true ->
    open_element initial_env (qname pm ns name) (root_tok_attrs pm attrs) = Some (E, ns, name, attrs).
  Proof.
    intros Hk Hx Hn HW HI HS HN. unfold open_element, root_tok_attrs, tok_attrs. rewrite HS. fold D.
    set (own := map (fun a : attr => let '(ns, local, v) := a in (qname pm ns local, v)) attrs).
    assert (ND : NoDup (map fst (D ++ own))).
    { rewrite map_app. apply NoDup_app_intro.
      - apply (decl_keys_NoDup pm PF).
      - apply (own_keys_NoDup attrs HW HI HN).
      - intros k H1 H2. apply in_map_iff in H1. destruct H1 as [[k1 v1] [E1 H1]]. cbn in E1. subst k1.
        apply in_map_iff in H2. destruct H2 as [[k2 v2] [E2 H2]]. cbn in E2. subst k2.
        destruct (decl_all_ok _ _ H1) as [_ T]. rewrite (own_not_decl attrs HW HI _ _ H2) in T. discriminate. }
    rewrite (NoDup_nodup_raw _ ND).
    rewrite (process_decls_app D own initial_env (fun k v H => proj1 (decl_all_ok k v H)) (own_not_decl attrs HW HI)).
    fold E. rewrite (resolve_qname ns name Hk Hx Hn). unfold own. rewrite (resolve_attrs_ok attrs HW HI). rewrite HN. reflexivity.
  Qed.
End Resolve.

(* ---- the namespaces of a tree (breadth-first definition) seen structurally ---------------------------------- *)
Lemma concat_zip_app_In {A} (a b : list (list A)) x : In x (concat (zip_app a b)) <-> In x (concat a) \/ In x (concat b).
Proof.
  revert b. induction a as [|u a IH]; intros b; [cbn; intuition|].
  destruct b as [|v b]; [cbn [zip_app concat In]; tauto|].
  change (zip_app (u :: a) (v :: b)) with ((u ++ v) :: zip_app a b). cbn [concat]. rewrite !in_app_iff, IH. intuition.
Qed.
Lemma levels_kids_In (kids : list node) nn :
  In nn (concat ((fix go (l : list node) : list (list node_nss) :=
                    match l with [] => [] | k :: r => zip_app (levels k) (go r) end) kids))
  <-> exists k, In k kids /\ In nn (concat (levels k)).
Proof.
  induction kids as [|k r IH]; [cbn; split; [intros [] | intros [k [[] _]]]|].
  rewrite concat_zip_app_In, IH. split.
  - intros [H|[k' [H1 H2]]]; [exists k; split; [left; reflexivity | exact H] | exists k'; split; [right; exact H1 | exact H2]].
  - intros [k' [[<-|H1] H2]]; [left; exact H2 | right; exists k'; split; assumption].
Qed.
Lemma tree_nss_tag ns name attrs kids x :
  In x (tree_nss (Tag ns name attrs kids)) <->
  x = ns \/ In x (map attr_ns attrs) \/ exists k, In k kids /\ In x (tree_nss k).
Proof.
  unfold tree_nss, bfs_of. cbn [levels concat]. cbn [app flat_map fst snd]. cbn [In].
  rewrite in_app_iff, in_flat_map. split.
  - intros [H|[H|[nn [H1 H2]]]]; [left; symmetry; exact H | right; left; exact H|].
    right. right. apply levels_kids_In in H1. destruct H1 as [k [Hk H1]]. exists k. split; [exact Hk|].
    apply in_flat_map. exists nn. split; assumption.
  - intros [H|[H|[k [Hk H]]]]; [left; symmetry; exact H | right; left; exact H|].
    right. right. apply in_flat_map in H. destruct H as [nn [H1 H2]]. exists nn. split; [|exact H2].
    apply levels_kids_In. exists k. split; assumption.
Qed.

Lemma wf_fix l : (fix all (l : list node) : Prop := match l with [] => True | k :: r => wf_node k /\ all r end) l
                 <-> Forall wf_node l.
Proof.
  induction l as [|k r IH]; [split; [constructor | exact (fun _ => I)]|]. split.
  - intros [H1 H2]. constructor; [exact H1 | apply IH; exact H2].
  - intros H. inversion H; subst. split; [assumption | apply IH; assumption].
Qed.

Lemma wf_nss t : wf_node t -> forall x, In x (tree_nss t) -> uri_ok x /\ x <> xmlns_ns.
Proof.
  induction t as [ns name attrs kids IHk|s|s|tg c] using node_ind'; intros HW x Hx; [|destruct Hx|destruct Hx|destruct Hx].
  cbn [wf_node] in HW. destruct HW as [_ [H2 [H3 [H4 [_ [_ H7]]]]]]. apply wf_fix in H7. apply attrs_wf0 in H4.
  apply tree_nss_tag in Hx. destruct Hx as [->|[Hx|[k [Hk Hx]]]].
  - split; assumption.
  - apply in_map_iff in Hx. destruct Hx as [[[n l] v] [<- Ha]]. rewrite Forall_forall in H4.
    destruct (H4 _ Ha) as [_ [_ [A3 [A4 _]]]]. split; assumption.
  - rewrite Forall_forall in IHk, H7. exact (IHk k Hk (H7 k Hk) x Hx).
Qed.

Section Tree.
  Variable pm : pmap.
  Hypothesis PF : pm_facts pm.
  Let E : env := decl_env (declared_attributes pm) ++ initial_env.

  Lemma attrs_in_of ns name attrs kids :
    (forall x, In x (tree_nss (Tag ns name attrs kids)) -> In x (dict_keys pm)) -> attrs_in pm attrs.
  Proof.
    intros H a Ha. apply H. apply tree_nss_tag. right. left. apply in_map. exact Ha.
  Qed.

  (* (c) every element below the root resolves under the environment the root's declarations give *)
  Theorem wf_resolves t : wf_node t -> (forall x, In x (tree_nss t) -> In x (dict_keys pm)) -> resolves E pm t.
  Proof.
    induction t as [ns name attrs kids IHk|s|s|tg c] using node_ind'; intros HW HC; try exact I.
    cbn [resolves]. pose proof HW as HW0. cbn [wf_node] in HW. destruct HW as [H1 [H2 [H3 [H4 [H5 [H6 H7]]]]]]. apply wf_fix in H7. apply attrs_wf0 in H4.
    split.
    - apply (open_inner pm PF); try assumption.
      + apply HC. apply tree_nss_tag. left. reflexivity.
      + eapply attrs_in_of. exact HC.
    - apply resolves_fix. unfold all_resolve. rewrite Forall_forall in *. intros k Hk. apply (IHk k Hk (H7 k Hk)).
      intros x Hx. apply HC. apply tree_nss_tag. right. right. exists k. split; assumption.
  Qed.
End Tree.

(* ---- (b) the tokens of a well-formed, clean tree are well-formed tokens -------------------------------------- *)
Definition starts_ttext (l : list token) : bool := match l with TText _ :: _ => true | _ => false end.
Lemma no_adj_cons a l : (is_ttext a && starts_ttext l)%bool = false -> no_adj_ttext l -> no_adj_ttext (a :: l).
Proof.
  intros H HL. destruct l as [|b r]; [exact I|]. cbn [no_adj_ttext]. split; [|exact HL].
  destruct a, b; cbn in *; try reflexivity; discriminate.
Qed.
Lemma no_adj_tail a l : no_adj_ttext (a :: l) -> no_adj_ttext l.
Proof. destruct l as [|b r]; [intros; exact I|]. cbn [no_adj_ttext]. intros [_ H]. exact H. Qed.
Lemma no_adj_app_end l1 x l2 : no_adj_ttext (l1 ++ [x]) -> is_ttext x = false -> no_adj_ttext l2 ->
  no_adj_ttext ((l1 ++ [x]) ++ l2).
Proof.
  intros H1 Hx H2. induction l1 as [|a r IH].
  - cbn [app]. apply no_adj_cons; [rewrite Hx; reflexivity | exact H2].
  - cbn [app] in *. pose proof (no_adj_tail _ _ H1) as HT. specialize (IH HT).
    apply no_adj_cons; [|exact IH].
    destruct r as [|b r']; cbn [app] in *.
    + destruct H1 as [H1 _]. destruct a, x; cbn in *; try reflexivity; discriminate.
    + destruct H1 as [H1 _]. destruct a, b; cbn in *; try reflexivity; discriminate.
Qed.
Lemma no_adj_snoc l x : no_adj_ttext l -> is_ttext x = false -> no_adj_ttext (l ++ [x]).
Proof.
  intros H Hx. induction l as [|a r IH]; [exact I|]. cbn [app]. apply no_adj_cons; [|apply IH; eapply no_adj_tail; exact H].
  destruct r as [|b r']; cbn [app].
  - destruct a, x; cbn in *; try reflexivity; discriminate.
  - destruct H as [H _]. destruct a, b; cbn in *; try reflexivity; discriminate.
Qed.

Lemma decl_key_is_name q : is_ncname q = true -> is_name (XMLNS_ ++ [COLON] ++ q) = true.
Proof.
  intros Hq. unfold is_ncname in Hq. apply andb_prop in Hq. destruct Hq as [Hq _].
  destruct q as [|c r]; [discriminate|]. cbn [is_name] in Hq. apply andb_prop in Hq. destruct Hq as [H1 H2].
  unfold XMLNS_, COLON. cbn [app is_name forallb]. destruct (name_start_facts c H1) as [_ [_ [_ [_ [_ [_ H5]]]]]].
  rewrite H5, H2. reflexivity.
Qed.

Section Toks.
  Variable pm : pmap.
  Hypothesis PF : pm_facts pm.
  Hypothesis URI : forall n, In n (dict_keys pm) -> uri_ok n.

  Lemma tok_attrs_ok attrs : Forall attr_wf0 attrs -> attrs_in pm attrs -> sort_attrs attrs = attrs ->
    Forall (fun kv : str * str => is_name (fst kv) = true /\ Forall attr_char_ok (snd kv)) (tok_attrs pm attrs).
  Proof.
    intros HW HI HS. unfold tok_attrs. rewrite HS. apply Forall_forall. intros [k v] H.
    apply in_map_iff in H. destruct H as [[[ns l] v'] [Ee Ha]]. injection Ee as <- <-.
    rewrite Forall_forall in HW. destruct (HW _ Ha) as [H1 [_ [_ [_ H5]]]]. cbn [fst snd]. split; [|exact H5].
    apply (qname_is_name pm PF); [apply (HI _ Ha) | exact H1].
  Qed.
  Lemma decl_attrs_ok :
    Forall (fun kv : str * str => is_name (fst kv) = true /\ Forall attr_char_ok (snd kv)) (declared_attributes pm).
  Proof.
    apply Forall_forall. intros [k v] H. cbn [fst snd].
    destruct (decl_sound pm PF _ _ H) as [[-> [_ Hin]]|[q [-> [Hin [_ Hq]]]]].
    - split; [reflexivity | apply URI; eapply In_keys; exact Hin].
    - split; [apply decl_key_is_name; exact Hq | apply URI; eapply In_keys; exact Hin].
  Qed.

  Definition node_toks_ok (n : node) : Prop :=
    Forall tok_ok (toks_node pm n) /\ no_adj_ttext (toks_node pm n)
    /\ (is_text n = false -> starts_ttext (toks_node pm n) = false
                             /\ exists l x, toks_node pm n = l ++ [x] /\ is_ttext x = false).

  Lemma kids_toks_ok kids :
    Forall (fun k => is_text k = false -> node_toks_ok k) kids ->
    Forall (fun k => match k with Text s => s <> [] /\ Forall text_char_ok s | _ => True end) kids ->
    no_adjacent_text false kids = true ->
    Forall tok_ok (toks_kids pm kids) /\ no_adj_ttext (toks_kids pm kids)
    /\ (match kids with k :: _ => is_text k = false | [] => True end -> starts_ttext (toks_kids pm kids) = false).
  Proof.
    induction kids as [|k r IH]; intros HN HT HA; [split; [constructor | split; [exact I | reflexivity]]|].
    inversion HN as [|? ? Hk HNr]; subst. inversion HT as [|? ? Tk HTr]; subst.
    cbn [no_adjacent_text andb] in HA. apply andb_prop in HA. destruct HA as [_ HA].
    rewrite toks_kids_cons.
    destruct (is_text k) eqn:EK.
    - destruct k as [| s | |]; try discriminate. cbn [is_text] in HA.
      pose proof (no_adj_starts _ HA) as HS. pose proof (no_adj_weaken _ _ HA) as HA'.
      destruct (IH HNr HTr HA') as [I1 [I2 I3]]. cbn [toks_node app]. split; [|split].
      + constructor; [exact Tk | exact I1].
      + apply no_adj_cons; [|exact I2]. cbn [is_ttext andb]. apply I3.
        destruct r as [|k' r']; [exact I | exact HS].
      + intros H. discriminate H.
    - destruct (Hk eq_refl) as [K1 [K2 K3']]. unfold node_toks_ok in K3'. destruct (K3' EK) as [K3 [l [x [El Hx]]]].
      assert (HA' : no_adjacent_text false r = true) by (eapply no_adj_weaken; exact HA).
      destruct (IH HNr HTr HA') as [I1 [I2 _]]. split; [|split].
      + apply Forall_app. split; assumption.
      + rewrite El in *. apply no_adj_app_end; assumption.
      + intros _. destruct (toks_node pm k) as [|a t'] eqn:Et; [destruct l; discriminate El|]. cbn [app]. exact K3.
  Qed.
End Toks.

Lemma clean_tag_inv ns name attrs kids : clean (Tag ns name attrs kids) = true ->
  no_adjacent_text false kids = true
  /\ Forall (fun k => clean k = true /\ is_empty_text k = false) kids.
Proof.
  unfold clean. cbn [merged no_empty]. intros H. apply andb_prop in H. destruct H as [H1 H2].
  apply andb_prop in H1. destruct H1 as [H1 H3]. split; [exact H1|].
  apply Forall_forall. intros k Hk. rewrite forallb_forall in H2, H3. specialize (H2 k Hk). specialize (H3 k Hk).
  apply andb_prop in H2. destruct H2 as [H2 H4]. apply negb_true_iff in H2. rewrite H3, H4. split; [reflexivity | exact H2].
Qed.

Section ToksTree.
  Variable pm : pmap.
  Hypothesis PF : pm_facts pm.
  Hypothesis URI : forall n, In n (dict_keys pm) -> uri_ok n.

  Lemma kids_premises kids :
    Forall wf_node kids -> Forall (fun k => clean k = true /\ is_empty_text k = false) kids ->
    Forall (fun k => wf_node k -> clean k = true -> (forall x, In x (tree_nss k) -> In x (dict_keys pm)) ->
                     is_text k = false -> node_toks_ok pm k) kids ->
    (forall k x, In k kids -> In x (tree_nss k) -> In x (dict_keys pm)) ->
    Forall (fun k => is_text k = false -> node_toks_ok pm k) kids
    /\ Forall (fun k => match k with Text s => s <> [] /\ Forall text_char_ok s | _ => True end) kids.
  Proof.
    intros HW HC HI HK. split; apply Forall_forall; intros k Hk; rewrite Forall_forall in HW, HC, HI.
    - intros Ht. destruct (HC k Hk) as [C1 _]. apply (HI k Hk (HW k Hk) C1); [|exact Ht]. intros x Hx. exact (HK k x Hk Hx).
    - destruct k as [| s | |]; try exact I. destruct (HC _ Hk) as [_ C2]. split; [|exact (HW _ Hk)].
      intros ->. discriminate C2.
  Qed.

  Lemma tag_toks_ok q ta kids :
    is_name q = true -> Forall (fun kv : str * str => is_name (fst kv) = true /\ Forall attr_char_ok (snd kv)) ta ->
    Forall tok_ok (toks_kids pm kids) -> no_adj_ttext (toks_kids pm kids) ->
    let toks := if null kids then [TStart q ta true] else TStart q ta false :: toks_kids pm kids ++ [TEnd q] in
    Forall tok_ok toks /\ no_adj_ttext toks
    /\ starts_ttext toks = false /\ exists l x, toks = l ++ [x] /\ is_ttext x = false.
  Proof.
    intros Hq Ha HT HA. destruct kids as [|k0 r]; cbn [null]; cbv zeta iota.
    - split; [constructor; [split; assumption | constructor]|]. split; [exact I|]. split; [reflexivity|].
      exists [], (TStart q ta true). split; reflexivity.
    - split; [|split; [|split]].
      + constructor; [split; assumption|]. apply Forall_app. split; [exact HT|]. constructor; [exact Hq | constructor].
      + apply no_adj_cons; [reflexivity|]. apply no_adj_snoc; [exact HA | reflexivity].
      + reflexivity.
      + exists (TStart q ta false :: toks_kids pm (k0 :: r)), (TEnd q). split; reflexivity.
  Qed.

  Theorem wf_node_toks_ok n : wf_node n -> clean n = true -> (forall x, In x (tree_nss n) -> In x (dict_keys pm)) ->
    is_text n = false -> node_toks_ok pm n.
  Proof.
    induction n as [ns name attrs kids IHk|s|s|tg c] using node_ind'; intros HW HC HK HT; try discriminate.
    - cbn [wf_node] in HW. destruct HW as [H1 [H2 [H3 [H4 [H5 [H6 H7]]]]]]. apply wf_fix in H7. apply attrs_wf0 in H4.
      destruct (clean_tag_inv _ _ _ _ HC) as [C1 C2].
      destruct (kids_premises kids H7 C2 IHk) as [P1 P2].
      { intros k x Hk Hx. apply HK. apply tree_nss_tag. right. right. exists k. split; assumption. }
      destruct (kids_toks_ok pm kids P1 P2 C1) as [K1 [K2 _]].
      assert (Hq : is_name (qname pm ns name) = true).
      { apply (qname_is_name pm PF); [apply HK; apply tree_nss_tag; left; reflexivity | exact H1]. }
      assert (Ha := tok_attrs_ok pm PF attrs H4 (attrs_in_of pm ns name attrs kids HK) H5).
      destruct (tag_toks_ok _ _ kids Hq Ha K1 K2) as [T1 [T2 [T3 T4]]].
      unfold node_toks_ok. cbn [toks_node]. rewrite toks_kids_fix. split; [exact T1|]. split; [exact T2|].
      intros _. split; assumption.
    - cbn [wf_node] in HW. unfold node_toks_ok. cbn [toks_node]. split; [constructor; [split; [apply comment_validator_ok; exact (proj1 HW) | exact (proj2 HW)] | constructor]|].
      split; [exact I|]. intros _. split; [reflexivity|]. exists [], (TComment s). split; reflexivity.
    - cbn [wf_node] in HW. destruct HW as [H1 [H2 [H3 [H4 H5]]]]. apply pi_validator_ok in H4. unfold node_toks_ok. cbn [toks_node].
      assert (Hn : is_name tg = true) by (unfold is_ncname in H1; apply andb_prop in H1; destruct H1; assumption).
      split; [constructor; [repeat split; assumption | constructor]|].
      split; [exact I|]. intros _. split; [reflexivity|]. exists [], (TPI tg c). split; reflexivity.
  Qed.

  Theorem wf_root_toks_ok ns name attrs kids :
    let t := Tag ns name attrs kids in
    wf_node t -> clean t = true -> (forall x, In x (tree_nss t) -> In x (dict_keys pm)) ->
    Forall tok_ok (toks_root pm t) /\ no_adj_ttext (toks_root pm t).
  Proof.
    intros t HW HC HK. unfold t in *. cbn [wf_node] in HW. destruct HW as [H1 [H2 [H3 [H4 [H5 [H6 H7]]]]]]. apply wf_fix in H7. apply attrs_wf0 in H4.
    destruct (clean_tag_inv _ _ _ _ HC) as [C1 C2].
    assert (IHk : Forall (fun k => wf_node k -> clean k = true -> (forall x, In x (tree_nss k) -> In x (dict_keys pm)) ->
                                   is_text k = false -> node_toks_ok pm k) kids).
    { apply Forall_forall. intros k _. apply wf_node_toks_ok. }
    destruct (kids_premises kids H7 C2 IHk) as [P1 P2].
    { intros k x Hk Hx. apply HK. apply tree_nss_tag. right. right. exists k. split; assumption. }
    destruct (kids_toks_ok pm kids P1 P2 C1) as [K1 [K2 _]].
    assert (Hq : is_name (qname pm ns name) = true).
    { apply (qname_is_name pm PF); [apply HK; apply tree_nss_tag; left; reflexivity | exact H1]. }
    assert (Ha : Forall (fun kv : str * str => is_name (fst kv) = true /\ Forall attr_char_ok (snd kv)) (root_tok_attrs pm attrs)).
    { unfold root_tok_attrs. apply Forall_app. split; [apply (decl_attrs_ok pm PF URI)|].
      exact (tok_attrs_ok pm PF attrs H4 (attrs_in_of pm ns name attrs kids HK) H5). }
    destruct (tag_toks_ok _ _ kids Hq Ha K1 K2) as [T1 [T2 _]]. cbn [toks_root]. split; assumption.
  Qed.
End ToksTree.

(* ---- the facts about the prefix table, from the C13 development --------------------------------------------- *)
Lemma digit_name_char c : is_digit c = true -> is_name_char c = true /\ c <> COLON.
Proof.
  intros H. split.
  - unfold is_name_char. change (between 48 57 c) with (is_digit c). rewrite H. rewrite orb_true_r. reflexivity.
  - intros ->. discriminate H.
Qed.
Lemma generated_prefix_ncname i : is_ncname (NS_ ++ py_str_of_N i) = true.
Proof.
  unfold py_str_of_N. pose proof (uint_chars_digits (N.to_uint i)) as D. rewrite forallb_forall in D.
  unfold is_ncname. apply andb_true_intro. split.
  - unfold NS_. cbn [app is_name]. change (is_name_start 110%N) with true. cbn [andb forallb].
    change (is_name_char 115%N) with true. cbn [andb]. apply forallb_forall. intros c Hc. apply digit_name_char. apply D. exact Hc.
  - apply negb_true_iff. destruct (existsb (N.eqb COLON) (NS_ ++ uint_chars (N.to_uint i))) eqn:E; [|reflexivity].
    apply existsb_exists in E. destruct E as [c [Hc Ec]]. apply N.eqb_eq in Ec. subst c.
    apply in_app_or in Hc. destruct Hc as [Hc|Hc].
    + unfold NS_ in Hc. cbn in Hc. destruct Hc as [Hc|[Hc|[]]]; discriminate Hc.
    + exfalso. apply (proj2 (digit_name_char COLON (D _ Hc))). reflexivity.
Qed.
Lemma tables_ncname :
  forallb (fun kv => is_ncname (fst kv)) (global_namespaces ++ common_namespaces) = true.
Proof. vm_compute. reflexivity. Qed.

Theorem pm_facts_of_collect caller data pm nss :
  normalized caller data -> caller_prefixes_ncname caller -> Inv data pm -> c13_clauses caller nss pm -> pm_facts pm.
Proof.
  intros NZ CN [I1 [I2 I3]] HC. constructor.
  - exact I1.
  - exact I2.
  - intros n p Hin. destruct (I3 _ _ Hin) as [[-> _]|[[_ [_ [i [-> _]]]]|[_ [q [Hq [HL ->]]]]]]; [left; reflexivity | right | right].
    + exists (NS_ ++ py_str_of_N i). split; [apply nsd_name_eq | apply generated_prefix_ncname].
    + exists q. split; [reflexivity|].
      apply (lookup_prefix_iff _ _ _ _ NZ) in HL. apply (nz_origin _ _ NZ) in HL.
      pose proof tables_ncname as T. rewrite forallb_forall in T.
      destruct HL as [H|[[k [Hk Ek]]|H]].
      * exact (T (q, n) (in_or_app _ _ _ (or_introl H))).
      * destruct k as [p'|]; cbn [norm_prefix] in Ek; subst; [|contradiction].
        destruct (CN _ _ Hk) as [->|H']; [contradiction | exact H'].
      * exact (T (q, n) (in_or_app _ _ _ (or_intror H))).
  - intros p Hin. destruct (I3 _ _ Hin) as [[-> _]|[[H _]|[H _]]]; [reflexivity | contradiction | contradiction].
  - exact (c_xml _ _ _ HC).
Qed.

(* ---- C02 for clean trees ------------------------------------------------------------------------------------- *)
Theorem roundtrip_clean t caller ord :
  wf_tree t -> clean t = true -> valid_caller caller -> caller_prefixes_ncname caller ->
  order_ok (bfs_of t) ord -> (N.of_nat (n_namespaces t + length caller + 17) < 2 ^ 16)%N ->
  reparse (serialize caller ord t) = Some (merge_tree t).
Proof.
  intros [HT HW] HC HV CN HO HB.
  destruct (collect_tree_clauses t caller ord HT HV HO HB) as [data [pm [EN [EC [HI CL]]]]].
  pose proof (pm_facts_of_collect caller data pm (tree_nss t) (normalize_ok _ _ EN) CN HI CL) as PF.
  unfold serialize. rewrite EC. cbn [bind reparse].
  destruct t as [ns name attrs kids| | |]; try discriminate.
  assert (COV : forall x, In x (tree_nss (Tag ns name attrs kids)) -> In x (dict_keys pm)).
  { intros x Hx. destruct (c_covers _ _ _ CL x Hx) as [p Hp]. apply dict_get_In in Hp. eapply In_keys. exact Hp. }
  assert (URI : forall n, In n (dict_keys pm) -> uri_ok n).
  { intros n Hn. apply (wf_nss _ HW). destruct (collect_keys _ _ _ _ EC n Hn) as [->|Hn'].
    - apply root_ns_in_tree_nss. reflexivity.
    - apply (order_ok_same_set _ _ HO). exact Hn'. }
  pose proof HW as HW0. cbn [wf_node] in HW. destruct HW as [H1 [H2 [H3 [H4 [H5 [H6 H7]]]]]]. apply wf_fix in H7. apply attrs_wf0 in H4.
  set (E0 := decl_env (declared_attributes pm) ++ initial_env).
  assert (OR : open_element initial_env (qname pm ns name) (root_tok_attrs pm attrs) = Some (E0, ns, name, attrs)).
  { apply (open_root pm PF); try assumption.
    - apply COV. apply tree_nss_tag. left. reflexivity.
    - eapply attrs_in_of. exact COV. }
  assert (KR : all_resolve E0 pm kids).
  { unfold all_resolve. apply Forall_forall. intros k Hk. rewrite Forall_forall in H7. apply (wf_resolves pm PF k (H7 k Hk)).
    intros x Hx. apply COV. apply tree_nss_tag. right. right. exists k. split; assumption. }
  rewrite (render_root_toks E0 pm ns name attrs kids _ OR KR).
  destruct (wf_root_toks_ok pm PF URI ns name attrs kids HW0 HC COV) as [TO TA].
  exact (parse_render_root pm E0 ns name attrs kids OR KR TO TA).
Qed.
