(* C12 - the document level: what Document.__serialize / write / save / __str__ put around the
   serialization of the root tree, and what an XML reader does with it.  Definitions only; the
   facts are in Xml/DocFacts.v, the property statements in Props/C12.v.

   The serializer of the *root tree* (property C02/C03, Xml/Plain.v ...), the reader of an element
   and the codecs are NOT modelled here: every definition takes them as parameters
   (`ser_root`, `read_root`, `encode`, `decode`), the theorems state what they need from them.

   Mirrors, line by line:
     delb/__init__.py  Document.__serialize, write, save, __str__, root setter
     _delb/utils.py    _copy_root_siblings
     _delb/nodes.py    CommentNode.__str__, ProcessingInstructionNode.__str__,
                       _LengthTrackingWriter.__call__ (as far as document-level writes see it),
                       _TextBufferWriter / _StringWriter (newline translation of the text layer) *)
From Coq Require Import List NArith Bool.
From Delb.Base Require Import PyStr.
From Delb.Tree Require Import ATree Merge Encode.
Import ListNotations.
Open Scope N_scope.

(* ------------------------------------------------------------------------------------------ *)
(* documents *)

(* prologue / epilogue: the comments and processing instructions before / after the root, in
   document order (what iterating Document.prologue / Document.epilogue yields) *)
Record doc := { prologue : list node; root : node; epilogue : list node }.

Definition is_misc (n : node) : bool := match n with Comment _ | PI _ _ => true | _ => false end.
Definition is_comment (n : node) : bool := match n with Comment _ => true | _ => false end.
Definition is_pi (n : node) : bool := match n with PI _ _ => true | _ => false end.

(* ------------------------------------------------------------------------------------------ *)
(* literals *)

Definition CR : char := 13.
Definition L_COMMENT_OPEN : str := [60; 33; 45; 45].    (* <!-- *)
Definition L_COMMENT_CLOSE : str := [45; 45; 62].       (* --> *)
Definition L_PI_OPEN : str := [60; 63].                 (* <? *)
Definition L_PI_CLOSE : str := [63; 62].                (* ?> *)
Definition L_DECL_HEAD : str :=                         (* <?xml version=Q1.0Q encoding=Q  with Q the double quote *)
  [60; 63; 120; 109; 108; 32; 118; 101; 114; 115; 105; 111; 110; 61; 34; 49; 46; 48; 34; 32;
   101; 110; 99; 111; 100; 105; 110; 103; 61; 34].
Definition L_DECL_TAIL : str := [34; 63; 62].           (* Q?> *)
Definition L_XML : str := [60; 63; 120; 109; 108].      (* <?xml *)
Definition L_xml : str := [120; 109; 108].              (* xml *)
Definition L_VERSION : str := [118; 101; 114; 115; 105; 111; 110].        (* version *)
Definition L_ENCODING : str := [101; 110; 99; 111; 100; 105; 110; 103].   (* encoding *)

(* str.upper() / str.lower() on the ASCII range (encoding labels are ASCII: see label_ok) *)
Definition ascii_upper (c : char) : char := if ((97 <=? c) && (c <=? 122))%bool then c - 32 else c.
Definition ascii_lower (c : char) : char := if ((65 <=? c) && (c <=? 90))%bool then c + 32 else c.
Definition upper (s : str) : str := map ascii_upper s.
Definition lower (s : str) : str := map ascii_lower s.

(* ------------------------------------------------------------------------------------------ *)
(* serialization *)

(* str(node) of a comment / processing instruction:  f"<!--{content}-->",  f"<?{target} {content}?>"
   (the space is written even when the content is empty) *)
Definition misc_str (n : node) : str :=
  match n with
  | Comment c => L_COMMENT_OPEN ++ c ++ L_COMMENT_CLOSE
  | PI t c => L_PI_OPEN ++ t ++ [SP] ++ c ++ L_PI_CLOSE
  | _ => []                                   (* never a root sibling: excluded by doc_ok *)
  end.

(* _get_serializer: format_options None -> Serializer; width 0 -> PrettySerializer;
   width > 0 -> TextWrappingSerializer (a PrettySerializer whose writer is a _LengthTrackingWriter) *)
Inductive skind := KPlain | KPretty | KWrap.

Definition is_pretty (k : skind) : bool := match k with KPlain => false | _ => true end.
Definition kind_nat (k : skind) : nat := match k with KPlain => 0 | KPretty => 1 | KWrap => 2 end.

(* possible_newline = "\n" if isinstance(serializer, PrettySerializer) else "" *)
Definition pnl (k : skind) : str := match k with KPlain => [] | _ => [LF] end.

(* f'<?xml version="1.0" encoding="{encoding.upper()}"?>' *)
Definition decl_of (enc : str) : str := L_DECL_HEAD ++ upper enc ++ L_DECL_TAIL.

(* the sequence of `serializer.writer(...)` calls of Document.__serialize; `rootc` stands for
   everything serialize_root writes, `pro` / `epi` are the str() of the prologue / epilogue nodes:
       writer(decl + nl)
       for node in prologue: writer(str(node) + nl)
       serialize_root(root)
       if epilogue:
           writer(nl)
           for node in epilogue[:-1]: writer(str(node) + nl)
           writer(str(epilogue[-1])) *)
Definition doc_chunks (k : skind) (enc : str) (pro : list str) (rootc : str) (epi : list str) : list str :=
  (decl_of enc ++ pnl k) :: map (fun s => s ++ pnl k) pro ++ [rootc] ++
  (if null epi then []
   else pnl k :: map (fun s => s ++ pnl k) (removelast epi) ++ [last epi []]).

(* _LengthTrackingWriter.__call__ as document-level writes see it.  `at0` is `self.offset == 0`
   (after a write the offset is 0 exactly when the data written ends with "\n"); preserve_space is
   False outside the root.
       if not self.preserve_space and self.offset == 0: data = data.lstrip("\n")
       if not data: return
       ... offset bookkeeping ...; buffer.write(data) *)
Fixpoint lstrip_nl (s : str) : str :=
  match s with c :: r => if c =? LF then lstrip_nl r else s | [] => [] end.
Definition ends_nl (s : str) : bool := match rev s with c :: _ => c =? LF | [] => false end.
Definition ltw_call (at0 : bool) (data : str) : bool * str :=
  let data := if at0 then lstrip_nl data else data in
  if null data then (at0, []) else (ends_nl data, data).
Fixpoint ltw_write (at0 : bool) (chunks : list str) : str :=
  match chunks with
  | [] => []
  | c :: r => let '(a, o) := ltw_call at0 c in o ++ ltw_write a r
  end.
(* a fresh writer has offset 0 *)
Definition write_chunks (k : skind) (chunks : list str) : str :=
  match k with KWrap => ltw_write true chunks | _ => concat chunks end.

(* the character stream Document.__serialize produces (before newline translation and encoding) *)
Definition doc_serialize {fmt : Type} (kind_of : fmt -> skind) (ser_root : fmt -> node -> str)
           (enc : str) (fo : fmt) (d : doc) : str :=
  write_chunks (kind_of fo)
    (doc_chunks (kind_of fo) enc (map misc_str (prologue d)) (ser_root fo (root d)) (map misc_str (epilogue d))).

(* io.TextIOWrapper(newline=...) / io.StringIO(newline=...) on write: every "\n" becomes
   os.linesep (None; for StringIO: "\n"), stays (""; "\n"), or becomes the given string *)
Inductive newline := NlNone | NlEmpty | NlLF | NlCR | NlCRLF.
Definition nl_string (linesep : str) (nl : newline) : str :=
  match nl with NlNone => linesep | NlEmpty => [LF] | NlLF => [LF] | NlCR => [CR] | NlCRLF => [CR; LF] end.
Definition nl_out (linesep : str) (nl : newline) (s : str) : str :=
  flat_map (fun c => if c =? LF then nl_string linesep nl else [c]) s.

(* Document.write / save: the text layer's stream, handed to the codec.  None = UnicodeEncodeError *)
Definition doc_write {fmt bytes : Type} (kind_of : fmt -> skind) (ser_root : fmt -> node -> str)
           (encode : str -> str -> option bytes)
           (linesep : str) (enc : str) (nl : newline) (fo : fmt) (d : doc) : option bytes :=
  encode enc (nl_out linesep nl (doc_serialize kind_of ser_root enc fo d)).

(* Document.__str__: encoding "utf-8", a StringIO with DefaultStringOptions.newline *)
Definition L_UTF8 : str := [117; 116; 102; 45; 56].
Definition doc_str {fmt : Type} (kind_of : fmt -> skind) (ser_root : fmt -> node -> str)
           (nl : newline) (fo : fmt) (d : doc) : str :=
  nl_out [LF] nl (doc_serialize kind_of ser_root L_UTF8 fo d).

(* ------------------------------------------------------------------------------------------ *)
(* reading *)

Inductive res (A : Type) := Ok (a : A) | Err | OutOfFuel.
Arguments Ok {A} a.
Arguments Err {A}.
Arguments OutOfFuel {A}.
Definition map_res {A B} (f : A -> B) (r : res A) : res B :=
  match r with Ok a => Ok (f a) | Err => Err | OutOfFuel => OutOfFuel end.

(* XML 2.11: the reader translates "\r\n" and a lone "\r" to "\n" before parsing *)
Fixpoint nl_in (s : str) : str :=
  match s with
  | [] => []
  | c :: r =>
      if c =? CR then
        LF :: match r with
              | c2 :: r2 => if c2 =? LF then nl_in r2 else nl_in r
              | [] => []
              end
      else c :: nl_in r
  end.

(* XML's S *)
Definition is_xml_ws (c : char) : bool := ((c =? 32) || (c =? 9) || (c =? 10) || (c =? 13))%bool.
Fixpoint skip_ws (s : str) : str :=
  match s with c :: r => if is_xml_ws c then skip_ws r else s | [] => [] end.
Definition starts_ws (s : str) : bool := match s with c :: _ => is_xml_ws c | [] => false end.

(* Name characters of XML 1.0 (5th edition), without ":" - a namespace-aware reader wants an NCName
   as PI target, and so does lxml when a PI is created *)
Definition in_ranges (t : list (N * N)) (c : char) : bool :=
  existsb (fun r => ((fst r <=? c) && (c <=? snd r))%bool) t.
Definition name_start_ranges : list (N * N) :=
  [(65, 90); (95, 95); (97, 122); (192, 214); (216, 246); (248, 767); (880, 893); (895, 8191); (8204, 8205);
   (8304, 8591); (11264, 12271); (12289, 55295); (63744, 64975); (65008, 65533); (65536, 983039)].
Definition name_extra_ranges : list (N * N) := [(45, 46); (48, 57); (183, 183); (768, 879); (8255, 8256)].
Definition is_name_start (c : char) : bool := in_ranges name_start_ranges c.
Definition is_name_char (c : char) : bool := in_ranges (name_start_ranges ++ name_extra_ranges) c.
Definition name_ok (t : str) : bool :=
  match t with c :: _ => (is_name_start c && forallb is_name_char t)%bool | [] => false end.

Fixpoint span (p : char -> bool) (s : str) : str * str :=
  match s with
  | c :: r => if p c then let '(a, b) := span p r in (c :: a, b) else ([], s)
  | [] => ([], [])
  end.

(* everything before the first occurrence of the (non-empty) delimiter, and what follows it *)
Fixpoint read_until (d : str) (s : str) : option (str * str) :=
  if py_prefix d s then Some ([], skipn (length d) s)
  else match s with
       | [] => None
       | c :: r => match read_until d r with Some (a, b) => Some (c :: a, b) | None => None end
       end.

Definition expect (l s : str) : option str := if py_prefix l s then Some (skipn (length l) s) else None.

(* CommentNode._validate_content: no "--" inside, no "-" at the end (= XML's comment production) *)
Fixpoint comment_ok (c : str) : bool :=
  match c with
  | [] => true
  | x :: r => if x =? 45
              then (match r with [] => false | y :: _ => negb (y =? 45) end && comment_ok r)%bool
              else comment_ok r
  end.

(* after "<?": target, then either "?>" or whitespace and the content up to the first "?>" *)
Definition read_pi (s : str) : option (str * str * str) :=
  let '(t, r) := span is_name_char s in
  if negb (name_ok t) then None
  else if py_prefix L_PI_CLOSE r then Some (t, [], skipn 2 r)
  else if starts_ws r then
         match read_until L_PI_CLOSE (skip_ws r) with Some (c, r') => Some (t, c, r') | None => None end
  else None.

(* Misc*: comments, processing instructions and whitespace; stops (after whitespace) in front of
   anything else.  rc / rp = the parser options remove_comments / remove_pis.  Every round consumes
   at least two characters, so `S (length s)` is enough fuel (DocFacts.parse_misc_fuel). *)
Fixpoint parse_misc (rc rp : bool) (fuel : nat) (s : str) : res (list node * str) :=
  match fuel with
  | O => OutOfFuel
  | S f =>
      let s := skip_ws s in
      if py_prefix L_COMMENT_OPEN s then
        match read_until L_COMMENT_CLOSE (skipn 4 s) with
        | Some (c, r) =>
            if comment_ok c then
              match parse_misc rc rp f r with
              | Ok (l, r') => Ok (if rc then l else Comment c :: l, r')
              | e => e
              end
            else Err
        | None => Err
        end
      else if py_prefix L_PI_OPEN s then
        match read_pi (skipn 2 s) with
        | Some (t, c, r) =>
            if str_eqb (lower t) L_xml then Err            (* reserved target *)
            else match parse_misc rc rp f r with
                 | Ok (l, r') => Ok (if rp then l else PI t c :: l, r')
                 | e => e
                 end
        | None => Err
        end
      else Ok ([], s)
  end.

(* Eq ::= S? '=' S?      quoted value with either quote *)
Definition read_eq (s : str) : option str :=
  match skip_ws s with c :: r => if c =? 61 then Some (skip_ws r) else None | [] => None end.
Definition read_quoted (s : str) : option (str * str) :=
  match s with q :: r => if ((q =? 34) || (q =? 39))%bool then read_until [q] r else None | [] => None end.

(* VersionNum ::= '1.' [0-9]+ *)
Definition version_ok (v : str) : bool :=
  match v with
  | 49 :: 46 :: d :: r => forallb (fun c => ((48 <=? c) && (c <=? 57))%bool) (d :: r)
  | _ => false
  end.

(* XMLDecl ::= '<?xml' VersionInfo EncodingDecl? S? '?>'   (SDDecl is not modelled).
   Returns the declared encoding.  No declaration is not an error. *)
Definition parse_decl (s : str) : res (option str * str) :=
  match expect L_XML s with
  | None => Ok (None, s)
  | Some r0 =>
      if negb (starts_ws r0) then Ok (None, s)        (* e.g. <?xml-stylesheet ..?>: an ordinary PI *)
      else
        match expect L_VERSION (skip_ws r0) with
        | None => Err
        | Some r1 =>
            match read_eq r1 with
            | None => Err
            | Some r2 =>
                match read_quoted r2 with
                | None => Err
                | Some (v, r3) =>
                    if negb (version_ok v) then Err else
                    match expect L_ENCODING (skip_ws r3) with
                    | None => match expect L_PI_CLOSE (skip_ws r3) with
                              | Some r8 => Ok (None, r8)
                              | None => Err
                              end
                    | Some r5 =>
                        if negb (starts_ws r3) then Err
                        else match read_eq r5 with
                             | None => Err
                             | Some r6 =>
                                 match read_quoted r6 with
                                 | None => Err
                                 | Some (e, r7) =>
                                     match expect L_PI_CLOSE (skip_ws r7) with
                                     | Some r8 => Ok (Some e, r8)
                                     | None => Err
                                     end
                                 end
                             end
                    end
                end
            end
        end
  end.

(* document ::= XMLDecl? Misc* element Misc*     (no doctype) *)
Definition parse_doc_with (read_root : str -> option (node * str)) (rc rp : bool) (s : str)
  : res (option str * doc) :=
  match parse_decl s with
  | Ok (e, s1) =>
      match parse_misc rc rp (S (length s1)) s1 with
      | Ok (pro, s2) =>
          match read_root s2 with
          | Some (r, s3) =>
              match parse_misc rc rp (S (length s3)) s3 with
              | Ok (epi, s4) =>
                  if null s4 then Ok (e, {| prologue := pro; root := r; epilogue := epi |}) else Err
              | Err => Err
              | OutOfFuel => OutOfFuel
              end
          | None => Err
          end
      | Err => Err
      | OutOfFuel => OutOfFuel
      end
  | Err => Err
  | OutOfFuel => OutOfFuel
  end.
Definition parse_doc (read_root : str -> option (node * str)) : str -> res (option str * doc) :=
  parse_doc_with read_root false false.

(* reading back from bytes: the reader's decoder (BOM / declaration sniffing), line-end
   normalisation, parsing *)
Definition doc_read {bytes : Type} (read_root : str -> option (node * str)) (decode : bytes -> option str)
           (b : bytes) : res (option str * doc) :=
  match decode b with Some s => parse_doc read_root (nl_in s) | None => Err end.

(* ------------------------------------------------------------------------------------------ *)
(* the domain: what XML can hold in a comment / PI next to the root *)

Definition no_cr (s : str) : bool := forallb (fun c => negb (c =? CR)) s.
Definition pi_target_ok (t : str) : bool := (name_ok t && negb (str_eqb (lower t) L_xml))%bool.
Definition pi_content_ok (c : str) : bool := (negb (starts_ws c) && negb (py_contains c L_PI_CLOSE))%bool.
Definition misc_ok (n : node) : bool :=
  match n with
  | Comment c => (comment_ok c && no_cr c)%bool
  | PI t c => (pi_target_ok t && pi_content_ok c && no_cr c)%bool
  | _ => false
  end.
Definition doc_ok (d : doc) : bool := (forallb misc_ok (prologue d) && forallb misc_ok (epilogue d))%bool.

(* what the document level needs from the root's serialization: it starts with "<" followed by
   neither "!" nor "?", and ends with ">" *)
Definition root_shape (s : str) : bool :=
  match s with
  | 60 :: c :: _ => (negb (c =? 33) && negb (c =? 63) && match rev s with l :: _ => l =? 62 | [] => false end)%bool
  | _ => false
  end.

(* encoding labels: non-empty, ASCII letters, digits, "-", "_", "." *)
Definition is_label_char (c : char) : bool :=
  (((97 <=? c) && (c <=? 122)) || ((65 <=? c) && (c <=? 90)) || ((48 <=? c) && (c <=? 57))
   || (c =? 45) || (c =? 46) || (c =? 95))%bool.
Definition label_ok (enc : str) : bool := (negb (null enc) && forallb is_label_char enc)%bool.
(* two labels name the same encoding for the purposes of the declaration: case-insensitively equal *)
Definition label_eqb (a b : str) : bool := str_eqb (lower a) (lower b).

Definition norm_doc {fmt : Type} (norm : fmt -> node -> node) (fo : fmt) (d : doc) : doc :=
  {| prologue := prologue d; root := norm fo (root d); epilogue := epilogue d |}.

(* ------------------------------------------------------------------------------------------ *)
(* the root setter and _copy_root_siblings *)

(* at the lxml level a root element has its preceding and following siblings hanging on it; a
   `doc` value is read as "an element with its root-level siblings".
       stack = []; cur = source.getprevious()
       while cur is not None: stack.append(cur); cur = cur.getprevious()
       while stack: target.addprevious(copy(stack.pop()))
   and the same with getnext / addnext. *)
Definition stack_prev (pro : list node) : list node := rev pro.       (* nearest first *)
Definition stack_next (epi : list node) : list node := epi.           (* nearest first *)
Definition pop_order (stack : list node) : list node := rev stack.    (* list.pop() takes the last *)
Definition addprevious (x : node) (pre : list node) : list node := pre ++ [x].   (* directly before the target *)
Definition addnext (x : node) (post : list node) : list node := x :: post.      (* directly after the target *)
Fixpoint drain (f : node -> list node -> list node) (popped : list node) (acc : list node) : list node :=
  match popped with [] => acc | x :: r => drain f r (f x acc) end.
(* copy() of a comment / PI keeps its content *)
Definition copy_root_siblings (source target : doc) : doc :=
  {| prologue := drain addprevious (pop_order (stack_prev (prologue source))) (prologue target);
     root := root target;
     epilogue := drain addnext (pop_order (stack_next (epilogue source))) (epilogue target) |}.
(* Document.root = node.  `target` is the new root with whatever root-level siblings it already has
   (none for a detached or new node); `same` says that the node IS the current root (identity is not
   part of a content tree, so it is an input), in which case `target` is the document itself.
       if not isinstance(node, TagNode): raise TypeError          -> None
       ...
       if current_root is node: return                            (since e27f40b)
       _copy_root_siblings(current_root._etree_obj, node._etree_obj) *)
Definition set_root (same : bool) (d : doc) (target : doc) : option doc :=
  if negb (is_tag (root target)) then None
  else if same then Some d
  else Some (copy_root_siblings d target).
Definition loose (n : node) : doc := {| prologue := []; root := n; epilogue := [] |}.

(* ------------------------------------------------------------------------------------------ *)
(* ParserOptions(remove_comments, remove_processing_instructions) *)

Definition keep (rc rp : bool) (n : node) : bool :=
  match n with Comment _ => negb rc | PI _ _ => negb rp | _ => true end.
(* dropping a node between two text nodes makes the reader deliver one text node *)
Definition strip_items (rc rp : bool) (rec : node -> node) :=
  fix go (l : list node) : list node :=
    match l with
    | [] => []
    | k :: r => if keep rc rp k then rec k :: go r else go r
    end.
Fixpoint strip_node (rc rp : bool) (n : node) : node :=
  match n with
  | Tag ns name attrs kids =>
      Tag ns name attrs (merge_items (fun x => x) (strip_items rc rp (strip_node rc rp) kids))
  | _ => n
  end.
Definition strip_doc (rc rp : bool) (d : doc) : doc :=
  {| prologue := filter (keep rc rp) (prologue d);
     root := strip_node rc rp (root d);
     epilogue := filter (keep rc rp) (epilogue d) |}.
Fixpoint count_kind (p : node -> bool) (n : node) : nat :=
  match n with
  | Tag _ _ _ kids =>
      (fix go (l : list node) : nat := match l with [] => 0%nat | k :: r => (count_kind p k + go r)%nat end) kids
  | _ => if p n then 1%nat else 0%nat
  end.

(* ------------------------------------------------------------------------------------------ *)
(* a toy root layer: elements without content, `<name/>`.  Used to show that the hypotheses of
   the theorems are satisfiable, and by the check to run parse_doc against the real reader on
   documents whose root is such an element. *)
Definition toy_name (n : node) : str := match n with Tag _ name _ _ => name | _ => [120] end.
Definition toy_ser (_ : skind) (n : node) : str := [60] ++ toy_name n ++ [47; 62].
Definition toy_norm (_ : skind) (n : node) : node := Tag [] (toy_name n) [] [].
Definition toy_read (s : str) : option (node * str) :=
  match s with
  | 60 :: r =>
      let '(name, r') := span is_name_char r in
      if negb (name_ok name) then None
      else match r' with
           | 47 :: 62 :: r'' => Some (Tag [] name [] [], r'')
           | _ => None
           end
  | _ => None
  end.
Definition toy_root_ok (n : node) : bool :=
  match n with
  | Tag _ name _ _ => name_ok name
  | _ => false
  end.
(* toy codecs: "ascii" refuses everything from U+0080 on; the identity otherwise *)
Definition L_ASCII : str := [97; 115; 99; 105; 105].
Definition toy_encode (enc : str) (s : str) : option str :=
  if label_eqb enc L_ASCII then (if forallb (fun c => c <? 128) s then Some s else None) else Some s.
Definition toy_decode (b : str) : option str := Some b.

(* ------------------------------------------------------------------------------------------ *)
(* encodings for the check (harness/props/c12.py computes the same on its side) *)
Definition enc_doc (d : doc) : list N :=
  enc_list enc_node (prologue d) ++ enc_node (root d) ++ enc_list enc_node (epilogue d).
Definition enc_opt_str (o : option str) : list N := match o with Some s => 1 :: enc_str s | None => [0] end.
Definition enc_parse (r : res (option str * doc)) : list N :=
  match r with
  | Ok (e, d) => 1 :: enc_opt_str e ++ enc_doc d
  | Err => [0]
  | OutOfFuel => [2]
  end.
Definition enc_opt_doc (o : option doc) : list N := match o with Some d => 1 :: enc_doc d | None => [0] end.

(* observations evaluated by the check *)
Definition b2n (b : bool) : N := if b then 1 else 0.
(* the stream of write/save (ls = os.linesep) or of str() (ls = "\n"), the root's serialization given *)
Definition obs_serialize (k : skind) (enc ls : str) (nl : newline) (rootc : str) (d : doc) : list N :=
  [b2n (doc_ok d); b2n (root_shape rootc); b2n (no_cr rootc); b2n (label_ok enc)]
  ++ nl_out ls nl (doc_serialize (fun k => k) (fun _ _ => rootc) enc k d).
Definition obs_parse (rc rp : bool) (s : str) : list N := enc_parse (parse_doc_with toy_read rc rp (nl_in s)).
Definition obs_set_root (same : bool) (d tgt : doc) : list N := enc_opt_doc (set_root same d tgt).
Definition obs_strip (rc rp : bool) (d : doc) : list N := enc_doc (strip_doc rc rp d).
