(* C12 with the formatting serializers plugged in: the root layer of Xml/Doc.v instantiated with the
   chunk model of PrettySerializer (Ws/Pretty.v, width = 0) and TextWrappingSerializer (Ws/Wrap.v,
   width > 0), whose `render` projection is the byte-exact output of serialize_root and whose `seen`
   projection is the tree a re-parse sees (property C03/C18/C19).  Definitions only. *)
From Coq Require Import List NArith ZArith Bool.
From Delb.Base Require Import PyStr.
From Delb.Tree Require Import ATree Merge.
From Delb.Ws Require Import Reduce Pretty Wrap.
From Delb.Xml Require Doc.
Import ListNotations.

(* FormatOptions(align_attributes, indentation, width) with width = 0 / width > 0 *)
Inductive fmt_opts :=
| FPretty (ind : str) (align : bool)
| FWrap (ind : str) (align : bool) (width : Z).

Definition fmt_kind (fo : fmt_opts) : Doc.skind :=
  match fo with FPretty _ _ => Doc.KPretty | FWrap _ _ _ => Doc.KWrap end.

(* what serialize_root writes for the document root t, as a chunk tree *)
Definition fmt_chunk (fo : fmt_opts) (t : node) : chunk :=
  match fo with
  | FPretty ind align => pretty_chunk ind align t
  | FWrap ind align width => match wrap_real ind align width t [] with Some c => c | None => KRaw [] end
  end.
Definition ser_root_fmt (fo : fmt_opts) (t : node) : str := render (fmt_chunk fo t).
(* what a reader makes of it: the `seen` tree with adjacent character data merged *)
Definition norm_fmt (fo : fmt_opts) (t : node) : node := merge_tree (seen (fmt_chunk fo t)).

(* Document.reduce_whitespace / ParserOptions(reduce_whitespace=True): the root tree only *)
Definition reduce_doc (d : Doc.doc) : Doc.doc :=
  {| Doc.prologue := Doc.prologue d; Doc.root := reduce_model (Doc.root d); Doc.epilogue := Doc.epilogue d |}.
Definition reduce_read (r : Doc.res (option str * Doc.doc)) : Doc.res (option str * Doc.doc) :=
  Doc.map_res (fun x => (fst x, reduce_doc (snd x))) r.
