(* C12 with the plain serializer plugged in: the root layer of Xml/Doc.v instantiated with the model
   of Serializer.serialize_root (Xml/Plain.v) and the reference reader of C02 (Xml/Reader.v).
   Definitions only.

   Reader.parse reads a whole string; the document level needs "one element from the front of the
   string, and what follows it".  elem_extent finds where the element ends (with the reference
   lexer's lex_one and a depth counter), the reference reader then parses exactly that prefix. *)
From Coq Require Import List NArith Bool.
From Delb.Base Require Import PyStr.
From Delb.Tree Require Import ATree Merge.
From Delb.Ns Require Import Namespaces Prefixes.
From Delb.Xml Require Import Plain Reader.
From Delb.Xml Require Doc.
Import ListNotations.

Definition cons_tok (t : token) (x : option (list token * str)) : option (list token * str) :=
  match x with Some (l, r) => Some (t :: l, r) | None => None end.

(* tokens up to and including the end tag that closes the element we are in; d = elements opened since *)
Fixpoint lex_until_close (fuel d : nat) (s : str) : option (list token * str) :=
  match fuel with
  | O => None
  | S f =>
      match lex_one s with
      | None => None
      | Some (tok, r) =>
          match tok with
          | TEnd _ => match d with O => Some ([tok], r) | S d' => cons_tok tok (lex_until_close f d' r) end
          | TStart _ _ false => cons_tok tok (lex_until_close f (S d) r)
          | _ => cons_tok tok (lex_until_close f d r)
          end
      end
  end.

(* what follows the element at the front of s *)
Definition elem_extent (s : str) : option str :=
  match lex_one s with
  | Some (TStart _ _ true, r) => Some r
  | Some (TStart _ _ false, r) =>
      match lex_until_close (S (length r)) 0 r with Some (_, rest) => Some rest | None => None end
  | _ => None
  end.

Definition read_root_plain (s : str) : option (node * str) :=
  match elem_extent s with
  | Some rest =>
      match parse (firstn (length s - length rest) s) with
      | Some n => Some (n, rest)
      | None => None
      end
  | None => None
  end.

(* "format options" of the plain serializer: the caller's namespaces mapping and the per-node iteration
   order of namespace sets (hash dependent, an input of the model: see Ns/Prefixes.v) *)
Definition plain_fmt : Type := (caller_map * list (list str))%type.
Definition plain_kind (_ : plain_fmt) : Doc.skind := Doc.KPlain.
Definition ser_root_plain (fo : plain_fmt) (t : node) : str :=
  match serialize (fst fo) (snd fo) t with PyStr.Ok s => s | _ => [] end.
Definition norm_plain (_ : plain_fmt) (t : node) : node := merge_tree t.
