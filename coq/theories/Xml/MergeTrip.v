(* C02 (d): from clean trees to trees with adjacent text nodes.  Serialization does not see the difference
   between adjacent text nodes and their concatenation; an element whose only children are empty text nodes is
   the exception (it is written <r></r>, its merged form <r/>), so the statement is for trees without empty
   text nodes (`no_empty`). *)
From Coq Require Import Lia.
From Delb.Base Require Import PyStr PyStrFacts PyDict PyDictFacts.
From Delb.Gen Require Import GenNames GenNs.
From Delb.Tree Require Import ATree Merge MergeFacts.
From Delb.Ns Require Import Namespaces NamespacesFacts Prefixes PrefixFacts.
From Delb.Xml Require Import Plain PlainFacts Reader Tokens RoundTrip NsResolve.

Definition nonempty_texts (l : list node) : bool := forallb (fun k => negb (is_empty_text k)) l.

Lemma escape_text_app a b : escape_text (a ++ b) = escape_text a ++ escape_text b.
Proof. unfold escape_text, py_translate. apply flat_map_app. Qed.

Lemma M_nonempty l : nonempty_texts l = true -> nonempty_texts (M l) = true /\ null (M l) = null l.
Proof.
  induction l as [|x r IH]; [intros _; split; reflexivity|]. unfold nonempty_texts. cbn [forallb]. intros H.
  apply andb_prop in H. destruct H as [Hx Hr]. destruct (IH Hr) as [I1 I2].
  destruct (is_text x) eqn:Ex.
  - destruct x as [|s| |]; try discriminate. rewrite M_cons_text.
    destruct (M r) as [|y r'] eqn:EM; [split; [cbn [forallb]; rewrite Hx; reflexivity | reflexivity]|].
    destruct y as [ns name attrs kids|s'|s'|t c]; (split; [|reflexivity]); cbn [forallb]; unfold nonempty_texts in I1; cbn [forallb] in I1;
      try (rewrite Hx; exact I1).
    apply andb_prop in I1. destruct I1 as [_ I1]. rewrite I1. destruct s; [discriminate Hx | reflexivity].
  - rewrite M_cons_nontext by exact Ex. split; [|reflexivity]. cbn [forallb]. unfold nonempty_texts in I1. rewrite I1.
    destruct x; try discriminate; reflexivity.
Qed.

Section Render.
  Variable pm : pmap.
  Lemma render_kids_M l :
    Forall (fun k => render_node pm (merge_tree k) = render_node pm k) l -> render_kids pm (M l) = render_kids pm l.
  Proof.
    induction 1 as [|x r Hx _ IH]; [reflexivity|].
    destruct (is_text x) eqn:Ex.
    - destruct x as [|s| |]; try discriminate. rewrite M_cons_text. cbn [render_kids flat_map]. fold (render_kids pm r).
      rewrite <- IH. destruct (M r) as [|y r'] eqn:EM; [reflexivity|].
      destruct y as [ns name attrs kids|s'|s'|t c]; try reflexivity.
      cbn [render_kids flat_map render_node]. rewrite escape_text_app, <- app_assoc. reflexivity.
    - rewrite M_cons_nontext by exact Ex. cbn [render_kids flat_map]. fold (render_kids pm (M r)) (render_kids pm r).
      rewrite Hx, IH. reflexivity.
  Qed.
  Lemma render_kids_fix l :
    (fix go (l : list node) : str := match l with [] => [] | k :: r => render_node pm k ++ go r end) l = render_kids pm l.
  Proof. induction l as [|k r IH]; [reflexivity|]. cbn [render_kids flat_map]. rewrite IH. reflexivity. Qed.

  Lemma render_node_merge n : no_empty n = true -> render_node pm (merge_tree n) = render_node pm n.
  Proof.
    induction n as [ns name attrs kids IHk|s|s|t c] using node_ind'; intros HN; try reflexivity.
    cbn [no_empty] in HN. cbn [merge_tree render_node]. rewrite !render_kids_fix.
    assert (NE : nonempty_texts kids = true).
    { unfold nonempty_texts. apply forallb_forall. intros k Hk. rewrite forallb_forall in HN. specialize (HN k Hk).
      apply andb_prop in HN. destruct HN as [HN _]. exact HN. }
    destruct (M_nonempty kids NE) as [N1 N2]. rewrite (drop_empty_id _ N1). rewrite N2.
    rewrite render_kids_M; [reflexivity|]. apply Forall_forall. intros k Hk. rewrite Forall_forall in IHk.
    apply (IHk k Hk). rewrite forallb_forall in HN. specialize (HN k Hk). apply andb_prop in HN. destruct HN as [_ HN]. exact HN.
  Qed.
  Lemma render_root_merge t : no_empty t = true -> render_root pm (merge_tree t) = render_root pm t.
  Proof.
    destruct t as [ns name attrs kids|s|s|tg c]; intros HN; try reflexivity.
    cbn [no_empty] in HN. cbn [merge_tree render_root].
    assert (NE : nonempty_texts kids = true).
    { unfold nonempty_texts. apply forallb_forall. intros k Hk. rewrite forallb_forall in HN. specialize (HN k Hk).
      apply andb_prop in HN. destruct HN as [HN _]. exact HN. }
    destruct (M_nonempty kids NE) as [N1 N2]. rewrite (drop_empty_id _ N1). rewrite N2.
    rewrite render_kids_M; [reflexivity|]. apply Forall_forall. intros k Hk. apply render_node_merge.
    rewrite forallb_forall in HN. specialize (HN k Hk). apply andb_prop in HN. destruct HN as [_ HN]. exact HN.
  Qed.
End Render.

(* the breadth-first sequence of tag nodes does not see text nodes *)
Notation levels_go := (fix go (l : list node) : list (list node_nss) :=
                         match l with [] => [] | k :: r => zip_app (levels k) (go r) end).
Lemma levels_go_M l : Forall (fun k => levels (merge_tree k) = levels k) l -> levels_go (M l) = levels_go l.
Proof.
  induction 1 as [|x r Hx _ IH]; [reflexivity|].
  destruct (is_text x) eqn:Ex.
  - destruct x as [|s| |]; try discriminate. rewrite M_cons_text. cbn [levels zip_app]. rewrite <- IH.
    destruct (M r) as [|y r'] eqn:EM; [reflexivity|]. destruct y; reflexivity.
  - rewrite M_cons_nontext by exact Ex. cbn. rewrite Hx, IH. reflexivity.
Qed.
Lemma levels_go_drop l : levels_go (drop_empty l) = levels_go l.
Proof.
  induction l as [|x r IH]; [reflexivity|]. unfold drop_empty. cbn [filter].
  destruct (negb (is_empty_text x)) eqn:E; fold (drop_empty r).
  - cbn. rewrite IH. reflexivity.
  - destruct x as [| [|] | |]; try discriminate. cbn [levels zip_app]. exact IH.
Qed.
Lemma levels_merge n : levels (merge_tree n) = levels n.
Proof.
  induction n as [ns name attrs kids IHk|s|s|t c] using node_ind'; try reflexivity.
  cbn [merge_tree levels]. f_equal. rewrite levels_go_drop. apply levels_go_M. exact IHk.
Qed.

(* well-formedness is preserved *)
Lemma wf_M l : Forall wf_node l -> Forall (fun k => wf_node k -> wf_node (merge_tree k)) l -> Forall wf_node (M l).
Proof.
  intros HW HI. induction l as [|x r IH]; [constructor|].
  inversion HW as [|? ? Wx Wr]; subst. inversion HI as [|? ? Ix Ir]; subst. specialize (IH Wr Ir).
  destruct (is_text x) eqn:Ex.
  - destruct x as [|s| |]; try discriminate. rewrite M_cons_text.
    destruct (M r) as [|y r'] eqn:EM; [constructor; [exact Wx | constructor]|].
    destruct y as [ns name attrs kids|s'|s'|t c]; try (constructor; [exact Wx | exact IH]).
    inversion IH as [|? ? Wy Wr']; subst. constructor; [|exact Wr']. cbn [wf_node] in *. apply Forall_app. split; assumption.
  - rewrite M_cons_nontext by exact Ex. constructor; [apply Ix; exact Wx | exact IH].
Qed.
Lemma wf_merge n : wf_node n -> wf_node (merge_tree n).
Proof.
  induction n as [ns name attrs kids IHk|s|s|t c] using node_ind'; intros HW; try exact HW.
  cbn [wf_node] in HW. destruct HW as [H1 [H2 [H3 [H4 [H5 [H6 H7]]]]]]. apply wf_fix in H7.
  cbn [merge_tree wf_node]. repeat (split; [assumption|]). apply wf_fix.
  pose proof (wf_M kids H7 IHk) as HM. apply Forall_forall. intros k Hk. unfold drop_empty in Hk. apply filter_In in Hk.
  destruct Hk as [Hk _]. rewrite Forall_forall in HM. exact (HM k Hk).
Qed.

Theorem roundtrip t caller ord :
  wf_tree t -> no_empty t = true -> valid_caller caller -> caller_prefixes_ncname caller ->
  order_ok (bfs_of t) ord -> (N.of_nat (n_namespaces t + length caller + 17) < 2 ^ 16)%N ->
  reparse (serialize caller ord t) = Some (merge_tree t).
Proof.
  intros [HT HW] HN HV CN HO HB.
  assert (EL : bfs_of (merge_tree t) = bfs_of t) by (unfold bfs_of; rewrite levels_merge; reflexivity).
  assert (ES : serialize caller ord (merge_tree t) = serialize caller ord t).
  { unfold serialize. replace (root_ns_of (merge_tree t)) with (root_ns_of t) by (destruct t; reflexivity).
    destruct (collect caller (root_ns_of t) ord) as [pm| | |]; cbn [bind]; try reflexivity.
    rewrite render_root_merge by exact HN. reflexivity. }
  rewrite <- ES. rewrite <- (merge_id (merge_tree t) (merge_clean t)) at 2.
  apply roundtrip_clean.
  - split; [destruct t; try discriminate; reflexivity | apply wf_merge; exact HW].
  - apply merge_clean.
  - exact HV.
  - exact CN.
  - rewrite EL. exact HO.
  - unfold n_namespaces, tree_nss. rewrite EL. exact HB.
Qed.
