(* A reference XML reader for the sublanguage the serializers emit (and a little more, so that it can be
   compared with libxml2 on mutated input): start / empty-element / end tags, attributes in either quote,
   white space inside tags, the five predefined entities and numeric character references, comments,
   processing instructions, CDATA sections, line-end and attribute-value normalisation, namespace
   declarations resolved to expanded names while descending.  Not supported (rejected): XML declaration,
   DOCTYPE, entity declarations.  Definitions only.

   Two layers: `lex` turns the character stream into tokens (fuel = length of the input + 1, every token
   consumes at least one character), `read_kids` is the recursive descent over tokens that builds the tree and
   resolves names against the namespace environment of the element being read (fuel = number of tokens + 1).

   Names are *presented* as delb presents them: an un-prefixed attribute gets the default namespace in scope
   (DESIGN.md section 3, "Namespaces as delb presents them"); for elements this is XML's own rule. *)
From Delb.Base Require Import PyStr PyDict.
From Delb.Gen Require Import GenNames.
From Delb.Tree Require Import ATree Merge.
From Delb.Ns Require Import Prefixes.
From Delb.Xml Require Import Plain.

Definition TAB : char := 9%N.
Definition CR : char := 13%N.
Definition HASH : char := 35%N.
Definition LBRACK : char := 91%N.
Definition RBRACK : char := 93%N.

Local Open Scope N_scope.
Definition between (lo hi c : N) : bool := ((lo <=? c) && (c <=? hi))%bool.
Definition is_xml_ws (c : char) : bool := ((c =? 32) || (c =? 9) || (c =? 10) || (c =? 13))%bool.
(* XML 1.0 (5th edition) productions [2], [4], [4a] *)
Definition is_xml_char (c : char) : bool :=
  ((c =? 9) || (c =? 10) || (c =? 13) || between 32 55295 c || between 57344 65533 c || between 65536 1114111 c)%bool.
Definition is_name_start (c : char) : bool :=
  ((c =? 58) || between 65 90 c || (c =? 95) || between 97 122 c || between 192 214 c || between 216 246 c
   || between 248 767 c || between 880 893 c || between 895 8191 c || between 8204 8205 c || between 8304 8591 c
   || between 11264 12271 c || between 12289 55295 c || between 63744 64975 c || between 65008 65533 c
   || between 65536 983039 c)%bool.
Definition is_name_char (c : char) : bool :=
  (is_name_start c || (c =? 45) || (c =? 46) || between 48 57 c || (c =? 183) || between 768 879 c
   || between 8255 8256 c)%bool.
Definition is_hex (c : char) : bool := (between 48 57 c || between 65 70 c || between 97 102 c)%bool.
Definition hex_digit (c : char) : N :=
  if between 48 57 c then c - 48 else if between 65 70 c then c - 55 else c - 87.
Definition dec_value (ds : str) : N := fold_left (fun acc c => acc * 10 + (c - 48)) ds 0.
Definition hex_value (ds : str) : N := fold_left (fun acc c => acc * 16 + hex_digit c) ds 0.
Local Close Scope N_scope.

Fixpoint span (p : char -> bool) (s : str) : str * str :=
  match s with
  | [] => ([], [])
  | c :: r => if p c then let '(a, b) := span p r in (c :: a, b) else ([], s)
  end.
Fixpoint skip_ws (s : str) : str :=
  match s with c :: r => if is_xml_ws c then skip_ws r else s | [] => [] end.

(* an XML Name (may contain colons) / an NCName *)
Definition is_name (s : str) : bool :=
  match s with c :: r => (is_name_start c && forallb is_name_char r)%bool | [] => false end.
Definition is_ncname (s : str) : bool := (is_name s && negb (existsb (N.eqb COLON) s))%bool.

(* ---- references and the normalisations of character data ------------------------------------------ *)
Definition named_entities : list (str * char) :=
  [([97; 109; 112]%N, AMP); ([108; 116]%N, LT); ([103; 116]%N, GT); ([113; 117; 111; 116]%N, QUOT);
   ([97; 112; 111; 115]%N, APOS)].
Fixpoint find_entity (l : list (str * char)) (r : str) : option (char * nat) :=
  match l with
  | [] => None
  | (name, c) :: l' => if py_prefix (name ++ [SEMI]) r then Some (c, S (length name)) else find_entity l' r
  end.
(* what follows '&': the character denoted and the number of characters the reference occupies after '&' *)
Definition read_reference (r : str) : option (char * nat) :=
  match r with
  | 35%N :: 120%N :: r' =>
      let '(ds, r'') := span is_hex r' in
      match ds, r'' with
      | _ :: _, 59%N :: _ => let v := hex_value ds in if is_xml_char v then Some (v, length ds + 3) else None
      | _, _ => None
      end
  | 35%N :: r' =>
      let '(ds, r'') := span is_digit r' in
      match ds, r'' with
      | _ :: _, 59%N :: _ => let v := dec_value ds in if is_xml_char v then Some (v, length ds + 2) else None
      | _, _ => None
      end
  | _ => find_entity named_entities r
  end.
(* structurally recursive: after a reference has been recognised its characters are skipped.
   attr = true: attribute-value normalisation (literal TAB / LF / CR become a space);
   always: line ends (CR LF and lone CR become LF).  '<' and non-Char code points are errors. *)
Fixpoint unesc (attr : bool) (skip : nat) (s : str) : option str :=
  match s with
  | [] => match skip with O => Some [] | S _ => None end
  | c :: r =>
      match skip with
      | S k => unesc attr k r
      | O =>
          if N.eqb c AMP then
            match read_reference r with
            | Some (v, n) => option_map (cons v) (unesc attr n r)
            | None => None
            end
          else if N.eqb c LT then None
          else if negb (is_xml_char c) then None
          else if N.eqb c CR then
            match r with
            | 10%N :: _ => unesc attr 0 r
            | _ => option_map (cons (if attr then SP else LF)) (unesc attr 0 r)
            end
          else if (attr && (N.eqb c TAB || N.eqb c LF))%bool then option_map (cons SP) (unesc attr 0 r)
          else option_map (cons c) (unesc attr 0 r)
      end
  end.
Definition unescape (attr : bool) (s : str) : option str := unesc attr 0 s.

(* ---- tokens ------------------------------------------------------------------------------------------ *)
Inductive token :=
| TStart (name : str) (attrs : list (str * str)) (empty : bool)     (* raw qualified names, unescaped values *)
| TEnd (name : str)
| TText (s : str)
| TComment (s : str)
| TPI (target content : str).

(* first occurrence of the two-character sequence a b: text before it and what follows it *)
Definition starts2 (a b : char) (s : str) : bool :=
  match s with x :: y :: _ => (N.eqb x a && N.eqb y b)%bool | _ => false end.
Fixpoint split_at2 (a b : char) (s : str) : option (str * str) :=
  match s with
  | [] => None
  | c :: r => if starts2 a b s then Some ([], tl r)
              else match split_at2 a b r with Some (x, y) => Some (c :: x, y) | None => None end
  end.
Definition split_dashes : str -> option (str * str) := split_at2 DASH DASH.
Definition split_pi_end : str -> option (str * str) := split_at2 QM GT.
Fixpoint split_cdata_end (s : str) : option (str * str) :=
  match s with
  | 93%N :: ((93%N :: 62%N :: r) as r0) => Some ([], r)
  | c :: r => match split_cdata_end r with Some (a, b) => Some (c :: a, b) | None => None end
  | [] => None
  end.
Definition CDATA_END : str := [93; 93; 62]%N.
(* literal character data without references (CDATA sections, comments, PIs): Char check and line ends *)
Fixpoint cdata_norm (s : str) : option str :=
  match s with
  | [] => Some []
  | c :: r =>
      if negb (is_xml_char c) then None
      else if N.eqb c CR then
        match r with
        | 10%N :: _ => cdata_norm r
        | _ => option_map (cons LF) (cdata_norm r)
        end
      else option_map (cons c) (cdata_norm r)
  end.
Definition lower (c : char) : char := if between 65 90 c then (c + 32)%N else c.
Definition is_xml_target (t : str) : bool := str_eqb (map lower t) XML_.

(* the attribute list of a start tag up to and including its '>' or '/>' *)
Definition EMPTY_CLOSE : str := [SLASH; GT].
Definition lex_attr_value (s : str) : option (str * str) :=       (* s starts at the opening quote *)
  match s with
  | q :: r3 =>
      if (N.eqb q QUOT || N.eqb q APOS)%bool then
        let '(raw, r4) := span (fun c => negb (N.eqb c q)) r3 in
        match r4, unescape true raw with
        | _ :: r5, Some v => Some (v, r5)
        | _, _ => None
        end
      else None
  | [] => None
  end.
Fixpoint lex_attrs (fuel : nat) (s : str) : option (list (str * str) * bool * str) :=
  match fuel with
  | O => None
  | S f =>
      if py_prefix EMPTY_CLOSE s then Some ([], true, skipn 2 s)
      else if py_prefix [GT] s then Some ([], false, skipn 1 s)
      else match s with
      | c :: r =>
          if is_xml_ws c then
            let s1 := skip_ws r in
            if py_prefix EMPTY_CLOSE s1 then Some ([], true, skipn 2 s1)
            else if py_prefix [GT] s1 then Some ([], false, skipn 1 s1)
            else
              let '(k, r1) := span is_name_char s1 in
              if is_name k then
                let r1' := skip_ws r1 in
                if py_prefix [EQ] r1' then
                  match lex_attr_value (skip_ws (skipn 1 r1')) with
                  | Some (v, r5) =>
                      match lex_attrs f r5 with
                      | Some (attrs, e, rest) => Some ((k, v) :: attrs, e, rest)
                      | None => None
                      end
                  | None => None
                  end
                else None
              else None
          else None
      | [] => None
      end
  end.

Definition COMMENT_OPEN : str := [LT; BANG; DASH; DASH].
Definition CDATA_OPEN : str := [60; 33; 91; 67; 68; 65; 84; 65; 91]%N.
Definition PI_OPEN : str := [LT; QM].
Definition PI_CLOSE : str := [QM; GT].
Definition END_OPEN : str := [LT; SLASH].

Definition lex_comment (r : str) : option (token * str) :=
  match split_dashes r with
  | Some (body, r1) =>
      if py_prefix [GT] r1 then
        match cdata_norm body with Some b => Some (TComment b, skipn 1 r1) | None => None end
      else None
  | None => None
  end.
Definition lex_cdata (r : str) : option (token * str) :=
  match split_cdata_end r with
  | Some (body, r') => match cdata_norm body with Some b => Some (TText b, r') | None => None end
  | None => None
  end.
Definition lex_pi (r : str) : option (token * str) :=
  let '(t, r1) := span is_name_char r in
  if (is_name t && negb (is_xml_target t))%bool then
    if py_prefix PI_CLOSE r1 then Some (TPI t [], skipn 2 r1)
    else match r1 with
         | c :: r2 =>
             if is_xml_ws c then
               match split_pi_end (skip_ws r2) with
               | Some (body, r') => match cdata_norm body with Some b => Some (TPI t b, r') | None => None end
               | None => None
               end
             else None
         | [] => None
         end
  else None.
Definition lex_end (r : str) : option (token * str) :=
  let '(n, r1) := span is_name_char r in
  if is_name n then
    let r1' := skip_ws r1 in
    if py_prefix [GT] r1' then Some (TEnd n, skipn 1 r1') else None
  else None.
Definition lex_start (r : str) : option (token * str) :=
  let '(n, r1) := span is_name_char r in
  if is_name n then
    match lex_attrs (S (length r1)) r1 with
    | Some (attrs, e, rest) => Some (TStart n attrs e, rest)
    | None => None
    end
  else None.
Definition lex_text (s : str) : option (token * str) :=
  let '(txt, r1) := span (fun c => negb (N.eqb c LT)) s in
  if py_contains txt CDATA_END then None
  else match unescape false txt with Some t => Some (TText t, r1) | None => None end.

(* one token from a non-empty input *)
Definition lex_one (s : str) : option (token * str) :=
  if py_prefix COMMENT_OPEN s then lex_comment (skipn 4 s)
  else if py_prefix CDATA_OPEN s then lex_cdata (skipn 9 s)
  else if py_prefix PI_OPEN s then lex_pi (skipn 2 s)
  else if py_prefix END_OPEN s then lex_end (skipn 2 s)
  else if py_prefix [LT] s then lex_start (skipn 1 s)
  else lex_text s.

Fixpoint lex (fuel : nat) (s : str) : option (list token) :=
  match fuel with
  | O => None
  | S f =>
      match s with
      | [] => Some []
      | _ => match lex_one s with
             | Some (tok, rest) => option_map (cons tok) (lex f rest)
             | None => None
             end
      end
  end.

(* ---- names and namespaces ------------------------------------------------------------------------------ *)
Definition env := dict str.             (* prefix -> namespace; "" is the default namespace; first match wins *)
Definition initial_env : env := [(XML_, xml_ns); ([], [])].

(* prefix and local part of a qualified name: both NCNames *)
Definition split_qname (q : str) : option (str * str) :=
  let '(a, b) := span (fun c => negb (N.eqb c COLON)) q in
  match b with
  | [] => if is_ncname a then Some ([], a) else None
  | _ :: local => if (is_ncname a && is_ncname local)%bool then Some (a, local) else None
  end.
(* un-prefixed names get the default namespace in scope: XML's rule for elements, delb's presentation for
   attributes *)
Definition resolve_name (e : env) (q : str) : option (str * str) :=
  match split_qname q with
  | Some (p, local) => match dict_get p e with Some ns => Some (ns, local) | None => None end
  | None => None
  end.

Definition XMLNS_COLON : str := XMLNS_ ++ [COLON].
(* the declarations among the attributes of a start tag extend the environment; the others are kept *)
Fixpoint process_decls (attrs : list (str * str)) (e : env) : option (env * list (str * str)) :=
  match attrs with
  | [] => Some (e, [])
  | (k, v) :: r =>
      if str_eqb k XMLNS_ then
        if (str_eqb v xml_ns || str_eqb v xmlns_ns)%bool then None
        else match process_decls r e with Some (e', o) => Some (([], v) :: e', o) | None => None end
      else if py_startswith k XMLNS_COLON then
        let p := skipn (length XMLNS_COLON) k in
        if (is_ncname p && negb (null v) && negb (str_eqb p XMLNS_) && negb (str_eqb v xmlns_ns)
            && Bool.eqb (str_eqb p XML_) (str_eqb v xml_ns))%bool
        then match process_decls r e with Some (e', o) => Some ((p, v) :: e', o) | None => None end
        else None
      else match process_decls r e with Some (e', o) => Some (e', (k, v) :: o) | None => None end
  end.
Fixpoint resolve_attrs (e : env) (attrs : list (str * str)) : option (list attr) :=
  match attrs with
  | [] => Some []
  | (k, v) :: r =>
      match resolve_name e k, resolve_attrs e r with
      | Some (ns, local), Some ras => Some ((ns, local, v) :: ras)
      | _, _ => None
      end
  end.
Fixpoint nodup_keys (l : list attr) : bool :=
  match l with
  | [] => true
  | (ns, local, _) :: r =>
      (negb (existsb (fun a => let '(n, k, _) := a in (str_eqb n ns && str_eqb k local)%bool) r) && nodup_keys r)%bool
  end.
Fixpoint nodup_raw (l : list str) : bool :=
  match l with [] => true | x :: r => (negb (py_in_str x r) && nodup_raw r)%bool end.

(* environment of the element's content, its expanded name, its attributes with expanded names *)
Definition open_element (e : env) (q : str) (attrs : list (str * str)) : option (env * str * str * list attr) :=
  if nodup_raw (map fst attrs) then
    match process_decls attrs e with
    | Some (e', ordinary) =>
        match resolve_name e' q, resolve_attrs e' ordinary with
        | Some (ns, local), Some ras => if nodup_keys ras then Some (e', ns, local, ras) else None
        | _, _ => None
        end
    | None => None
    end
  else None.

(* ---- recursive descent over the tokens ------------------------------------------------------------------ *)
Definition cons_kid (k : node) (r : option (list node * list token)) : option (list node * list token) :=
  match r with Some (ks, rest) => Some (k :: ks, rest) | None => None end.
Fixpoint read_kids (fuel : nat) (e : env) (toks : list token) : option (list node * list token) :=
  match fuel with
  | O => None
  | S f =>
      match toks with
      | [] => Some ([], [])
      | TEnd _ :: _ => Some ([], toks)
      | TText s :: r => cons_kid (Text s) (read_kids f e r)
      | TComment s :: r => cons_kid (Comment s) (read_kids f e r)
      | TPI t c :: r => cons_kid (PI t c) (read_kids f e r)
      | TStart q attrs empty :: r =>
          match open_element e q attrs with
          | None => None
          | Some (e', ns, local, ras) =>
              if empty then cons_kid (Tag ns local ras []) (read_kids f e r)
              else match read_kids f e' r with
                   | Some (kids, TEnd q' :: r') =>
                       if str_eqb q q' then cons_kid (Tag ns local ras kids) (read_kids f e r') else None
                   | _ => None
                   end
          end
      end
  end.

(* a document: one element, around it only comments, PIs and white space *)
Definition is_ws_text (n : node) : bool := match n with Text s => forallb is_xml_ws s | _ => false end.
Definition is_misc (n : node) : bool :=
  match n with Comment _ | PI _ _ => true | Text _ => is_ws_text n | Tag _ _ _ _ => false end.
Definition pick_root (l : list node) : option node :=
  match filter is_tag l with
  | [root] => if forallb (fun n => (is_tag n || is_misc n)%bool) l then Some root else None
  | _ => None
  end.

(* adjacent character data (text next to a CDATA section) is one text node, as in any XML tree model *)
Definition parse (s : str) : option node :=
  match lex (S (length s)) s with
  | Some toks =>
      match read_kids (S (length toks)) initial_env toks with
      | Some (nodes, []) => option_map merge_tree (pick_root nodes)
      | _ => None
      end
  | None => None
  end.

From Delb.Tree Require Import Encode.
Definition enc_opt_node (o : option node) : list N := match o with Some n => 1%N :: enc_node n | None => [0%N] end.

(* what a reader makes of the result of a serialization *)
Definition reparse (r : res str) : option node := match r with Ok s => parse s | _ => None end.
