(* C12 - facts about the document-level model of Xml/Doc.v. *)
From Coq Require Import List NArith Bool Lia.
From Delb.Base Require Import PyStr PyStrFacts.
From Delb.Tree Require Import ATree Merge.
From Delb.Xml Require Import Doc.
Import ListNotations.
Open Scope N_scope.

(* ------------------------------------------------------------------------------------------ *)
(* small string facts *)

Lemma py_prefix_app p r : py_prefix p (p ++ r) = true.
Proof. induction p as [|a p IH]; cbn; [reflexivity|]. rewrite N.eqb_refl, IH. reflexivity. Qed.

Lemma skipn_app_exact {A} (p r : list A) : skipn (length p) (p ++ r) = r.
Proof. induction p; cbn; auto. Qed.

Lemma skip_ws_le s : (length (skip_ws s) <= length s)%nat.
Proof. induction s as [|c r IH]; cbn; [lia|]. destruct (is_xml_ws c); cbn; lia. Qed.

Definition all_xml_ws (w : str) : Prop := forallb is_xml_ws w = true.

Lemma skip_ws_app w s : all_xml_ws w -> skip_ws (w ++ s) = skip_ws s.
Proof.
  unfold all_xml_ws. induction w as [|c w IH]; cbn; intros H; [reflexivity|].
  apply andb_true_iff in H. destruct H as [Hc Hw]. rewrite Hc. auto.
Qed.

Lemma skip_ws_id s : starts_ws s = false -> skip_ws s = s.
Proof. destruct s as [|c r]; cbn; [reflexivity|]. intros H. rewrite H. reflexivity. Qed.

Lemma span_app p t r :
  forallb p t = true -> match r with c :: _ => p c = false | [] => True end ->
  span p (t ++ r) = (t, r).
Proof.
  induction t as [|c t IH]; cbn; intros Ht Hr.
  - destruct r as [|c r]; cbn; [reflexivity|]. rewrite Hr. reflexivity.
  - apply andb_true_iff in Ht. destruct Ht as [Hc Ht]. rewrite Hc, IH; auto.
Qed.

Lemma span_len p s a r : span p s = (a, r) -> (length r <= length s)%nat.
Proof.
  revert a r. induction s as [|c s IH]; cbn; intros a r H.
  - inversion H. cbn. lia.
  - destruct (p c).
    + destruct (span p s) as [a' b'] eqn:E. inversion H. subst. specialize (IH _ _ eq_refl). lia.
    + inversion H. cbn. lia.
Qed.

Lemma read_until_len d s a r : read_until d s = Some (a, r) -> (length r <= length s)%nat.
Proof.
  revert a r. induction s as [|c s IH]; intros a r H.
  - cbn in H. destruct (py_prefix d []); [|discriminate]. inversion H. rewrite skipn_nil. cbn. lia.
  - cbn [read_until] in H. destruct (py_prefix d (c :: s)).
    + inversion H. pose proof (skipn_length (length d) (c :: s)). lia.
    + destruct (read_until d s) as [[a' b']|] eqn:E; [|discriminate]. inversion H. subst.
      specialize (IH _ _ eq_refl). cbn. lia.
Qed.

(* reading up to a delimiter that first occurs right after `body` *)
Lemma read_until_app d body rest :
  (forall i, (i < length body)%nat -> py_prefix d (skipn i body ++ d ++ rest) = false) ->
  read_until d (body ++ d ++ rest) = Some (body, rest).
Proof.
  induction body as [|c body IH]; intros H.
  - cbn [app]. destruct (d ++ rest) eqn:E; cbn [read_until]; rewrite <- ?E, py_prefix_app, skipn_app_exact; reflexivity.
  - cbn [app read_until]. pose proof (H 0%nat ltac:(cbn; lia)) as H0. cbn in H0. rewrite H0.
    rewrite IH; [reflexivity|]. intros i Hi. apply (H (S i)). cbn. lia.
Qed.

(* a comment's content is read back: no "--" inside, no "-" at the end *)
Lemma read_until_comment c rest :
  comment_ok c = true -> read_until L_COMMENT_CLOSE (c ++ L_COMMENT_CLOSE ++ rest) = Some (c, rest).
Proof.
  induction c as [|x c IH]; intros H.
  - reflexivity.
  - cbn [app read_until]. cbn [comment_ok] in H.
    assert (Hp : py_prefix L_COMMENT_CLOSE (x :: c ++ L_COMMENT_CLOSE ++ rest) = false).
    { unfold L_COMMENT_CLOSE at 1. cbn [py_prefix]. rewrite (N.eqb_sym 45 x).
      destruct (x =? 45) eqn:Ex; [|reflexivity]. cbn [andb].
      apply andb_true_iff in H. destruct H as [H1 _]. destruct c as [|y c]; [discriminate|].
      cbn [app]. rewrite (N.eqb_sym 45 y). apply negb_true_iff in H1. rewrite H1. reflexivity. }
    rewrite Hp. rewrite IH; [reflexivity|].
    destruct (x =? 45); [apply andb_true_iff in H; tauto|assumption].
Qed.

Lemma read_until_pi_close c rest :
  py_contains c L_PI_CLOSE = false -> read_until L_PI_CLOSE (c ++ L_PI_CLOSE ++ rest) = Some (c, rest).
Proof.
  induction c as [|x c IH]; intros H.
  - reflexivity.
  - cbn [app read_until]. cbn [py_contains] in H. apply orb_false_iff in H. destruct H as [H1 H2].
    assert (Hp : py_prefix L_PI_CLOSE (x :: c ++ L_PI_CLOSE ++ rest) = false).
    { unfold L_PI_CLOSE in *. cbn [py_prefix] in *. destruct (63 =? x); [|reflexivity]. cbn [andb] in *.
      destruct c as [|y c]; cbn [app]; [reflexivity|]. destruct (62 =? y); [discriminate|reflexivity]. }
    rewrite Hp, IH; auto.
Qed.

Lemma read_until_char q e rest :
  forallb (fun c => negb (c =? q)) e = true -> read_until [q] (e ++ q :: rest) = Some (e, rest).
Proof.
  induction e as [|x e IH]; intros H.
  - cbn. rewrite N.eqb_refl. reflexivity.
  - cbn [app read_until py_prefix]. cbn [forallb] in H. apply andb_true_iff in H. destruct H as [H1 H2].
    apply negb_true_iff in H1. rewrite (N.eqb_sym q x), H1. cbn [andb]. rewrite IH; auto.
Qed.

(* ------------------------------------------------------------------------------------------ *)
(* processing instructions *)

Lemma sp_not_name : is_name_char SP = false. Proof. reflexivity. Qed.
Lemma sp_is_ws : is_xml_ws SP = true. Proof. reflexivity. Qed.

Lemma name_ok_chars t : name_ok t = true -> forallb is_name_char t = true /\ t <> [].
Proof.
  destruct t as [|c t]; [discriminate|]. unfold name_ok. intros H. apply andb_true_iff in H. destruct H as [_ H].
  split; [exact H|discriminate].
Qed.

Lemma read_pi_str t c rest :
  pi_target_ok t = true -> pi_content_ok c = true ->
  read_pi (t ++ [SP] ++ c ++ L_PI_CLOSE ++ rest) = Some (t, c, rest).
Proof.
  unfold pi_target_ok, pi_content_ok. intros Ht Hc.
  apply andb_true_iff in Ht. destruct Ht as [Hname _]. destruct (name_ok_chars t Hname) as [Hn _].
  apply andb_true_iff in Hc. destruct Hc as [Hs Hcl]. apply negb_true_iff in Hs, Hcl.
  unfold read_pi. rewrite span_app; [|assumption|cbn [app]; apply sp_not_name].
  rewrite Hname. cbn [negb].
  cbn [app]. unfold L_PI_CLOSE at 1. cbn [py_prefix]. change (63 =? SP) with false. cbn [andb].
  cbn [starts_ws]. rewrite sp_is_ws. cbn [skip_ws]. rewrite sp_is_ws.
  rewrite skip_ws_id.
  - rewrite read_until_pi_close; auto.
  - destruct c as [|x c]; [reflexivity|exact Hs].
Qed.

Lemma read_pi_len s t c r : read_pi s = Some (t, c, r) -> (length r <= length s)%nat.
Proof.
  unfold read_pi. destruct (span is_name_char s) as [a b] eqn:E. apply span_len in E.
  destruct (negb (name_ok a)); [discriminate|].
  destruct (py_prefix L_PI_CLOSE b).
  - intros H. destruct b as [|x [|y b']]; injection H as <- <- <-; cbn in *; lia.
  - destruct (starts_ws b); [|discriminate].
    destruct (read_until L_PI_CLOSE (skip_ws b)) as [[c' r']|] eqn:E2; [|discriminate].
    intros H. injection H as <- <- <-. apply read_until_len in E2. pose proof (skip_ws_le b). lia.
Qed.

(* ------------------------------------------------------------------------------------------ *)
(* parse_misc: unfolding, fuel *)

Lemma parse_misc_S rc rp f s :
  parse_misc rc rp (S f) s =
  let s := skip_ws s in
  if py_prefix L_COMMENT_OPEN s then
    match read_until L_COMMENT_CLOSE (skipn 4 s) with
    | Some (c, r) =>
        if comment_ok c then
          match parse_misc rc rp f r with
          | Ok (l, r') => Ok (if rc then l else Comment c :: l, r')
          | e => e
          end
        else Err
    | None => Err
    end
  else if py_prefix L_PI_OPEN s then
    match read_pi (skipn 2 s) with
    | Some (t, c, r) =>
        if str_eqb (lower t) L_xml then Err
        else match parse_misc rc rp f r with
             | Ok (l, r') => Ok (if rp then l else PI t c :: l, r')
             | e => e
             end
    | None => Err
    end
  else Ok ([], s).
Proof. reflexivity. Qed.

Lemma py_prefix_len p s : py_prefix p s = true -> (length p <= length s)%nat.
Proof.
  revert s. induction p as [|a p IH]; intros s H; cbn; [lia|].
  destruct s as [|b s]; cbn in H; [discriminate|]. apply andb_true_iff in H. destruct H as [_ H].
  apply IH in H. cbn. lia.
Qed.

(* the fuel given by parse_doc_with is always enough: OutOfFuel is excluded by proof *)
Lemma parse_misc_fuel rc rp f : forall s, (length s < f)%nat -> parse_misc rc rp f s <> OutOfFuel.
Proof.
  induction f as [|f IH]; intros s Hl; [lia|].
  rewrite parse_misc_S. cbv zeta. pose proof (skip_ws_le s) as Hs.
  destruct (py_prefix L_COMMENT_OPEN (skip_ws s)) eqn:E1.
  - apply py_prefix_len in E1. cbn [length L_COMMENT_OPEN] in E1.
    destruct (read_until L_COMMENT_CLOSE (skipn 4 (skip_ws s))) as [[c r]|] eqn:E2; [|discriminate].
    apply read_until_len in E2. pose proof (skipn_length 4 (skip_ws s)) as Hk.
    destruct (comment_ok c); [|discriminate].
    assert (Hr : (length r < f)%nat) by lia. specialize (IH r Hr).
    destruct (parse_misc rc rp f r) as [[l r']| |]; congruence.
  - destruct (py_prefix L_PI_OPEN (skip_ws s)) eqn:E3; [|discriminate].
    apply py_prefix_len in E3. cbn [length L_PI_OPEN] in E3.
    destruct (read_pi (skipn 2 (skip_ws s))) as [[[t c] r]|] eqn:E2; [|discriminate].
    apply read_pi_len in E2. pose proof (skipn_length 2 (skip_ws s)) as Hk.
    destruct (str_eqb (lower t) L_xml); [discriminate|].
    assert (Hr : (length r < f)%nat) by lia. specialize (IH r Hr).
    destruct (parse_misc rc rp f r) as [[l r']| |]; congruence.
Qed.

Theorem parse_doc_fuel rr rc rp s : parse_doc_with rr rc rp s <> OutOfFuel.
Proof.
  unfold parse_doc_with. destruct (parse_decl s) as [[e s1]| |] eqn:Ed; try discriminate.
  - pose proof (parse_misc_fuel rc rp (S (length s1)) s1 ltac:(lia)) as H1.
    destruct (parse_misc rc rp (S (length s1)) s1) as [[pro s2]| |]; try congruence.
    destruct (rr s2) as [[r s3]|]; [|discriminate].
    pose proof (parse_misc_fuel rc rp (S (length s3)) s3 ltac:(lia)) as H2.
    destruct (parse_misc rc rp (S (length s3)) s3) as [[epi s4]| |]; try congruence.
    destruct (null s4); discriminate.
  - unfold parse_decl in Ed.
    repeat match type of Ed with
           | context [match ?x with _ => _ end] => destruct x; try discriminate
           end.
Qed.

(* ------------------------------------------------------------------------------------------ *)
(* parse_misc reads back what misc_str wrote *)

(* `tail` is not whitespace, a comment or a PI: parse_misc stops in front of it *)
Definition stops (tail : str) : Prop :=
  starts_ws tail = false /\ py_prefix L_COMMENT_OPEN tail = false /\ py_prefix L_PI_OPEN tail = false.

Lemma stops_nil : stops []. Proof. repeat split. Qed.

Lemma stops_root rootc rest : root_shape rootc = true -> stops (rootc ++ rest).
Proof.
  unfold root_shape. destruct rootc as [|a [|c r]]; try discriminate.
  - destruct a; try discriminate. repeat (destruct p; try discriminate).
  - intros H.
    assert (Ha : a = 60) by (destruct a; try discriminate; repeat (destruct p; try discriminate); reflexivity).
    subst a. apply andb_true_iff in H. destruct H as [H _]. apply andb_true_iff in H. destruct H as [H1 H2].
    apply negb_true_iff in H1, H2. unfold stops. cbn [app starts_ws]. repeat split.
    + unfold L_COMMENT_OPEN. cbn [py_prefix]. rewrite (N.eqb_sym 33 c), H1. reflexivity.
    + unfold L_PI_OPEN. cbn [py_prefix]. rewrite (N.eqb_sym 63 c), H2. reflexivity.
Qed.

Lemma parse_misc_stop rc rp f w tail :
  all_xml_ws w -> stops tail -> parse_misc rc rp (S f) (w ++ tail) = Ok ([], tail).
Proof.
  intros Hw (H1 & H2 & H3). rewrite parse_misc_S. cbv zeta.
  rewrite skip_ws_app, skip_ws_id by assumption. rewrite H2, H3. reflexivity.
Qed.

Lemma parse_misc_comment rc rp f w c rest :
  all_xml_ws w -> comment_ok c = true ->
  parse_misc rc rp (S f) (w ++ misc_str (Comment c) ++ rest) =
  match parse_misc rc rp f rest with
  | Ok (l, r') => Ok (if rc then l else Comment c :: l, r')
  | e => e
  end.
Proof.
  intros Hw Hc. rewrite parse_misc_S. cbv zeta. rewrite skip_ws_app by assumption.
  cbn [misc_str]. rewrite <- !app_assoc.
  rewrite skip_ws_id by reflexivity. rewrite py_prefix_app.
  change 4%nat with (length L_COMMENT_OPEN). rewrite skipn_app_exact.
  rewrite read_until_comment by assumption. rewrite Hc. reflexivity.
Qed.

Lemma parse_misc_pi rc rp f w t c rest :
  all_xml_ws w -> pi_target_ok t = true -> pi_content_ok c = true ->
  parse_misc rc rp (S f) (w ++ misc_str (PI t c) ++ rest) =
  match parse_misc rc rp f rest with
  | Ok (l, r') => Ok (if rp then l else PI t c :: l, r')
  | e => e
  end.
Proof.
  intros Hw Ht Hc. rewrite parse_misc_S. cbv zeta. rewrite skip_ws_app by assumption.
  cbn [misc_str]. rewrite <- !app_assoc.
  rewrite skip_ws_id by reflexivity.
  assert (Hn : py_prefix L_COMMENT_OPEN (L_PI_OPEN ++ t ++ [SP] ++ c ++ L_PI_CLOSE ++ rest) = false) by reflexivity.
  rewrite Hn. rewrite py_prefix_app.
  change 2%nat with (length L_PI_OPEN). rewrite skipn_app_exact.
  rewrite read_pi_str by assumption.
  unfold pi_target_ok in Ht. apply andb_true_iff in Ht. destruct Ht as [_ Hx]. apply negb_true_iff in Hx.
  rewrite Hx. reflexivity.
Qed.

Lemma parse_misc_ws rc rp f w s : all_xml_ws w -> parse_misc rc rp f (w ++ s) = parse_misc rc rp f s.
Proof.
  intros Hw. destruct f; [reflexivity|]. rewrite !parse_misc_S. cbv zeta. rewrite skip_ws_app by assumption.
  reflexivity.
Qed.

(* any number of written comments / PIs, each with whitespace w1 before and w2 after it *)
Lemma parse_misc_items rc rp w1 w2 w3 tail : all_xml_ws w1 -> all_xml_ws w2 -> all_xml_ws w3 -> stops tail ->
  forall l f, forallb misc_ok l = true -> (length l < f)%nat ->
  parse_misc rc rp f (flat_map (fun n => w1 ++ misc_str n ++ w2) l ++ w3 ++ tail)
  = Ok (filter (keep rc rp) l, tail).
Proof.
  intros H1 H2 H3 Hs. induction l as [|n l IH]; intros f Hok Hf.
  - destruct f; [cbn in Hf; lia|]. cbn [flat_map app filter]. apply parse_misc_stop; assumption.
  - destruct f; [cbn in Hf; lia|]. cbn [forallb] in Hok. apply andb_true_iff in Hok. destruct Hok as [Hn Hl].
    cbn [flat_map]. rewrite <- !app_assoc.
    assert (IH' : parse_misc rc rp f (w2 ++ flat_map (fun n0 => w1 ++ misc_str n0 ++ w2) l ++ w3 ++ tail)
                  = Ok (filter (keep rc rp) l, tail)).
    { rewrite parse_misc_ws by assumption. apply IH; [assumption|cbn in Hf; lia]. }
    destruct n as [| |c|t c]; try discriminate; cbn [misc_ok] in Hn.
    + apply andb_true_iff in Hn. destruct Hn as [Hc _].
      rewrite parse_misc_comment by assumption. rewrite IH'. cbn [filter keep]. destruct rc; reflexivity.
    + apply andb_true_iff in Hn. destruct Hn as [Hn _]. apply andb_true_iff in Hn. destruct Hn as [Ht Hc].
      rewrite parse_misc_pi by assumption. rewrite IH'. cbn [filter keep]. destruct rp; reflexivity.
Qed.

(* ------------------------------------------------------------------------------------------ *)
(* the XML declaration *)

Lemma label_char_upper c : is_label_char c = true -> is_label_char (ascii_upper c) = true.
Proof.
  unfold ascii_upper. destruct ((97 <=? c) && (c <=? 122))%bool eqn:E; [|auto]. intros _.
  apply andb_true_iff in E. destruct E as [E1 E2]. apply N.leb_le in E1, E2.
  unfold is_label_char.
  assert (H1 : (65 <=? c - 32) = true) by (apply N.leb_le; lia).
  assert (H2 : (c - 32 <=? 90) = true) by (apply N.leb_le; lia).
  rewrite H1, H2. cbn. rewrite orb_true_r. reflexivity.
Qed.

Lemma label_char_plain c : is_label_char c = true ->
  (c =? 34) = false /\ (c =? CR) = false /\ (c =? LF) = false /\ is_xml_ws c = false.
Proof.
  intros H.
  assert (Hc : 45 <= c).
  { unfold is_label_char in H. repeat (apply orb_true_iff in H; destruct H as [H|H]);
      try (apply andb_true_iff in H; destruct H as [H _]; apply N.leb_le in H; lia);
      apply N.eqb_eq in H; lia. }
  unfold is_xml_ws, CR, LF. repeat split; repeat (apply orb_false_iff; split); apply N.eqb_neq; lia.
Qed.

Lemma upper_label enc : forallb is_label_char enc = true -> forallb is_label_char (upper enc) = true.
Proof.
  unfold upper. induction enc as [|c e IH]; cbn [map forallb]; [auto|]. intros H.
  apply andb_true_iff in H. destruct H as [H1 H2]. rewrite label_char_upper, IH; auto.
Qed.

Lemma label_no_quote e : forallb is_label_char e = true -> forallb (fun c => negb (c =? 34)) e = true.
Proof.
  induction e as [|c e IH]; cbn; [auto|]. intros H. apply andb_true_iff in H. destruct H as [H1 H2].
  destruct (label_char_plain c H1) as (Hq & _). rewrite Hq, IH; auto.
Qed.

Lemma label_no_cr e : forallb is_label_char e = true -> no_cr e = true.
Proof.
  unfold no_cr. induction e as [|c e IH]; cbn; [auto|]. intros H. apply andb_true_iff in H. destruct H as [H1 H2].
  destruct (label_char_plain c H1) as (_ & Hq & _). rewrite Hq, IH; auto.
Qed.

Lemma label_no_lf e : forallb is_label_char e = true -> forallb (fun c => negb (c =? LF)) e = true.
Proof.
  induction e as [|c e IH]; cbn; [auto|]. intros H. apply andb_true_iff in H. destruct H as [H1 H2].
  destruct (label_char_plain c H1) as (_ & _ & Hq & _). rewrite Hq, IH; auto.
Qed.

(* the declaration as written is read back, and names `upper enc` *)
Lemma parse_decl_X e rest X :
  read_until [34] X = Some (e, L_PI_CLOSE ++ rest) ->
  parse_decl (L_DECL_HEAD ++ X) = Ok (Some e, rest).
Proof.
  intros Hq. unfold parse_decl, L_DECL_HEAD. cbn.
  match goal with |- context [read_until ?a X] => change (read_until a X) with (read_until [34] X) end.
  rewrite Hq. reflexivity.
Qed.

Lemma parse_decl_written e rest :
  forallb is_label_char e = true ->
  parse_decl (L_DECL_HEAD ++ e ++ L_DECL_TAIL ++ rest) = Ok (Some e, rest).
Proof.
  intros He. apply label_no_quote in He. apply parse_decl_X.
  exact (read_until_char 34 e (L_PI_CLOSE ++ rest) He).
Qed.

Lemma parse_decl_of enc rest :
  label_ok enc = true -> parse_decl (decl_of enc ++ rest) = Ok (Some (upper enc), rest).
Proof.
  unfold label_ok, decl_of. intros H. apply andb_true_iff in H. destruct H as [_ H].
  rewrite <- !app_assoc. apply parse_decl_written. apply upper_label. assumption.
Qed.

Lemma lower_upper_char c : ascii_lower (ascii_upper c) = ascii_lower c.
Proof.
  unfold ascii_upper. destruct ((97 <=? c) && (c <=? 122))%bool eqn:E; [|reflexivity].
  apply andb_true_iff in E. destruct E as [E1 E2]. apply N.leb_le in E1, E2. unfold ascii_lower.
  assert (H1 : (65 <=? c - 32) = true) by (apply N.leb_le; lia).
  assert (H2 : (c - 32 <=? 90) = true) by (apply N.leb_le; lia).
  assert (H3 : (c <=? 90) = false) by (apply N.leb_gt; lia).
  rewrite H1, H2, H3, andb_false_r. cbn. lia.
Qed.

(* the label written in the declaration is the requested one up to case *)
Lemma label_eqb_upper enc : label_eqb (upper enc) enc = true.
Proof.
  unfold label_eqb, upper, lower. rewrite map_map.
  rewrite (map_ext _ ascii_lower lower_upper_char). apply str_eqb_refl.
Qed.

(* ------------------------------------------------------------------------------------------ *)
(* the writer calls of Document.__serialize, flattened *)

Lemma epi_chunks_flat (w : str) (epi : list str) : epi <> [] ->
  concat (w :: map (fun s => s ++ w) (removelast epi) ++ [last epi []]) = flat_map (fun s => w ++ s) epi.
Proof.
  induction epi as [|x epi IH]; intros Hne; [congruence|].
  destruct epi as [|y r].
  - cbn. rewrite !app_nil_r. reflexivity.
  - specialize (IH ltac:(discriminate)).
    change (removelast (x :: y :: r)) with (x :: removelast (y :: r)).
    change (last (x :: y :: r) []) with (last (y :: r) []).
    cbn [map app concat flat_map] in *. rewrite <- !app_assoc in *. f_equal. f_equal. exact IH.
Qed.

Lemma flat_map_map {A B C} (g : A -> B) (f : B -> list C) l : flat_map f (map g l) = flat_map (fun x => f (g x)) l.
Proof. induction l; cbn; [reflexivity|]. rewrite IHl. reflexivity. Qed.

Lemma concat_map_flat {A B} (f : A -> list B) l : concat (map f l) = flat_map f l.
Proof. induction l; cbn; [reflexivity|]. rewrite IHl. reflexivity. Qed.

Lemma concat_doc_chunks k enc pro rootc epi :
  concat (doc_chunks k enc pro rootc epi)
  = decl_of enc ++ pnl k ++ flat_map (fun s => s ++ pnl k) pro ++ rootc ++ flat_map (fun s => pnl k ++ s) epi.
Proof.
  unfold doc_chunks. cbn [concat]. rewrite concat_app, concat_map_flat. rewrite <- !app_assoc.
  do 3 f_equal. cbn [app concat]. f_equal.
  destruct epi as [|x r]; [reflexivity|]. cbn [null]. apply epi_chunks_flat. discriminate.
Qed.

(* _LengthTrackingWriter leaves document-level writes alone *)
Definition head_ok (s : str) : Prop := match s with c :: _ => (c =? LF) = false | [] => False end.

Lemma ltw_call_head a c : head_ok c -> ltw_call a c = (ends_nl c, c).
Proof.
  destruct c as [|x r]; cbn; [tauto|]. intros H. unfold ltw_call.
  assert (E : (if a then lstrip_nl (x :: r) else x :: r) = x :: r) by (destruct a; cbn; rewrite ?H; reflexivity).
  rewrite E. reflexivity.
Qed.

Lemma ends_nl_lf s : ends_nl (s ++ [LF]) = true.
Proof. unfold ends_nl. rewrite rev_unit. reflexivity. Qed.

Lemma head_ok_app s t : head_ok s -> head_ok (s ++ t).
Proof. destruct s; cbn; tauto. Qed.

Lemma ltw_write_lines l : Forall head_ok l -> forall a rest,
  ltw_write a (map (fun s => s ++ [LF]) l ++ rest)
  = flat_map (fun s => s ++ [LF]) l ++ ltw_write (if null l then a else true) rest.
Proof.
  induction 1 as [|x l Hx Hl IH]; intros a rest; [reflexivity|].
  cbn [map app ltw_write flat_map null]. rewrite ltw_call_head by (apply head_ok_app; assumption).
  rewrite ends_nl_lf, IH. rewrite <- !app_assoc. destruct (null l); reflexivity.
Qed.

Lemma Forall_removelast {A} (P : A -> Prop) l : Forall P l -> Forall P (removelast l).
Proof.
  induction 1 as [|x l Hx Hl IH]; [constructor|]. destruct l; [constructor|].
  change (removelast (x :: a :: l)) with (x :: removelast (a :: l)). constructor; assumption.
Qed.

Lemma Forall_last {A} (P : A -> Prop) l d : l <> [] -> Forall P l -> P (last l d).
Proof.
  induction l as [|x l IH]; intros Hne H; [congruence|]. inversion H; subst.
  destruct l; [assumption|]. apply IH; [discriminate|assumption].
Qed.

Lemma root_shape_head s : root_shape s = true -> head_ok s /\ ends_nl s = false.
Proof.
  unfold root_shape. destruct s as [|a [|c r]]; try discriminate.
  - destruct a; try discriminate. repeat (destruct p; try discriminate).
  - intros H.
    assert (Ha : a = 60) by (destruct a; try discriminate; repeat (destruct p; try discriminate); reflexivity).
    subst a. split; [reflexivity|].
    apply andb_true_iff in H. destruct H as [_ H]. unfold ends_nl. revert H.
    match goal with |- context [rev ?x] => destruct (rev x) as [|l t] end; [intros; reflexivity|].
    intros H. apply N.eqb_eq in H. subst l. reflexivity.
Qed.

Lemma decl_head enc : head_ok (decl_of enc). Proof. reflexivity. Qed.

Lemma write_chunks_concat k enc pro rootc epi :
  Forall head_ok pro -> Forall head_ok epi -> root_shape rootc = true ->
  write_chunks k (doc_chunks k enc pro rootc epi) = concat (doc_chunks k enc pro rootc epi).
Proof.
  intros Hp He Hr. destruct k; try reflexivity.
  rewrite concat_doc_chunks. unfold write_chunks, doc_chunks. cbn [pnl].
  destruct (root_shape_head _ Hr) as [Hh Hn].
  cbn [ltw_write]. rewrite ltw_call_head by (apply head_ok_app, decl_head).
  rewrite <- !app_assoc. f_equal. f_equal.
  rewrite ltw_write_lines by assumption. f_equal.
  cbn [app ltw_write]. rewrite ltw_call_head by assumption. rewrite Hn. f_equal.
  destruct epi as [|x r]; [reflexivity|]. cbn [null].
  change (flat_map (fun s : list char => LF :: s) (x :: r)) with (flat_map (fun s : list char => [LF] ++ s) (x :: r)).
  rewrite <- (epi_chunks_flat [LF] (x :: r)) by discriminate.
  cbn [ltw_write concat]. change (ltw_call false [LF]) with (true, [LF]). cbv iota beta. f_equal.
  rewrite ltw_write_lines by (apply Forall_removelast; assumption).
  rewrite concat_app, concat_map_flat. f_equal.
  cbn [ltw_write concat]. rewrite ltw_call_head by (apply Forall_last; [discriminate|assumption]).
  reflexivity.
Qed.

Lemma misc_head l : forallb misc_ok l = true -> Forall head_ok (map misc_str l).
Proof.
  induction l as [|n l IH]; cbn [forallb map]; intros H; [constructor|].
  apply andb_true_iff in H. destruct H as [Hn Hl]. constructor; [|auto].
  destruct n; try discriminate; reflexivity.
Qed.

(* the order of things in the stream: declaration, prologue, root, epilogue *)
Definition doc_flat (k : skind) (enc : str) (d : doc) (rootc : str) : str :=
  decl_of enc ++ pnl k ++ flat_map (fun n => misc_str n ++ pnl k) (prologue d) ++ rootc
  ++ flat_map (fun n => pnl k ++ misc_str n) (epilogue d).

Theorem doc_serialize_flat {fmt} (kind_of : fmt -> skind) (ser_root : fmt -> node -> str) enc fo d :
  doc_ok d = true -> root_shape (ser_root fo (root d)) = true ->
  doc_serialize kind_of ser_root enc fo d = doc_flat (kind_of fo) enc d (ser_root fo (root d)).
Proof.
  unfold doc_ok, doc_serialize, doc_flat. intros H Hr. apply andb_true_iff in H. destruct H as [Hp He].
  rewrite write_chunks_concat by (auto using misc_head). rewrite concat_doc_chunks, !flat_map_map. reflexivity.
Qed.

(* ------------------------------------------------------------------------------------------ *)
(* newline translation on write, line-end normalisation on read *)

Definition linesep_ok (ls : str) : Prop := ls = [LF] \/ ls = [CR; LF] \/ ls = [CR].

Lemma no_cr_cons c s : no_cr (c :: s) = true -> (c =? CR) = false /\ no_cr s = true.
Proof. unfold no_cr. cbn [forallb]. intros H. apply andb_true_iff in H. destruct H as [H1 H2]. apply negb_true_iff in H1. auto. Qed.

Lemma no_cr_app a b : no_cr (a ++ b) = (no_cr a && no_cr b)%bool.
Proof. unfold no_cr. apply forallb_app. Qed.

Lemma nl_in_plain c s : (c =? CR) = false -> nl_in (c :: s) = c :: nl_in s.
Proof. intros H. cbn [nl_in]. rewrite H. reflexivity. Qed.

Lemma nl_in_cr X : match X with c2 :: _ => (c2 =? LF) = false | [] => True end -> nl_in (CR :: X) = LF :: nl_in X.
Proof.
  intros H. cbn [nl_in]. change (CR =? CR) with true. cbv iota. destruct X as [|c2 r2]; [reflexivity|].
  rewrite H. reflexivity.
Qed.

Lemma nl_in_crlf X : nl_in (CR :: LF :: X) = LF :: nl_in X.
Proof. reflexivity. Qed.

Lemma nl_in_out_with t s : t = [LF] \/ t = [CR; LF] \/ t = [CR] -> no_cr s = true ->
  nl_in (flat_map (fun c => if c =? LF then t else [c]) s) = s.
Proof.
  intros Ht. induction s as [|c s IH]; intros H; [reflexivity|].
  apply no_cr_cons in H. destruct H as [Hc Hs]. specialize (IH Hs). cbn [flat_map].
  destruct (c =? LF) eqn:El.
  - apply N.eqb_eq in El. subst c. destruct Ht as [ -> | [ -> | -> ] ].
    + cbn [app]. rewrite nl_in_plain by reflexivity. rewrite IH. reflexivity.
    + cbn [app]. rewrite nl_in_crlf, IH. reflexivity.
    + cbn [app]. rewrite nl_in_cr; [rewrite IH; reflexivity|].
      destruct s as [|c' s']; [exact I|]. cbn [flat_map]. destruct (c' =? LF) eqn:E'; cbn [app]; [reflexivity|exact E'].
  - cbn [app]. rewrite nl_in_plain by assumption. rewrite IH. reflexivity.
Qed.

Theorem nl_in_out ls nl s : linesep_ok ls -> no_cr s = true -> nl_in (nl_out ls nl s) = s.
Proof.
  intros Hl Hs. unfold nl_out. apply nl_in_out_with; [|assumption].
  destruct nl; cbn [nl_string]; auto.
Qed.

(* the declaration contains no "\n": newline translation leaves it alone *)
Lemma nl_out_app ls nl a b : nl_out ls nl (a ++ b) = nl_out ls nl a ++ nl_out ls nl b.
Proof. unfold nl_out. apply flat_map_app. Qed.

Lemma nl_out_nolf ls nl s : forallb (fun c => negb (c =? LF)) s = true -> nl_out ls nl s = s.
Proof.
  unfold nl_out. induction s as [|c s IH]; cbn [forallb flat_map]; intros H; [reflexivity|].
  apply andb_true_iff in H. destruct H as [H1 H2]. apply negb_true_iff in H1. rewrite H1, IH; auto.
Qed.

Lemma nl_out_decl ls nl enc : label_ok enc = true -> nl_out ls nl (decl_of enc) = decl_of enc.
Proof.
  unfold label_ok. intros H. apply andb_true_iff in H. destruct H as [_ H]. apply upper_label, label_no_lf in H.
  apply nl_out_nolf. unfold decl_of. rewrite !forallb_app.
  apply andb_true_iff; split; [reflexivity|]. apply andb_true_iff; split; [exact H|reflexivity].
Qed.

(* ------------------------------------------------------------------------------------------ *)
(* no carriage return in the stream when there is none in the parts *)

Lemma in_ranges_lower lo t c :
  forallb (fun r => lo <=? fst r) t = true -> in_ranges t c = true -> lo <= c.
Proof.
  unfold in_ranges. induction t as [|[a b] t IH]; cbn [forallb existsb fst snd]; intros H1 H2; [discriminate|].
  apply andb_true_iff in H1. destruct H1 as [Ha Ht]. apply orb_true_iff in H2. destruct H2 as [H2|H2].
  - apply andb_true_iff in H2. destruct H2 as [H2 _]. apply N.leb_le in Ha, H2. lia.
  - auto.
Qed.

Lemma name_char_ge c : is_name_char c = true -> 45 <= c.
Proof. apply (in_ranges_lower 45). reflexivity. Qed.

Lemma name_char_plain c : is_name_char c = true -> (c =? CR) = false.
Proof. intros H. apply name_char_ge in H. apply N.eqb_neq. unfold CR. lia. Qed.

Lemma name_no_cr t : forallb is_name_char t = true -> no_cr t = true.
Proof.
  unfold no_cr. induction t as [|c t IH]; cbn [forallb]; intros H; [reflexivity|].
  apply andb_true_iff in H. destruct H as [H1 H2]. rewrite (name_char_plain c H1), IH; auto.
Qed.

Lemma misc_no_cr n : misc_ok n = true -> no_cr (misc_str n) = true.
Proof.
  destruct n as [| |c|t c]; try discriminate; cbn [misc_ok misc_str]; intros H.
  - apply andb_true_iff in H. destruct H as [_ H]. rewrite !no_cr_app, H. reflexivity.
  - apply andb_true_iff in H. destruct H as [H Hc]. apply andb_true_iff in H. destruct H as [Ht _].
    unfold pi_target_ok in Ht. apply andb_true_iff in Ht. destruct Ht as [Ht _].
    apply name_ok_chars in Ht. destruct Ht as [Ht _]. apply name_no_cr in Ht.
    rewrite !no_cr_app, Ht, Hc. reflexivity.
Qed.

Lemma miscs_no_cr w1 w2 l : no_cr w1 = true -> no_cr w2 = true -> forallb misc_ok l = true ->
  no_cr (flat_map (fun n => w1 ++ misc_str n ++ w2) l) = true.
Proof.
  intros H1 H2. induction l as [|n l IH]; cbn [forallb flat_map]; intros H; [reflexivity|].
  apply andb_true_iff in H. destruct H as [Hn Hl]. rewrite !no_cr_app, H1, H2, (misc_no_cr n Hn), IH; auto.
Qed.

Lemma pnl_no_cr k : no_cr (pnl k) = true. Proof. destruct k; reflexivity. Qed.
Lemma pnl_ws k : all_xml_ws (pnl k). Proof. destruct k; reflexivity. Qed.

Lemma doc_flat_no_cr k enc d rootc :
  label_ok enc = true -> doc_ok d = true -> no_cr rootc = true -> no_cr (doc_flat k enc d rootc) = true.
Proof.
  unfold label_ok, doc_ok, doc_flat. intros He Hd Hr.
  apply andb_true_iff in He. destruct He as [_ He]. apply upper_label, label_no_cr in He.
  apply andb_true_iff in Hd. destruct Hd as [Hp Hq].
  pose proof (miscs_no_cr [] (pnl k) _ eq_refl (pnl_no_cr k) Hp) as Ep.
  pose proof (miscs_no_cr (pnl k) [] _ (pnl_no_cr k) eq_refl Hq) as Eq.
  cbn [app] in Ep. rewrite (flat_map_ext _ (fun n => pnl k ++ misc_str n)) in Eq
    by (intros; rewrite app_nil_r; reflexivity).
  unfold decl_of. rewrite !no_cr_app, He, Hr, Ep, Eq, pnl_no_cr. reflexivity.
Qed.

(* ------------------------------------------------------------------------------------------ *)
(* the round trip *)

Lemma filter_keep_ff l : filter (keep false false) l = l.
Proof. induction l as [|n l IH]; cbn [filter]; [reflexivity|]. destruct n; cbn [keep negb]; rewrite IH; reflexivity. Qed.

Lemma misc_str_len n : misc_ok n = true -> (1 <= length (misc_str n))%nat.
Proof. destruct n; try discriminate; intros _; cbn; lia. Qed.

Lemma miscs_len w1 w2 l : forallb misc_ok l = true ->
  (length l <= length (flat_map (fun n => w1 ++ misc_str n ++ w2) l))%nat.
Proof.
  induction l as [|n l IH]; cbn [forallb flat_map length]; intros H; [lia|].
  apply andb_true_iff in H. destruct H as [Hn Hl]. specialize (IH Hl). pose proof (misc_str_len n Hn).
  rewrite !app_length. lia.
Qed.

Section RoundTrip.
  Variable read_root : str -> option (node * str).
  Variables (rootc : str) (rnode : node).
  (* what is needed from the root layer, for this one root: C02 *)
  Hypothesis Hread : forall rest, read_root (rootc ++ rest) = Some (rnode, rest).
  Hypothesis Hshape : root_shape rootc = true.

  Lemma parse_doc_flat rc rp k enc d :
    label_ok enc = true -> doc_ok d = true ->
    parse_doc_with read_root rc rp (doc_flat k enc d rootc)
    = Ok (Some (upper enc),
          {| prologue := filter (keep rc rp) (prologue d); root := rnode; epilogue := filter (keep rc rp) (epilogue d) |}).
  Proof.
    intros He Hd. unfold doc_ok in Hd. apply andb_true_iff in Hd. destruct Hd as [Hp Hq].
    unfold parse_doc_with, doc_flat. rewrite parse_decl_of by assumption.
    rewrite parse_misc_ws by apply pnl_ws.
    pose proof (parse_misc_items rc rp [] (pnl k) [] (rootc ++ flat_map (fun n => pnl k ++ misc_str n) (epilogue d))
                  eq_refl (pnl_ws k) eq_refl (stops_root _ _ Hshape) (prologue d)) as E1.
    cbn [app] in E1. rewrite E1; [|assumption|].
    2:{ pose proof (miscs_len [] (pnl k) _ Hp) as L. cbn [app] in L. rewrite !app_length. lia. }
    rewrite Hread.
    pose proof (parse_misc_items rc rp (pnl k) [] [] [] (pnl_ws k) eq_refl eq_refl stops_nil (epilogue d)) as E2.
    cbn [app] in E2. rewrite app_nil_r in E2.
    rewrite (flat_map_ext _ (fun n => pnl k ++ misc_str n)) in E2 by (intros; rewrite app_nil_r; reflexivity).
    rewrite E2; [reflexivity|assumption|].
    pose proof (miscs_len (pnl k) [] _ Hq) as L.
    rewrite (flat_map_ext _ (fun n => pnl k ++ misc_str n)) in L by (intros; rewrite app_nil_r; reflexivity). lia.
  Qed.
End RoundTrip.

Section Document.
  Variables (fmt bytes : Type).
  Variable kind_of : fmt -> skind.
  Variable ser_root : fmt -> node -> str.
  Variable read_root : str -> option (node * str).
  Variable norm : fmt -> node -> node.
  Variable root_ok : fmt -> node -> Prop.
  Variable supported : str -> bool.
  Variable encode : str -> str -> option bytes.
  Variable decode : bytes -> option str.

  (* H_root: the root serializer / reader round trip (property C02), in the usual "with any rest" form *)
  Hypothesis H_root : forall fo t rest, root_ok fo t -> read_root (ser_root fo t ++ rest) = Some (norm fo t, rest).
  (* H_codec: Python's codec and the reader's decoder (which finds the encoding from the BOM / the
     declaration at the very start of the stream) are mutually inverse on streams that start with a
     declaration naming that codec *)
  Hypothesis H_codec : forall enc body b, supported enc = true ->
    encode enc (decl_of enc ++ body) = Some b -> decode b = Some (decl_of enc ++ body).

  (* the premises on one document: what XML can hold next to the root (doc_ok), and what the
     document level needs to know about the root's serialization *)
  Definition doc_pre (fo : fmt) (d : doc) : Prop :=
    doc_ok d = true /\ root_ok fo (root d) /\ root_shape (ser_root fo (root d)) = true
    /\ no_cr (ser_root fo (root d)) = true.

  (* str(document) and the character stream of write/save, re-read *)
  Theorem roundtrip_chars enc ls nl fo d :
    label_ok enc = true -> linesep_ok ls -> doc_pre fo d ->
    parse_doc read_root (nl_in (nl_out ls nl (doc_serialize kind_of ser_root enc fo d)))
    = Ok (Some (upper enc), norm_doc norm fo d).
  Proof.
    intros He Hl (Hd & Hok & Hs & Hc).
    rewrite doc_serialize_flat by assumption.
    rewrite nl_in_out by (auto using doc_flat_no_cr).
    unfold parse_doc.
    rewrite (parse_doc_flat read_root (ser_root fo (root d)) (norm fo (root d))); try assumption.
    - rewrite !filter_keep_ff. reflexivity.
    - intros rest. apply H_root. assumption.
  Qed.

  Theorem roundtrip_str nl fo d :
    doc_pre fo d ->
    parse_doc read_root (nl_in (doc_str kind_of ser_root nl fo d)) = Ok (Some (upper L_UTF8), norm_doc norm fo d).
  Proof. intros H. unfold doc_str. apply roundtrip_chars; [reflexivity|left; reflexivity|assumption]. Qed.

  (* Document.write / save, re-read from the written bytes *)
  Theorem roundtrip_bytes enc ls nl fo d b :
    supported enc = true -> label_ok enc = true -> linesep_ok ls -> doc_pre fo d ->
    doc_write kind_of ser_root encode ls enc nl fo d = Some b ->
    doc_read read_root decode b = Ok (Some (upper enc), norm_doc norm fo d).
  Proof.
    intros Hsup He Hl Hpre Hw. pose proof Hpre as (Hd & Hok & Hs & Hc).
    unfold doc_write in Hw. unfold doc_read.
    assert (Hb : decode b = Some (nl_out ls nl (doc_serialize kind_of ser_root enc fo d))).
    { rewrite doc_serialize_flat in * by assumption. unfold doc_flat in *.
      rewrite nl_out_app, nl_out_decl in * by assumption. apply H_codec; assumption. }
    rewrite Hb. apply roundtrip_chars; assumption.
  Qed.

  (* the stream starts with the declaration, which names the encoding that was asked for (the codec
     used): first in the stream, before and after newline translation, and read back as such *)
  Theorem declared enc ls nl fo d :
    label_ok enc = true -> doc_ok d = true -> root_shape (ser_root fo (root d)) = true ->
    exists rest,
      nl_out ls nl (doc_serialize kind_of ser_root enc fo d) = decl_of enc ++ rest
      /\ parse_decl (decl_of enc ++ rest) = Ok (Some (upper enc), rest)
      /\ label_eqb (upper enc) enc = true.
  Proof.
    intros He Hd Hs. rewrite doc_serialize_flat by assumption. unfold doc_flat.
    rewrite nl_out_app, nl_out_decl by assumption. eexists. split; [reflexivity|].
    split; [apply parse_decl_of; assumption|apply label_eqb_upper].
  Qed.

  (* order: declaration, prologue nodes, root, epilogue nodes, separated by the serializer's newline only *)
  Theorem order enc fo d :
    doc_ok d = true -> root_shape (ser_root fo (root d)) = true ->
    doc_serialize kind_of ser_root enc fo d
    = decl_of enc ++ pnl (kind_of fo)
      ++ flat_map (fun n => misc_str n ++ pnl (kind_of fo)) (prologue d)
      ++ ser_root fo (root d)
      ++ flat_map (fun n => pnl (kind_of fo) ++ misc_str n) (epilogue d).
  Proof. intros. rewrite doc_serialize_flat by assumption. reflexivity. Qed.
End Document.

(* ------------------------------------------------------------------------------------------ *)
(* parser options: dropping comments / PIs = filtering the parse without the options *)

Definition strip_misc (rc rp : bool) (x : list node * str) : list node * str :=
  (filter (keep rc rp) (fst x), snd x).

Lemma parse_misc_strip rc rp f : forall s,
  parse_misc rc rp f s = map_res (strip_misc rc rp) (parse_misc false false f s).
Proof.
  induction f as [|f IH]; intros s; [reflexivity|].
  rewrite !parse_misc_S. cbv zeta.
  destruct (py_prefix L_COMMENT_OPEN (skip_ws s)).
  - destruct (read_until L_COMMENT_CLOSE (skipn 4 (skip_ws s))) as [[c r]|]; [|reflexivity].
    destruct (comment_ok c); [|reflexivity]. rewrite (IH r).
    destruct (parse_misc false false f r) as [[l r']| |]; cbn [map_res]; try reflexivity.
    unfold strip_misc. cbn [fst snd filter keep]. destruct rc; reflexivity.
  - destruct (py_prefix L_PI_OPEN (skip_ws s)); [|reflexivity].
    destruct (read_pi (skipn 2 (skip_ws s))) as [[[t c] r]|]; [|reflexivity].
    destruct (str_eqb (lower t) L_xml); [reflexivity|]. rewrite (IH r).
    destruct (parse_misc false false f r) as [[l r']| |]; cbn [map_res]; try reflexivity.
    unfold strip_misc. cbn [fst snd filter keep]. destruct rp; reflexivity.
Qed.

Section Strip.
  Variables (rc rp : bool).
  (* the element reader without and with the two options; H_strip_root is the part of the claim that
     lives below the document level (libxml2), established by the correspondence check only *)
  Variables (read_root read_root_opt : str -> option (node * str)).
  Hypothesis H_strip_root : forall s,
    read_root_opt s = match read_root s with Some (n, r) => Some (strip_node rc rp n, r) | None => None end.

  Theorem strip_parse s :
    parse_doc_with read_root_opt rc rp s
    = map_res (fun x => (fst x, strip_doc rc rp (snd x))) (parse_doc_with read_root false false s).
  Proof.
    unfold parse_doc_with. destruct (parse_decl s) as [[e s1]| |]; try reflexivity.
    rewrite parse_misc_strip. destruct (parse_misc false false (S (length s1)) s1) as [[pro s2]| |]; try reflexivity.
    cbn [map_res strip_misc fst snd]. rewrite H_strip_root. destruct (read_root s2) as [[r s3]|]; [|reflexivity].
    rewrite parse_misc_strip. destruct (parse_misc false false (S (length s3)) s3) as [[epi s4]| |]; try reflexivity.
    cbn [map_res strip_misc fst snd]. destruct (null s4); reflexivity.
  Qed.
End Strip.

(* "exactly those nodes": nothing of the dropped kind is left next to the root or anywhere in it,
   and with both options off nothing is dropped *)
Lemma filter_keep_no_comment rp l : forallb (fun n => negb (is_comment n)) (filter (keep true rp) l) = true.
Proof. induction l as [|n l IH]; [reflexivity|]. destruct n; cbn; try assumption. destruct rp; cbn; assumption. Qed.
Lemma filter_keep_no_pi rc l : forallb (fun n => negb (is_pi n)) (filter (keep rc true) l) = true.
Proof. induction l as [|n l IH]; [reflexivity|]. destruct n; cbn; try assumption. destruct rc; cbn; assumption. Qed.
Lemma filter_keep_others rc rp l :
  filter (fun n => negb (is_misc n)) (filter (keep rc rp) l) = filter (fun n => negb (is_misc n)) l.
Proof.
  induction l as [|n l IH]; [reflexivity|].
  destruct n; cbn [filter keep is_misc negb]; rewrite ?IH; try reflexivity.
  - destruct rc; cbn [negb filter is_misc]; rewrite ?IH; reflexivity.
  - destruct rp; cbn [negb filter is_misc]; rewrite ?IH; reflexivity.
Qed.
(* the kept comments / PIs are all of them, in order *)
Lemma filter_keep_comments rc l : filter is_comment (filter (keep rc true) l) = if rc then [] else filter is_comment l.
Proof.
  induction l as [|n l IH]; [destruct rc; reflexivity|].
  destruct n; cbn [filter keep is_comment negb]; try assumption.
  destruct rc; cbn [negb filter is_comment]; rewrite IH; reflexivity.
Qed.
Lemma filter_keep_pis rp l : filter is_pi (filter (keep true rp) l) = if rp then [] else filter is_pi l.
Proof.
  induction l as [|n l IH]; [destruct rp; reflexivity|].
  destruct n; cbn [filter keep is_pi negb]; try assumption.
  destruct rp; cbn [negb filter is_pi]; rewrite IH; reflexivity.
Qed.

(* ------------------------------------------------------------------------------------------ *)
(* the root setter *)

Lemma drain_addprevious l acc : drain addprevious l acc = acc ++ l.
Proof.
  revert acc. induction l as [|x l IH]; intros acc; cbn [drain]; [rewrite app_nil_r; reflexivity|].
  rewrite IH. unfold addprevious. rewrite <- app_assoc. reflexivity.
Qed.
Lemma drain_addnext l acc : drain addnext l acc = rev l ++ acc.
Proof.
  revert acc. induction l as [|x l IH]; intros acc; cbn [drain]; [reflexivity|].
  rewrite IH. unfold addnext. cbn [rev]. rewrite <- app_assoc. reflexivity.
Qed.

Theorem copy_root_siblings_spec src tgt :
  copy_root_siblings src tgt
  = {| prologue := prologue tgt ++ prologue src; root := root tgt; epilogue := epilogue src ++ epilogue tgt |}.
Proof.
  unfold copy_root_siblings, pop_order, stack_prev, stack_next.
  rewrite drain_addprevious, drain_addnext, !rev_involutive. reflexivity.
Qed.

Theorem set_root_keeps d n :
  is_tag n = true ->
  set_root false d (loose n) = Some {| prologue := prologue d; root := n; epilogue := epilogue d |}.
Proof.
  intros H. unfold set_root. cbn [loose root]. rewrite H, copy_root_siblings_spec.
  cbn [loose prologue epilogue root app negb]. rewrite app_nil_r. reflexivity.
Qed.

(* whatever the new root brings along, the document's prologue and epilogue are still there, in order and next
   to the root: the new root's own root-level siblings (if it has any) stay outermost *)
Theorem set_root_in_order d tgt d' :
  set_root false d tgt = Some d' ->
  prologue d' = prologue tgt ++ prologue d /\ epilogue d' = epilogue d ++ epilogue tgt /\ root d' = root tgt.
Proof.
  unfold set_root. destruct (negb (is_tag (root tgt))); [discriminate|]. intros H. injection H as <-.
  rewrite copy_root_siblings_spec. repeat split.
Qed.

(* the strict reading ("prologue and epilogue are the same afterwards") under its guard: the new root has no
   root-level siblings of its own *)
Theorem set_root_partial d tgt :
  is_tag (root tgt) = true -> prologue tgt = [] -> epilogue tgt = [] ->
  set_root false d tgt = Some {| prologue := prologue d; root := root tgt; epilogue := epilogue d |}.
Proof.
  intros Ht Hp He. unfold set_root. rewrite Ht, copy_root_siblings_spec, Hp, He. cbn [negb app].
  rewrite app_nil_r. reflexivity.
Qed.

(* document.root = document.root leaves the document as it is *)
Theorem set_root_self d : is_tag (root d) = true -> set_root true d d = Some d.
Proof. intros H. unfold set_root. rewrite H. reflexivity. Qed.

(* what it did before e27f40b: the root's own siblings were copied next to it once more *)
Lemma copy_root_siblings_self d :
  copy_root_siblings d d
  = {| prologue := prologue d ++ prologue d; root := root d; epilogue := epilogue d ++ epilogue d |}.
Proof. apply copy_root_siblings_spec. Qed.

Theorem set_root_rejects same d tgt : is_tag (root tgt) = false -> set_root same d tgt = None.
Proof. intros H. unfold set_root. rewrite H. reflexivity. Qed.

(* ------------------------------------------------------------------------------------------ *)
(* the toy root layer satisfies what the theorems ask of a root layer *)

Lemma toy_read_ser k t rest : toy_root_ok t = true -> toy_read (toy_ser k t ++ rest) = Some (toy_norm k t, rest).
Proof.
  destruct t as [ns name attrs kids| | |]; try discriminate.
  unfold toy_ser, toy_norm, toy_name. cbn [toy_root_ok]. intros H. destruct (name_ok_chars name H) as [Hn _].
  unfold toy_read. cbn [app]. rewrite <- app_assoc.
  rewrite span_app; [|exact Hn|reflexivity]. rewrite H. reflexivity.
Qed.

Lemma toy_shape k t : toy_root_ok t = true -> root_shape (toy_ser k t) = true /\ no_cr (toy_ser k t) = true.
Proof.
  destruct t as [ns name attrs kids| | |]; try discriminate.
  unfold toy_ser, toy_name. cbn [toy_root_ok]. intros H. destruct (name_ok_chars name H) as [Hn Hne].
  destruct name as [|c name]; [congruence|]. cbn [forallb] in Hn. apply andb_true_iff in Hn. destruct Hn as [Hc Hn].
  split.
  - unfold root_shape. cbn [app].
    assert (H1 : (c =? 33) = false /\ (c =? 63) = false).
    { pose proof (name_char_ge c Hc). assert (c <> 63) by (intros ->; discriminate).
      split; apply N.eqb_neq; lia. }
    destruct H1 as [-> ->]. cbn [negb andb].
    replace (60 :: c :: name ++ [47; 62]) with ((60 :: c :: name ++ [47]) ++ [62]).
    + rewrite rev_unit. reflexivity.
    + cbn [app]. rewrite <- app_assoc. reflexivity.
  - rewrite !no_cr_app. rewrite (name_no_cr (c :: name)); [reflexivity|]. cbn [forallb]. rewrite Hc, Hn. reflexivity.
Qed.

Lemma toy_codec enc body b :
  toy_encode enc (decl_of enc ++ body) = Some b -> toy_decode b = Some (decl_of enc ++ body).
Proof.
  unfold toy_encode, toy_decode. destruct (label_eqb enc L_ASCII).
  - destruct (forallb _ _); [|discriminate]. intros H. injection H as <-. reflexivity.
  - intros H. injection H as <-. reflexivity.
Qed.

(* ------------------------------------------------------------------------------------------ *)
(* strip_node leaves no node of the dropped kind anywhere in the tree *)

Lemma list_sum_cons a l : list_sum (a :: l) = (a + list_sum l)%nat.
Proof. reflexivity. Qed.

Lemma count_kind_tag p ns name attrs kids :
  count_kind p (Tag ns name attrs kids) = list_sum (map (count_kind p) kids).
Proof. cbn [count_kind]. induction kids as [|k r IH]; cbn [map]; rewrite ?list_sum_cons; [reflexivity|]. rewrite IH. reflexivity. Qed.

Lemma count_merge_items p l : (forall s, p (Text s) = false) ->
  list_sum (map (count_kind p) (merge_items (fun x => x) l)) = list_sum (map (count_kind p) l).
Proof.
  intros Hp. induction l as [|x r IH]; [reflexivity|].
  assert (Ht : forall s, count_kind p (Text s) = 0%nat) by (intros s; cbn [count_kind]; rewrite Hp; reflexivity).
  assert (Hnt : forall x, is_text x = false ->
            merge_items (fun x => x) (x :: r) = x :: merge_items (fun x => x) r)
    by (intros y Hy; destruct y; try discriminate; reflexivity).
  destruct x as [ns name attrs kids|s|c|t c].
  - rewrite Hnt by reflexivity. cbn [map] in *; rewrite ?list_sum_cons in *. rewrite IH. reflexivity.
  - change (merge_items (fun x => x) (Text s :: r))
      with (match merge_items (fun x => x) r with Text s' :: r' => Text (s ++ s') :: r' | r' => Text s :: r' end).
    cbn [map] in *; rewrite ?list_sum_cons in *. rewrite <- IH, Ht.
    destruct (merge_items (fun x => x) r) as [|y r']; [cbn [map]; rewrite ?list_sum_cons, Ht; reflexivity|].
    destruct y; cbn [map]; rewrite ?list_sum_cons, ?Ht; reflexivity.
  - rewrite Hnt by reflexivity. cbn [map] in *; rewrite ?list_sum_cons in *. rewrite IH. reflexivity.
  - rewrite Hnt by reflexivity. cbn [map] in *; rewrite ?list_sum_cons in *. rewrite IH. reflexivity.
Qed.

Lemma count_strip_items p rc rp rec kids :
  Forall (fun k => keep rc rp k = true -> count_kind p (rec k) = 0%nat) kids ->
  list_sum (map (count_kind p) (strip_items rc rp rec kids)) = 0%nat.
Proof.
  intros Hf. induction Hf as [|k r Hk0 Hf IH]; [reflexivity|].
  cbn [strip_items]. fold (strip_items rc rp rec r). destruct (keep rc rp k) eqn:E; [|exact IH].
  cbn [map]; rewrite ?list_sum_cons. rewrite IH, Hk0; reflexivity.
Qed.

Theorem strip_node_no_comment rp n : is_comment n = false -> count_kind is_comment (strip_node true rp n) = 0%nat.
Proof.
  induction n as [ns name attrs kids IH|s|c|t c] using node_ind'; intros Hn; try reflexivity; try discriminate.
  cbn [strip_node]. rewrite count_kind_tag, count_merge_items by reflexivity.
  apply count_strip_items. apply Forall_forall. intros k Hin Hk. rewrite Forall_forall in IH.
  apply IH; [assumption|]. destruct k; try reflexivity; discriminate.
Qed.

Theorem strip_node_no_pi rc n : is_pi n = false -> count_kind is_pi (strip_node rc true n) = 0%nat.
Proof.
  induction n as [ns name attrs kids IH|s|c|t c] using node_ind'; intros Hn; try reflexivity; try discriminate.
  cbn [strip_node]. rewrite count_kind_tag, count_merge_items by reflexivity.
  apply count_strip_items. apply Forall_forall. intros k Hin Hk. rewrite Forall_forall in IH.
  apply IH; [assumption|]. destruct k; try reflexivity. destruct rc; discriminate.
Qed.
