(* The plain serializer (_delb/nodes.py Serializer.serialize_root / serialize_node / _serialize_tag /
   _generate_attributes_data / _serialize_attributes, CommentNode.__str__, ProcessingInstructionNode.__str__)
   over the content tree, given the prefix table.  Definitions only.  The escape tables are generated. *)
From Delb.Base Require Import PyStr PyDict.
From Delb.Gen Require Import GenNames GenNs.
From Delb.Tree Require Import ATree.
From Delb.Ns Require Import Namespaces Prefixes.

Definition QUOT : char := 34%N.
Definition APOS : char := 39%N.
Definition AMP : char := 38%N.
Definition LT : char := 60%N.
Definition GT : char := 62%N.
Definition SLASH : char := 47%N.
Definition EQ : char := 61%N.
Definition QM : char := 63%N.
Definition BANG : char := 33%N.
Definition DASH : char := 45%N.
Definition SEMI : char := 59%N.

Definition escape_text (s : str) : str := py_translate cce_table_for_text s.
Definition escape_attr (s : str) : str := py_translate cce_table_for_attributes s.

(* sorted(node.attributes): keys are (namespace, local name) tuples *)
Definition akey_ltb (a b : attr) : bool :=
  let '(na, la, _) := a in let '(nb, lb, _) := b in
  (str_ltb na nb || (str_eqb na nb && str_ltb la lb))%bool.
Fixpoint insert_attr (x : attr) (l : list attr) : list attr :=
  match l with
  | [] => [x]
  | y :: r => if akey_ltb y x then y :: insert_attr x r else x :: l
  end.
Definition sort_attrs (l : list attr) : list attr := fold_right insert_attr [] l.

Definition quote (s : str) : str := QUOT :: s ++ [QUOT].
(* data[self._prefixes[a.namespace] + a.local_name] = f'"{a.value.translate(CCE_TABLE_FOR_ATTRIBUTES)}"' *)
Definition generate_attributes_data (pm : pmap) (attrs : list attr) : dict str :=
  fold_left (fun d (a : attr) => let '(ns, local, v) := a in dict_set (qname pm ns local) (quote (escape_attr v)) d)
            (sort_attrs attrs) [].
Definition serialize_attributes (d : dict str) : str :=
  flat_map (fun kv => SP :: fst kv ++ [EQ] ++ snd kv) d.

Definition serialize_tag (kids_out : str) (has_kids : bool) (pn : str) (data : dict str) : str :=
  [LT] ++ pn ++ serialize_attributes data ++
  (if has_kids then [GT] ++ kids_out ++ [LT; SLASH] ++ pn ++ [GT] else [SLASH; GT]).

Fixpoint render_node (pm : pmap) (n : node) : str :=
  match n with
  | Comment s => [LT; BANG; DASH; DASH] ++ s ++ [DASH; DASH; GT]
  | PI t c => [LT; QM] ++ t ++ [SP] ++ c ++ [QM; GT]
  | Text s => escape_text s
  | Tag ns name attrs kids =>
      serialize_tag ((fix go (l : list node) : str :=
                        match l with [] => [] | k :: r => render_node pm k ++ go r end) kids)
                    (negb (null kids)) (qname pm ns name) (generate_attributes_data pm attrs)
  end.
Definition render_kids (pm : pmap) (l : list node) : str := flat_map (render_node pm) l.

(* serialize_root: declarations first (namespace names escaped like attribute values, d973cc6), then
   attributes_data.update(own attributes) *)
Definition root_attributes_data (pm : pmap) (attrs : list attr) : dict str :=
  fold_left (fun d kv => dict_set (fst kv) (snd kv) d) (generate_attributes_data pm attrs)
            (map (fun kv => (fst kv, quote (escape_attr (snd kv)))) (declared_attributes pm)).
Definition render_root (pm : pmap) (n : node) : str :=
  match n with
  | Tag ns name attrs kids =>
      serialize_tag (render_kids pm kids) (negb (null kids)) (qname pm ns name) (root_attributes_data pm attrs)
  | _ => render_node pm n
  end.

(* a text node with empty content is written as nothing (bfce419; it raised InvalidCodePath before):
   render_node (Text []) = [].  has_empty_text is kept for the check's regression class. *)
Fixpoint has_empty_text (n : node) : bool :=
  match n with
  | Tag _ _ _ kids => existsb has_empty_text kids
  | Text [] => true
  | _ => false
  end.

(* TagNode.serialize(namespaces=caller) with no format options; `ord` as in Ns/Prefixes.v *)
Definition serialize (caller : caller_map) (ord : list (list str)) (t : node) : res str :=
  bind (collect caller (root_ns_of t) ord) (fun pm => Ok (render_root pm t)).

Definition enc_res_str (r : res str) : list N :=
  match r with
  | Ok s => 0%N :: s
  | Rejected _ => [1%N]
  | Crash AssertionError => [2%N]
  | Crash InvalidCodePath => [5%N]
  | Crash _ => [3%N]
  | OutOfFuel => [4%N]
  end.
