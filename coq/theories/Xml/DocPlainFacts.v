(* C12 with the plain serializer: the hypothesis H_root of Xml/DocFacts.v is discharged for
   (ser_root_plain, read_root_plain) from C02's round trip theorem. *)
From Coq Require Import List NArith Bool Lia.
From Delb.Base Require Import PyStr PyStrFacts PyDict PyDictFacts.
From Delb.Gen Require Import GenNames GenNs.
From Delb.Tree Require Import ATree Merge MergeFacts.
From Delb.Ns Require Import Namespaces NamespacesFacts Prefixes PrefixFacts.
From Delb.Xml Require Import Plain PlainFacts Reader Tokens RoundTrip NsResolve MergeTrip.
From Delb.Xml Require Import DocPlain.
From Delb.Xml Require Doc DocFacts.
Import ListNotations.

(* ---- depth bookkeeping on token streams ---------------------------------------------------------- *)
Fixpoint run (d : nat) (toks : list token) : option nat :=
  match toks with
  | [] => Some d
  | TEnd _ :: r => match d with O => None | S d' => run d' r end
  | TStart _ _ false :: r => run (S d) r
  | _ :: r => run d r
  end.

Lemma run_app a : forall d b, run d (a ++ b) = match run d a with Some d' => run d' b | None => None end.
Proof.
  induction a as [|t a IH]; intros d b; [reflexivity|].
  destruct t as [n at_ e|n|s|s|t c]; cbn [app run]; try apply IH.
  - destruct e; apply IH.
  - destruct d; [reflexivity|apply IH].
Qed.

Lemma run_kids_of pm l : Forall (fun k => forall d, run d (toks_node pm k) = Some d) l ->
  forall d, run d (toks_kids pm l) = Some d.
Proof.
  induction 1 as [|k r Hk _ IH]; intros d; [reflexivity|].
  rewrite toks_kids_cons, run_app, Hk. apply IH.
Qed.

Lemma run_node pm n : forall d, run d (toks_node pm n) = Some d.
Proof.
  induction n as [ns name attrs kids IH|s|c|t c] using node_ind'; intros d; try reflexivity.
  destruct kids as [|k0 kids']; [reflexivity|].
  rewrite toks_node_tag_kids. cbn [run]. rewrite run_app, (run_kids_of pm _ IH). reflexivity.
Qed.

Lemma run_kids pm l d : run d (toks_kids pm l) = Some d.
Proof. apply run_kids_of. apply Forall_forall. intros k _. apply run_node. Qed.

(* ---- the extent finder reads back a rendered token stream ------------------------------------------ *)
Definition starts_lt (X : str) : Prop := exists x, X = LT :: x.

Lemma no_adj_tail a r : no_adj_ttext (a :: r) -> no_adj_ttext r.
Proof. destruct r; [exact (fun _ => I)|]. intros [_ H]. exact H. Qed.

Lemma no_adj_prefix a : forall b, no_adj_ttext (a ++ b) -> no_adj_ttext a.
Proof.
  induction a as [|x a IH]; intros b H; [exact I|]. destruct a as [|y a]; [exact I|].
  cbn [app] in H. destruct H as [H1 H2]. split; [exact H1|]. apply (IH b). exact H2.
Qed.

Lemma lex_until_close_toks : forall toks d d' f X,
  Forall tok_ok toks -> no_adj_ttext toks -> starts_lt X -> run d toks = Some d' ->
  lex_until_close (length toks + f) d (render_toks toks ++ X)
  = match lex_until_close f d' X with Some (l, r) => Some (toks ++ l, r) | None => None end.
Proof.
  induction toks as [|t r IH]; intros d d' f X HO HA HX HR.
  - cbn in HR. injection HR as <-. cbn [length plus render_toks flat_map app].
    destruct (lex_until_close f d X) as [[l r]|]; reflexivity.
  - inversion HO as [|? ? Ht Hr]; subst.
    cbn [render_toks flat_map]. fold (render_toks r). rewrite <- app_assoc. cbn [length plus lex_until_close].
    rewrite lex_one_tok; [|exact Ht|].
    2:{ intros HT. destruct r as [|b r'].
        - cbn [render_toks flat_map app]. destruct HX as [x ->]. reflexivity.
        - destruct HA as [HA _]. rewrite HT in HA. cbn [andb] in HA.
          destruct (render_tok_starts_lt b HA) as [x Ex]. cbn [render_toks flat_map]. rewrite Ex. reflexivity. }
    pose proof (no_adj_tail _ _ HA) as HA'.
    assert (K : forall d0, run d0 r = Some d' ->
                cons_tok t (lex_until_close (length r + f) d0 (render_toks r ++ X))
                = match lex_until_close f d' X with Some (l, r0) => Some ((t :: r) ++ l, r0) | None => None end).
    { intros d0 H0. rewrite (IH d0 d' f X Hr HA' HX H0). destruct (lex_until_close f d' X) as [[l r0]|]; reflexivity. }
    destruct t as [n at_ e|n|s|s|t c]; cbn [run] in HR.
    + destruct e; apply K; exact HR.
    + destruct d as [|d0]; [discriminate|]. apply K. exact HR.
    + apply K. exact HR.
    + apply K. exact HR.
    + apply K. exact HR.
Qed.

Lemma render_toks_one t : render_toks [t] = render_tok t.
Proof. cbn. apply app_nil_r. Qed.

Lemma elem_extent_root pm t rest :
  is_tag t = true -> Forall tok_ok (toks_root pm t) -> no_adj_ttext (toks_root pm t) ->
  elem_extent (render_toks (toks_root pm t) ++ rest) = Some rest.
Proof.
  destruct t as [ns name attrs kids| | |]; try discriminate. intros _ HO HA.
  cbn [toks_root] in *. cbv zeta in *. set (q := qname pm ns name) in *.
  destruct kids as [|k0 kids'].
  - cbn [null] in *. rewrite render_toks_one. unfold elem_extent.
    inversion HO as [|? ? Ht _]; subst. rewrite lex_one_tok; [reflexivity|exact Ht|discriminate].
  - cbn [null] in *. set (kids := k0 :: kids') in *.
    inversion HO as [|? ? Ht Hr]; subst. apply Forall_app in Hr. destruct Hr as [Hk He].
    inversion He as [|? ? Hend _]; subst.
    cbn [render_toks flat_map]. fold (render_toks (toks_kids pm kids ++ [TEnd q])).
    rewrite render_toks_app, render_toks_one, <- !app_assoc.
    unfold elem_extent. rewrite lex_one_tok; [|exact Ht|discriminate].
    set (X := render_tok (TEnd q) ++ rest).
    assert (HL : (length (toks_kids pm kids) <= length (render_toks (toks_kids pm kids)))%nat)
      by exact (render_toks_length _ Hk).
    assert (HR : (length (toks_kids pm kids) <= length (render_toks (toks_kids pm kids) ++ X))%nat).
    { rewrite app_length. lia. }
    assert (HF : exists f, S (length (render_toks (toks_kids pm kids) ++ X)) = (length (toks_kids pm kids) + S f)%nat).
    { exists (length (render_toks (toks_kids pm kids) ++ X) - length (toks_kids pm kids))%nat. lia. }
    destruct HF as [f ->].
    rewrite (lex_until_close_toks (toks_kids pm kids) 0 0 (S f) X Hk).
    + unfold X. cbn [lex_until_close]. rewrite lex_one_tok; [reflexivity|exact Hend|discriminate].
    + apply no_adj_tail in HA. apply (no_adj_prefix _ _ HA).
    + unfold X. destruct (render_tok_starts_lt (TEnd q) eq_refl) as [x ->]. eexists. reflexivity.
    + apply run_kids.
Qed.

(* ---- the serializer's output as a rendered token stream (the first half of C02's proof, kept) ----------- *)
Lemma serialize_toks_clean t caller ord :
  wf_tree t -> clean t = true -> valid_caller caller -> caller_prefixes_ncname caller ->
  order_ok (bfs_of t) ord -> (N.of_nat (n_namespaces t + length caller + 17) < 2 ^ 16)%N ->
  exists pm, serialize caller ord t = PyStr.Ok (render_toks (toks_root pm t))
             /\ Forall tok_ok (toks_root pm t) /\ no_adj_ttext (toks_root pm t).
Proof.
  intros [HT HW] HC HV CN HO HB.
  destruct (collect_tree_clauses t caller ord HT HV HO HB) as [data [pm [EN [EC [HI CL]]]]].
  pose proof (pm_facts_of_collect caller data pm (tree_nss t) (normalize_ok _ _ EN) CN HI CL) as PF.
  exists pm. unfold serialize. rewrite EC. cbn [bind].
  destruct t as [ns name attrs kids| | |]; try discriminate.
  assert (COV : forall x, In x (tree_nss (Tag ns name attrs kids)) -> In x (dict_keys pm)).
  { intros x Hx. destruct (c_covers _ _ _ CL x Hx) as [p Hp]. apply dict_get_In in Hp. eapply In_keys. exact Hp. }
  assert (URI : forall n, In n (dict_keys pm) -> uri_ok n).
  { intros n Hn. apply (wf_nss _ HW). destruct (collect_keys _ _ _ _ EC n Hn) as [->|Hn'].
    - apply root_ns_in_tree_nss. reflexivity.
    - apply (order_ok_same_set _ _ HO). exact Hn'. }
  pose proof HW as HW0. cbn [wf_node] in HW. destruct HW as [H1 [H2 [H3 [H4 [H5 [H6 H7]]]]]]. apply wf_fix in H7. apply attrs_wf0 in H4.
  set (E0 := decl_env (declared_attributes pm) ++ initial_env).
  assert (OR : open_element initial_env (qname pm ns name) (root_tok_attrs pm attrs) = Some (E0, ns, name, attrs)).
  { apply (open_root pm PF); try assumption.
    - apply COV. apply tree_nss_tag. left. reflexivity.
    - eapply attrs_in_of. exact COV. }
  assert (KR : all_resolve E0 pm kids).
  { unfold all_resolve. apply Forall_forall. intros k Hk. rewrite Forall_forall in H7. apply (wf_resolves pm PF k (H7 k Hk)).
    intros x Hx. apply COV. apply tree_nss_tag. right. right. exists k. split; assumption. }
  rewrite (render_root_toks E0 pm ns name attrs kids _ OR KR).
  destruct (wf_root_toks_ok pm PF URI ns name attrs kids HW0 HC COV) as [TO TA].
  split; [reflexivity|split; assumption].
Qed.

Lemma serialize_toks t caller ord :
  wf_tree t -> no_empty t = true -> valid_caller caller -> caller_prefixes_ncname caller ->
  order_ok (bfs_of t) ord -> (N.of_nat (n_namespaces t + length caller + 17) < 2 ^ 16)%N ->
  exists pm, serialize caller ord t = PyStr.Ok (render_toks (toks_root pm (merge_tree t)))
             /\ Forall tok_ok (toks_root pm (merge_tree t)) /\ no_adj_ttext (toks_root pm (merge_tree t)).
Proof.
  intros [HT HW] HN HV CN HO HB.
  assert (EL : bfs_of (merge_tree t) = bfs_of t) by (unfold bfs_of; rewrite levels_merge; reflexivity).
  assert (ES : serialize caller ord (merge_tree t) = serialize caller ord t).
  { unfold serialize. replace (root_ns_of (merge_tree t)) with (root_ns_of t) by (destruct t; reflexivity).
    destruct (collect caller (root_ns_of t) ord) as [pm| | |]; cbn [bind]; try reflexivity.
    rewrite render_root_merge by exact HN. reflexivity. }
  rewrite <- ES. apply serialize_toks_clean.
  - split; [destruct t; try discriminate; reflexivity | apply wf_merge; exact HW].
  - apply merge_clean.
  - exact HV.
  - exact CN.
  - rewrite EL. exact HO.
  - unfold n_namespaces, tree_nss. rewrite EL. exact HB.
Qed.

(* ---- H_root for the plain serializer ----------------------------------------------------------------------- *)
Definition plain_root_ok (fo : plain_fmt) (t : node) : Prop :=
  wf_tree t /\ no_empty t = true /\ valid_caller (fst fo) /\ caller_prefixes_ncname (fst fo)
  /\ order_ok (bfs_of t) (snd fo) /\ (N.of_nat (n_namespaces t + length (fst fo) + 17) < 2 ^ 16)%N.

Theorem read_root_plain_ser fo t rest :
  plain_root_ok fo t ->
  read_root_plain (ser_root_plain fo t ++ rest) = Some (norm_plain fo t, rest).
Proof.
  destruct fo as [caller ord]. unfold plain_root_ok. cbn [fst snd]. intros (HW & HN & HV & CN & HO & HB).
  pose proof (roundtrip t caller ord HW HN HV CN HO HB) as RT.
  destruct (serialize_toks t caller ord HW HN HV CN HO HB) as [pm [ES [TO TA]]].
  unfold ser_root_plain, norm_plain. cbn [fst snd]. rewrite ES in *. cbn [reparse] in RT.
  unfold read_root_plain. rewrite elem_extent_root; [| |exact TO|exact TA].
  2:{ destruct HW as [HT _]. destruct t; try discriminate; reflexivity. }
  rewrite app_length. replace (length (render_toks (toks_root pm (merge_tree t))) + length rest - length rest)%nat
    with (length (render_toks (toks_root pm (merge_tree t))) + 0)%nat by lia.
  rewrite firstn_app_2. cbn [firstn]. rewrite app_nil_r, RT. reflexivity.
Qed.

(* ---- the document round trip with the plain serializer: no hypothesis about the root layer is left -------- *)
Section PlainDocument.
  Variable bytes : Type.
  Variable supported : str -> bool.
  Variable encode : str -> str -> option bytes.
  Variable decode : bytes -> option str.
  Hypothesis H_codec : forall enc body b, supported enc = true ->
    encode enc (Doc.decl_of enc ++ body) = Some b -> decode b = Some (Doc.decl_of enc ++ body).

  Theorem roundtrip_bytes_plain enc ls nl fo d b :
    supported enc = true -> Doc.label_ok enc = true -> DocFacts.linesep_ok ls ->
    Doc.doc_ok d = true -> plain_root_ok fo (Doc.root d) ->
    Doc.root_shape (ser_root_plain fo (Doc.root d)) = true -> Doc.no_cr (ser_root_plain fo (Doc.root d)) = true ->
    Doc.doc_write plain_kind ser_root_plain encode ls enc nl fo d = Some b ->
    Doc.doc_read read_root_plain decode b = Doc.Ok (Some (Doc.upper enc), Doc.norm_doc norm_plain fo d).
  Proof.
    intros Hs He Hl Hd Hr Hsh Hcr Hw.
    apply (DocFacts.roundtrip_bytes plain_fmt bytes plain_kind ser_root_plain read_root_plain norm_plain plain_root_ok
             supported encode decode read_root_plain_ser H_codec enc ls nl fo d b); try assumption.
    unfold DocFacts.doc_pre. split; [assumption|]. split; [assumption|]. split; assumption.
  Qed.
End PlainDocument.

Theorem roundtrip_str_plain nl fo d :
  Doc.doc_ok d = true -> plain_root_ok fo (Doc.root d) ->
  Doc.root_shape (ser_root_plain fo (Doc.root d)) = true -> Doc.no_cr (ser_root_plain fo (Doc.root d)) = true ->
  Doc.parse_doc read_root_plain (Doc.nl_in (Doc.doc_str plain_kind ser_root_plain nl fo d))
  = Doc.Ok (Some (Doc.upper Doc.L_UTF8), Doc.norm_doc norm_plain fo d).
Proof.
  intros Hd Hr Hsh Hcr.
  apply (DocFacts.roundtrip_str plain_fmt plain_kind ser_root_plain read_root_plain norm_plain plain_root_ok
           read_root_plain_ser nl fo d).
  unfold DocFacts.doc_pre. split; [assumption|]. split; [assumption|]. split; assumption.
Qed.
