(* C12 - the model of Xml/Doc.v is the code as regenerated from /repo on this run (Gen/GenDoc.v):
   the writer calls of Document.__serialize, str() of comments and processing instructions, the
   comment validator, the serializer kinds. *)
From Coq Require Import List NArith Bool Lia.
From Delb.Base Require Import PyStr PyStrFacts.
From Delb.Gen Require GenDoc.
From Delb.Tree Require Import ATree.
From Delb.Xml Require Import Doc.
Import ListNotations.
Open Scope N_scope.

Definition gen_misc_str (n : node) : str :=
  match n with
  | Comment c => GenDoc.gen_comment_str c
  | PI t c => GenDoc.gen_pi_str t c
  | _ => []
  end.

Lemma misc_str_generated n : is_misc n = true -> misc_str n = gen_misc_str n.
Proof. destruct n; try discriminate; intros _; reflexivity. Qed.

Lemma doc_chunks_generated k enc pro rootc epi :
  doc_chunks k enc pro rootc epi = GenDoc.gen_doc_chunks (is_pretty k) (upper enc) pro rootc epi.
Proof.
  unfold doc_chunks, GenDoc.gen_doc_chunks, decl_of, L_DECL_HEAD, L_DECL_TAIL.
  destruct k; cbn [is_pretty pnl]; destruct (null epi); cbn [negb app]; rewrite <- ?app_assoc; reflexivity.
Qed.

Lemma kinds_generated k :
  is_pretty k = GenDoc.gen_is_pretty (kind_nat k)
  /\ (GenDoc.gen_length_tracking (kind_nat k) = true <-> k = KWrap)
  /\ (forall chunks, GenDoc.gen_length_tracking (kind_nat k) = false -> write_chunks k chunks = concat chunks).
Proof.
  destruct k; cbn; repeat split; try discriminate; try reflexivity; intros; congruence.
Qed.

(* the root setter returns early when the node is the current root, before _copy_root_siblings *)
Lemma setter_generated : GenDoc.gen_setter_returns_on_same_root = true.
Proof. reflexivity. Qed.

Lemma str_encoding_generated : L_UTF8 = GenDoc.gen_str_encoding.
Proof. reflexivity. Qed.

(* comment_ok is the complement of CommentNode._validate_content's condition *)
Lemma endswith_dash_cons x r :
  py_endswith (x :: r) [45] = match r with [] => 45 =? x | _ => py_endswith r [45] end.
Proof.
  unfold py_endswith. cbn [rev app]. destruct r as [|y r]; [cbn; rewrite andb_true_r; reflexivity|].
  destruct (rev (y :: r)) as [|a l] eqn:E.
  - apply (f_equal (@length _)) in E. rewrite rev_length in E. discriminate.
  - reflexivity.
Qed.

Lemma comment_ok_generated c : comment_ok c = negb (GenDoc.gen_comment_invalid c).
Proof.
  unfold GenDoc.gen_comment_invalid. induction c as [|x r IH]; [reflexivity|].
  rewrite endswith_dash_cons. cbn [comment_ok py_contains py_prefix]. rewrite (N.eqb_sym 45 x).
  destruct (x =? 45) eqn:Ex.
  - destruct r as [|y r']; [reflexivity|]. rewrite (N.eqb_sym 45 y). destruct (y =? 45) eqn:Ey; [reflexivity|].
    cbn [negb andb orb]. exact IH.
  - cbn [andb orb]. destruct r as [|y r']; [reflexivity|]. exact IH.
Qed.
