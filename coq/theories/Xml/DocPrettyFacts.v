(* C12 with the formatting serializers: the document round trip at the level at which C03 is stated -
   re-reading the written bytes and reducing whitespace gives the (reduced) document back.

   C03's theorems speak about `seen c`, the tree a re-parse of `render c` sees; the step from the string
   `render c` to the tree `seen c` is the one bridging hypothesis of this file:

     H_render_seen   the reference element reader applied to `render c ++ rest`, for the chunk tree c the
                     serializer produces for a root, yields (merge_tree (seen c), rest).

   It is instantiated by computation on Examples (Props/C12.v, with the reader built from C02's lexer
   and parser) and tied on every run by C03's correspondence check, which compares `seen` with what the
   real parser makes of the real output. *)
From Coq Require Import List NArith ZArith Bool Lia.
From Delb.Base Require Import PyStr PyStrFacts.
From Delb.Tree Require Import ATree Merge MergeFacts.
From Delb.Ws Require Import Reduce Pretty SimplePP WsVariant Wrap WrapTextOnly.
From Delb.Props Require C03.
From Delb.Xml Require Import DocPretty.
From Delb.Xml Require Doc DocFacts.
Import ListNotations.

Lemma merge_tree_idem n : merge_tree (merge_tree n) = merge_tree n.
Proof. apply merge_id. apply merge_clean. Qed.

Lemma reduce_model_merge n : reduce_model (merge_tree n) = reduce_model n.
Proof. unfold reduce_model. rewrite merge_tree_idem. reflexivity. Qed.

(* the premises of C03 for a document root under the given format options *)
Definition fmt_root_ok (fo : fmt_opts) (t : node) : Prop :=
  is_tag t = true /\ reduced t /\
  match fo with
  | FPretty ind _ => ws_indent ind = true
  | FWrap ind _ width => ws_indent ind = true /\ (1 <= width)%Z
  end.

(* C03, both serializers: reducing what a reader sees of the root's serialization gives the root back *)
Theorem fmt_transparent fo t : fmt_root_ok fo t -> reduce_model (norm_fmt fo t) = t.
Proof.
  intros (Ht & Hr & Hf). unfold norm_fmt. rewrite reduce_model_merge.
  destruct fo as [ind align|ind align width]; cbn [fmt_chunk].
  - exact (C03.C03_width0 t ind align Ht Hr Hf).
  - destruct Hf as (Hi & Hw).
    pose proof (C03.C03_wrapped_real ind align width t [] t Hi Hw eq_refl Hr
                  ltac:(destruct t; try discriminate; reflexivity)) as H.
    unfold wrap_seen in H. destruct (wrap_real ind align width t []) as [c|] eqn:E; [exact H|].
    unfold wrap_real in E. cbn in E. discriminate.
Qed.

Section Formatted.
  Variable bytes : Type.
  Variable supported : str -> bool.
  Variable encode : str -> str -> option bytes.
  Variable decode : bytes -> option str.
  (* the reference element reader: one element from the front of the string, and what follows it *)
  Variable ref_read : str -> option (node * str).

  Hypothesis H_codec : forall enc body b, supported enc = true ->
    encode enc (Doc.decl_of enc ++ body) = Some b -> decode b = Some (Doc.decl_of enc ++ body).
  Hypothesis H_render_seen : forall fo t rest, fmt_root_ok fo t ->
    ref_read (render (fmt_chunk fo t) ++ rest) = Some (merge_tree (seen (fmt_chunk fo t)), rest).

  (* reading the written bytes back, then reducing whitespace (ParserOptions(reduce_whitespace=True)) *)
  Theorem roundtrip_bytes_fmt enc ls nl fo d b :
    supported enc = true -> Doc.label_ok enc = true -> DocFacts.linesep_ok ls ->
    Doc.doc_ok d = true -> fmt_root_ok fo (Doc.root d) ->
    Doc.root_shape (ser_root_fmt fo (Doc.root d)) = true -> Doc.no_cr (ser_root_fmt fo (Doc.root d)) = true ->
    Doc.doc_write fmt_kind ser_root_fmt encode ls enc nl fo d = Some b ->
    reduce_read (Doc.doc_read ref_read decode b) = Doc.Ok (Some (Doc.upper enc), d).
  Proof.
    intros Hs He Hl Hd Hr Hsh Hcr Hw.
    rewrite (DocFacts.roundtrip_bytes fmt_opts bytes fmt_kind ser_root_fmt ref_read norm_fmt fmt_root_ok
               supported encode decode H_render_seen H_codec enc ls nl fo d b Hs He Hl); [| |exact Hw].
    - unfold reduce_read, reduce_doc, Doc.norm_doc. cbn [Doc.map_res fst snd Doc.prologue Doc.root Doc.epilogue].
      rewrite (fmt_transparent fo (Doc.root d) Hr). destruct d; reflexivity.
    - unfold DocFacts.doc_pre. split; [assumption|]. split; [assumption|]. split; assumption.
  Qed.

  Theorem roundtrip_str_fmt nl fo d :
    Doc.doc_ok d = true -> fmt_root_ok fo (Doc.root d) ->
    Doc.root_shape (ser_root_fmt fo (Doc.root d)) = true -> Doc.no_cr (ser_root_fmt fo (Doc.root d)) = true ->
    reduce_read (Doc.parse_doc ref_read (Doc.nl_in (Doc.doc_str fmt_kind ser_root_fmt nl fo d)))
    = Doc.Ok (Some (Doc.upper Doc.L_UTF8), d).
  Proof.
    intros Hd Hr Hsh Hcr.
    rewrite (DocFacts.roundtrip_str fmt_opts fmt_kind ser_root_fmt ref_read norm_fmt fmt_root_ok H_render_seen nl fo d).
    - unfold reduce_read, reduce_doc, Doc.norm_doc. cbn [Doc.map_res fst snd Doc.prologue Doc.root Doc.epilogue].
      rewrite (fmt_transparent fo (Doc.root d) Hr). destruct d; reflexivity.
    - unfold DocFacts.doc_pre. split; [assumption|]. split; [assumption|]. split; assumption.
  Qed.
End Formatted.
