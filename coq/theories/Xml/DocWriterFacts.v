(* C12 - the document-level abstraction of _LengthTrackingWriter.__call__ (Doc.ltw_call, which keeps
   only "offset == 0") is the generated `writer_call` of Gen/GenPretty.v (translate/gen_pretty.py,
   regenerated from _delb/nodes.py on every run) with preserve_space = False. *)
From Coq Require Import List NArith ZArith Bool Lia.
From Delb.Base Require Import PyStr PyStrFacts PyStrW.
From Delb.Gen Require Import GenPretty.
From Delb.Ws Require Import WrapFacts.
From Delb.Tree Require Import ATree.
From Delb.Xml Require Import Doc.
Import ListNotations.

Lemma lstrip_char_nl s : py_lstrip_char s 10%N = lstrip_nl s.
Proof. induction s as [|c r IH]; cbn; [reflexivity|]. unfold LF. destruct (N.eqb c 10); auto. Qed.

Lemma last1_is_nl s : str_eqb (py_last1 s) [10%N] = ends_nl s.
Proof.
  unfold py_last1, ends_nl. destruct (rev s) as [|c r]; [reflexivity|]. cbn. unfold LF.
  rewrite andb_true_r. reflexivity.
Qed.

Lemma nth_last_rev {A} (s : list A) c : nth_error s (length s - 1) = Some c -> s <> [] -> exists r, rev s = c :: r.
Proof.
  intros H Hne. destruct (exists_last Hne) as [s' [x ->]]. rewrite rev_unit. exists (rev s').
  rewrite app_length in H. cbn [length] in H. replace (length s' + 1 - 1)%nat with (length s') in H by lia.
  rewrite nth_error_app2 in H by lia. rewrite Nat.sub_diag in H. cbn in H. congruence.
Qed.

(* the common tail of both branches of writer_call *)
Lemma writer_tail off (d : str) : (0 <= off)%Z -> d <> [] ->
  let r := (if str_eqb (py_last1 d) [10%N] then (d, 0%Z)
            else let index := py_rfind1 d 10%N (py_len d) in
                 if (index =? -1)%Z then (d, (off + py_len d)%Z) else (d, (py_len d - (index + 1))%Z)) in
  fst r = d /\ (snd r =? 0)%Z = ends_nl d.
Proof.
  intros Hoff Hne. cbv zeta. rewrite last1_is_nl. destruct (ends_nl d) eqn:E; [split; reflexivity|].
  assert (Hlen : (1 <= py_len d)%Z) by (unfold py_len; destruct d; [congruence|cbn [length]; lia]).
  destruct (py_rfind1 d 10%N (py_len d) =? -1)%Z eqn:Ei.
  - split; [reflexivity|]. cbn [snd]. apply Z.eqb_neq. lia.
  - split; [reflexivity|]. cbn [snd]. apply Z.eqb_neq. apply Z.eqb_neq in Ei.
    unfold py_rfind1 in *. unfold py_len in *. rewrite Nat2Z.id, firstn_all in *.
    destruct (rfind_nat 10%N d) as [i|] eqn:Er; [|congruence].
    destruct (rfind_nat_spec _ _ _ Er) as [Hn _].
    assert (Hi : (i < length d)%nat) by (apply nth_error_Some; congruence).
    intros Hz. assert (i = (length d - 1)%nat) by lia. subst i.
    destruct (nth_last_rev d 10%N Hn Hne) as [r Hr]. unfold ends_nl in E. rewrite Hr in E. discriminate.
Qed.

Theorem ltw_call_generated off data : (0 <= off)%Z ->
  ltw_call (off =? 0)%Z data
  = ((snd (writer_call false off data) =? 0)%Z, fst (writer_call false off data)).
Proof.
  intros Hoff. unfold writer_call, ltw_call. cbn [negb andb].
  destruct (off =? 0)%Z eqn:E0.
  - rewrite lstrip_char_nl. unfold py_bool_str. destruct (lstrip_nl data) as [|c r] eqn:Ed.
    + cbn [null negb fst snd]. rewrite E0. reflexivity.
    + cbn [null negb]. destruct (writer_tail off (c :: r) Hoff ltac:(discriminate)) as [H1 H2].
      cbv zeta in H1, H2. rewrite H1, H2. reflexivity.
  - unfold py_bool_str. destruct data as [|c r].
    + cbn [null negb fst snd]. rewrite E0. reflexivity.
    + cbn [null negb]. destruct (writer_tail off (c :: r) Hoff ltac:(discriminate)) as [H1 H2].
      cbv zeta in H1, H2. rewrite H1, H2. reflexivity.
Qed.

(* offsets never become negative, so the premise holds along any sequence of writes from offset 0 *)
Theorem writer_call_offset_nonneg p off data : (0 <= off)%Z -> (0 <= snd (writer_call p off data))%Z.
Proof.
  intros Hoff. unfold writer_call.
  assert (T : forall d : str,
    (0 <= snd (if negb (py_bool_str d) then ([], off)
               else if str_eqb (py_last1 d) [10%N] then (d, 0%Z)
               else let index := py_rfind1 d 10%N (py_len d) in
                    if (index =? -1)%Z then (d, (off + py_len d)%Z) else (d, (py_len d - (index + 1))%Z)))%Z).
  { intros d. destruct (negb (py_bool_str d)); [exact Hoff|]. destruct (str_eqb (py_last1 d) [10%N]); [cbn; lia|].
    cbv zeta. destruct (py_rfind1 d 10%N (py_len d) =? -1)%Z eqn:Ei; cbn [snd]; [unfold py_len; lia|].
    unfold py_rfind1, py_len in *. rewrite Nat2Z.id, firstn_all in *.
    destruct (rfind_nat 10%N d) as [i|] eqn:Er; [|discriminate].
    destruct (rfind_nat_spec _ _ _ Er) as [Hn _].
    assert (Hi : (i < length d)%nat) by (apply nth_error_Some; congruence). lia. }
  destruct (negb p && (off =? 0)%Z)%bool; apply T.
Qed.
