(* C02: the reference reader gives back what the plain serializer wrote.  Lemmas. *)
From Coq Require Import Lia.
From Delb.Base Require Import PyStr PyStrFacts PyDict PyDictFacts.
From Delb.Gen Require Import GenNames GenNs GenValidators GenNsValidators.
From Delb.Tree Require Import ATree Merge MergeFacts.
From Delb.Ns Require Import Namespaces NamespacesFacts Prefixes PrefixFacts.
From Delb.Xml Require Import Plain PlainFacts Reader Tokens.

(* ---- the generated escape tables, read through view lemmas ---------------------------------------- *)
Definition E_AMP : str := [38; 97; 109; 112; 59]%N.
Definition E_GT : str := [38; 103; 116; 59]%N.
Definition E_LT : str := [38; 108; 116; 59]%N.
Definition E_QUOT : str := [38; 113; 117; 111; 116; 59]%N.
Lemma text_table_view c : translate_char cce_table_for_text c =
  if N.eqb 38 c then E_AMP else if N.eqb 62 c then E_GT else if N.eqb 60 c then E_LT else [c].
Proof.
  unfold translate_char.
  change cce_table_for_text with [(38%N, E_AMP); (62%N, E_GT); (60%N, E_LT)]. cbn [table_get].
  destruct (N.eqb 38 c); [reflexivity|]. destruct (N.eqb 62 c); [reflexivity|]. destruct (N.eqb 60 c); reflexivity.
Qed.
Lemma attr_table_view c : translate_char cce_table_for_attributes c =
  if N.eqb 38 c then E_AMP else if N.eqb 62 c then E_GT else if N.eqb 60 c then E_LT
  else if N.eqb 34 c then E_QUOT else [c].
Proof.
  unfold translate_char.
  change cce_table_for_attributes with [(38%N, E_AMP); (62%N, E_GT); (60%N, E_LT); (34%N, E_QUOT)]. cbn [table_get].
  destruct (N.eqb 38 c); [reflexivity|]. destruct (N.eqb 62 c); [reflexivity|]. destruct (N.eqb 60 c); [reflexivity|].
  destruct (N.eqb 34 c); reflexivity.
Qed.

Lemma unesc_plain attr c t : is_xml_char c = true -> c <> AMP -> c <> LT -> c <> CR ->
  (attr = true -> c <> TAB /\ c <> LF) ->
  unesc attr 0 (c :: t) = option_map (cons c) (unesc attr 0 t).
Proof.
  intros HC H1 H2 H3 H4. cbn [unesc].
  replace (N.eqb c AMP) with false by (symmetry; apply N.eqb_neq; exact H1).
  replace (N.eqb c LT) with false by (symmetry; apply N.eqb_neq; exact H2).
  rewrite HC. cbn [negb].
  replace (N.eqb c CR) with false by (symmetry; apply N.eqb_neq; exact H3).
  destruct attr; cbn [andb]; [|reflexivity].
  destruct (H4 eq_refl) as [H5 H6].
  replace (N.eqb c TAB) with false by (symmetry; apply N.eqb_neq; exact H5).
  replace (N.eqb c LF) with false by (symmetry; apply N.eqb_neq; exact H6). reflexivity.
Qed.

Lemma unesc_text_char c t : text_char_ok c ->
  unesc false 0 (translate_char cce_table_for_text c ++ t) = option_map (cons c) (unesc false 0 t).
Proof.
  intros [HC HR]. rewrite text_table_view.
  destruct (N.eqb_spec 38 c) as [<-|H1]; [reflexivity|].
  destruct (N.eqb_spec 62 c) as [<-|H2]; [reflexivity|].
  destruct (N.eqb_spec 60 c) as [<-|H3]; [reflexivity|].
  cbn [app]. apply unesc_plain;
    [exact HC | intros ->; apply H1; reflexivity | intros ->; apply H3; reflexivity | exact HR | intros E; discriminate E].
Qed.
Lemma unesc_attr_char c t : attr_char_ok c ->
  unesc true 0 (translate_char cce_table_for_attributes c ++ t) = option_map (cons c) (unesc true 0 t).
Proof.
  intros [HC [HR [HT HL]]]. rewrite attr_table_view.
  destruct (N.eqb_spec 38 c) as [<-|H1]; [reflexivity|].
  destruct (N.eqb_spec 62 c) as [<-|H2]; [reflexivity|].
  destruct (N.eqb_spec 60 c) as [<-|H3]; [reflexivity|].
  destruct (N.eqb_spec 34 c) as [<-|H4]; [reflexivity|].
  cbn [app]. apply unesc_plain;
    [exact HC | intros ->; apply H1; reflexivity | intros ->; apply H3; reflexivity | exact HR | intros _; split; assumption].
Qed.

Theorem unescape_escape_text s : Forall text_char_ok s -> unescape false (escape_text s) = Some s.
Proof.
  unfold unescape, escape_text, py_translate. induction 1 as [|c s Hc _ IH]; [reflexivity|].
  cbn [flat_map]. rewrite unesc_text_char by exact Hc. rewrite IH. reflexivity.
Qed.
Theorem unescape_escape_attr s : Forall attr_char_ok s -> unescape true (escape_attr s) = Some s.
Proof.
  unfold unescape, escape_attr, py_translate. induction 1 as [|c s Hc _ IH]; [reflexivity|].
  cbn [flat_map]. rewrite unesc_attr_char by exact Hc. rewrite IH. reflexivity.
Qed.

(* escaped text contains neither LT nor GT, escaped attribute values no QUOT either *)
Lemma text_char_free c x : In x (translate_char cce_table_for_text c) -> x <> LT /\ x <> GT.
Proof.
  rewrite text_table_view.
  destruct (N.eqb_spec 38 c) as [_|N1]; [cbn; intuition (subst; discriminate)|].
  destruct (N.eqb_spec 62 c) as [_|N2]; [cbn; intuition (subst; discriminate)|].
  destruct (N.eqb_spec 60 c) as [_|N3]; [cbn; intuition (subst; discriminate)|].
  intros [<-|[]]. split; intros E; [apply N3 | apply N2]; rewrite E; reflexivity.
Qed.
Lemma attr_char_free c x : In x (translate_char cce_table_for_attributes c) -> x <> LT /\ x <> QUOT.
Proof.
  rewrite attr_table_view.
  destruct (N.eqb_spec 38 c) as [_|N1]; [cbn; intuition (subst; discriminate)|].
  destruct (N.eqb_spec 62 c) as [_|N2]; [cbn; intuition (subst; discriminate)|].
  destruct (N.eqb_spec 60 c) as [_|N3]; [cbn; intuition (subst; discriminate)|].
  destruct (N.eqb_spec 34 c) as [_|N4]; [cbn; intuition (subst; discriminate)|].
  intros [<-|[]]. split; intros E; [apply N3 | apply N4]; rewrite E; reflexivity.
Qed.
Lemma escape_text_free s x : In x (escape_text s) -> x <> LT /\ x <> GT.
Proof.
  unfold escape_text, py_translate. rewrite in_flat_map. intros [c [_ H]]. eapply text_char_free. exact H.
Qed.
Lemma escape_attr_free s x : In x (escape_attr s) -> x <> LT /\ x <> QUOT.
Proof.
  unfold escape_attr, py_translate. rewrite in_flat_map. intros [c [_ H]]. eapply attr_char_free. exact H.
Qed.
Lemma escape_text_nonempty s : s <> [] -> exists d t, escape_text s = d :: t /\ d <> LT.
Proof.
  destruct s as [|c s]; [congruence|]. intros _. unfold escape_text, py_translate. cbn [flat_map].
  assert (H : exists d t, translate_char cce_table_for_text c = d :: t).
  { rewrite text_table_view. destruct (N.eqb 38 c); [eexists _, _; reflexivity|].
    destruct (N.eqb 62 c); [eexists _, _; reflexivity|]. destruct (N.eqb 60 c); eexists _, _; reflexivity. }
  destruct H as [d [t E]]. rewrite E. exists d, (t ++ flat_map (translate_char cce_table_for_text) s).
  split; [reflexivity|]. apply (text_char_free c d). rewrite E. left. reflexivity.
Qed.

(* ---- scanning helpers ---------------------------------------------------------------------------------- *)
Definition stops (p : char -> bool) (rest : str) : Prop := match rest with [] => True | c :: _ => p c = false end.
Lemma span_app p a rest : Forall (fun c => p c = true) a -> stops p rest -> span p (a ++ rest) = (a, rest).
Proof.
  induction 1 as [|c a Hc Ha IH]; intros Hs; cbn [app].
  - destruct rest as [|c r]; [reflexivity|]. cbn in *. rewrite Hs. reflexivity.
  - cbn [span]. rewrite Hc, (IH Hs). reflexivity.
Qed.

Lemma name_start_facts c : is_name_start c = true ->
  c <> BANG /\ c <> QM /\ c <> SLASH /\ c <> GT /\ c <> LT /\ is_xml_ws c = false /\ is_name_char c = true.
Proof.
  intros H. repeat split; try (intros ->; vm_compute in H; discriminate).
  - unfold is_xml_ws.
    destruct (N.eqb_spec c 32) as [->|_]; [vm_compute in H; discriminate|].
    destruct (N.eqb_spec c 9) as [->|_]; [vm_compute in H; discriminate|].
    destruct (N.eqb_spec c 10) as [->|_]; [vm_compute in H; discriminate|].
    destruct (N.eqb_spec c 13) as [->|_]; [vm_compute in H; discriminate|]. reflexivity.
  - unfold is_name_char. rewrite H. reflexivity.
Qed.
Lemma is_name_view n : is_name n = true ->
  exists c r, n = c :: r /\ is_name_start c = true /\ Forall (fun x => is_name_char x = true) n.
Proof.
  destruct n as [|c r]; [discriminate|]. cbn. intros H. apply andb_prop in H. destruct H as [H1 H2].
  exists c, r. split; [reflexivity|]. split; [exact H1|]. constructor.
  - apply name_start_facts. exact H1.
  - apply Forall_forall. rewrite forallb_forall in H2. exact H2.
Qed.

Lemma cdata_norm_id s : Forall text_char_ok s -> cdata_norm s = Some s.
Proof.
  induction 1 as [|c s [HC HR] _ IH]; [reflexivity|]. cbn [cdata_norm]. rewrite HC. cbn [negb].
  replace (N.eqb c CR) with false by (symmetry; apply N.eqb_neq; exact HR). rewrite IH. reflexivity.
Qed.

Lemma starts2_cons_app a b c r x y : (r = [] -> match x, y with u :: _, v :: _ => u = v | _, _ => False end) ->
  starts2 a b (c :: r ++ x) = starts2 a b (c :: r ++ y).
Proof.
  destruct r as [|d r]; [|intros _; reflexivity]. intros H. specialize (H eq_refl).
  destruct x as [|u x], y as [|v y]; try contradiction. subst. reflexivity.
Qed.
Lemma split_at2_app a b s rest : no2 a b (s ++ [a]) = true ->
  split_at2 a b (s ++ a :: b :: rest) = Some (s, rest).
Proof.
  induction s as [|c r IH]; intros H.
  - cbn [app split_at2 starts2]. rewrite !N.eqb_refl. reflexivity.
  - cbn [app no2] in H. apply andb_prop in H. destruct H as [H1 H2]. cbn [app split_at2].
    rewrite (starts2_cons_app a b c r (a :: b :: rest) [a]) by (intros _; reflexivity).
    apply negb_true_iff in H1. rewrite H1. rewrite (IH H2). reflexivity.
Qed.

(* ---- the lexer reads back each token in its canonical spelling ------------------------------------------ *)
Lemma py_prefix_head_neq a p b x : a <> b -> py_prefix (a :: p) (b :: x) = false.
Proof. intros H. cbn [py_prefix]. replace (N.eqb a b) with false by (symmetry; apply N.eqb_neq; exact H). reflexivity. Qed.
Lemma py_contains_chars s p c : py_contains s p = true -> In c p -> In c s.
Proof.
  induction s as [|x r IH]; cbn [py_contains]; intros H Hc.
  - rewrite orb_false_r in H. apply py_prefix_app in H. destruct H as [r' H]. destruct p; [destruct Hc | discriminate].
  - apply orb_prop in H. destruct H as [H|H].
    + apply py_prefix_app in H. destruct H as [r' H]. rewrite H. apply in_or_app. left. exact Hc.
    + right. apply IH; assumption.
Qed.

Definition not_lt (c : char) : bool := negb (N.eqb c LT).
Lemma lex_one_text s rest : s <> [] -> Forall text_char_ok s -> stops not_lt rest ->
  lex_one (escape_text s ++ rest) = Some (TText s, rest).
Proof.
  intros Hne Hok Hst. destruct (escape_text_nonempty s Hne) as [d [t [E Hd]]].
  assert (Hd' : LT <> d) by congruence.
  unfold lex_one. rewrite E. cbn [app].
  unfold COMMENT_OPEN, CDATA_OPEN, PI_OPEN, END_OPEN.
  rewrite !(py_prefix_head_neq LT _ d _ Hd').
  change (d :: t ++ rest) with ((d :: t) ++ rest). rewrite <- E.
  unfold lex_text. fold not_lt. rewrite (span_app not_lt (escape_text s) rest).
  - destruct (py_contains (escape_text s) CDATA_END) eqn:EC.
    + exfalso. assert (HG : In GT (escape_text s)) by (eapply py_contains_chars; [exact EC | right; right; left; reflexivity]).
      apply escape_text_free in HG. destruct HG as [_ HG]. apply HG. reflexivity.
    + rewrite unescape_escape_text by exact Hok. reflexivity.
  - apply Forall_forall. intros c Hc. apply escape_text_free in Hc. destruct Hc as [Hc _]. unfold not_lt.
    apply negb_true_iff. apply N.eqb_neq. exact Hc.
  - exact Hst.
Qed.

Definition close_str (e : bool) : str := if e then [SLASH; GT] else [GT].
Definition attr_tok_ok (kv : str * str) : Prop := is_name (fst kv) = true /\ Forall attr_char_ok (snd kv).

Lemma lex_attrs_render attrs : forall fuel e rest, length attrs < fuel -> Forall attr_tok_ok attrs ->
  lex_attrs fuel (flat_map render_attr attrs ++ close_str e ++ rest) = Some (attrs, e, rest).
Proof.
  induction attrs as [|[k v] attrs IH]; intros fuel e rest HF HA; (destruct fuel as [|f]; [lia|]).
  - destruct e; reflexivity.
  - inversion HA as [|? ? [Hk Hv] HA']; subst. cbn [fst snd] in Hk, Hv.
    destruct (is_name_view k Hk) as [k0 [k' [-> [Hs Hall]]]].
    destruct (name_start_facts k0 Hs) as [_ [_ [NS [NG [_ [NW _]]]]]].
    set (tail := flat_map render_attr attrs ++ close_str e ++ rest).
    match goal with |- lex_attrs _ ?X = _ =>
      assert (ES : X = SP :: (k0 :: k') ++ EQ :: QUOT :: escape_attr v ++ QUOT :: tail) end.
    { unfold tail. cbn [flat_map]. unfold render_attr at 1, quote. cbn [fst snd]. cbn [app].
      rewrite <- !app_assoc. cbn [app]. rewrite <- !app_assoc. reflexivity. }
    rewrite ES. cbn [lex_attrs]. unfold EMPTY_CLOSE.
    rewrite (py_prefix_head_neq SLASH _ SP _) by discriminate.
    rewrite (py_prefix_head_neq GT _ SP _) by discriminate.
    change (is_xml_ws SP) with true. cbv iota.
    cbn [app skip_ws]. rewrite NW.
    rewrite (py_prefix_head_neq SLASH _ k0 _) by congruence.
    rewrite (py_prefix_head_neq GT _ k0 _) by congruence.
    change (k0 :: k' ++ EQ :: QUOT :: escape_attr v ++ QUOT :: tail)
      with ((k0 :: k') ++ EQ :: QUOT :: escape_attr v ++ QUOT :: tail).
    rewrite (span_app is_name_char (k0 :: k')) by (exact Hall || reflexivity).
    cbv iota beta. rewrite Hk.
    change (skip_ws (EQ :: QUOT :: escape_attr v ++ QUOT :: tail)) with (EQ :: QUOT :: escape_attr v ++ QUOT :: tail).
    change (py_prefix [EQ] (EQ :: QUOT :: escape_attr v ++ QUOT :: tail)) with true. cbv iota.
    change (skip_ws (skipn 1 (EQ :: QUOT :: escape_attr v ++ QUOT :: tail))) with (QUOT :: escape_attr v ++ QUOT :: tail).
    unfold lex_attr_value. change (N.eqb QUOT QUOT || N.eqb QUOT APOS)%bool with true. cbv iota.
    rewrite (span_app (fun c => negb (N.eqb c QUOT)) (escape_attr v) (QUOT :: tail)).
    + cbv iota beta. rewrite unescape_escape_attr by exact Hv.
      unfold tail. rewrite IH by (try exact HA'; cbn in HF; lia). reflexivity.
    + apply Forall_forall. intros c Hc. apply escape_attr_free in Hc. destruct Hc as [_ Hc].
      apply negb_true_iff. apply N.eqb_neq. exact Hc.
    + reflexivity.
Qed.

Lemma flat_map_render_attr_length attrs : length attrs <= length (flat_map render_attr attrs).
Proof. induction attrs as [|a r IH]; cbn [flat_map length]; [lia|]. rewrite app_length. unfold render_attr at 1. cbn [length]. lia. Qed.

Lemma lex_one_start n attrs e rest : is_name n = true -> Forall attr_tok_ok attrs ->
  lex_one (render_tok (TStart n attrs e) ++ rest) = Some (TStart n attrs e, rest).
Proof.
  intros Hn HA. destruct (is_name_view n Hn) as [n0 [n' [-> [Hs Hall]]]].
  destruct (name_start_facts n0 Hs) as [NB [NQ [NS _]]].
  set (X := flat_map render_attr attrs ++ close_str e ++ rest).
  match goal with |- lex_one ?S = _ => assert (ES : S = LT :: (n0 :: n') ++ X) end.
  { unfold X, close_str. cbn [render_tok]. cbn [app]. rewrite <- !app_assoc. destruct e; reflexivity. }
  rewrite ES. unfold lex_one, COMMENT_OPEN, CDATA_OPEN, PI_OPEN, END_OPEN. cbn [app py_prefix].
  rewrite N.eqb_refl. cbn [andb].
  replace (N.eqb BANG n0) with false by (symmetry; apply N.eqb_neq; congruence).
  replace (N.eqb 33 n0) with false by (symmetry; apply N.eqb_neq; exact (fun E => NB (eq_sym E))).
  replace (N.eqb QM n0) with false by (symmetry; apply N.eqb_neq; congruence).
  replace (N.eqb SLASH n0) with false by (symmetry; apply N.eqb_neq; congruence).
  cbn [andb skipn]. unfold lex_start.
  change (n0 :: n' ++ X) with ((n0 :: n') ++ X).
  assert (HX : stops is_name_char X).
  { unfold X. destruct attrs as [|a r]; cbn [flat_map app]; [destruct e; reflexivity | reflexivity]. }
  rewrite (span_app is_name_char (n0 :: n') X Hall HX). cbv iota beta. rewrite Hn.
  unfold X. rewrite lex_attrs_render; [reflexivity| |exact HA].
  rewrite !app_length. pose proof (flat_map_render_attr_length attrs). lia.
Qed.

Lemma lex_one_end n rest : is_name n = true -> lex_one (render_tok (TEnd n) ++ rest) = Some (TEnd n, rest).
Proof.
  intros Hn. destruct (is_name_view n Hn) as [n0 [n' [-> [Hs Hall]]]].
  match goal with |- lex_one ?S = _ => assert (ES : S = LT :: SLASH :: (n0 :: n') ++ GT :: rest) end.
  { cbn [render_tok app]. rewrite <- !app_assoc. reflexivity. }
  rewrite ES. unfold lex_one, COMMENT_OPEN, CDATA_OPEN, PI_OPEN, END_OPEN.
  change (py_prefix [LT; BANG; DASH; DASH] (LT :: SLASH :: (n0 :: n') ++ GT :: rest)) with false.
  change (py_prefix [60; 33; 91; 67; 68; 65; 84; 65; 91]%N (LT :: SLASH :: (n0 :: n') ++ GT :: rest)) with false.
  change (py_prefix [LT; QM] (LT :: SLASH :: (n0 :: n') ++ GT :: rest)) with false.
  change (py_prefix [LT; SLASH] (LT :: SLASH :: (n0 :: n') ++ GT :: rest)) with true.
  cbv iota. cbn [skipn]. unfold lex_end.
  rewrite (span_app is_name_char (n0 :: n') (GT :: rest) Hall) by reflexivity. cbv iota beta. rewrite Hn.
  reflexivity.
Qed.

Lemma lex_one_comment s rest : comment_ok s = true -> Forall text_char_ok s ->
  lex_one (render_tok (TComment s) ++ rest) = Some (TComment s, rest).
Proof.
  intros Hc Hok.
  match goal with |- lex_one ?S = _ => assert (ES : S = LT :: BANG :: DASH :: DASH :: s ++ DASH :: DASH :: GT :: rest) end.
  { cbn [render_tok]. unfold COMMENT_OPEN. cbn [app]. rewrite <- !app_assoc. reflexivity. }
  rewrite ES. unfold lex_one.
  change (py_prefix COMMENT_OPEN (LT :: BANG :: DASH :: DASH :: s ++ DASH :: DASH :: GT :: rest)) with true.
  cbv iota. cbn [skipn]. unfold lex_comment, split_dashes.
  rewrite (split_at2_app DASH DASH s (GT :: rest) Hc).
  change (py_prefix [GT] (GT :: rest)) with true. cbv iota. rewrite (cdata_norm_id s Hok). reflexivity.
Qed.

Lemma skip_ws_id s : starts_ws s = false -> skip_ws s = s.
Proof. destruct s as [|c r]; [reflexivity|]. cbn. intros ->. reflexivity. Qed.

Lemma lex_one_pi t c rest : is_name t = true -> is_xml_target t = false -> pi_content_ok c = true ->
  starts_ws c = false -> Forall text_char_ok c ->
  lex_one (render_tok (TPI t c) ++ rest) = Some (TPI t c, rest).
Proof.
  intros Ht Hx Hc Hw Hok. destruct (is_name_view t Ht) as [t0 [t' [-> [Hs Hall]]]].
  destruct (name_start_facts t0 Hs) as [NB _].
  match goal with |- lex_one ?S = _ => assert (ES : S = LT :: QM :: (t0 :: t') ++ SP :: c ++ QM :: GT :: rest) end.
  { cbn [render_tok]. unfold PI_OPEN, PI_CLOSE. cbn [app]. rewrite <- !app_assoc. cbn [app]. rewrite <- !app_assoc. reflexivity. }
  rewrite ES. unfold lex_one.
  change (py_prefix COMMENT_OPEN (LT :: QM :: (t0 :: t') ++ SP :: c ++ QM :: GT :: rest)) with false.
  change (py_prefix CDATA_OPEN (LT :: QM :: (t0 :: t') ++ SP :: c ++ QM :: GT :: rest)) with false.
  change (py_prefix PI_OPEN (LT :: QM :: (t0 :: t') ++ SP :: c ++ QM :: GT :: rest)) with true.
  cbv iota. cbn [skipn]. unfold lex_pi.
  rewrite (span_app is_name_char (t0 :: t') (SP :: c ++ QM :: GT :: rest) Hall) by reflexivity.
  cbv iota beta. rewrite Ht, Hx. cbn [negb andb].
  change (py_prefix PI_CLOSE (SP :: c ++ QM :: GT :: rest)) with false. cbv iota.
  change (is_xml_ws SP) with true. cbv iota.
  rewrite skip_ws_id.
  - unfold split_pi_end. rewrite (split_at2_app QM GT c rest Hc). rewrite (cdata_norm_id c Hok). reflexivity.
  - destruct c as [|c0 c']; [reflexivity | exact Hw].
Qed.

(* every token spells to at least one character; non-text tokens start with LT *)
Lemma render_tok_nonempty t : tok_ok t -> render_tok t <> [].
Proof.
  destruct t; cbn [render_tok tok_ok]; try discriminate.
  intros [Hne _]. destruct (escape_text_nonempty s Hne) as [d [x [E _]]]. rewrite E. discriminate.
Qed.
Lemma render_tok_starts_lt t : is_ttext t = false -> exists x, render_tok t = LT :: x.
Proof. destruct t; cbn; try discriminate; intros _; eexists; reflexivity. Qed.

Lemma lex_one_tok t rest : tok_ok t -> (is_ttext t = true -> stops not_lt rest) ->
  lex_one (render_tok t ++ rest) = Some (t, rest).
Proof.
  destruct t as [n attrs e|n|s|s|t c]; cbn [tok_ok is_ttext]; intros H Hr.
  - destruct H as [H1 H2]. apply lex_one_start; assumption.
  - apply lex_one_end; assumption.
  - destruct H as [H1 H2]. apply lex_one_text; auto.
  - destruct H as [H1 H2]. apply lex_one_comment; assumption.
  - destruct H as [H1 [H2 [H3 [H4 H5]]]]. apply lex_one_pi; assumption.
Qed.

Theorem lex_render toks : forall fuel, Forall tok_ok toks -> no_adj_ttext toks -> length toks < fuel ->
  lex fuel (render_toks toks) = Some toks.
Proof.
  induction toks as [|t r IH]; intros fuel HO HA HF; (destruct fuel as [|f]; [lia|]); [reflexivity|].
  inversion HO as [|? ? Ht Hr]; subst. cbn [render_toks flat_map]. fold (render_toks r).
  cbn [lex]. pose proof (render_tok_nonempty t Ht) as NE.
  destruct (render_tok t ++ render_toks r) as [|c0 s0] eqn:ES.
  { apply app_eq_nil in ES. destruct ES as [ES _]. contradiction. }
  rewrite <- ES. rewrite lex_one_tok.
  - rewrite IH; [reflexivity | exact Hr | | cbn in HF; lia].
    destruct r as [|b r']; [exact I | destruct HA as [_ HA]; exact HA].
  - exact Ht.
  - intros HT. destruct r as [|b r']; [exact I|]. destruct HA as [HA _]. rewrite HT in HA. cbn [andb] in HA.
    destruct (render_tok_starts_lt b HA) as [x Ex]. cbn [render_toks flat_map]. rewrite Ex. reflexivity.
Qed.

(* ---- the recursive descent over tokens gives back the tree ------------------------------------------------ *)
Lemma toks_kids_fix pm l :
  (fix go (l : list node) : list token := match l with [] => [] | k :: r => toks_node pm k ++ go r end) l = toks_kids pm l.
Proof. induction l as [|k r IH]; [reflexivity|]. cbn [toks_kids flat_map]. rewrite IH. reflexivity. Qed.
Lemma resolves_fix e pm l :
  (fix all (l : list node) : Prop := match l with [] => True | k :: r => resolves e pm k /\ all r end) l
  <-> all_resolve e pm l.
Proof.
  unfold all_resolve. induction l as [|k r IH]; [split; [constructor | exact (fun _ => I)]|].
  split.
  - intros [H1 H2]. constructor; [exact H1 | apply IH; exact H2].
  - intros H. inversion H; subst. split; [assumption | apply IH; assumption].
Qed.

Lemma toks_kids_cons pm k r : toks_kids pm (k :: r) = toks_node pm k ++ toks_kids pm r.
Proof. reflexivity. Qed.
Lemma toks_node_tag_empty pm ns name attrs :
  toks_node pm (Tag ns name attrs []) = [TStart (qname pm ns name) (tok_attrs pm attrs) true].
Proof. reflexivity. Qed.
Lemma toks_node_tag_kids pm ns name attrs k0 kids' :
  toks_node pm (Tag ns name attrs (k0 :: kids')) =
  TStart (qname pm ns name) (tok_attrs pm attrs) false :: toks_kids pm (k0 :: kids') ++ [TEnd (qname pm ns name)].
Proof. cbn [toks_node null]. rewrite toks_kids_fix. reflexivity. Qed.

Theorem read_kids_toks e pm : forall fuel ks rest,
  all_resolve e pm ks -> tail_ok rest -> length (toks_kids pm ks) < fuel ->
  read_kids fuel e (toks_kids pm ks ++ rest) = Some (ks, rest).
Proof.
  induction fuel as [|f IH]; intros ks rest HR HT HF; [lia|].
  destruct ks as [|k r].
  - cbn [toks_kids flat_map app]. destruct HT as [->|[q [r' ->]]]; reflexivity.
  - inversion HR as [|? ? Hk Hr]; subst.
    rewrite toks_kids_cons in HF |- *. rewrite app_length in HF.
    destruct k as [ns name attrs kids|s|s|t c].
    + cbn [resolves] in Hk. destruct Hk as [HO HK]. apply resolves_fix in HK.
      destruct kids as [|k0 kids'].
      * rewrite toks_node_tag_empty in HF |- *. cbn [app length] in HF |- *. cbn [read_kids]. rewrite HO.
        rewrite IH by (try assumption; lia). reflexivity.
      * rewrite toks_node_tag_kids in HF |- *. rewrite <- app_assoc. set (kids := k0 :: kids') in *. set (q := qname pm ns name) in *.
        cbn [length] in HF. rewrite app_length in HF. cbn [length] in HF.
        cbn [app]. cbn [read_kids]. rewrite HO. rewrite <- (app_assoc (toks_kids pm kids) [TEnd q]). cbn [app].
        rewrite (IH kids (TEnd q :: toks_kids pm r ++ rest)) by
          (try assumption; try (right; eexists _, _; reflexivity); lia).
        rewrite str_eqb_refl. rewrite IH by (try assumption; lia). reflexivity.
    + cbn [toks_node app length] in HF |- *. cbn [read_kids]. rewrite IH by (try assumption; lia). reflexivity.
    + cbn [toks_node app length] in HF |- *. cbn [read_kids]. rewrite IH by (try assumption; lia). reflexivity.
    + cbn [toks_node app length] in HF |- *. cbn [read_kids]. rewrite IH by (try assumption; lia). reflexivity.
Qed.

(* ---- composition: lexing then descending, for a token stream that needs no declarations ------------------ *)
Lemma render_toks_length toks : Forall tok_ok toks -> length toks <= length (render_toks toks).
Proof.
  induction 1 as [|t r Ht _ IH]; [cbn; lia|]. cbn [render_toks flat_map length]. rewrite app_length.
  pose proof (render_tok_nonempty t Ht) as NE. destruct (render_tok t); [contradiction|]. cbn [length].
  unfold render_toks in IH. lia.
Qed.

Theorem parse_render_toks pm t :
  is_tag t = true -> resolves initial_env pm t ->
  Forall tok_ok (toks_node pm t) -> no_adj_ttext (toks_node pm t) ->
  parse (render_toks (toks_node pm t)) = Some (merge_tree t).
Proof.
  intros HT HR HO HA. unfold parse.
  rewrite lex_render; [|exact HO|exact HA|pose proof (render_toks_length _ HO); lia].
  pose proof (read_kids_toks initial_env pm (S (length (toks_node pm t))) [t] []) as RK.
  cbn [toks_kids flat_map] in RK. rewrite !app_nil_r in RK.
  rewrite RK; [|constructor; [exact HR | constructor] | left; reflexivity | lia].
  destruct t; try discriminate. reflexivity.
Qed.

(* ---- skeleton of the round trip: from the root's token stream ------------------------------------------- *)
Theorem parse_render_root pm e0 ns name attrs kids :
  let t := Tag ns name attrs kids in
  open_element initial_env (qname pm ns name) (root_tok_attrs pm attrs) = Some (e0, ns, name, attrs) ->
  all_resolve e0 pm kids ->
  Forall tok_ok (toks_root pm t) -> no_adj_ttext (toks_root pm t) ->
  parse (render_toks (toks_root pm t)) = Some (merge_tree t).
Proof.
  intros t HO HK HT HA. unfold parse.
  rewrite lex_render; [|exact HT|exact HA|pose proof (render_toks_length _ HT); lia].
  unfold t in *. cbn [toks_root] in *. cbv zeta in *. set (q := qname pm ns name) in *.
  destruct kids as [|k0 kids'].
  - cbn [null length]. cbn [read_kids]. revert HO. match goal with |- context [open_element ?a ?b ?c] => destruct (open_element a b c) as [[[[e1 ns1] l1] ras1]|] end; intros HO; [|discriminate HO]. injection HO as -> -> -> ->. reflexivity.
  - cbn [null] in *. cbv iota in *. set (kids := k0 :: kids') in *.
    assert (HL : length (TStart q (root_tok_attrs pm attrs) false :: toks_kids pm kids ++ [TEnd q])
                 = S (S (length (toks_kids pm kids)))) by (cbn [length]; rewrite app_length; cbn [length]; lia).
    remember (length (TStart q (root_tok_attrs pm attrs) false :: toks_kids pm kids ++ [TEnd q])) as f eqn:Ef.
    cbn [read_kids].
    revert HO. match goal with |- context [open_element ?a ?b ?c] => destruct (open_element a b c) as [[[[e1 ns1] l1] ras1]|] end; intros HO; [|discriminate HO]. injection HO as -> -> -> ->.
    rewrite (read_kids_toks e0 pm f kids [TEnd q]); [|exact HK|right; eexists _, _; reflexivity|lia].
    rewrite str_eqb_refl. destruct f as [|f']; [lia|]. reflexivity.
Qed.

(* ---- (a) the serializer's output is the canonical spelling of the token stream ---------------------------- *)
Lemma fold_dict_set_fresh (l : list (str * str)) : forall acc : dict str,
  NoDup (map fst l) -> (forall k, In k (map fst l) -> ~ In k (dict_keys acc)) ->
  fold_left (fun d kv => dict_set (fst kv) (snd kv) d) l acc = acc ++ l.
Proof.
  induction l as [|[k v] r IH]; intros acc ND HK; cbn [fold_left]; [rewrite app_nil_r; reflexivity|].
  cbn [map fst snd] in *. inversion ND as [|? ? Hn ND']; subst.
  rewrite dict_set_new by (apply HK; left; reflexivity).
  rewrite IH; [rewrite <- app_assoc; reflexivity | exact ND' |].
  intros k' Hk' Hin. unfold dict_keys in Hin. rewrite map_app in Hin. apply in_app_or in Hin.
  destruct Hin as [Hin|[<-|[]]]; [apply (HK k'); [right; exact Hk' | exact Hin] | contradiction].
Qed.
Lemma NoDup_app_inv {A} (a b : list A) : NoDup (a ++ b) -> NoDup a /\ NoDup b /\ (forall x, In x a -> ~ In x b).
Proof.
  induction a as [|x a IH]; cbn [app]; intros H; [split; [constructor | split; [exact H | intros x []]]|].
  inversion H as [|? ? Hn H']; subst. destruct (IH H') as [I1 [I2 I3]]. split; [|split; [exact I2|]].
  - constructor; [intros Hx; apply Hn; apply in_or_app; left; exact Hx | exact I1].
  - intros y [<-|Hy] Hb; [apply Hn; apply in_or_app; right; exact Hb | exact (I3 y Hy Hb)].
Qed.
Lemma nodup_raw_NoDup l : nodup_raw l = true -> NoDup l.
Proof.
  induction l as [|x r IH]; cbn; [constructor|]. intros H. apply andb_prop in H. destruct H as [H1 H2].
  constructor; [|apply IH; exact H2]. apply py_in_str_nIn. destruct (py_in_str x r); [discriminate | reflexivity].
Qed.
Lemma open_element_nodup e q a x : open_element e q a = Some x -> NoDup (map fst a).
Proof. unfold open_element. destruct (nodup_raw (map fst a)) eqn:E; [|discriminate]. intros _. apply nodup_raw_NoDup. exact E. Qed.

Lemma gad_as_fold pm l : forall acc : dict str,
  fold_left (fun d (a : attr) => let '(ns, local, v) := a in dict_set (qname pm ns local) (quote (escape_attr v)) d) l acc
  = fold_left (fun d kv => dict_set (fst kv) (snd kv) d)
              (map render_attr_data (map (fun a : attr => let '(ns, local, v) := a in (qname pm ns local, v)) l)) acc.
Proof. induction l as [|[[ns local] v] r IH]; intros acc; [reflexivity|]. cbn [fold_left map]. rewrite IH. reflexivity. Qed.
Lemma map_fst_render_attr_data l : map fst (map render_attr_data l) = map fst l.
Proof. rewrite map_map. apply map_ext. intros [k v]. reflexivity. Qed.

Lemma gad_eq pm attrs : NoDup (map fst (tok_attrs pm attrs)) ->
  generate_attributes_data pm attrs = map render_attr_data (tok_attrs pm attrs).
Proof.
  intros ND. unfold generate_attributes_data. rewrite gad_as_fold. fold (tok_attrs pm attrs).
  rewrite fold_dict_set_fresh; [reflexivity | rewrite map_fst_render_attr_data; exact ND | intros k _ []].
Qed.
Lemma root_data_eq pm attrs : NoDup (map fst (root_tok_attrs pm attrs)) ->
  root_attributes_data pm attrs = map render_attr_data (root_tok_attrs pm attrs).
Proof.
  unfold root_tok_attrs. rewrite map_app. intros ND. apply NoDup_app_inv in ND. destruct ND as [N1 [N2 N3]].
  unfold root_attributes_data. rewrite (gad_eq pm attrs N2).
  change (map (fun kv : str * str => (fst kv, quote (escape_attr (snd kv)))) (declared_attributes pm))
    with (map render_attr_data (declared_attributes pm)).
  rewrite fold_dict_set_fresh; [rewrite map_app; reflexivity | rewrite map_fst_render_attr_data; exact N2 |].
  intros k Hk Hin. rewrite map_fst_render_attr_data in Hk. unfold dict_keys in Hin. rewrite map_fst_render_attr_data in Hin.
  exact (N3 k Hin Hk).
Qed.
Lemma serialize_attributes_eq l : serialize_attributes (map render_attr_data l) = flat_map render_attr l.
Proof. induction l as [|[k v] r IH]; [reflexivity|]. cbn [map flat_map serialize_attributes]. fold serialize_attributes. unfold serialize_attributes in *. cbn [flat_map]. rewrite IH. reflexivity. Qed.

Lemma render_toks_app a b : render_toks (a ++ b) = render_toks a ++ render_toks b.
Proof. unfold render_toks. apply flat_map_app. Qed.

Lemma serialize_tag_toks kids_out (kids : list node) q ta data (kt : list token) :
  data = map render_attr_data ta -> kids_out = render_toks kt ->
  serialize_tag kids_out (negb (null kids)) q data
  = render_toks (if null kids then [TStart q ta true] else TStart q ta false :: kt ++ [TEnd q]).
Proof.
  intros -> ->. unfold serialize_tag. rewrite serialize_attributes_eq. destruct kids as [|k0 r]; cbn [null negb].
  - cbn [render_toks flat_map render_tok]. rewrite app_nil_r. reflexivity.
  - cbn [render_toks flat_map]. fold (render_toks (kt ++ [TEnd q])). rewrite render_toks_app.
    cbn [render_toks flat_map render_tok]. rewrite app_nil_r. cbn [app]. repeat rewrite <- app_assoc. cbn [app]. reflexivity.
Qed.

Lemma render_node_toks e pm n : resolves e pm n -> render_node pm n = render_toks (toks_node pm n).
Proof.
  induction n as [ns name attrs kids IHk|s|s|t c] using node_ind'; intros HR.
  - cbn [resolves] in HR. destruct HR as [HO HK]. apply resolves_fix in HK.
    cbn [render_node toks_node]. rewrite toks_kids_fix.
    apply serialize_tag_toks.
    + apply gad_eq. eapply open_element_nodup. exact HO.
    + clear HO. induction kids as [|k r IHr]; [reflexivity|].
      inversion IHk as [|? ? Hk Hr]; subst. inversion HK as [|? ? Rk Rr]; subst.
      cbn [toks_kids flat_map]. fold (toks_kids pm r). rewrite render_toks_app. rewrite (Hk Rk). f_equal.
      apply IHr; assumption.
  - cbn [render_node toks_node render_toks flat_map render_tok]. rewrite app_nil_r. reflexivity.
  - cbn [render_node toks_node render_toks flat_map render_tok]. rewrite app_nil_r. unfold COMMENT_OPEN. reflexivity.
  - cbn [render_node toks_node render_toks flat_map render_tok]. rewrite app_nil_r. unfold PI_OPEN, PI_CLOSE.
    cbn [app]. repeat rewrite <- app_assoc. reflexivity.
Qed.
Lemma render_kids_toks e pm kids : all_resolve e pm kids -> render_kids pm kids = render_toks (toks_kids pm kids).
Proof.
  induction 1 as [|k r Hk _ IH]; [reflexivity|]. cbn [render_kids toks_kids flat_map].
  fold (render_kids pm r) (toks_kids pm r). rewrite render_toks_app, IH, (render_node_toks e pm k Hk). reflexivity.
Qed.
Lemma render_root_toks e0 pm ns name attrs kids x :
  open_element initial_env (qname pm ns name) (root_tok_attrs pm attrs) = Some x ->
  all_resolve e0 pm kids ->
  render_root pm (Tag ns name attrs kids) = render_toks (toks_root pm (Tag ns name attrs kids)).
Proof.
  intros HO HK. cbn [render_root toks_root]. apply serialize_tag_toks.
  - apply root_data_eq. eapply open_element_nodup. exact HO.
  - eapply render_kids_toks. exact HK.
Qed.

(* ---- the generated comment validator gives what the reader needs ----------------------------------------------- *)
Lemma py_endswith_cons c r : r <> [] -> py_endswith (c :: r) [DASH] = py_endswith r [DASH].
Proof.
  intros H. unfold py_endswith. cbn [rev]. destruct (rev r) as [|x t] eqn:E.
  - exfalso. apply H. rewrite <- (rev_involutive r), E. reflexivity.
  - reflexivity.
Qed.
Lemma comment_validator_ok s : comment_content_refused s = false -> comment_ok s = true.
Proof.
  unfold comment_content_refused, comment_ok. intros H. apply orb_false_iff in H. destruct H as [HC HE].
  induction s as [|c r IH]; [reflexivity|].
  cbn [py_contains] in HC. apply orb_false_iff in HC. destruct HC as [HP HC].
  cbn [app no2]. apply andb_true_intro. split.
  - apply negb_true_iff. destruct r as [|d r'].
    + cbn [app starts2]. change (py_endswith [c] [45%N]) with (N.eqb 45 c && true)%bool in HE.
      rewrite andb_true_r in HE. rewrite N.eqb_sym. change DASH with 45%N. rewrite HE. reflexivity.
    + cbn [app starts2]. cbn [py_prefix] in HP. rewrite andb_true_r in HP.
      rewrite (N.eqb_sym c), (N.eqb_sym d). exact HP.
  - destruct r as [|d r']; [reflexivity|]. apply IH; [exact HC|].
    rewrite <- HE. symmetry. apply py_endswith_cons. discriminate.
Qed.

(* ---- the generated attribute-name and PI-content validators give what the round trip needs ----------------------- *)
Lemma attr_validator_ok ns l : attribute_name_refused ns l = false -> l <> XMLNS_ /\ ns <> xmlns_ns.
Proof.
  unfold attribute_name_refused. intros H. apply orb_false_iff in H. destruct H as [H1 H2].
  split; intros ->; [exact (eq_true_false_abs _ (str_eqb_refl XMLNS_) H1) | exact (eq_true_false_abs _ (str_eqb_refl xmlns_ns) H2)].
Qed.
Lemma attr_wf_wf0 a : attr_wf a -> attr_wf0 a.
Proof.
  destruct a as [[ns l] v]. intros [H1 [H2 [H3 H4]]]. destruct (attr_validator_ok _ _ H2) as [A B].
  repeat split; assumption.
Qed.
Lemma attrs_wf0 attrs : Forall attr_wf attrs -> Forall attr_wf0 attrs.
Proof. intros H. eapply Forall_impl; [|exact H]. exact attr_wf_wf0. Qed.
Lemma pi_validator_ok c : pi_content_refused c = false -> starts_ws c = false.
Proof.
  unfold pi_content_refused. destruct c as [|x r]; [reflexivity|]. unfold py_startswith. cbn [py_prefix starts_ws].
  rewrite !andb_true_r. intros H. repeat (apply orb_false_iff in H; destruct H as [H ?]).
  unfold is_xml_ws. rewrite !(N.eqb_sym x). rewrite H, H0, H1, H2. reflexivity.
Qed.
