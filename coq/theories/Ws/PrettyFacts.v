(* Facts about the model of PrettySerializer (width 0):
   C18 - on data-style trees its output is the output of the straightforward printer simple_pp. *)
From Coq Require Import List NArith Bool Lia.
From Delb.Base Require Import PyStr PyStrFacts.
From Delb.Gen Require Import GenNames GenPretty.
From Delb.Tree Require Import ATree Merge MergeFacts.
From Delb.Ws Require Import Reduce ReduceFacts Pretty SimplePP WsVariant.
Import ListNotations.

(* ------------------------------------------------------------------------------------------ *)
(* text level *)

Lemma nows_nil_iff s : nows s = [] <-> forallb is_ws s = true.
Proof.
  induction s as [|c r IH]; cbn [nows filter forallb]; [tauto|].
  destruct (is_ws c); cbn [negb andb]; [exact IH|]. split; discriminate.
Qed.

Lemma forallb_all_ws s : forallb is_ws s = true <-> all_ws s.
Proof. unfold all_ws. rewrite forallb_forall, Forall_forall. tauto. Qed.

Lemma collapse_blank s : s <> [] -> forallb is_ws s = true -> collapse s = [SP].
Proof.
  intros Hn H. rewrite collapse_all_ws by (apply forallb_all_ws; exact H). destruct s; [congruence|reflexivity].
Qed.

Lemma collapse_nonblank s : forallb is_ws s = false ->
  exists a k b, core k /\ collapse s = optsp a ++ k ++ optsp b.
Proof.
  intros H. destruct (collapse_shape s) as [a E]. rewrite E.
  assert (Hn : nows (collapse_aux true s) = nows s) by apply nows_collapse_aux.
  destruct (view_collapse_true s) as [|b k Hk].
  - exfalso. cbn in Hn. symmetry in Hn. apply nows_nil_iff in Hn. congruence.
  - exists a, k, b. split; [exact Hk|reflexivity].
Qed.

Lemma core_not_sp lead k trail : core k -> str_eqb (optsp lead ++ k ++ optsp trail) [SP] = false.
Proof.
  intros (Hh & Hl & _). destruct lead; cbn [optsp app].
  - destruct k as [|c k]; [cbn in Hh; tauto|]. cbn. reflexivity.
  - destruct k as [|c k]; [cbn in Hh; tauto|]. cbn in Hh. cbn [app str_eqb].
    destruct (N.eqb_spec c SP) as [->|]; [rewrite is_ws_SP in Hh; discriminate|reflexivity].
Qed.

Lemma flat_map_ext_in' {A B} (f g : A -> list B) l :
  (forall a, In a l -> f a = g a) -> flat_map f l = flat_map g l.
Proof.
  induction l as [|x r IH]; intros H; [reflexivity|]. cbn [flat_map].
  rewrite (H x (or_introl eq_refl)), IH; [reflexivity|]. intros a Ha. apply H. right. exact Ha.
Qed.

Lemma esc_text_app a b : esc_text (a ++ b) = esc_text a ++ esc_text b.
Proof. apply flat_map_app. Qed.

Lemma esc_ws_indent s : ws_indent s = true -> esc_text s = s.
Proof.
  induction s as [|c r IH]; [reflexivity|]. cbn [ws_indent forallb]. intros H.
  apply andb_prop in H as [Hc Hr]. change (esc_text (c :: r)) with (cce_lookup pp_cce_text c ++ esc_text r).
  rewrite (IH Hr). unfold ws_indent_char in Hc.
  apply orb_prop in Hc as [Hc|Hc]; [apply orb_prop in Hc as [Hc|Hc]|]; apply N.eqb_eq in Hc; subst c; reflexivity.
Qed.

Lemma ws_indent_app a b : ws_indent a = true -> ws_indent b = true -> ws_indent (a ++ b) = true.
Proof. unfold ws_indent. rewrite forallb_app. intros -> ->. reflexivity. Qed.
Lemma ws_indent_repeat s n : ws_indent s = true -> ws_indent (repeat_str s n) = true.
Proof. intros H. induction n; cbn [repeat_str]; [reflexivity|apply ws_indent_app; assumption]. Qed.
Lemma esc_NL : esc_text NL = NL. Proof. reflexivity. Qed.

(* ------------------------------------------------------------------------------------------ *)
(* the legality tests on data-style sibling lists *)

Definition sep_opt (prev : option node) (x : node) : bool :=
  match prev with None => true | Some p => sep p x end.

Lemma legit_before_sep prev x : sep_opt prev x = true -> legit_before prev x = true.
Proof.
  destruct prev as [p|]; [|reflexivity]. cbn [sep_opt legit_before].
  destruct p, x; cbn [sep]; intros H; try discriminate; exact H.
Qed.

Lemma legit_after_sep x next : match next with Some y => sep x y = true | None => True end -> legit_after x next = true.
Proof.
  destruct next as [y|]; [|reflexivity]. cbn [legit_after].
  destruct x, y; cbn [sep]; intros H; try discriminate; exact H.
Qed.

(* ------------------------------------------------------------------------------------------ *)
(* C18 *)

Section C18.
  Variable ind : str.
  Variable align : bool.
  Hypothesis ind_ne : ind <> [].
  Hypothesis ind_ws : ws_indent ind = true.

  Lemma has_ind_true : has_ind ind = true.
  Proof. unfold has_ind. destruct ind; [congruence|reflexivity]. Qed.

  Lemma key_width_list_max ad : key_width ad = list_max (map (fun kv : str * str => length (fst kv)) ad).
  Proof. induction ad as [|kv r IH]; [reflexivity|]. cbn [key_width fold_right map list_max]. f_equal. exact IH. Qed.

  Lemma pretty_attrs_simple L ad : pretty_attrs ind align L ad = simple_attrs ind align L ad.
  Proof.
    unfold pretty_attrs, simple_attrs, plain_attrs.
    replace (Nat.ltb 1 (length ad)) with (Nat.leb 2 (length ad)) by reflexivity.
    destruct (align && Nat.leb 2 (length ad))%bool; [|reflexivity].
    rewrite has_ind_true. rewrite key_width_list_max. unfold indent, pad_left.
    f_equal. apply flat_map_ext. intros kv. rewrite <- !app_assoc. reflexivity.
  Qed.

  Definition line (L : nat) (k : node) : str :=
    if blank k then [] else repeat_str ind L ++ simple_pp ind align L k ++ NL.

  Lemma text_out_line L prev s next :
    s <> [] -> sep_opt prev (Text s) = true ->
    match next with Some y => sep (Text s) y = true | None => True end ->
    render_list (text_out ind L prev s next) = line L (Text s).
  Proof.
    intros Hne Hp Hn. unfold text_out, line. cbn [blank].
    destruct (forallb is_ws s) eqn:Eb.
    - rewrite (collapse_blank s Hne Eb). reflexivity.
    - destruct (collapse_nonblank s Eb) as (a & k & b & Hk & Ec). rewrite Ec.
      rewrite (core_not_sp a k b Hk).
      rewrite has_ind_true, (legit_before_sep prev (Text s) Hp), (legit_after_sep (Text s) next Hn).
      cbn [andb]. pose proof Hk as (Hh & Hl & _).
      rewrite (lstrip_optsp a k (optsp b) Hh).
      rewrite (rstrip_optsp (indent ind L) k b Hl).
      cbn [render_list flat_map render simple_pp]. rewrite app_nil_r.
      rewrite Ec, (strip_core a k b Hk).
      rewrite !esc_text_app. unfold indent.
      rewrite (esc_ws_indent _ (ws_indent_repeat ind L ind_ws)). rewrite esc_NL, <- app_assoc. reflexivity.
  Qed.

  Lemma seps_cons x r : seps (x :: r) = (match r with y :: _ => sep x y | [] => true end && seps r)%bool.
  Proof. reflexivity. Qed.

  Lemma render_item L c rest :
    render_list ([KText (indent ind L)] ++ c :: [KText NL] ++ rest)
    = repeat_str ind L ++ render c ++ NL ++ render_list rest.
  Proof.
    unfold render_list. cbn [app flat_map render]. unfold indent.
    rewrite (esc_ws_indent _ (ws_indent_repeat ind L ind_ws)), esc_NL. reflexivity.
  Qed.

  Lemma kids_out_nontext rec L prev x r : is_text x = false ->
    kids_out ind rec L prev (x :: r)
    = (if (has_ind ind && legit_before prev x)%bool then [KText (indent ind L)] else [])
      ++ rec L x :: (if legit_after x (hd_error r) then [KText NL] else []) ++ kids_out ind rec L (Some x) r.
  Proof. destruct x; cbn [is_text]; intros H; try discriminate; reflexivity. Qed.

  Lemma kids_out_lines L l :
    Forall (fun k => is_text k = false -> data_style k = true ->
                     render (p_node ind align L k) = simple_pp ind align L k) l ->
    forall prev, sep_opt prev (hd (Comment []) l) = true \/ l = [] ->
    seps l = true ->
    forallb (fun k => (negb (is_empty_text k) && data_style k)%bool) l = true ->
    render_list (kids_out ind (p_node ind align) L prev l) = flat_map (line L) l.
  Proof.
    induction 1 as [|x r Hx Hr IH]; intros prev Hp Hs Hd; [reflexivity|].
    destruct Hp as [Hp|Hp]; [|discriminate]. cbn [hd] in Hp.
    rewrite seps_cons in Hs. apply andb_prop in Hs as [Hs1 Hs2].
    cbn [forallb] in Hd. apply andb_prop in Hd as [Hd1 Hd2]. apply andb_prop in Hd1 as [Hne Hdx].
    assert (Hnext : match hd_error r with Some y => sep x y = true | None => True end)
      by (destruct r; [exact I|exact Hs1]).
    assert (Hrec : render_list (kids_out ind (p_node ind align) L (Some x) r) = flat_map (line L) r).
    { apply IH; [|exact Hs2|exact Hd2]. destruct r as [|y r']; [right; reflexivity|left; exact Hs1]. }
    cbn [flat_map].
    destruct (is_text x) eqn:Et.
    - destruct x as [| s | |]; try discriminate.
      cbn [kids_out]. fold (kids_out ind (p_node ind align) L).
      unfold render_list. rewrite flat_map_app.
      fold (render_list (kids_out ind (p_node ind align) L (Some (Text s)) r)). rewrite Hrec.
      fold (render_list (text_out ind L prev s (hd_error r))).
      rewrite text_out_line; [reflexivity| |exact Hp|exact Hnext].
      destruct s; [discriminate|discriminate].
    - rewrite (kids_out_nontext _ L prev x r Et).
      rewrite has_ind_true, (legit_before_sep prev _ Hp), (legit_after_sep _ _ Hnext). cbn [andb].
      rewrite render_item, Hrec, (Hx eq_refl Hdx).
      assert (El : line L x = repeat_str ind L ++ simple_pp ind align L x ++ NL)
        by (unfold line; destruct x; try reflexivity; discriminate).
      rewrite El, <- !app_assoc. reflexivity.
  Qed.

  Theorem pretty_is_simple n : forall L, is_text n = false -> data_style n = true ->
    render (p_node ind align L n) = simple_pp ind align L n.
  Proof.
    induction n as [ns name attrs kids IH|s|s|t c] using node_ind'; intros L Ht Hd; try reflexivity; try discriminate.
    cbn [p_node simple_pp]. destruct (directive attrs false) eqn:Ed; [reflexivity|].
    cbn [data_style] in Hd. rewrite Ed in Hd. cbn [orb] in Hd. apply andb_prop in Hd as [Hs Hk].
    cbn [render]. rewrite pretty_attrs_simple. unfold tag_open, tag_close.
    destruct kids as [|k0 kr].
    - cbn [null negb handle_kids flat_map]. rewrite !app_nil_r, <- !app_assoc. reflexivity.
    - cbn [null negb]. unfold handle_kids. rewrite has_ind_true.
      remember (k0 :: kr) as ks eqn:Eks.
      rewrite !flat_map_app. cbn [flat_map render]. rewrite !app_nil_r.
      fold (render_list (kids_out ind (p_node ind align) (S L) None ks)).
      rewrite (kids_out_lines (S L) ks).
      + unfold indent. rewrite (esc_ws_indent _ (ws_indent_repeat ind L ind_ws)), esc_NL.
        unfold line. rewrite <- !app_assoc. reflexivity.
      + apply Forall_forall. intros k Hin Htk Hdk. rewrite Forall_forall in IH. exact (IH k Hin (S L) Htk Hdk).
      + left. subst ks. reflexivity.
      + exact Hs.
      + exact Hk.
  Qed.

  Lemma node_str_simple n : (is_tag n || is_text n)%bool = false -> node_str n = simple_pp ind align 0 n.
  Proof. destruct n; cbn; intros; try discriminate; reflexivity. Qed.

  Lemma epilogue_lines (f : node -> str) l : l <> [] ->
    NL ++ flat_map (fun n => f n ++ NL) (removelast l) ++ f (last l (Text [])) = flat_map (fun n => NL ++ f n) l.
  Proof.
    induction l as [|x r IH]; [congruence|]. intros _. destruct r as [|y r'].
    - cbn [removelast last flat_map app]. rewrite app_nil_r. reflexivity.
    - remember (y :: r') as l2 eqn:E2.
      assert (Hl2 : l2 <> []) by (subst; discriminate).
      assert (E1 : removelast (x :: l2) = x :: removelast l2) by (subst; reflexivity).
      assert (E3 : last (x :: l2) (Text []) = last l2 (Text [])) by (subst; reflexivity).
      rewrite E1, E3. cbn [flat_map]. rewrite <- (IH Hl2). rewrite <- !app_assoc. reflexivity.
  Qed.

End C18.

Theorem C18_pretty t ind align : is_tag t = true -> data_style t = true -> reduced t -> ind <> [] -> ws_indent ind = true ->
  pretty ind align t = simple_pp ind align 0 t.
Proof.
  intros Ht Hd _ Hi Hw. unfold pretty, pretty_chunk. apply pretty_is_simple; [exact Hi|exact Hw| |exact Hd].
  destruct t; try discriminate; reflexivity.
Qed.

Theorem C18_doc pro t epi ind align : is_tag t = true -> data_style t = true -> reduced t -> ind <> [] -> ws_indent ind = true ->
  forallb (fun n => negb (is_tag n || is_text n)) (pro ++ epi) = true ->
  pretty_doc ind align pro t epi = simple_doc ind align pro t epi.
Proof.
  intros Ht Hd Hr Hi Hw Hm. unfold pretty_doc, doc_out, simple_doc.
  rewrite (C18_pretty t ind align Ht Hd Hr Hi Hw). rewrite forallb_app in Hm. apply andb_prop in Hm as [Hp He].
  f_equal. f_equal. f_equal.
  - apply flat_map_ext_in'. intros n Hin. rewrite forallb_forall in Hp. specialize (Hp n Hin).
    apply negb_true_iff in Hp. rewrite (node_str_simple ind align n Hp). reflexivity.
  - f_equal. destruct epi as [|e0 er]; [reflexivity|].
    rewrite epilogue_lines by discriminate. apply flat_map_ext_in'. intros n Hin.
    rewrite forallb_forall in He. specialize (He n Hin). apply negb_true_iff in He.
    rewrite (node_str_simple ind align n He). reflexivity.
Qed.
