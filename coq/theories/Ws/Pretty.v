(* Model of PrettySerializer (FormatOptions with width = 0) and of the plain Serializer it hands
   xml:space="preserve" elements to.  Definitions only; facts are in PrettyFacts.v.

   The serializers are modelled as producing a tree of *chunks*: every writer call that emits
   character data is a KText chunk, comments and PIs are chunks of their own, and an element is a
   chunk that carries the literal text of its start tag (attribute layout included) and of its end
   tag next to the chunks of its children.  Two projections of the one model:
     render : the concatenation of everything written  = the output string (compared byte for byte
              with NodeBase.serialize on every run of the checks C18/C03);
     seen   : the tree a re-parse of that string sees (text chunks are the text nodes before the
              parser merges neighbours; compared with the real parser's result on every run).

   Domain of the model (what the checks generate and what the correspondence validates): trees
   without empty and without adjacent text nodes (what a parser produces), no namespaces except
   the xml: prefix on attributes (namespace declarations and prefix choice are C13's subject; the
   prefix function below prints "xml:" for the XML namespace and nothing for the empty one),
   attributes listed in the order of sorted(node.attributes), serialization started at a TagNode
   (serialize_root).  The serializer of a sub-tree never looks at ancestors, so the same
   function models root and sub-tree serialization. *)
From Delb.Base Require Import PyStr.
From Delb.Gen Require Import GenNames GenPretty.
From Delb.Tree Require Import ATree.
From Delb.Ws Require Import Reduce.

Definition NL : str := [LF].

(* str.translate with one of the generated character-entity tables *)
Fixpoint cce_lookup (tbl : list (N * str)) (c : char) : str :=
  match tbl with [] => [c] | (k, v) :: r => if N.eqb c k then v else cce_lookup r c end.
Definition translate (tbl : list (N * str)) (s : str) : str := flat_map (cce_lookup tbl) s.
Definition esc_text : str -> str := translate pp_cce_text.
Definition esc_attr : str -> str := translate pp_cce_attr.

(* reading character data back: the four entities of the generated tables *)
Fixpoint unesc (s : str) : str :=
  match s with
  | 38 :: 97 :: 109 :: 112 :: 59 :: r => 38 :: unesc r                      (* &amp; *)
  | 38 :: 103 :: 116 :: 59 :: r => 62 :: unesc r                            (* &gt; *)
  | 38 :: 108 :: 116 :: 59 :: r => 60 :: unesc r                            (* &lt; *)
  | 38 :: 113 :: 117 :: 111 :: 116 :: 59 :: r => 34 :: unesc r              (* &quot; *)
  | c :: r => c :: unesc r
  | [] => []
  end%N.

Inductive chunk :=
| KText (s : str)                        (* character data: written escaped, re-read as the text s *)
| KRaw (e : str)                         (* character data given as the escaped text that was written *)
| KComment (s : str)
| KPI (target content : str)
| KElem (ns name : str) (attrs : list attr) (open close : str) (kids : list chunk).

Definition s_comment_open : str := [60; 33; 45; 45]%N.   (* <!-- *)
Definition s_comment_close : str := [45; 45; 62]%N.      (* --> *)
Definition s_pi_open : str := [60; 63]%N.                (* <? *)
Definition s_pi_close : str := [63; 62]%N.               (* ?> *)
Definition comment_str (s : str) : str := s_comment_open ++ s ++ s_comment_close.   (* CommentNode.__str__ *)
Definition pi_str (t c : str) : str := s_pi_open ++ t ++ [SP] ++ c ++ s_pi_close.   (* ProcessingInstructionNode.__str__ *)

Fixpoint render (k : chunk) : str :=
  match k with
  | KText s => esc_text s
  | KRaw e => e
  | KComment s => comment_str s
  | KPI t c => pi_str t c
  | KElem _ _ _ o c kids => o ++ flat_map render kids ++ c
  end.
Fixpoint seen (k : chunk) : node :=
  match k with
  | KText s => Text s
  | KRaw e => Text (unesc e)
  | KComment s => Comment s
  | KPI t c => PI t c
  | KElem ns name attrs _ _ kids => Tag ns name attrs (map seen kids)
  end.
Definition render_list (l : list chunk) : str := flat_map render l.

(* ---- plain Serializer ---------------------------------------------------------------------- *)
Definition s_xml_colon : str := [120; 109; 108; 58]%N.
(* self._prefixes[namespace] on the modelled domain *)
Definition pfx (ns : str) : str := if null ns then [] else if str_eqb ns xml_ns then s_xml_colon else [63; 58]%N.
(* _generate_attributes_data: prefixed name -> quoted, escaped value *)
Definition attrs_data (attrs : list attr) : list (str * str) :=
  map (fun a : attr => let '(ns, k, v) := a in (pfx ns ++ k, [34%N] ++ esc_attr v ++ [34%N])) attrs.
(* Serializer._serialize_attributes *)
Definition plain_attrs (ad : list (str * str)) : str :=
  flat_map (fun kv : str * str => [SP] ++ fst kv ++ [61%N] ++ snd kv) ad.
Definition tag_open (nm attrs_text : str) (has_kids : bool) : str :=
  [60%N] ++ nm ++ attrs_text ++ (if has_kids then [62%N] else [47; 62]%N).
Definition tag_close (nm : str) (has_kids : bool) : str :=
  if has_kids then [60; 47]%N ++ nm ++ [62%N] else [].

(* Serializer.serialize_node / _serialize_tag / _handle_child_nodes *)
Fixpoint plain (n : node) : chunk :=
  match n with
  | Tag ns name attrs kids =>
      let nm := pfx ns ++ name in
      let hk := negb (null kids) in
      KElem ns name attrs (tag_open nm (plain_attrs (attrs_data attrs)) hk) (tag_close nm hk) (map plain kids)
  | Text s => KText s
  | Comment s => KComment s
  | PI t c => KPI t c
  end.

(* ---- PrettySerializer ---------------------------------------------------------------------- *)
Definition starts_ws (s : str) : bool := match s with c :: _ => is_ws c | [] => false end.
Definition ends_ws (s : str) : bool := starts_ws (rev s).

(* _whitespace_is_legit_after_node / _before_node for a child of the element being written
   (never the serialization root): `next` / `prev` are the neighbouring siblings, None at the ends *)
Definition legit_after (x : node) (next : option node) : bool :=
  match next with
  | None => true                                                    (* node.parent.last_child is node *)
  | Some y => match x with
              | Text s => ends_ws s                                 (* node.content[-1].isspace() *)
              | _ => match y with Text s' => starts_ws s' | _ => false end
              end
  end.
Definition legit_before (prev : option node) (x : node) : bool :=
  match prev with
  | None => true                                                    (* node.index == 0 *)
  | Some p => match x with
              | Text s => starts_ws s
              | _ => match p with Text s' => ends_ws s' | _ => false end
              end
  end.

Section Pretty.
  Variable ind : str.        (* FormatOptions.indentation *)
  Variable align : bool.     (* FormatOptions.align_attributes *)

  Definition indent (L : nat) : str := repeat_str ind L.          (* self._level * self.indentation *)
  Definition has_ind : bool := negb (null ind).                    (* `if self.indentation` *)

  (* PrettySerializer._serialize_attributes at nesting level L *)
  Definition key_width (ad : list (str * str)) : nat := fold_right (fun kv m => Nat.max (length (fst kv)) m) 0 ad.
  Definition pretty_attrs (L : nat) (ad : list (str * str)) : str :=
    if (align && Nat.ltb 1 (length ad))%bool then
      flat_map (fun kv : str * str =>
                  NL ++ indent L ++ [SP] ++ ind ++ repeat SP (key_width ad - length (fst kv)) ++ fst kv ++ [61%N] ++ snd kv) ad
      ++ (if has_ind then NL ++ indent L else [])
    else plain_attrs ad.

  (* PrettySerializer._serialize_text for a run consisting of the one text node s, at level L *)
  Definition text_out (L : nat) (prev : option node) (s : str) (next : option node) : list chunk :=
    let content := collapse s in                                    (* _normalize_text; escaping happens in render *)
    if str_eqb content [SP] then []
    else
      let c1 := if (has_ind && legit_before prev (Text s))%bool then indent L ++ lstrip content else content in
      let c2 := if legit_after (Text s) next then rstrip c1 ++ NL else c1 in
      [KText c2].

  (* _serialize_child_nodes at level L with PrettySerializer.serialize_node inlined for the non-text children;
     rec is the dispatch of Serializer.serialize_node on a non-text node *)
  Definition kids_out (rec : nat -> node -> chunk) (L : nat) :=
    fix go (prev : option node) (l : list node) : list chunk :=
      match l with
      | [] => []
      | x :: r =>
          let next := hd_error r in
          match x with
          | Text s => text_out L prev s next ++ go (Some x) r
          | _ => (if (has_ind && legit_before prev x)%bool then [KText (indent L)] else [])
                 ++ rec L x
                 :: (if legit_after x next then [KText NL] else [])
                 ++ go (Some x) r
          end
      end.

  (* PrettySerializer._handle_child_nodes for the children of an element at level L: the first child has index 0
     and the last child is the parent's last child, so both legality tests are true *)
  Definition handle_kids (rec : nat -> node -> chunk) (L : nat) (kids : list node) : list chunk :=
    match kids with
    | [] => []
    | _ => [KText NL] ++ kids_out rec (S L) None kids ++ (if has_ind then [KText (indent L)] else [])
    end.

  (* serialize_node's dispatch + PrettySerializer._serialize_tag + Serializer._serialize_tag at level L *)
  Fixpoint p_node (L : nat) (n : node) : chunk :=
    match n with
    | Tag ns name attrs kids =>
        if directive attrs false then plain n                       (* _space_preserving_serializer._serialize_tag *)
        else
          let nm := pfx ns ++ name in
          let hk := negb (null kids) in
          KElem ns name attrs (tag_open nm (pretty_attrs L (attrs_data attrs)) hk) (tag_close nm hk)
                (handle_kids p_node L kids)
    | Text s => KText s
    | Comment s => KComment s
    | PI t c => KPI t c
    end.

  (* TagNode.serialize(format_options=FormatOptions(align, ind, 0)) = serialize_root *)
  Definition pretty_chunk (t : node) : chunk := p_node 0 t.
  Definition pretty (t : node) : str := render (pretty_chunk t).
  Definition pretty_seen (t : node) : node := seen (pretty_chunk t).

  (* Document.__serialize with a PrettySerializer: declaration, prologue nodes, root, epilogue nodes *)
  Definition s_xml_decl_utf8 : str :=
    [60; 63; 120; 109; 108; 32; 118; 101; 114; 115; 105; 111; 110; 61; 34; 49; 46; 48; 34; 32; 101; 110; 99; 111; 100; 105; 110; 103; 61; 34; 85; 84; 70; 45; 56; 34; 63; 62]%N.
  Definition node_str (n : node) : str := render (plain n).        (* str(node) for comments and PIs *)
  Definition doc_out (root_out : str) (prologue epilogue : list node) : str :=
    s_xml_decl_utf8 ++ NL
    ++ flat_map (fun n => node_str n ++ NL) prologue
    ++ root_out
    ++ match epilogue with
       | [] => []
       | _ => NL ++ flat_map (fun n => node_str n ++ NL) (removelast epilogue) ++ node_str (last epilogue (Text []))
       end.
  Definition pretty_doc (prologue : list node) (root : node) (epilogue : list node) : str :=
    doc_out (pretty root) prologue epilogue.
End Pretty.
