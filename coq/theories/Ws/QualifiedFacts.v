(* The qualified view commutes with merging and whitespace reduction and preserves the classes the serializer
   theorems speak about; so C03 / C18 hold for namespaced trees through their qualified view. *)
From Coq Require Import List NArith ZArith Bool.
From Delb.Base Require Import PyStr PyStrFacts.
From Delb.Gen Require Import GenNames GenReduce.
From Delb.Tree Require Import ATree Merge MergeFacts.
From Delb.Ws Require Import Reduce Pretty SimplePP WsVariant Qualified.
Import ListNotations.

Section QF.
  Variable pf : str -> str.
  Notation Q := (qual pf).

  Lemma qual_is_text x : is_text (Q x) = is_text x.
  Proof. destruct x; reflexivity. Qed.
  Lemma qual_is_empty_text x : is_empty_text (Q x) = is_empty_text x.
  Proof. destruct x; reflexivity. Qed.
  Lemma qual_is_tag x : is_tag (Q x) = is_tag x.
  Proof. destruct x; reflexivity. Qed.

  Lemma get_attr_qual attrs : get_attr xml_ns s_space (map (qual_attr pf) attrs) = get_attr xml_ns s_space attrs.
  Proof.
    induction attrs as [|[[n k] v] r IH]; [reflexivity|].
    cbn [map qual_attr]. destruct (str_eqb n xml_ns) eqn:E.
    - cbn [get_attr]. rewrite E. rewrite IH. reflexivity.
    - cbn [get_attr]. rewrite E. cbn [andb]. exact IH.
  Qed.

  Lemma get_attr_decl decl attrs : plain_decl decl = true ->
    get_attr xml_ns s_space (decl ++ attrs) = get_attr xml_ns s_space attrs.
  Proof.
    induction decl as [|[[n k] v] r IH]; intros H; [reflexivity|].
    cbn [plain_decl forallb fst] in H. apply andb_prop in H. destruct H as [Hn Hr].
    destruct n; [|discriminate]. cbn [app get_attr]. exact (IH Hr).
  Qed.

  Lemma directive_qual attrs d : directive (map (qual_attr pf) attrs) d = directive attrs d.
  Proof. unfold directive. rewrite get_attr_qual. reflexivity. Qed.
  Lemma directive_decl decl attrs d : plain_decl decl = true ->
    directive (decl ++ map (qual_attr pf) attrs) d = directive attrs d.
  Proof. intros H. unfold directive. rewrite (get_attr_decl _ _ H), get_attr_qual. reflexivity. Qed.

  Lemma drop_empty_qual l : drop_empty (map Q l) = map Q (drop_empty l).
  Proof.
    induction l as [|x r IH]; [reflexivity|]. cbn [map drop_empty filter]. rewrite qual_is_empty_text.
    destruct (negb (is_empty_text x)); cbn [map]; unfold drop_empty in IH; rewrite IH; reflexivity.
  Qed.

  Lemma merge_items_qual l : Forall (fun x => merge_tree (Q x) = Q (merge_tree x)) l ->
    M (map Q l) = map Q (M l).
  Proof.
    induction 1 as [|x r Hx _ IH]; [reflexivity|].
    destruct x as [ns name attrs kids|s|s|t c].
    - change (map Q (Tag ns name attrs kids :: r)) with (Q (Tag ns name attrs kids) :: map Q r).
      rewrite !M_cons_nontext by reflexivity. rewrite Hx, IH. reflexivity.
    - change (map Q (Text s :: r)) with (Text s :: map Q r).
      rewrite !M_cons_text. rewrite IH. destruct (M r) as [|y r']; [reflexivity|].
      destruct y; reflexivity.
    - change (map Q (Comment s :: r)) with (Q (Comment s) :: map Q r).
      rewrite !M_cons_nontext by reflexivity. rewrite IH. reflexivity.
    - change (map Q (PI t c :: r)) with (Q (PI t c) :: map Q r).
      rewrite !M_cons_nontext by reflexivity. rewrite IH. reflexivity.
  Qed.

  Lemma merge_qual n : merge_tree (Q n) = Q (merge_tree n).
  Proof.
    induction n as [ns name attrs kids IH| | |] using node_ind'; try reflexivity.
    cbn [qual merge_tree]. rewrite (merge_items_qual kids IH), drop_empty_qual. reflexivity.
  Qed.

  Lemma rw_items_qual rwc b l : rw_items rwc b (map Q l) = map Q (rw_items rwc b l).
  Proof.
    revert b. induction l as [|x r IH]; intros b; [reflexivity|].
    destruct x as [ns name attrs kids|s|s|t c]; cbn [map qual rw_items]; rewrite ?IH; try reflexivity.
    replace (null (map Q r)) with (null r) by (destruct r; reflexivity).
    destruct (null (rwc s b (null r))); cbn [app map]; reflexivity.
  Qed.

  Lemma reduce_with_qual rwc n : forall d, reduce_with rwc d (Q n) = Q (reduce_with rwc d n).
  Proof.
    induction n as [ns name attrs kids IH| | |] using node_ind'; intros d; try reflexivity.
    cbn [qual reduce_with]. rewrite directive_qual. rewrite map_map.
    rewrite (map_ext_in _ (fun x => Q (reduce_with rwc (directive attrs d) x))).
    2:{ intros x Hx. rewrite Forall_forall in IH. apply IH. exact Hx. }
    rewrite <- (map_map (reduce_with rwc (directive attrs d)) Q). rewrite drop_empty_qual.
    destruct (directive attrs d); [reflexivity|]. rewrite rw_items_qual. reflexivity.
  Qed.

  Theorem reduce_model_qual n : reduce_model (Q n) = Q (reduce_model n).
  Proof. unfold reduce_model. rewrite merge_qual. apply reduce_with_qual. Qed.

  (* the same at the serialization root, which carries the declarations *)
  Theorem reduce_model_qual_root decl n : plain_decl decl = true ->
    reduce_model (qual_root pf decl n) = qual_root pf decl (reduce_model n).
  Proof.
    intros Hd. destruct n as [ns name attrs kids|s|s|t c]; try reflexivity.
    pose proof (reduce_model_qual (Tag ns name attrs kids)) as H.
    unfold reduce_model in *. cbn [qual qual_root merge_tree reduce_with] in *.
    rewrite directive_qual in H. rewrite (directive_decl decl attrs false Hd).
    injection H as H. rewrite H. reflexivity.
  Qed.

  Theorem reduced_qual_root decl n : plain_decl decl = true -> reduced n -> reduced (qual_root pf decl n).
  Proof. intros Hd Hr. unfold reduced in *. rewrite (reduce_model_qual_root decl n Hd), Hr. reflexivity. Qed.
  Theorem reduced_qual n : reduced n -> reduced (Q n).
  Proof. intros Hr. unfold reduced in *. rewrite reduce_model_qual, Hr. reflexivity. Qed.

  Lemma qual_root_is_tag decl n : is_tag (qual_root pf decl n) = is_tag n.
  Proof. destruct n; reflexivity. Qed.
  Lemma qual_root_is_text decl n : is_text (qual_root pf decl n) = is_text n.
  Proof. destruct n; reflexivity. Qed.

  Lemma sep_qual x y : sep (Q x) (Q y) = sep x y.
  Proof. destruct x, y; reflexivity. Qed.
  Lemma seps_qual l : seps (map Q l) = seps l.
  Proof.
    induction l as [|x r IH]; [reflexivity|]. cbn [map seps]. rewrite IH.
    destruct r as [|y r']; [reflexivity|]. cbn [map]. rewrite sep_qual. reflexivity.
  Qed.

  Lemma data_style_qual n : data_style (Q n) = data_style n.
  Proof.
    induction n as [ns name attrs kids IH| | |] using node_ind'; try reflexivity.
    cbn [qual data_style]. rewrite directive_qual, seps_qual. f_equal. f_equal.
    induction IH as [|x r Hx _ IHr]; [reflexivity|].
    cbn [map forallb]. rewrite qual_is_empty_text, Hx, IHr. reflexivity.
  Qed.
End QF.

Lemma data_style_qual_root pf decl n : plain_decl decl = true -> data_style (qual_root pf decl n) = data_style n.
Proof.
  intros Hd. destruct n as [ns name attrs kids|s|s|t c]; try reflexivity.
  pose proof (data_style_qual pf (Tag ns name attrs kids)) as H. cbn [qual qual_root data_style] in *.
  rewrite directive_qual in H. rewrite (directive_decl pf decl attrs false Hd). exact H.
Qed.
