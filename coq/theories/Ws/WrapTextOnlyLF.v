(* The C19 indentation clause over the Wrap.v model for EVERY indentation string (Ws/WrapTextOnly.v has it for
   indentation without line feeds): a text that is the only child of its element, written over lines from the start
   of a line, comes out as the lines of the generated wrap_text on the escaped text, each prefixed by the indentation
   of its level AS THE WRITER LETS IT THROUGH and ended by a newline.  _LengthTrackingWriter drops the leading newlines
   of what is written at offset 0 unless it preserves space, so the prefix is `eff_indent`: the indentation repeated
   L times without its leading line feeds (all of it when the writer preserves space).  Without line feeds at the
   front of the indentation this is the indentation itself. *)
From Coq Require Import List NArith ZArith Bool Lia.
From Delb.Base Require Import PyStr PyStrW PyStrFacts.
From Delb.Gen Require Import GenNames GenPretty GenWrap.
From Delb.Tree Require Import ATree Merge MergeFacts.
From Delb.Ws Require Import Reduce ReduceFacts Pretty SimplePP WsVariant WsVariantFacts PrettyFacts PrettyVariant Wrap WrapFacts WrapSerFacts WrapTextOnly WrapVariant WrapTextStep.
Import ListNotations.
Open Scope Z_scope.

Lemma writer_fst p o data :
  fst (writer_call p o data) = if (negb p && (o =? 0))%bool then py_lstrip_char data 10%N else data.
Proof.
  unfold writer_call. destruct (negb p && (o =? 0))%bool; cbv zeta.
  - destruct (py_lstrip_char data 10%N) as [|c r]; [reflexivity|]. cbn [py_bool_str null negb].
    destruct (str_eqb (py_last1 (c :: r)) [10%N]); [reflexivity|].
    destruct (py_rfind1 (c :: r) 10%N (py_len (c :: r)) =? -1); reflexivity.
  - destruct data as [|c r]; [reflexivity|]. cbn [py_bool_str null negb].
    destruct (str_eqb (py_last1 (c :: r)) [10%N]); [reflexivity|].
    destruct (py_rfind1 (c :: r) 10%N (py_len (c :: r)) =? -1); reflexivity.
Qed.

Section TextOnlyLF.
  Variable ind : str.
  Variable width : Z.
  Variable req : rpath -> Z -> option Z.
  Hypothesis width_pos : (1 <= width)%Z.

  Definition eff_indent (p : bool) (L : nat) : str :=
    if p then indent ind L else py_lstrip_char (indent ind L) 10%N.

  Lemma eff_indent_no_leading_lf p L : match indent ind L with c :: _ => c <> LF | [] => True end -> eff_indent p L = indent ind L.
  Proof. intros H. unfold eff_indent. destruct p; [reflexivity|apply lstrip_char_id; exact H]. Qed.

  Lemma emit_line_fst st L (l x : str) : w_off st = 0 -> l <> [] -> match l with c :: _ => c <> LF | [] => True end ->
    fst (emit_raw st (indent ind L ++ l ++ x)) = [KRaw (eff_indent (w_pres st) L ++ l ++ x)].
  Proof.
    intros Ho Hn Hh. unfold emit_raw, emit. pose proof (writer_fst (w_pres st) (w_off st) (indent ind L ++ l ++ x)) as E.
    destruct (writer_call (w_pres st) (w_off st) (indent ind L ++ l ++ x)) as [d o]. cbn [fst] in *. subst d.
    rewrite Ho. cbn [Z.eqb]. rewrite andb_true_r. unfold eff_indent. destruct (w_pres st); cbn [negb]; [reflexivity|].
    rewrite lstrip_lf_app_head; [reflexivity|destruct l; [congruence|discriminate]|destruct l; [congruence|exact Hh]].
  Qed.

  Lemma emit_line_state st L (l : str) : l <> [] -> match l with c :: _ => c <> LF | [] => True end ->
    w_off (snd (emit_raw st (indent ind L ++ l ++ NL))) = 0 /\ w_pres (snd (emit_raw st (indent ind L ++ l ++ NL))) = w_pres st.
  Proof. intros Hn Hh. rewrite emit_raw_snd. split; [apply emit_off_line_lf; assumption|apply emit_pres]. Qed.

  Lemma write_lines_clean_lf L ls : Forall edge_clean ls -> forall st, w_off st = 0 ->
    fst (write_lines ind L st (ls ++ [[]])) = map (fun l => KRaw (eff_indent (w_pres st) L ++ l ++ NL)) ls.
  Proof.
    induction 1 as [|l r Hl Hr IH]; intros st Ho; [reflexivity|].
    change ((l :: r) ++ [[]]) with (l :: (r ++ [[]])).
    rewrite write_lines_cons by (destruct r; discriminate).
    destruct (head_nows_ok l (proj1 Hl)) as [Hln Hlh].
    replace (null l) with false by (destruct l; [congruence|reflexivity]).
    pose proof (emit_line_fst st L l NL Ho Hln Hlh) as Hk. destruct (emit_line_state st L l Hln Hlh) as [Ho1 Hp1].
    destruct (emit_raw st (indent ind L ++ l ++ NL)) as [c st1]. cbn [fst snd] in *. subst c.
    specialize (IH st1 Ho1). destruct (write_lines ind L st1 (r ++ [[]])) as [cs st2]. cbn [fst] in *.
    cbn [app map]. rewrite IH, Hp1. reflexivity.
  Qed.

  Theorem text_only_lines_lf L st rp aft k : core k -> w_off st = 0 ->
    exists ls, wrap_text (esc_text k) width = Some ls /\ ls <> [] /\ Forall edge_clean ls /\
               py_join [SP] ls = esc_text k /\
      fst (w_text ind width req L st rp None k None aft) = map (fun l => KRaw (eff_indent (w_pres st) L ++ l ++ NL)) ls.
  Proof.
    intros Hk0 Ho. pose proof (esc_core k Hk0) as Hk. pose proof Hk as (Hh & Hl & _).
    assert (Ecol : collapse k = k) by (exact (proj2 (proj2 Hk0))).
    assert (Hw : (0 < Z.to_nat width)%nat) by lia.
    destruct (wrap_lines_edge_clean (esc_text k) (Z.to_nat width) Hw Hk) as (ls & E & Hne & Hj & HF).
    rewrite Z2Nat.id in E by lia.
    exists ls. split; [exact E|]. split; [exact Hne|]. split; [exact HF|]. split; [exact Hj|].
    unfold w_text. rewrite Ecol. cbn [legit_before legit_after].
    assert (Eav : available ind width L st = width).
    { unfold available, line_offset. rewrite Ho. cbn [Z.eqb]. lia. }
    rewrite Eav, Ho. cbn [Z.eqb].
    rewrite (rstrip_clean _ Hl). rewrite andb_true_r.
    assert (Els : lstrip (esc_text k) = esc_text k) by (rewrite <- (app_nil_r (esc_text k)); apply lstrip_head_nows; exact Hh).
    rewrite Els.
    assert (Ers : rstrip (indent ind L ++ esc_text k) = indent ind L ++ esc_text k).
    { rewrite <- (app_nil_r (esc_text k)) at 1. exact (rstrip_optsp (indent ind L) (esc_text k) false Hl). }
    destruct (head_nows_ok (esc_text k) Hh) as [Hne0 Hhk].
    assert (Hone : (elen (esc_text k) <= width)%Z -> ls = [esc_text k]).
    { intros Hle. rewrite (wrap_text_short _ _ Hne0 Hle) in E. injection E as <-. reflexivity. }
    assert (Hline : fst (emit_raw st ((indent ind L ++ esc_text k) ++ NL)) = [KRaw (eff_indent (w_pres st) L ++ esc_text k ++ NL)]).
    { rewrite <- app_assoc. exact (emit_line_fst st L (esc_text k) NL Ho Hne0 Hhk). }
    destruct (width =? elen (esc_text k))%Z eqn:E1.
    - apply Z.eqb_eq in E1. rewrite Ers, Hline. rewrite (Hone ltac:(lia)). reflexivity.
    - destruct (width >? elen (esc_text k))%Z eqn:E2.
      + cbn [orb]. rewrite Ers, Hline. apply Z.gtb_lt in E2. rewrite (Hone ltac:(lia)). reflexivity.
      + replace (str_eqb (esc_text k) [SP]) with false.
        2:{ symmetry. rewrite <- (app_nil_r (esc_text k)). exact (core_not_sp false (esc_text k) false Hk). }
        unfold text_over_lines. rewrite Ho. cbn [Z.eqb app]. rewrite Els.
        unfold wrap_lines. rewrite E.
        assert (Hlast : py_endswith (last ([] :: ls) []) [SP] = false).
        { destruct ls as [|l0 r0]; [congruence|]. change (last ([] :: l0 :: r0) []) with (last (l0 :: r0) []).
          rewrite py_endswith_sp.
          assert (Hin : In (last (l0 :: r0) []) (l0 :: r0)).
          { destruct (exists_last (l:=l0 :: r0) ltac:(discriminate)) as (q & z & Eq). rewrite Eq, last_last. apply in_or_app. right. left. reflexivity. }
          rewrite Forall_forall in HF. destruct (HF _ Hin) as [_ Hlz].
          rewrite <- (app_nil_r (last (l0 :: r0) [])). change [] with (optsp false) at 2.
          rewrite <- (app_nil_l (last (l0 :: r0) [] ++ optsp false)). exact (endswith_core [] _ false Hlz). }
        rewrite andb_false_r.
        rewrite (consolidate_text_only L st ls Ho Hne HF).
        pose proof (write_lines_clean_lf L ls HF st Ho) as Hwl.
        destruct (write_lines ind L st (ls ++ [[]])) as [cs st']. cbn [fst app] in *. exact Hwl.
  Qed.

  (* on the output string *)
  Corollary text_only_lines_str_lf L st rp aft k : core k -> w_off st = 0 ->
    exists ls, wrap_text (esc_text k) width = Some ls /\
      render_list (fst (w_text ind width req L st rp None k None aft))
      = flat_map (fun l => eff_indent (w_pres st) L ++ l ++ NL) ls.
  Proof.
    intros Hk Ho. destruct (text_only_lines_lf L st rp aft k Hk Ho) as (ls & E & _ & _ & _ & Ec).
    exists ls. split; [exact E|]. rewrite Ec. unfold render_list. clear.
    induction ls as [|l r IH]; [reflexivity|]. cbn [map flat_map render]. rewrite IH. reflexivity.
  Qed.
End TextOnlyLF.
