(* The straightforward recursive pretty-printer property C18 compares the indenting serializer
   with, and the class of trees the property speaks about.  Definitions only.

   simple_pp L n is the text of node n when it stands at nesting depth L, without the indentation
   in front of its first line and without the newline after its last one:
     - an element without children is one self-closed tag;
     - an element with children is its start tag, then every child that is not whitespace-only text
       on a line (or lines) of its own, indented one step deeper, then the end tag at the element's
       own depth;
     - text is printed normalised (whitespace runs collapsed, ends trimmed) and escaped;
     - attributes follow the tag name on its line, or - aligned - stand one per line with the
       equal signs in one column, and the tag's closing bracket on a line of its own;
     - an element bearing xml:space="preserve" is printed verbatim by the plain serializer. *)
From Delb.Base Require Import PyStr.
From Delb.Tree Require Import ATree.
From Delb.Ws Require Import Reduce Pretty.

(* an indentation string: space, tab, line feed *)
Definition ws_indent_char (c : char) : bool := (N.eqb c 32 || N.eqb c 9 || N.eqb c 10)%bool.
Definition ws_indent (ind : str) : bool := forallb ws_indent_char ind.

Definition blank (n : node) : bool := match n with Text s => forallb is_ws s | _ => false end.

Section SimplePP.
  Variable ind : str.
  Variable align : bool.

  Definition pad_left (w : nat) (k : str) : str := repeat SP (w - length k) ++ k.
  Definition simple_attrs (L : nat) (ad : list (str * str)) : str :=
    if (align && Nat.leb 2 (length ad))%bool then
      let w := list_max (map (fun kv : str * str => length (fst kv)) ad) in
      flat_map (fun kv : str * str => NL ++ repeat_str ind L ++ [SP] ++ ind ++ pad_left w (fst kv) ++ [61%N] ++ snd kv) ad
      ++ NL ++ repeat_str ind L
    else flat_map (fun kv : str * str => [SP] ++ fst kv ++ [61%N] ++ snd kv) ad.

  Fixpoint simple_pp (L : nat) (n : node) : str :=
    match n with
    | Tag ns name attrs kids =>
        if directive attrs false then render (plain n)
        else
          let nm := pfx ns ++ name in
          let start := [60%N] ++ nm ++ simple_attrs L (attrs_data attrs) in
          match kids with
          | [] => start ++ [47; 62]%N
          | _ => start ++ [62%N] ++ NL
                 ++ flat_map (fun k => if blank k then [] else repeat_str ind (S L) ++ simple_pp (S L) k ++ NL) kids
                 ++ repeat_str ind L ++ [60; 47]%N ++ nm ++ [62%N]
          end
    | Text s => esc_text (strip (collapse s))
    | Comment s => comment_str s
    | PI t c => pi_str t c
    end.

  Definition simple_doc (prologue : list node) (root : node) (epilogue : list node) : str :=
    s_xml_decl_utf8 ++ NL
    ++ flat_map (fun n => simple_pp 0 n ++ NL) prologue
    ++ simple_pp 0 root
    ++ flat_map (fun n => NL ++ simple_pp 0 n) epilogue.
End SimplePP.

(* data-style trees: neighbouring siblings are separated by whitespace (a text ending / starting with
   whitespace next to a non-text node; never two texts or two non-text nodes side by side), no empty text.
   Elements under xml:space="preserve" are unconstrained (they are written verbatim). *)
Definition sep (x y : node) : bool :=
  match x, y with
  | Text _, Text _ => false
  | Text s, _ => ends_ws s
  | _, Text s => starts_ws s
  | _, _ => false
  end.
Fixpoint seps (l : list node) : bool :=
  match l with
  | x :: r => (match r with y :: _ => sep x y | [] => true end && seps r)%bool
  | [] => true
  end.
Fixpoint data_style (n : node) : bool :=
  match n with
  | Tag _ _ attrs kids =>
      (directive attrs false
       || (seps kids && forallb (fun k => (negb (is_empty_text k) && data_style k)%bool) kids))%bool
  | _ => true
  end.
