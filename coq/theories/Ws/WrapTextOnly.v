(* The text of an element that contains only text, as the model of TextWrappingSerializer (Ws/Wrap.v)
   writes it: for every width >= 1, every indentation of spaces/tabs and every nesting depth, the lines
   are the lines of the generated _wrap_text on the (normalised, escaped) content, each prefixed by the
   indentation of the depth and ended by a newline - whatever the fitting oracle.  Facts only.
   (The indentation clause of C19; also the text-run half of C03 at width > 0.) *)
From Coq Require Import List NArith ZArith Bool Lia.
From Delb.Base Require Import PyStr PyStrW PyStrFacts.
From Delb.Gen Require Import GenNames GenPretty GenWrap.
From Delb.Tree Require Import ATree Merge MergeFacts.
From Delb.Ws Require Import Reduce ReduceFacts Pretty SimplePP WsVariant WsVariantFacts PrettyFacts PrettyVariant Wrap WrapFacts WrapSerFacts.
Import ListNotations.

(* ------------------------------------------------------------------------------------------ *)
(* escaping keeps a normalised text normalised *)

Lemma esc_char_cases c :
  (is_ws c = true /\ cce_lookup pp_cce_text c = [c]) \/
  (is_ws c = false /\ exists d x, cce_lookup pp_cce_text c = d :: x /\ Forall (fun e => is_ws e = false) (d :: x)).
Proof.
  unfold pp_cce_text. cbn [cce_lookup].
  destruct (N.eqb_spec c 38) as [->|H1]; [right; split; [reflexivity|]; eexists; eexists; split; [reflexivity|repeat constructor]|].
  destruct (N.eqb_spec c 62) as [->|H2]; [right; split; [reflexivity|]; eexists; eexists; split; [reflexivity|repeat constructor]|].
  destruct (N.eqb_spec c 60) as [->|H3]; [right; split; [reflexivity|]; eexists; eexists; split; [reflexivity|repeat constructor]|].
  destruct (is_ws c) eqn:E; [left; split; reflexivity|right; split; [reflexivity|]].
  exists c, []. split; [reflexivity|]. constructor; [exact E|constructor].
Qed.

Lemma collapse_aux_nows_prefix x rest b : x <> [] -> Forall (fun e => is_ws e = false) x ->
  collapse_aux b (x ++ rest) = x ++ collapse_aux false rest.
Proof.
  revert b. induction x as [|d x' IH]; intros b Hn HF; [congruence|].
  inversion HF as [|? ? Hd HF']; subst. cbn [app collapse_aux]. rewrite Hd. f_equal.
  destruct x' as [|e x'']; [reflexivity|]. apply IH; [discriminate|exact HF'].
Qed.

Lemma collapse_aux_esc s : forall b, collapse_aux b (esc_text s) = esc_text (collapse_aux b s).
Proof.
  induction s as [|c r IH]; intros b; [reflexivity|].
  change (esc_text (c :: r)) with (cce_lookup pp_cce_text c ++ esc_text r). cbn [collapse_aux].
  destruct (esc_char_cases c) as [[Hw E]|[Hw (d & x & E & HF)]]; rewrite E, Hw.
  - cbn [app collapse_aux]. rewrite Hw. destruct b; rewrite IH; reflexivity.
  - rewrite collapse_aux_nows_prefix by (discriminate || exact HF). rewrite IH.
    change (esc_text (c :: collapse_aux false r)) with (cce_lookup pp_cce_text c ++ esc_text (collapse_aux false r)).
    rewrite E. reflexivity.
Qed.

Lemma all_nows_last y : y <> [] -> Forall (fun e => is_ws e = false) y -> last_nows y.
Proof.
  intros Hn HF. unfold last_nows. destruct (rev y) as [|e z] eqn:Ey.
  - exfalso. apply Hn. rewrite <- (rev_involutive y), Ey. reflexivity.
  - cbn. rewrite Forall_forall in HF. apply HF. apply in_rev. rewrite Ey. left. reflexivity.
Qed.

Lemma esc_core k : core k -> core (esc_text k).
Proof.
  intros (Hh & Hl & Hc). repeat split.
  - destruct k as [|c r]; [cbn in Hh; tauto|]. cbn in Hh.
    change (esc_text (c :: r)) with (cce_lookup pp_cce_text c ++ esc_text r).
    destruct (esc_char_cases c) as [[Hw _]|[_ (d & x & E & HF)]]; [congruence|]. rewrite E. cbn.
    inversion HF; assumption.
  - destruct (rev k) as [|c r] eqn:Er; [unfold last_nows in Hl; rewrite Er in Hl; cbn in Hl; tauto|].
    assert (Ek : k = rev r ++ [c]) by (rewrite <- (rev_involutive k), Er; reflexivity).
    unfold last_nows in Hl. rewrite Er in Hl. cbn in Hl.
    rewrite Ek. unfold esc_text, translate. rewrite flat_map_app. cbn [flat_map]. rewrite app_nil_r.
    apply last_nows_app.
    destruct (esc_char_cases c) as [[Hw _]|[_ (d & x & E & HF)]]; [congruence|]. rewrite E.
    apply all_nows_last; [discriminate|exact HF].
  - unfold collapse. rewrite collapse_aux_esc. unfold collapse in Hc. rewrite Hc. reflexivity.
Qed.

(* ------------------------------------------------------------------------------------------ *)
(* the generated writer leaves data that does not begin with a newline as it is *)

Definition no_lf (s : str) : bool := forallb (fun c => negb (N.eqb c LF)) s.

Lemma no_lf_app a b : no_lf a = true -> no_lf b = true -> no_lf (a ++ b) = true.
Proof. intros Ha Hb. unfold no_lf in *. rewrite forallb_app. apply andb_true_intro. split; assumption. Qed.

Lemma writer_keeps p o data : data <> [] -> match data with c :: _ => N.eqb c LF = false | [] => True end ->
  fst (writer_call p o data) = data.
Proof.
  intros Hn Hh. unfold writer_call.
  assert (E : py_lstrip_char data 10%N = data) by (destruct data as [|c r]; [congruence|cbn; change 10%N with LF; rewrite Hh; reflexivity]).
  rewrite E. assert (Hb : py_bool_str data = true) by (destruct data; [congruence|reflexivity]). rewrite Hb. cbn [negb].
  destruct (negb p && (o =? 0)%Z)%bool; destruct (str_eqb (py_last1 data) [10%N]);
    try reflexivity; destruct (py_rfind1 data 10%N (py_len data) =? -1)%Z; reflexivity.
Qed.

Lemma emit_raw_keeps st data : data <> [] -> match data with c :: _ => N.eqb c LF = false | [] => True end ->
  fst (emit_raw st data) = [KRaw data].
Proof.
  intros Hn Hh. unfold emit_raw, emit. pose proof (writer_keeps (w_pres st) (w_off st) data Hn Hh) as E.
  destruct (writer_call (w_pres st) (w_off st) data) as [d o]. cbn in E. subst d. reflexivity.
Qed.

(* ------------------------------------------------------------------------------------------ *)
(* short texts are one line *)

Lemma wrap_text_short t (width : Z) : t <> [] -> (py_len t <= width)%Z -> wrap_text t width = Some [t].
Proof.
  intros Hn Hl. unfold wrap_text. cbn [wrap_text_loop].
  replace (py_len t >? width)%Z with false by (symmetry; rewrite Z.gtb_ltb; apply Z.ltb_ge; exact Hl).
  unfold wrap_text_tail. destruct t; [congruence|reflexivity].
Qed.

Section TextOnly.
  Variable ind : str.
  Variable align : bool.
  Variable width : Z.
  Variable req : rpath -> Z -> option Z.
  Hypothesis ind_ws : ws_indent ind = true.
  Hypothesis ind_nolf : no_lf ind = true.
  Hypothesis width_pos : (1 <= width)%Z.

  Lemma indent_head_nolf L x : match x with c :: _ => N.eqb c LF = false | [] => True end ->
    match indent ind L ++ x with c :: _ => N.eqb c LF = false | [] => True end.
  Proof.
    intros Hx. unfold indent. destruct (repeat_str ind L) as [|c r] eqn:E; [exact Hx|]. cbn [app].
    assert (Hin : In c (repeat_str ind L)) by (rewrite E; left; reflexivity).
    assert (HF : no_lf (repeat_str ind L) = true).
    { clear E Hin. induction L; [reflexivity|]. cbn [repeat_str]. apply no_lf_app; [exact ind_nolf|exact IHL]. }
    unfold no_lf in HF. rewrite forallb_forall in HF. specialize (HF c Hin). apply negb_true_iff in HF. exact HF.
  Qed.

  Lemma nows_head_nolf x : head_nows x -> match x with c :: _ => N.eqb c LF = false | [] => True end.
  Proof.
    destruct x as [|c r]; [tauto|]. cbn. intros H. destruct (N.eqb_spec c LF) as [->|]; [|reflexivity].
    exfalso. revert H. vm_compute. discriminate.
  Qed.

  Definition text_line (L : nat) (l : str) : str := indent ind L ++ l ++ NL.

  (* writing edge-clean lines followed by the empty final line *)
  Lemma write_lines_cons L st l more : more <> [] ->
    write_lines ind L st (l :: more)
    = let '(c, st1) := if null l then emit_raw st NL else emit_raw st (indent ind L ++ l ++ NL) in
      let '(cs, st2) := write_lines ind L st1 more in (c ++ cs, st2).
  Proof. destruct more; [congruence|reflexivity]. Qed.

  Lemma write_lines_clean L ls : Forall edge_clean ls -> forall st,
    fst (write_lines ind L st (ls ++ [[]])) = map (fun l => KRaw (text_line L l)) ls.
  Proof.
    induction 1 as [|l r Hl Hr IH]; intros st; [reflexivity|].
    change ((l :: r) ++ [[]]) with (l :: (r ++ [[]])).
    rewrite write_lines_cons by (destruct r; discriminate).
    assert (Hln : l <> []) by (destruct l; [destruct Hl as [Hh _]; cbn in Hh; tauto|discriminate]).
    replace (null l) with false by (destruct l; [congruence|reflexivity]).
    pose proof (emit_raw_keeps st (indent ind L ++ l ++ NL)) as Hk.
    destruct (emit_raw st (indent ind L ++ l ++ NL)) as [c st1]. cbn [fst] in Hk.
    rewrite Hk.
    2:{ destruct (indent ind L); [destruct l; [congruence|discriminate]|discriminate]. }
    2:{ apply indent_head_nolf. destruct l as [|c0 l0]; [congruence|].
        cbn [app]. apply (nows_head_nolf (c0 :: l0)). exact (proj1 Hl). }
    specialize (IH st1). destruct (write_lines ind L st1 (r ++ [[]])) as [cs st2]. cbn [fst] in *.
    cbn [app map]. rewrite IH. unfold text_line. reflexivity.
  Qed.

  Lemma rstrip_clean l : last_nows l -> rstrip l = l.
  Proof. intros H. rewrite <- (app_nil_r l) at 1. exact (rstrip_optsp0 l false H). Qed.

  Lemma consolidate_text_only L st wl : w_off st = 0%Z -> wl <> [] -> Forall edge_clean wl ->
    consolidate L st true true ([] :: wl) = wl ++ [[]].
  Proof.
    intros Ho Hn HF. unfold consolidate. cbn [hd null andb]. rewrite Ho. cbn [Z.eqb andb].
    change (([] :: wl) ++ [[]]) with ([] :: (wl ++ [[]])). cbn [hd null tl].
    replace (Nat.leb 2 (length (wl ++ [[]]))) with true
      by (rewrite app_length; destruct wl; [congruence|cbn; rewrite Nat.add_comm; reflexivity]).
    replace (last (wl ++ [[]]) [SP]) with (@nil char) by (symmetry; apply last_last).
    cbn [null andb]. rewrite rev_app_distr. cbn [rev app].
    destruct (rev wl) as [|l2 more] eqn:E.
    - exfalso. apply Hn. rewrite <- (rev_involutive wl), E. reflexivity.
    - assert (Ew : wl = rev more ++ [l2]) by (rewrite <- (rev_involutive wl), E; reflexivity).
      rewrite Ew. rewrite <- app_assoc. cbn [app]. rewrite rstrip_clean; [reflexivity|].
      rewrite Forall_forall in HF. apply (HF l2). rewrite Ew. apply in_or_app. right. left. reflexivity.
  Qed.

  (* _serialize_text for the only child of an element, at the start of a line: the lines of _wrap_text,
     indented and ended by newlines - whatever the oracle *)
  Theorem text_only_lines L st rp aft k : core k -> w_off st = 0%Z ->
    exists ls, wrap_text (esc_text k) width = Some ls /\ ls <> [] /\ Forall edge_clean ls /\
               py_join [SP] ls = esc_text k /\
      fst (w_text ind width req L st rp None k None aft) = map (fun l => KRaw (text_line L l)) ls.
  Proof.
    intros Hk0 Ho. pose proof (esc_core k Hk0) as Hk. pose proof Hk as (Hh & Hl & _).
    assert (Ecol : collapse k = k) by (exact (proj2 (proj2 Hk0))).
    assert (Hw : (0 < Z.to_nat width)%nat) by lia.
    destruct (wrap_lines_edge_clean (esc_text k) (Z.to_nat width) Hw Hk) as (ls & E & Hne & Hj & HF).
    rewrite Z2Nat.id in E by lia.
    exists ls. split; [exact E|]. split; [exact Hne|]. split; [exact HF|]. split; [exact Hj|].
    unfold w_text. rewrite Ecol. cbn [legit_before legit_after].
    assert (Eav : available ind width L st = width).
    { unfold available, line_offset. rewrite Ho. cbn [Z.eqb]. lia. }
    rewrite Eav, Ho. cbn [Z.eqb].
    rewrite (rstrip_clean _ Hl). rewrite andb_true_r.
    assert (Els : lstrip (esc_text k) = esc_text k) by (rewrite <- (app_nil_r (esc_text k)); apply lstrip_head_nows; exact Hh).
    rewrite Els.
    assert (Ers : rstrip (indent ind L ++ esc_text k) = indent ind L ++ esc_text k).
    { rewrite <- (app_nil_r (esc_text k)) at 1. exact (rstrip_optsp (indent ind L) (esc_text k) false Hl). }
    assert (Hne0 : esc_text k <> []) by (destruct (esc_text k); [cbn in Hh; tauto|discriminate]).
    assert (Hone : (elen (esc_text k) <= width)%Z -> ls = [esc_text k]).
    { intros Hle. rewrite (wrap_text_short _ _ Hne0 Hle) in E. injection E as <-. reflexivity. }
    assert (Hline : fst (emit_raw st ((indent ind L ++ esc_text k) ++ NL)) = [KRaw (text_line L (esc_text k))]).
    { rewrite emit_raw_keeps.
      - unfold text_line. rewrite <- app_assoc. reflexivity.
      - destruct (indent ind L); [destruct (esc_text k); [congruence|discriminate]|discriminate].
      - rewrite <- app_assoc. apply indent_head_nolf. destruct (esc_text k) as [|c0 l0] eqn:Ek; [congruence|].
        cbn [app]. apply (nows_head_nolf (c0 :: l0)). exact Hh. }
    destruct (width =? elen (esc_text k))%Z eqn:E1.
    - (* fits perfectly *)
      apply Z.eqb_eq in E1. rewrite Ers, Hline. rewrite (Hone ltac:(lia)). reflexivity.
    - destruct (width >? elen (esc_text k))%Z eqn:E2.
      + (* fits the line *)
        cbn [orb]. rewrite Ers, Hline. apply Z.gtb_lt in E2. rewrite (Hone ltac:(lia)). reflexivity.
      + (* over several lines *)
        replace (str_eqb (esc_text k) [SP]) with false.
        2:{ symmetry. rewrite <- (app_nil_r (esc_text k)). exact (core_not_sp false (esc_text k) false Hk). }
        unfold text_over_lines. rewrite Ho. cbn [Z.eqb app]. rewrite Els.
        unfold wrap_lines. rewrite E.
        assert (Hlast : py_endswith (last ([] :: ls) []) [SP] = false).
        { destruct ls as [|l0 r0]; [congruence|]. change (last ([] :: l0 :: r0) []) with (last (l0 :: r0) []).
          rewrite py_endswith_sp.
          assert (Hin : In (last (l0 :: r0) []) (l0 :: r0)).
          { destruct (exists_last (l:=l0 :: r0) ltac:(discriminate)) as (q & z & Eq). rewrite Eq, last_last. apply in_or_app. right. left. reflexivity. }
          rewrite Forall_forall in HF. destruct (HF _ Hin) as [_ Hlz].
          rewrite <- (app_nil_r (last (l0 :: r0) [])). change [] with (optsp false) at 2.
          rewrite <- (app_nil_l (last (l0 :: r0) [] ++ optsp false)). exact (endswith_core [] _ false Hlz). }
        rewrite andb_false_r.
        rewrite (consolidate_text_only L st ls Ho Hne HF).
        pose proof (write_lines_clean L ls HF st) as Hwl.
        destruct (write_lines ind L st (ls ++ [[]])) as [cs st']. cbn [fst app] in *. exact Hwl.
  Qed.
  (* the statement on the output string: every text line carries the indentation of its depth *)
  Corollary text_only_lines_str L st rp aft k : core k -> w_off st = 0%Z ->
    exists ls, wrap_text (esc_text k) width = Some ls /\
      render_list (fst (w_text ind width req L st rp None k None aft))
      = flat_map (fun l => repeat_str ind L ++ l ++ NL) ls.
  Proof.
    intros Hk Ho. destruct (text_only_lines L st rp aft k Hk Ho) as (ls & E & _ & _ & _ & Ec).
    exists ls. split; [exact E|]. rewrite Ec. unfold render_list. clear.
    induction ls as [|l r IH]; [reflexivity|]. cbn [map flat_map render]. rewrite IH. reflexivity.
  Qed.
End TextOnly.

(* ------------------------------------------------------------------------------------------ *)
(* C03 for elements that contain only text: the lines of the escaped text are the escaped lines of the text *)

Lemma esc_no_sp c : c <> SP -> ~ In SP (cce_lookup pp_cce_text c).
Proof.
  intros Hc. unfold pp_cce_text. cbn [cce_lookup].
  destruct (N.eqb_spec c 38) as [->|H1]; [cbn; intuition discriminate|].
  destruct (N.eqb_spec c 62) as [->|H2]; [cbn; intuition discriminate|].
  destruct (N.eqb_spec c 60) as [->|H3]; [cbn; intuition discriminate|].
  cbn. intros [E|[]]. congruence.
Qed.

Lemma esc_split k : forall a b, esc_text k = a ++ SP :: b ->
  exists ka kb, k = ka ++ SP :: kb /\ esc_text ka = a /\ esc_text kb = b.
Proof.
  induction k as [|c r IH]; intros a b H; [destruct a; discriminate|].
  change (esc_text (c :: r)) with (cce_lookup pp_cce_text c ++ esc_text r) in H.
  destruct (N.eqb_spec c SP) as [->|Hc].
  - change (cce_lookup pp_cce_text SP) with [SP] in H. cbn [app] in H. destruct a as [|d a'].
    + cbn [app] in H. injection H as H. exists [], r. split; [reflexivity|]. split; [reflexivity|exact H].
    + cbn [app] in H. injection H as Hd H. subst d. destruct (IH _ _ H) as (ka & kb & -> & Ea & Eb).
      exists (SP :: ka), kb. split; [reflexivity|]. split; [|exact Eb].
      change (esc_text (SP :: ka)) with ([SP] ++ esc_text ka). rewrite Ea. reflexivity.
  - pose proof (esc_no_sp c Hc) as Hn.
    apply app_eq_app in H as (l & [[E1 E2]|[E1 E2]]).
    + (* the escape of c would contain the space, unless l = [] *)
      destruct l as [|d l'].
      * rewrite app_nil_r in E1. cbn [app] in E2. symmetry in E2.
        destruct (IH [] b E2) as (ka & kb & -> & Ea & Eb).
        exists (c :: ka), kb. split; [reflexivity|]. split; [|exact Eb].
        change (esc_text (c :: ka)) with (cce_lookup pp_cce_text c ++ esc_text ka). rewrite Ea, app_nil_r. exact E1.
      * cbn [app] in E2. injection E2 as Hd _. subst d. exfalso. apply Hn. rewrite E1. apply in_or_app. right. left. reflexivity.
    + destruct (IH _ _ E2) as (ka & kb & -> & Ea & Eb).
      exists (c :: ka), kb. split; [reflexivity|]. split; [|exact Eb].
      change (esc_text (c :: ka)) with (cce_lookup pp_cce_text c ++ esc_text ka). rewrite Ea. symmetry. exact E1.
Qed.

Lemma esc_text_nil k : esc_text k = [] -> k = [].
Proof.
  destruct k as [|c r]; [reflexivity|]. change (esc_text (c :: r)) with (cce_lookup pp_cce_text c ++ esc_text r).
  destruct (esc_char_cases c) as [[_ E]|[_ (d & x & E & _)]]; rewrite E; discriminate.
Qed.

Lemma lines_unesc ls : forall k, ls <> [] -> py_join [SP] ls = esc_text k ->
  exists ls', ls = map esc_text ls' /\ py_join [SP] ls' = k /\ ls' <> [].
Proof.
  induction ls as [|l r IH]; intros k Hn H; [congruence|]. destruct r as [|l2 r'].
  - cbn [py_join] in H. exists [k]. split; [cbn; rewrite H; reflexivity|]. split; [reflexivity|discriminate].
  - rewrite join_cons2 in H. symmetry in H. destruct (esc_split k _ _ H) as (ka & kb & -> & Ea & Eb).
    destruct (IH kb ltac:(discriminate) (eq_sym Eb)) as (ls' & El & Ej & Hne).
    exists (ka :: ls'). split; [cbn [map]; rewrite Ea, El; reflexivity|]. split; [|discriminate].
    destruct ls' as [|x y]; [congruence|]. rewrite join_cons2, Ej. reflexivity.
Qed.

(* reading escaped data back *)
Lemma unesc_ws_prefix w x : ws_indent w = true -> unesc (w ++ x) = w ++ unesc x.
Proof.
  induction w as [|c r IH]; [reflexivity|]. cbn [ws_indent forallb]. intros H. apply andb_prop in H as [Hc Hr].
  cbn [app]. rewrite unesc_other.
  - rewrite (IH Hr). reflexivity.
  - unfold ws_indent_char in Hc. intros ->. discriminate.
Qed.
Lemma unesc_esc_app s x : unesc (esc_text s ++ x) = s ++ unesc x.
Proof.
  induction s as [|c r IH]; [reflexivity|].
  change (esc_text (c :: r)) with (cce_lookup pp_cce_text c ++ esc_text r). rewrite <- app_assoc.
  unfold pp_cce_text. cbn [cce_lookup].
  destruct (N.eqb_spec c 38) as [->|H38]; [cbn [app]; rewrite <- IH; reflexivity|].
  destruct (N.eqb_spec c 62) as [->|H62]; [cbn [app]; rewrite <- IH; reflexivity|].
  destruct (N.eqb_spec c 60) as [->|H60]; [cbn [app]; rewrite <- IH; reflexivity|].
  cbn [app]. rewrite (unesc_other c _ H38), IH. reflexivity.
Qed.

Lemma Nv_texts ps : Nv (map Text ps) = txt (concat ps).
Proof.
  induction ps as [|a r IH]; [reflexivity|]. cbn [map concat]. rewrite Nv_cons_text, IH.
  rewrite <- (app_nil_r (txt (concat r))). rewrite ctext_txt by exact I. apply app_nil_r.
Qed.

Lemma concat_lines (i : str) ls : ls <> [] ->
  concat (map (fun l => i ++ l ++ NL) ls) = i ++ py_join (NL ++ i) ls ++ NL.
Proof.
  induction ls as [|l r IH]; [congruence|]. intros _. destruct r as [|l2 r'].
  - cbn [map concat py_join]. rewrite app_nil_r. reflexivity.
  - rewrite join_cons2. remember (l2 :: r') as more eqn:Em.
    cbn [map concat]. rewrite IH by (subst; discriminate). subst more. rewrite <- !app_assoc. reflexivity.
Qed.

Lemma emit_NL_off st : w_off (snd (emit st NL)) = 0%Z.
Proof.
  unfold emit, writer_call, NL. destruct st as [o p]. cbn [w_off w_pres].
  destruct p; cbn [negb andb].
  - reflexivity.
  - destruct (o =? 0)%Z eqn:E; [apply Z.eqb_eq in E; subst o|]; reflexivity.
Qed.

Lemma lstrip_char_ws data : ws_indent data = true -> ws_indent (py_lstrip_char data 10%N) = true.
Proof.
  induction data as [|c r IH]; [reflexivity|]. intros H. cbn [py_lstrip_char]. destruct (N.eqb c 10); [|exact H].
  apply IH. cbn [ws_indent forallb] in H. apply andb_prop in H as [_ H]. exact H.
Qed.

(* what the writer writes of a whitespace string is a whitespace string, and is read back as such *)
Lemma writer_ws p o data : ws_indent data = true -> ws_indent (fst (writer_call p o data)) = true.
Proof.
  intros H. pose proof (lstrip_char_ws data H) as H2. unfold writer_call.
  destruct (negb p && (o =? 0)%Z)%bool.
  - destruct (negb (py_bool_str (py_lstrip_char data 10%N))); [reflexivity|].
    destruct (str_eqb (py_last1 (py_lstrip_char data 10%N)) [10%N]); [exact H2|].
    destruct (py_rfind1 (py_lstrip_char data 10%N) 10%N (py_len (py_lstrip_char data 10%N)) =? -1)%Z; exact H2.
  - destruct (negb (py_bool_str data)); [reflexivity|].
    destruct (str_eqb (py_last1 data) [10%N]); [exact H|].
    destruct (py_rfind1 data 10%N (py_len data) =? -1)%Z; exact H.
Qed.
Lemma emit_ws st data : ws_indent data = true -> all_ws (unesc (fst (emit st data))).
Proof.
  intros H. unfold emit. pose proof (writer_ws (w_pres st) (w_off st) data H) as Hw.
  destruct (writer_call (w_pres st) (w_off st) data) as [d o]. cbn [fst] in *.
  rewrite <- (app_nil_r d). rewrite (unesc_ws_prefix d [] Hw). cbn [unesc]. rewrite app_nil_r.
  apply all_ws_of_ws_indent. exact Hw.
Qed.

Section TextOnlyC03.
  Variable ind : str.
  Variable align : bool.
  Variable width : Z.
  Variable req : rpath -> Z -> option Z.
  Hypothesis ind_ws : ws_indent ind = true.
  Hypothesis ind_nolf : no_lf ind = true.
  Hypothesis width_pos : (1 <= width)%Z.

  (* an element whose only child is a text in normal form, written over lines by the wrapping serializer (root, or a
     child that does not fit the line), from any writer state, at any depth, for every fitting oracle: re-reading and
     reducing gives the element back *)
  Theorem text_only_transparent L st rp aft ns name attrs k : core k -> directive attrs false = false ->
    reduce_model (seen (fst (w_tag ind align width req L st rp aft (Tag ns name attrs [Text k]))))
    = Tag ns name attrs [Text k].
  Proof.
    intros Hk Hd. apply variant_erased_raw.
    cbn [w_tag]. rewrite Hd. unfold tag_with. cbn [null negb].
    destruct (emit st ([60%N] ++ pfx ns ++ name)) as [o1 st1].
    destruct (emit_attrs st1 (attr_pieces ind align L (attrs_data attrs))) as [o2 st2].
    destruct (emit st2 [62%N]) as [o3 st3].
    unfold emit_raw at 1. pose proof (emit_NL_off st3) as Hoff. pose proof (emit_ws st3 NL eq_refl) as Hd0.
    destruct (emit st3 NL) as [d0 st4]. cbn [snd] in Hoff. cbn [fst] in Hd0.
    cbn [w_kids length hd_error].
    destruct (text_only_lines ind width req ind_nolf width_pos (S L) st4 (0%nat :: rp) aft k Hk Hoff)
      as (ls & E & Hne & HF & Hj & Ec).
    destruct (w_text ind width req (S L) st4 (0%nat :: rp) None k None aft) as [cs st5]. cbn [fst] in Ec. subst cs.
    set (closing := if has_ind ind then emit_raw st5 (indent ind L) else ([], st5)).
    assert (Hcl : exists w, all_ws w /\ Nv (map seen (fst closing)) = txt w).
    { unfold closing. destruct (has_ind ind).
      - unfold emit_raw. pose proof (emit_ws st5 (indent ind L) ltac:(unfold indent; apply ws_indent_repeat; exact ind_ws)) as He.
        destruct (emit st5 (indent ind L)) as [d st6]. cbn [fst map seen] in *.
        exists (unesc d). split; [exact He|rewrite Nv_cons_text, Nv_nil; cbn [ctext]; apply app_nil_r].
      - exists []. split; [constructor|reflexivity]. }
    destruct closing as [c1 st6]. cbn [fst] in Hcl. destruct Hcl as (wc & Hwc & Ewc).
    destruct (emit st6 ([60%N; 47%N] ++ (pfx ns ++ name) ++ [62%N])) as [cl st7].
    cbn [fst seen merge_tree]. fold (Nv (map seen ([KRaw d0] ++ (map (fun l => KRaw (text_line ind (S L) l)) ls ++ []) ++ c1))).
    apply wvt_tag; [exact Hd|]. apply wvk_list.
    (* the lines of the escaped text are the escaped lines of the text *)
    destruct (lines_unesc ls k Hne Hj) as (ls' & El & Ej' & Hne').
    assert (HF' : Forall edge_clean ls').
    { pose proof Hk as (Hh & Hl & Hc). apply lines_edge_clean; [exact Hne'| | |]; rewrite Ej'; [|exact Hh|exact Hl].
      apply collapse_fix_naw. exact Hc. }
    (* the parser's view of the children: one text *)
    rewrite app_nil_r. cbn [app map seen]. rewrite Nv_cons_text.
    rewrite map_app, map_map. cbn [seen].
    assert (Elines : map (fun l => Text (unesc (text_line ind (S L) l))) ls
                     = map Text (map (fun l' => indent ind (S L) ++ l' ++ NL) ls')).
    { rewrite El, !map_map. apply map_ext. intros l'. unfold text_line.
      rewrite unesc_ws_prefix by (unfold indent; apply ws_indent_repeat; exact ind_ws).
      rewrite unesc_esc_app. reflexivity. }
    rewrite Elines.
    assert (Eall : Nv (map Text (map (fun l' => indent ind (S L) ++ l' ++ NL) ls') ++ map seen c1)
                   = txt (concat (map (fun l' => indent ind (S L) ++ l' ++ NL) ls') ++ wc)).
    { generalize (map (fun l' => indent ind (S L) ++ l' ++ NL) ls'). intros ps.
      induction ps as [|a r IHps]; [cbn [map app concat]; exact Ewc|].
      cbn [map app concat]. rewrite Nv_cons_text, IHps. rewrite <- (app_nil_r (txt _)). rewrite ctext_txt by exact I.
      rewrite app_nil_r, <- app_assoc. reflexivity. }
    rewrite Eall. rewrite (concat_lines _ ls' Hne').
    rewrite <- (app_nil_r (txt _)). rewrite ctext_txt by exact I. rewrite app_nil_r.
    set (J := py_join (NL ++ indent ind (S L)) ls').
    replace (unesc d0 ++ (indent ind (S L) ++ J ++ NL) ++ wc) with ((unesc d0 ++ indent ind (S L)) ++ J ++ (NL ++ wc))
      by (rewrite <- !app_assoc; reflexivity).
    assert (HJ : head_nows J) by (apply join_head_nows; assumption).
    rewrite txt_nonnull.
    2:{ rewrite <- (app_nil_r (_ ++ J ++ _)). apply null_mid. exact HJ. }
    rewrite <- (app_nil_l k) at 1. rewrite <- (app_nil_r k) at 1.
    change (@nil char) with (optsp false) at 1 2.
    apply (wv_X Start false false k J (unesc d0 ++ indent ind (S L)) (NL ++ wc) [] []);
      [exact Hk| |discriminate|reflexivity|reflexivity| | |congruence|congruence|constructor].
    - unfold J. apply (lines_inner_variant k (NL ++ indent ind (S L)) ls' Hk Ej' HF' Hne'); [|discriminate].
      apply all_ws_app; [apply all_ws_NL|apply all_ws_indent; exact ind_ws].
    - apply all_ws_app; [exact Hd0|apply all_ws_indent; exact ind_ws].
    - apply all_ws_app; [apply all_ws_NL|exact Hwc].
  Qed.
End TextOnlyC03.

(* non-vacuity: a paragraph that needs three lines at width 5, at depth 1 *)
Example text_only_example :
  let k := [97; 97; 32; 98; 98; 32; 99; 99; 32; 100; 100]%N in
  core k /\
  render_list (fst (w_text [SP; SP] 5%Z (fun _ _ => None) 2 {| w_off := 0; w_pres := false |} [] None k None None))
  = flat_map (fun l => [SP; SP; SP; SP] ++ l ++ NL) [[97; 97; 32; 98; 98]%N; [99; 99; 32; 100; 100]%N].
Proof. split; [repeat split; vm_compute; reflexivity|vm_compute; reflexivity]. Qed.
