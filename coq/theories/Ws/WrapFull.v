(* C03 at width > 0: the node-level induction for trees WITH mixed content.  Facts only.

   Compared with Ws/WrapVariant.v (trees without mixed content) three things are added:
     - the text step for texts with siblings (Ws/WrapTextStep.v); its partial-line branch
       (_serialize_text_over_lines from a line that is already partly filled) is a parameter of the
       induction: the Prop `over_spec`;
     - a text whose trailing space was consumed by a line break leaves the line full ("owed"): the next
       element must then not be appended to that line, which is a property of the fitting oracle
       (`req_nofit0`: nothing but a text fits into no space) - true of the real _required_space;
     - for that, the nodes are tied to their paths in the document T. *)
From Coq Require Import List NArith ZArith Bool Lia.
From Delb.Base Require Import PyStr PyStrW PyStrFacts.
From Delb.Gen Require Import GenNames GenPretty GenWrap.
From Delb.Tree Require Import ATree Merge MergeFacts.
From Delb.Ws Require Import Reduce ReduceFacts Pretty SimplePP WsVariant WsVariantFacts PrettyFacts PrettyVariant Wrap WrapFacts WrapSerFacts WrapTextOnly WrapVariant WrapTextStep.
Import ListNotations.

(* ------------------------------------------------------------------------------------------ *)
(* paths *)

Lemma get_fwd_app n a : forall b, get_fwd n (a ++ b) = match get_fwd n a with Some m => get_fwd m b | None => None end.
Proof.
  revert n. induction a as [|i r IH]; intros n b; [reflexivity|]. cbn [app get_fwd].
  destruct n as [ns name attrs kids| | |]; try reflexivity. destruct (nth_error kids i); [apply IH|reflexivity].
Qed.
Lemma get_cons T j rp : get T (j :: rp) = match get T rp with Some n => nth_error (kids_of n) j | None => None end.
Proof.
  unfold get. cbn [rev]. rewrite get_fwd_app. destruct (get_fwd T (rev rp)) as [n|]; [|reflexivity].
  cbn [get_fwd]. destruct n as [ns name attrs kids| | |]; cbn [kids_of]; try (destruct j; reflexivity).
  destruct (nth_error kids j); reflexivity.
Qed.

(* the classes of trees: with allow_inner = false a text with content may only stand first among its siblings *)
Definition no_inner_text (kids : list node) : bool := forallb nsp (tl kids).
Fixpoint cls (allow_inner : bool) (n : node) : bool :=
  match n with
  | Tag _ _ attrs kids => (directive attrs false || ((allow_inner || no_inner_text kids) && forallb (cls allow_inner) kids))%bool
  | _ => true
  end.
Definition first_text : node -> bool := cls false.

Section Full.
  Variable ind : str.
  Variable align : bool.
  Variable width : Z.
  Variable req : rpath -> Z -> option Z.
  Variable T : node.
  Hypothesis ind_ws : ws_indent ind = true.
  Hypothesis width_pos : (1 <= width)%Z.
  (* the oracle never lets an element, comment or PI fit into no space *)
  Hypothesis req_nofit0 : forall rp u x, get T rp = Some x -> is_text x = false -> (u <= 0)%Z -> req rp u = None.

  Variable allow_inner : bool.

  (* the partial-line branch of _serialize_text_over_lines, as a statement *)
  Definition over_spec : Prop :=
    forall L st p prev next lead trail k rp, core k ->
      winv st p prev (Some (Text (optsp lead ++ k ++ optsp trail))) -> (prev = None -> lead = false) ->
      match next with Some y => is_text y = false | None => True end -> w_off st <> 0%Z ->
      tstep_post ind width L st
        (snd (text_over_lines ind width req L st rp (optsp lead ++ esc_text k ++ optsp trail)
                (legit_before prev (Text (optsp lead ++ k ++ optsp trail))) (legit_after (Text (optsp lead ++ k ++ optsp trail)) next)
                (match next with None => true | Some _ => false end)
                (match next, rp with Some _, i :: pp => Some (S i :: pp) | _, _ => None end)))
        (fst (text_over_lines ind width req L st rp (optsp lead ++ esc_text k ++ optsp trail)
                (legit_before prev (Text (optsp lead ++ k ++ optsp trail))) (legit_after (Text (optsp lead ++ k ++ optsp trail)) next)
                (match next with None => true | Some _ => false end)
                (match next, rp with Some _, i :: pp => Some (S i :: pp) | _, _ => None end)))
        p prev next lead trail k.
  Hypothesis over_h : allow_inner = true -> over_spec.

  Notation wtag := (w_tag ind align width req).
  Notation wkids := (w_kids ind width req wtag).

  (* serialize_node when the line is full: the element is not appended, a newline comes first *)
  Section NodeOwed.
    Variable x : node.
    Hypothesis x_nontext : is_text x = false.
    Hypothesis x_clean : clean x = true.
    Hypothesis x_lfok : lfok false x = true.
    Hypothesis x_refl : wvt x x.
    Variables (L : nat) (rp : rpath) (aft : option rpath).
    Hypothesis rec_spec : forall st1, (0 <= w_off st1)%Z ->
      wvt x (mseen (fst (wtag L st1 rp aft x))) /\ is_text (seen (fst (wtag L st1 rp aft x))) = false /\
      (0 < w_off (snd (wtag L st1 rp aft x)))%Z.

    Lemma w_node_spec_ow st p prev next : winv st p prev (Some x) ->
      exists bs b c als a,
        fst (w_node ind width req wtag L st rp prev next aft x) = bs ++ [c] ++ als /\ sees bs b /\ all_ws b /\
        (p ++ b <> [] -> legal prev (Some x) = true) /\ sees als a /\
        winv (snd (w_node ind width req wtag L st rp prev next aft x)) a (Some x) next /\
        wvt x (mseen c) /\ is_text (seen c) = false /\
        (w_off st <> 0%Z -> available ind width L st = 0%Z -> legit_before prev x = true ->
         fits ind width req L st rp = false -> b <> []).
    Proof.
      intros Hi. rewrite w_node_unfold. cbv zeta.
      destruct (fits ind width req L st rp) eqn:Ef.
      - destruct (bfit_spec ind width req ind_ws x x_nontext x_clean x_lfok x_refl L
                    (match next with None => true | Some _ => false end) (legit_after x next) (foll_of rp aft x) st p prev next Hi eq_refl)
          as (bs & b & c & als & a & E & H1 & H2 & H3 & H4 & H5 & H6 & H7).
        exists bs, b, c, als, a. split; [exact E|]. split; [exact H1|]. split; [exact H2|]. split; [exact H3|]. split; [exact H4|].
        split; [exact H5|]. split; [exact H6|]. split; [exact H7|]. intros _ _ _ Hff. discriminate.
      - destruct ((line_offset ind L st >? 0)%Z && legit_before prev x)%bool eqn:E.
        + apply andb_prop in E as [_ E].
          destruct (emit_ws_step st p prev (Some x) NL Hi ws_indent_NL (or_intror E)) as (w' & Ew & Hw & Hs & Hi' & Hk).
          destruct (emit_raw st NL) as [c0 st1]. cbn [fst snd] in *. subst c0.
          set (r := if fits ind width req L st1 rp
                    then bfit ind width req L x match next with Some _ => false | None => true end (legit_after x next) (foll_of rp aft x) st1
                    else bnofit ind width req wtag L rp aft x (legit_before prev x) (legit_after x next) (foll_of rp aft x) st1).
          assert (Hr : step_post (fst r) (snd r) (p ++ w') prev x next).
          { unfold r. destruct (fits ind width req L st1 rp);
              [apply (bfit_spec ind width req ind_ws x x_nontext x_clean x_lfok x_refl)
              |apply (bnofit_spec ind width req ind_ws x x_nontext x_clean x_lfok x_refl wtag L rp aft rec_spec)];
              try exact Hi'; reflexivity. }
          destruct r as [cs st2]. cbn [fst snd] in *.
          destruct Hr as (bs & b & c & als & a & -> & Hsb & Hb & Hleg & Hsa & Hia & Hv & Ht).
          exists ([KRaw w'] ++ bs), (w' ++ b), c, als, a. rewrite <- !app_assoc.
          split; [reflexivity|]. split; [apply sees_app; assumption|].
          split; [apply all_ws_app; [apply all_ws_ws_indent; exact Hw|exact Hb]|].
          split; [rewrite app_assoc; exact Hleg|]. split; [exact Hsa|]. split; [exact Hia|]. split; [exact Hv|]. split; [exact Ht|].
          intros H0 _ _ _. rewrite Hk by (destruct Hi as [Hn _]; lia). discriminate.
        + destruct (bnofit_spec ind width req ind_ws x x_nontext x_clean x_lfok x_refl wtag L rp aft rec_spec
                      (legit_before prev x) (legit_after x next) (foll_of rp aft x) st p prev next Hi eq_refl eq_refl)
            as (bs & b & c & als & a & E' & H1 & H2 & H3 & H4 & H5 & H6 & H7).
          exists bs, b, c, als, a. split; [exact E'|]. split; [exact H1|]. split; [exact H2|]. split; [exact H3|]. split; [exact H4|].
          split; [exact H5|]. split; [exact H6|]. split; [exact H7|].
          intros H0 Hav Hlb _. exfalso. rewrite Hlb, andb_true_r in E.
          unfold available in Hav. destruct (Z.gtb_spec (line_offset ind L st) 0); [discriminate|]. lia.
    Qed.
  End NodeOwed.

  (* ---------------------------------------------------------------------------------------- *)
  Definition cl2 (prev : sib) (l : list node) : Prop :=
    allow_inner = true \/ (match prev with Start => no_inner_text l = true | _ => forallb nsp l = true end).

  Definition paths_ok (pp : rpath) (i : nat) (l : list node) : Prop :=
    forall j y, nth_error l j = Some y -> get T ((i + j)%nat :: pp) = Some y.

  Definition Fnft (t : node) (_ : nft t) : Prop :=
    cls allow_inner t = true -> forall L st rp aft, get T rp = Some t -> (0 <= w_off st)%Z ->
      wvt t (mseen (fst (wtag L st rp aft t))) /\ is_text (seen (fst (wtag L st rp aft t))) = false /\
      (0 < w_off (snd (wtag L st rp aft t)))%Z.

  Definition Fnf (prev : sib) (l : list node) (_ : nf prev l) : Prop :=
    cl2 prev l -> forallb (cls allow_inner) l = true ->
    forall L pp aftp nk st i pn p cf, paths_ok pp i l -> cf_ok cf -> winv st p pn (hd_error l) ->
      match prev with
      | Start => pn = None -> w_off st = 0%Z ->
                 (0 <= w_off (snd (wkids L pp aftp nk st i pn l)))%Z /\
                 (l <> [] -> wv Start l (ctext p (OUTw (wkids L pp aftp nk st i pn l) cf)))
      | AfterN => forall x, pn = Some x -> is_text x = false ->
                 (0 <= w_off (snd (wkids L pp aftp nk st i pn l)))%Z /\
                 wv AfterN l (ctext p (OUTw (wkids L pp aftp nk st i pn l) cf))
      | AfterX => forall s, pn = Some (Text s) ->
                  (ends_ws s = true -> l <> [] -> p <> [] \/ owed ind width L st) ->
                  (0 <= w_off (snd (wkids L pp aftp nk st i pn l)))%Z /\
                  exists q r', OUTw (wkids L pp aftp nk st i pn l) cf = txt q ++ r' /\ all_ws q /\ starts_nontext r' /\
                               wv AfterX l r' /\ (l <> [] -> q <> [] -> ends_ws s = true) /\
                               (l <> [] -> ends_ws s = true -> p ++ q <> [])
      end.

  Definition Fnfk (l : list node) (_ : nfk l) : Prop :=
    l <> [] -> (allow_inner = true \/ no_inner_text l = true) -> forallb (cls allow_inner) l = true ->
    forall L rp aft st, (forall j y, nth_error l j = Some y -> get T (j :: rp) = Some y) -> (0 < w_off st)%Z ->
      wvk l (Nv (map seen (fst (kfn ind align width req L rp aft l st)))) /\
      (0 <= w_off (snd (kfn ind align width req L rp aft l st)))%Z.

  Lemma paths_tail pp i x r : paths_ok pp i (x :: r) -> get T (i :: pp) = Some x /\ paths_ok pp (S i) r.
  Proof.
    intros H. split; [specialize (H O x eq_refl); rewrite Nat.add_0_r in H; exact H|].
    intros j y Hj. specialize (H (S j) y Hj). rewrite Nat.add_succ_r in H. exact H.
  Qed.

  Lemma cl2_tail_N prev x r : cl2 prev (x :: r) -> is_text x = false -> cl2 AfterN r.
  Proof.
    intros [H|H] Hx; [left; exact H|right]. destruct prev; [exact H| |]; cbn [forallb] in H; apply andb_prop in H as [_ H]; exact H.
  Qed.
  Lemma cl2_tail_X prev x r : cl2 prev (x :: r) -> cl2 AfterX r.
  Proof.
    intros [H|H]; [left; exact H|right]. destruct prev; [exact H| |]; cbn [forallb] in H; apply andb_prop in H as [_ H]; exact H.
  Qed.

  Theorem wrap_full_mut : forall t (H : nft t), Fnft t H.
  Proof.
    apply (nft_mut Fnft Fnf Fnfk); unfold Fnft, Fnf, Fnfk.
    - (* verbatim *)
      intros n Hc Hr Hk _ L st rp aft _ Ho.
      assert (E : wtag L st rp aft n = tplain st n).
      { destruct n as [ns name attrs kids| | |]; try reflexivity. rewrite (w_tag_unfold ind align width req), Hk. reflexivity. }
      rewrite E.
      assert (Hm : merged n = true) by (unfold clean in Hc; apply andb_prop in Hc as [H _]; exact H).
      assert (Hx : is_text n = false) by (destruct n; try reflexivity; destruct Hk).
      destruct (tplain_ok n Hm st Ho ltac:(congruence)) as (E1 & _ & E2).
      unfold mseen. rewrite E1. rewrite (merge_id n Hc). split; [apply wvt_verbatim; assumption|]. split; [exact Hx|exact (E2 Hx)].
    - (* element *)
      intros ns name attrs ks Hd Hk IH Hnm L st rp aft Hg Ho. rewrite (w_tag_unfold ind align width req), Hd.
      cbn [cls] in Hnm. rewrite Hd in Hnm. cbn [orb] in Hnm. apply andb_prop in Hnm as [Hcls Hnmk].
      destruct (tag_with_spec st ns name attrs (attr_pieces ind align L (attrs_data attrs)) (negb (null ks))
                  (kfn ind align width req L rp aft ks) Ho) as (st3 & H3 & Hf & Ht').
      destruct ks as [|k0 kr].
      + destruct (Hf eq_refl) as [E1 E2]. unfold mseen. rewrite E1. split; [|split; [reflexivity|exact E2]].
        apply wvt_tag; [exact Hd|]. apply wvk_list. constructor.
      + destruct (Ht' eq_refl) as [E1 E2].
        destruct (IH ltac:(discriminate)) with (L := L) (rp := rp) (aft := aft) (st := st3) as [Hv Hn].
        * apply orb_prop in Hcls as [H|H]; [left; exact H|right; exact H].
        * exact Hnmk.
        * intros j y Hj. rewrite get_cons, Hg. exact Hj.
        * exact H3.
        * unfold mseen. rewrite E1. split; [|split; [reflexivity|exact (E2 Hn)]].
          change (merge_tree (Tag ns name attrs (map seen (fst (kfn ind align width req L rp aft (k0 :: kr) st3)))))
            with (Tag ns name attrs (Nv (map seen (fst (kfn ind align width req L rp aft (k0 :: kr) st3))))).
          apply wvt_tag; [exact Hd|exact Hv].
    - (* nil *)
      intros prev _ _ L pp aftp nk st i pn p cf _ Hcf Hi. rewrite (wk_nil ind align width req). cbn [fst snd].
      unfold OUTw. cbn [fst snd app]. destruct (OUT_cf cf st Hcf) as (w & Hw & Ew). rewrite Ew.
      destruct prev.
      + intros _ _. split; [apply Hi|congruence].
      + intros x _ _. split; [apply Hi|]. rewrite <- (app_nil_r (txt w)). rewrite ctext_txt by exact I. rewrite app_nil_r.
        apply wv_nil_afterN. apply all_ws_app; [apply Hi|exact Hw].
      + intros s _ _. split; [apply Hi|]. exists w, []. rewrite app_nil_r. split; [reflexivity|]. split; [exact Hw|]. split; [exact I|].
        split; [constructor|]. split; congruence.
    - (* a non-text child *)
      intros prev x r Hx Hnx IHx Hnr IHr Hcl Hnm L pp aftp nk st i pn p cf Hpa Hcf Hi.
      cbn [forallb] in Hnm. apply andb_prop in Hnm as [Hnmx Hnmr].
      destruct (paths_tail _ _ _ _ Hpa) as [Hgx Hpr].
      destruct (nft_clean_lfok x Hnx) as [Hcx Hlx]. pose proof (nft_wvt_refl x Hnx) as Hrx.
      rewrite (wk_cons ind align width req).
      set (aft' := match r with [] => aftp | _ => Some (S i :: pp) end).
      replace (match x with
               | Text s => w_text ind width req L st (i :: pp) pn s (hd_error r) aft'
               | _ => w_node ind width req wtag L st (i :: pp) pn (hd_error r) aft' x
               end) with (w_node ind width req wtag L st (i :: pp) pn (hd_error r) aft' x)
        by (destruct x; try reflexivity; discriminate).
      destruct (w_node_spec_ow x Hx Hcx Hlx Hrx L (i :: pp) aft'
                  (fun st1 H1 => IHx Hnmx L st1 (i :: pp) aft' Hgx H1) st p pn (hd_error r) Hi)
        as (bs & b & c & als & a & Ecs & Hsb & Hb & Hleg & Hsa & Hia & Hv & Htc & How).
      destruct (w_node ind width req wtag L st (i :: pp) pn (hd_error r) aft' x) as [cs st1]. cbn [fst snd] in *. subst cs.
      specialize (IHr (cl2_tail_N _ _ _ Hcl Hx) Hnmr L pp aftp nk st1 (S i) (Some x) a cf Hpr Hcf Hia x eq_refl Hx).
      destruct (wkids L pp aftp nk st1 (S i) (Some x) r) as [cs2 st2]. cbn [fst snd] in *.
      destruct IHr as [Hn2 IHr].
      assert (Eo : OUTw ((bs ++ [c] ++ als) ++ cs2, st2) cf
                   = ctext b (mseen c :: ctext a (OUTw (cs2, st2) cf))).
      { unfold OUTw. cbn [fst snd]. rewrite <- !app_assoc. apply OUT_node; assumption. }
      rewrite Eo.
      assert (Hmc : is_text (mseen c) = false) by (unfold mseen; rewrite merge_is_text; exact Htc).
      rewrite (ctext_nontext b) by (cbn [starts_nontext]; exact Hmc).
      destruct prev.
      + intros _ _. split; [exact Hn2|]. intros _. rewrite ctext_txt by (cbn [starts_nontext]; exact Hmc).
        apply wv_N_start; [apply all_ws_app; [apply Hi|exact Hb]|exact Hx|exact Hv|exact IHr].
      + intros x0 Epn Hx0. subst pn. split; [exact Hn2|].
        assert (Epb : p ++ b = []).
        { destruct (p ++ b) eqn:E; [reflexivity|]. exfalso.
          assert (Hl : legal (Some x0) (Some x) = true) by (apply Hleg; discriminate).
          cbn [legal legit_before] in Hl. destruct x; try discriminate; destruct x0; discriminate. }
        apply app_eq_nil in Epb as [-> ->]. cbn [txt null app]. rewrite ctext_nil.
        apply wv_N; [discriminate|exact Hx|exact Hv|exact IHr].
      + intros s Epn Hneed. subst pn. split; [exact Hn2|].
        eexists. eexists. split; [reflexivity|]. split; [exact Hb|]. split; [cbn [starts_nontext]; exact Hmc|].
        split; [apply wv_N; [discriminate|exact Hx|exact Hv|exact IHr]|]. split.
        * intros _ Hq. assert (Hl : legal (Some (Text s)) (Some x) = true) by (apply Hleg; destruct p; [exact Hq|discriminate]).
          cbn [legal legit_before] in Hl. destruct x; try discriminate; exact Hl.
        * intros _ He. destruct (Hneed He ltac:(discriminate)) as [Hp|[Ho1 Ho2]]; [destruct p; [congruence|discriminate]|].
          assert (Hbn : b <> []).
          { apply How; [exact Ho1|exact Ho2| |].
            - destruct x; try discriminate; exact He.
            - unfold fits. rewrite Ho2. rewrite (req_nofit0 (i :: pp) 0%Z x Hgx Hx); [reflexivity|lia]. }
          destruct p; [exact Hbn|discriminate].
    - (* a text with content *)
      intros prev lead trail k r Hk Hp Hl Ht Hnr IHr Hcl Hnm L pp aftp nk st i pn p cf Hpa Hcf Hi.
      cbn [forallb] in Hnm. apply andb_prop in Hnm as [_ Hnmr].
      destruct (paths_tail _ _ _ _ Hpa) as [_ Hpr].
      set (s := optsp lead ++ k ++ optsp trail) in *.
      rewrite (wk_cons ind align width req).
      set (aft' := match r with [] => aftp | _ => Some (S i :: pp) end).
      (* the text step *)
      assert (Hstep : (pn = None -> lead = false) -> (prev = Start -> w_off st = 0%Z) ->
                tstep_post ind width L st (snd (w_text ind width req L st (i :: pp) pn s (hd_error r) aft'))
                           (fst (w_text ind width req L st (i :: pp) pn s (hd_error r) aft')) p pn (hd_error r) lead trail k).
      { intros Hpl H0.
        apply (w_text_step_from ind width req ind_ws width_pos L st p pn (hd_error r) lead trail k Hk Hi Hpl (i :: pp) aft'
                 (nf_afterX_hd r Hnr)).
        intros Hoff. destruct Hcl as [Ha|Hcl].
        - apply (over_h Ha); try assumption. exact (nf_afterX_hd r Hnr).
        - exfalso. destruct prev; [exact (Hoff (H0 eq_refl))| |congruence].
          cbn [forallb nsp is_text is_sp negb orb] in Hcl. apply andb_prop in Hcl as [Hcl _].
          unfold s in Hcl. rewrite (core_not_sp lead k trail Hk) in Hcl. discriminate. }
      (* what follows from its postcondition *)
      assert (Hfin : tstep_post ind width L st (snd (w_text ind width req L st (i :: pp) pn s (hd_error r) aft'))
                                  (fst (w_text ind width req L st (i :: pp) pn s (hd_error r) aft')) p pn (hd_error r) lead trail k ->
                (pn <> None -> legit_before pn (Text s) = lead) -> (prev <> Start -> pn <> None) ->
                (0 <= w_off (snd (let '(cs, st1) := w_text ind width req L st (i :: pp) pn s (hd_error r) aft' in
                                  let '(cs2, st2) := wkids L pp aftp nk st1 (S i) (Some (Text s)) r in (cs ++ cs2, st2))))%Z /\
                wv prev (Text s :: r)
                   (ctext p (OUTw (let '(cs, st1) := w_text ind width req L st (i :: pp) pn s (hd_error r) aft' in
                                   let '(cs2, st2) := wkids L pp aftp nk st1 (S i) (Some (Text s)) r in (cs ++ cs2, st2)) cf))).
      { intros (D & a & b & Hsee & Hcol & Hlead & Hnolead & Hbla & Htrail & Hnn & Hz) Hlb Hppn.
        destruct (variant_of_collapse D k a b Hk Hcol) as (pre & k' & suf & ED & Hpre & Hsuf & Hv & Ena & Enb).
        pose proof Hk as (Hkh & Hkl & _).
        assert (Ee : ends_ws s = trail) by (apply (ends_ws_form (optsp lead)); exact Hkl).
        destruct (w_text ind width req L st (i :: pp) pn s (hd_error r) aft') as [cs st1]. cbn [fst snd] in *.
        assert (Hi1 : winv st1 suf (Some (Text s)) (hd_error r)).
        { split; [exact Hnn|]. split; [exact Hsuf|]. split.
          - intros H0. rewrite (Hz H0) in Enb. destruct suf; [discriminate|discriminate].
          - intros Hne. assert (Hb : b = true) by (destruct b; [reflexivity|destruct suf; [congruence|discriminate]]).
            specialize (Hbla Hb). pose proof (nf_afterX_hd r Hnr) as Hy. destruct (hd_error r) as [y|]; [|reflexivity].
            cbn [legal legit_before legit_after] in *. destruct y; try discriminate; exact Hbla. }
        specialize (IHr (cl2_tail_X _ _ _ Hcl) Hnmr L pp aftp nk st1 (S i) (Some (Text s)) suf cf Hpr Hcf Hi1 s eq_refl).
        destruct (wkids L pp aftp nk st1 (S i) (Some (Text s)) r) as [cs2 st2]. cbn [fst snd] in *.
        destruct IHr as [Hn2 (q & r' & Eo & Hq & Hst & Hwv & Hq1 & Hq2)].
        { intros He _. rewrite Ee in He. destruct (Htrail He) as [Hb|Ho]; [left|right; exact Ho].
          rewrite Hb in Enb. destruct suf; [discriminate|discriminate]. }
        split; [exact Hn2|].
        unfold OUTw in *. cbn [fst snd] in *. rewrite <- app_assoc, map_app, Hsee, Eo.
        rewrite (ctext_txt _ q r' Hst). rewrite ED.
        rewrite txt_nonnull by (apply null_mid; exact (proj1 Hv)). cbn [app ctext]. rewrite <- !app_assoc. rewrite (app_assoc p).
        apply (wv_X prev lead trail k k' (p ++ pre) (suf ++ q)); [exact Hk|exact Hv|exact Hp|exact Hl|exact Ht| | | | |exact Hwv].
        - apply all_ws_app; [apply Hi|exact Hpre].
        - apply all_ws_app; assumption.
        - intros Hps. pose proof (Hppn Hps) as Hpn.
          destruct lead.
          + destruct (Hlead eq_refl) as [Ha|Hpp]; [rewrite Ha in Ena; destruct pre; [discriminate|destruct p; reflexivity]|destruct p; [congruence|reflexivity]].
          + rewrite (Hnolead Hpn eq_refl) in Ena. destruct pre; [|discriminate]. rewrite app_nil_r.
            destruct p as [|c0 p']; [reflexivity|]. exfalso.
            destruct Hi as (_ & _ & _ & H2). specialize (H2 ltac:(discriminate)). change (legit_before pn (Text s) = true) in H2.
            rewrite (Hlb Hpn) in H2. discriminate.
        - intros Hrn. destruct trail.
          + specialize (Hq2 Hrn Ee). destruct (suf ++ q); [congruence|reflexivity].
          + assert (Es : suf = []).
            { destruct suf as [|c0 s0]; [reflexivity|]. exfalso. assert (Hb : b = true) by (destruct b; [reflexivity|discriminate]).
              specialize (Hbla Hb). destruct r as [|y r0]; [congruence|]. cbn [hd_error] in Hbla. change (ends_ws s = true) in Hbla.
              rewrite Ee in Hbla. discriminate. }
            assert (Eq : q = []) by (destruct q as [|c0 q0]; [reflexivity|]; specialize (Hq1 Hrn ltac:(discriminate)); rewrite Ee in Hq1; discriminate).
            rewrite Es, Eq. reflexivity. }
      assert (Hlbs : forall y, legit_before (Some y) (Text s) = lead).
      { intros y. cbn [legit_before]. unfold s. apply starts_ws_form. exact (proj1 Hk). }
      destruct prev.
      + intros Epn H0. subst pn.
        destruct (Hfin (Hstep (fun _ => Hl eq_refl) (fun _ => H0)) ltac:(congruence) ltac:(congruence)) as [A1 A2].
        split; [exact A1|intros _; exact A2].
      + intros x Epn Hx. subst pn.
        exact (Hfin (Hstep ltac:(discriminate) ltac:(discriminate)) (fun _ => Hlbs x) ltac:(discriminate)).
      + congruence.
    - (* a single space between two non-text siblings *)
      intros r Hrn Hnr IHr Hcl Hnm L pp aftp nk st i pn p cf Hpa Hcf Hi x Epn Hx. subst pn.
      cbn [forallb] in Hnm. apply andb_prop in Hnm as [_ Hnmr].
      destruct (paths_tail _ _ _ _ Hpa) as [_ Hpr].
      rewrite (wk_cons ind align width req).
      set (aft' := match r with [] => aftp | _ => Some (S i :: pp) end).
      destruct (w_text_space ind width req ind_ws L st (i :: pp) (Some x) (hd_error r) aft' p Hi (nf_afterX_hd r Hnr))
        as (w' & Hs & Hw' & Hi' & Hne).
      destruct (w_text ind width req L st (i :: pp) (Some x) [SP] (hd_error r) aft') as [cs st1]. cbn [fst snd] in *.
      specialize (IHr (cl2_tail_X _ _ _ Hcl) Hnmr L pp aftp nk st1 (S i) (Some (Text [SP])) (p ++ w') cf Hpr Hcf Hi' [SP] eq_refl
                      (fun _ _ => or_introl Hne)).
      destruct (wkids L pp aftp nk st1 (S i) (Some (Text [SP])) r) as [cs2 st2]. cbn [fst snd] in *.
      destruct IHr as [Hn2 (q & r' & Eo & Hq & Hst & Hwv & _)]. split; [exact Hn2|].
      unfold OUTw in *. cbn [fst snd] in *. rewrite <- app_assoc, map_app, Hs. rewrite Eo.
      rewrite ctext_app. rewrite ctext_txt by exact Hst.
      rewrite txt_nonnull by (destruct (p ++ w'); [congruence|reflexivity]).
      apply wv_space; [|destruct (p ++ w'); [congruence|discriminate]|exact Hrn|exact Hwv].
      apply all_ws_app; [apply all_ws_app; [apply Hi|exact Hw']|exact Hq].
    - (* an element holding one space *)
      intros _ _ _ L rp aft st _ Ho. unfold kfn.
      destruct (emit_ws_step st [] None (Some (Text [SP])) NL (winv_pos st _ _ Ho) ws_indent_NL (or_intror eq_refl))
        as (w0 & E0 & Hw0 & Hs0 & Hi0 & Hk0).
      destruct (emit_raw st NL) as [c0 st1]. cbn [fst snd] in *. subst c0. cbn [length].
      rewrite (wk_cons ind align width req). cbn [hd_error].
      destruct (w_text_space ind width req ind_ws (S L) st1 (0%nat :: rp) None None aft ([] ++ w0) Hi0 I) as (w' & Hs & Hw' & Hi' & Hne).
      destruct (w_text ind width req (S L) st1 (0%nat :: rp) None [SP] None aft) as [cs st2]. rewrite (wk_nil ind align width req). cbn [fst snd] in *.
      destruct (closing_sees ind ind_ws L st2) as (wc & Hwc & Hsc). pose proof (closing_nonneg ind L st2 (proj1 Hi')) as Hnc.
      destruct (closing_of ind L st2) as [c1 st3]. cbn [fst snd] in *. split; [|exact Hnc].
      assert (Hall : sees ([KRaw w0] ++ (cs ++ []) ++ c1) (w0 ++ (w' ++ []) ++ wc))
        by (apply sees_app; [exact Hs0|apply sees_app; [apply sees_app; [exact Hs|apply sees_nil]|exact Hsc]]).
      specialize (Hall []). rewrite app_nil_r in Hall. rewrite Hall. rewrite Nv_nil. cbn [ctext]. rewrite !app_nil_r.
      rewrite Hk0 by exact Ho. rewrite txt_nonnull by reflexivity.
      apply wvk_only_space; [|discriminate].
      apply (all_ws_app NL); [apply all_ws_NL|apply all_ws_app; assumption].
    - (* an ordinary child list *)
      intros l Hl IH Hne Hcls Hnm L rp aft st Hpa Ho. unfold kfn.
      destruct (emit_ws_step st [] None (hd_error l) NL (winv_pos st _ _ Ho) ws_indent_NL (or_intror (legal_none _)))
        as (w0 & E0 & Hw0 & Hs0 & Hi0 & Hk0).
      assert (Hoff : w_off (snd (emit_raw st NL)) = 0%Z).
      { unfold emit_raw. pose proof (emit_NL_off st) as H. destruct (emit st NL). exact H. }
      destruct (emit_raw st NL) as [c0 st1]. cbn [fst snd] in *. subst c0.
      assert (Hcl : cl2 Start l) by (destruct Hcls as [H|H]; [left; exact H|right; exact H]).
      specialize (IH Hcl Hnm (S L) rp aft (length l) st1 O None ([] ++ w0) (fun s => fst (closing_of ind L s))
                     ltac:(intros j y Hj; exact (Hpa j y Hj)) (fun s => closing_sees ind ind_ws L s) Hi0 eq_refl Hoff).
      destruct (wkids (S L) rp aft (length l) st1 0 None l) as [cs st2]. cbn [fst snd] in *.
      destruct IH as [Hn2 IH]. specialize (IH Hne).
      pose proof (closing_nonneg ind L st2 Hn2) as Hnc.
      unfold OUTw in IH. cbn [fst snd] in IH.
      destruct (closing_of ind L st2) as [c1 st3]. cbn [fst snd] in *. split; [|exact Hnc].
      apply wvk_list. cbn [app] in IH.
      change ([KRaw w0] ++ cs ++ c1) with ([KRaw w0] ++ (cs ++ c1)). rewrite map_app, (Hs0 (map seen (cs ++ c1))).
      exact IH.
  Qed.

  Theorem wrap_full_transparent t L st rp aft : reduced t -> is_text t = false -> cls allow_inner t = true ->
    get T rp = Some t -> (0 <= w_off st)%Z -> reduce_model (seen (fst (wtag L st rp aft t))) = t.
  Proof.
    intros Hr Ht Hc Hg Ho. apply variant_erased_raw.
    exact (proj1 (wrap_full_mut t (reduced_nft t Hr Ht) Hc L st rp aft Hg Ho)).
  Qed.
End Full.

(* the real _required_space never lets an element, comment or PI fit into no space *)
Lemma elen_nonneg s : (0 <= elen s)%Z. Proof. unfold elen, py_len. lia. Qed.

Lemma real_req_nofit0 T sr rp u x : get T rp = Some x -> is_text x = false -> (u <= 0)%Z -> real_req T sr rp u = None.
Proof.
  intros Hg Hx Hu. unfold real_req. cbn [rreq]. rewrite Hg.
  destruct x as [ns name attrs kids|s|s|t c]; try discriminate.
  - pose proof (elen_nonneg name). pose proof (elen_nonneg (pfx ns)).
    destruct (null kids).
    + replace (3 + (elen name + elen (pfx ns)) >? u)%Z with true by (symmetry; apply Z.gtb_lt; lia). reflexivity.
    + replace (5 + 2 * (elen name + elen (pfx ns)) >? u)%Z with true by (symmetry; apply Z.gtb_lt; lia). reflexivity.
  - assert (H : (node_len (Comment s) <=? u)%Z = false).
    { apply Z.leb_gt. unfold node_len, node_str, elen, py_len. cbn [plain render]. unfold comment_str, s_comment_open, s_comment_close.
      rewrite !app_length. cbn [length]. lia. }
    rewrite H. reflexivity.
  - assert (H : (node_len (PI t c) <=? u)%Z = false).
    { apply Z.leb_gt. unfold node_len, node_str, elen, py_len. cbn [plain render]. unfold pi_str, s_pi_open, s_pi_close.
      rewrite !app_length. cbn [length]. lia. }
    rewrite H. reflexivity.
Qed.

(* ------------------------------------------------------------------------------------------ *)
(* the two results *)

(* (1) proved outright: trees in which a text with content only stands first among its siblings (all other texts are
       single spaces; anything under xml:space="preserve") - for every oracle that lets nothing but text fit into no
       space, in particular the real one; root or sub-tree of any document T *)
Theorem wrap_first_text_transparent ind align width req T : ws_indent ind = true -> (1 <= width)%Z ->
  (forall rp u x, get T rp = Some x -> is_text x = false -> (u <= 0)%Z -> req rp u = None) ->
  forall t sr, get T sr = Some t -> reduced t -> is_text t = false -> first_text t = true ->
  reduce_model (seen (wrap_chunk ind align width req sr (after_path T sr) t)) = t.
Proof.
  intros Hi Hw Hreq t sr Hg Hr Ht Hc. unfold wrap_chunk.
  apply (wrap_full_transparent ind align width req T Hi Hw Hreq false ltac:(discriminate)); try assumption. cbn. lia.
Qed.

Theorem wrap_real_first_text_transparent ind align width T sr t : ws_indent ind = true -> (1 <= width)%Z ->
  get T sr = Some t -> reduced t -> is_text t = false -> first_text t = true ->
  reduce_model (wrap_seen ind align width T sr) = t.
Proof.
  intros Hi Hw Hg Hr Ht Hc. unfold wrap_seen, wrap_real. rewrite Hg.
  apply (wrap_first_text_transparent ind align width (real_req T sr) T Hi Hw); try assumption.
  intros rp u x. apply real_req_nofit0.
Qed.

(* (2) all trees, given the partial-line branch of _serialize_text_over_lines (the Prop over_spec) *)
Theorem wrap_all_transparent_if_over ind align width req T : ws_indent ind = true -> (1 <= width)%Z ->
  (forall rp u x, get T rp = Some x -> is_text x = false -> (u <= 0)%Z -> req rp u = None) ->
  over_spec ind width req ->
  forall t sr, get T sr = Some t -> reduced t -> is_text t = false ->
  reduce_model (seen (wrap_chunk ind align width req sr (after_path T sr) t)) = t.
Proof.
  intros Hi Hw Hreq Hov t sr Hg Hr Ht. unfold wrap_chunk.
  apply (wrap_full_transparent ind align width req T Hi Hw Hreq true (fun _ => Hov)); try assumption; [|cbn; lia].
  clear. induction t as [ns name attrs kids IH| | |] using node_ind'; try reflexivity.
  cbn [cls orb andb]. destruct (directive attrs false); [reflexivity|]. cbn [orb]. apply forallb_forall. rewrite Forall_forall in IH. exact IH.
Qed.

(* (3) the partial-line branch holds (Ws/WrapTextStep.v), so: all trees *)
Theorem over_spec_holds ind width req : ws_indent ind = true -> (1 <= width)%Z -> over_spec ind width req.
Proof.
  intros Hi Hw. unfold over_spec. intros L st p prev next lead trail k rp Hk Hinv Hp _ H0.
  exact (tol_nz ind width req Hi Hw L st p prev next lead trail k Hk Hinv Hp rp H0).
Qed.

Theorem wrap_all_transparent ind align width req T : ws_indent ind = true -> (1 <= width)%Z ->
  (forall rp u x, get T rp = Some x -> is_text x = false -> (u <= 0)%Z -> req rp u = None) ->
  forall t sr, get T sr = Some t -> reduced t -> is_text t = false ->
  reduce_model (seen (wrap_chunk ind align width req sr (after_path T sr) t)) = t.
Proof.
  intros Hi Hw Hreq. apply wrap_all_transparent_if_over; try assumption. apply over_spec_holds; assumption.
Qed.

(* NodeBase.serialize(format_options=FormatOptions(align, ind, width)) of the element at sr of the document T, with the
   real fitting heuristics *)
Theorem wrap_real_transparent ind align width T sr t : ws_indent ind = true -> (1 <= width)%Z ->
  get T sr = Some t -> reduced t -> is_text t = false ->
  reduce_model (wrap_seen ind align width T sr) = t.
Proof.
  intros Hi Hw Hg Hr Ht. unfold wrap_seen, wrap_real. rewrite Hg.
  apply (wrap_all_transparent ind align width (real_req T sr) T Hi Hw); try assumption.
  intros rp u x. apply real_req_nofit0.
Qed.

(* ---- indentation strings that contain a newline (finding C03-newline-in-indentation, fixed by e1f59b7) ---------
   _LengthTrackingWriter.offset counts the characters since the last newline written; before e1f59b7
   TextWrappingSerializer._line_offset subtracted level * len(indentation) from it, which is the width of the
   indentation on the current line only if the indentation contains no newline: <r>a b <i/></r> with indentation
   "\n" at width 1 was written <r>(LF)a(LF)b<i/>(LF)</r>, losing the space before <i/>.  Now only the part of the
   indentation behind its last newline is subtracted (Wrap.ilen / tail_line); the former witnesses as regression: *)
Definition c03_lf_witness : node := Tag [] [114%N] [] [Text [97; 32; 98; 32]%N; Tag [] [105%N] [] []].

Lemma c03_lf_indentation_regression :
  reduce_model c03_lf_witness = c03_lf_witness /\ is_text c03_lf_witness = false /\
  ws_indent [LF] = true /\ no_lf [LF] = false /\
  (* <r>(LF)a(LF)b(LF)<i/>(LF)</r> *)
  wrap_str [LF] false 1%Z c03_lf_witness [] = [60; 114; 62; 10; 97; 10; 98; 10; 60; 105; 47; 62; 10; 60; 47; 114; 62]%N /\
  reduce_model (wrap_seen [LF] false 1%Z c03_lf_witness []) = c03_lf_witness /\
  reduce_model (wrap_seen [SP; LF] false 1%Z c03_lf_witness []) = c03_lf_witness /\
  reduce_model (wrap_seen [LF; SP] false 1%Z c03_lf_witness []) = c03_lf_witness.
Proof. vm_compute. repeat split; reflexivity. Qed.
