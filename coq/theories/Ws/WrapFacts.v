(* Greedy line filling: facts about TextWrappingSerializer._wrap_text, proved over the definition the
   translator regenerates from the source on every run (Gen/GenWrap.v). *)
From Coq Require Import List NArith ZArith Bool Lia.
From Delb.Base Require Import PyStr.
From Delb.Gen Require Import GenWrap.
Import ListNotations.

(* ---------- facts about the primitives ---------- *)
Lemma find_nat_spec c s i : find_nat c s = Some i ->
  nth_error s i = Some c /\ (forall j, (j < i)%nat -> nth_error s j <> Some c).
Proof.
  revert i. induction s as [|x r IH]; cbn; [discriminate|]. intros i.
  destruct (N.eqb_spec x c) as [->|Hne].
  - intros [= <-]. split; [reflexivity|]. intros j Hj. lia.
  - destruct (find_nat c r) as [k|] eqn:E; cbn; [|discriminate]. intros [= <-].
    destruct (IH k eq_refl) as [H1 H2]. split; [exact H1|].
    intros [|j] Hj; cbn; [congruence|]. apply H2. lia.
Qed.
Lemma find_nat_none c s : find_nat c s = None -> ~ In c s.
Proof.
  induction s as [|x r IH]; cbn; [tauto|]. destruct (N.eqb_spec x c) as [->|Hne]; [discriminate|].
  destruct (find_nat c r); cbn; [discriminate|]. intros _ [H|H]; [congruence|]. apply IH; auto.
Qed.
Lemma rfind_nat_none c s : rfind_nat c s = None -> ~ In c s.
Proof.
  induction s as [|x r IH]; cbn; [tauto|]. destruct (rfind_nat c r); [discriminate|].
  destruct (N.eqb_spec x c) as [->|Hne]; [discriminate|]. intros _ [H|H]; [congruence|]. apply IH; auto.
Qed.
Lemma rfind_nat_spec c s i : rfind_nat c s = Some i ->
  nth_error s i = Some c /\ (forall j, (i < j)%nat -> nth_error s j <> Some c).
Proof.
  revert i. induction s as [|x r IH]; cbn; [discriminate|]. intros i.
  destruct (rfind_nat c r) as [k|] eqn:E.
  - intros [= <-]. destruct (IH k eq_refl) as [H1 H2]. split; [exact H1|].
    intros [|j] Hj; [lia|]. cbn. apply H2. lia.
  - destruct (N.eqb_spec x c) as [->|Hne]; [|discriminate]. intros [= <-]. split; [reflexivity|].
    intros [|j] Hj; [lia|]. cbn. intros Hn.
    assert (Hin : In c r) by (eapply nth_error_In; exact Hn).
    exact (rfind_nat_none _ _ E Hin).
Qed.

Definition no_sp (s : str) : Prop := ~ In SP s.

(* one loop iteration: text = line ++ " " ++ rest with the greedy side conditions *)
Inductive step_spec (width : nat) (text : str) : list str -> option str -> Prop :=
| step_break line rest :
    text = line ++ SP :: rest -> (length line <= width)%nat ->
    (forall w rest', rest = w ++ SP :: rest' -> no_sp w -> (width < length line + 1 + length w)%nat) ->
    (no_sp rest -> (width < length line + 1 + length rest)%nat) ->
    step_spec width text [line] (Some rest)
| step_long line rest :
    text = line ++ SP :: rest -> no_sp line -> (width < length line)%nat ->
    step_spec width text [line] (Some rest)
| step_last : no_sp text -> step_spec width text [text] None.

Lemma firstn_skipn_mid (s : str) i c : nth_error s i = Some c -> s = firstn i s ++ c :: skipn (S i) s.
Proof.
  revert i. induction s as [|x r IH]; intros [|i]; cbn; try discriminate.
  - intros [= ->]. reflexivity.
  - intros H. f_equal. apply IH. exact H.
Qed.
Lemma nth_error_firstn_lt {A} (l : list A) n i : (i < n)%nat -> nth_error (firstn n l) i = nth_error l i.
Proof.
  revert n i. induction l as [|x r IH]; intros [|n] [|i] H; cbn; try reflexivity; try lia.
  apply IH. lia.
Qed.

Lemma wrap_step_spec text (width : nat) : (width < length text)%nat -> (0 < width)%nat ->
  let '(out, nxt) := wrap_text_step text (Z.of_nat width) in step_spec width text out nxt.
Proof.
  intros Hlen Hw. unfold wrap_text_step, py_rfind1, py_find1, py_slice_to, py_slice_from.
  change 32%N with SP.
  replace (Z.to_nat (Z.of_nat width + 1)) with (S width) by lia.
  destruct (rfind_nat SP (firstn (S width) text)) as [i|] eqn:Er.
  - replace (Z.of_nat i >? -1)%Z with true by (symmetry; apply Z.gtb_lt; lia).
    replace (Z.to_nat (Z.of_nat i)) with i by lia. replace (Z.to_nat (Z.of_nat i + 1)) with (S i) by lia.
    destruct (rfind_nat_spec _ _ _ Er) as [Hi Hafter].
    assert (Hil : (i < S width)%nat).
    { assert (Hne : nth_error (firstn (S width) text) i <> None) by congruence.
      apply nth_error_Some in Hne. rewrite firstn_length in Hne. lia. }
    assert (Hi' : nth_error text i = Some SP).
    { rewrite <- (firstn_skipn (S width) text). rewrite nth_error_app1 by (rewrite firstn_length; lia). exact Hi. }
    apply step_break.
    + apply firstn_skipn_mid. exact Hi'.
    + rewrite firstn_length. lia.
    + intros w rest' Hrest Hnw. rewrite firstn_length.
      destruct (Nat.le_gt_cases (i + 1 + length w) width) as [Hfit|Hno]; [|lia]. exfalso.
      apply (Hafter (i + 1 + length w)%nat); [lia|].
      rewrite nth_error_firstn_lt by lia.
      rewrite (firstn_skipn_mid text i SP Hi'). rewrite Hrest.
      rewrite nth_error_app2 by (rewrite firstn_length; lia). rewrite firstn_length.
      replace (i + 1 + length w - Nat.min i (length text))%nat with (S (length w)) by lia. cbn.
      rewrite nth_error_app2 by lia. replace (length w - length w)%nat with 0%nat by lia. reflexivity.
    + intros Hn. rewrite firstn_length.
      assert (length text = i + 1 + length (skipn (S i) text))%nat.
      { rewrite skipn_length. assert (i < length text)%nat by (apply nth_error_Some; congruence). lia. }
      lia.
  - replace (-1 >? -1)%Z with false by reflexivity.
    replace (Z.to_nat (Z.of_nat width)) with width by lia.
    pose proof (rfind_nat_none _ _ Er) as Hnone.
    destruct (find_nat SP (skipn width text)) as [j|] eqn:Ef.
    + replace (Z.max 0 (Z.of_nat width) + Z.of_nat j >? 0)%Z with true by (symmetry; apply Z.gtb_lt; lia).
      replace (Z.to_nat (Z.max 0 (Z.of_nat width) + Z.of_nat j)) with (width + j)%nat by lia.
      replace (Z.to_nat (Z.max 0 (Z.of_nat width) + Z.of_nat j + 1)) with (S (width + j)) by lia.
      destruct (find_nat_spec _ _ _ Ef) as [Hj Hbefore].
      assert (Hj' : nth_error text (width + j) = Some SP).
      { rewrite <- (firstn_skipn width text) at 1. rewrite nth_error_app2 by (rewrite firstn_length; lia).
        rewrite firstn_length. replace (width + j - Nat.min width (length text))%nat with j by lia. exact Hj. }
      assert (Hj0 : j <> 0%nat).
      { intros ->. apply Hnone. apply (nth_error_In _ width). rewrite nth_error_firstn_lt by lia.
        replace (width + 0)%nat with width in Hj' by lia. exact Hj'. }
      apply step_long.
      * apply firstn_skipn_mid. exact Hj'.
      * intros Hin. apply In_nth_error in Hin as [m Hm].
        assert (Hml : (m < width + j)%nat).
        { assert (Hx : nth_error (firstn (width + j) text) m <> None) by congruence.
          apply nth_error_Some in Hx. rewrite firstn_length in Hx. lia. }
        rewrite nth_error_firstn_lt in Hm by lia.
        destruct (Nat.lt_ge_cases m (S width)) as [Hlt|Hge].
        -- apply Hnone. apply (nth_error_In _ m). rewrite nth_error_firstn_lt by lia. exact Hm.
        -- apply (Hbefore (m - width)%nat); [lia|].
           rewrite <- Hm. rewrite <- (firstn_skipn width text) at 2.
           rewrite nth_error_app2 by (rewrite firstn_length; lia).
           rewrite firstn_length. f_equal. lia.
      * rewrite firstn_length. lia.
    + replace (-1 >? 0)%Z with false by reflexivity.
      apply step_last. intros Hin.
      rewrite <- (firstn_skipn width text) in Hin. apply in_app_or in Hin as [Hin|Hin].
      * apply Hnone. rewrite <- (firstn_skipn width (firstn (S width) text)). apply in_or_app. left.
        rewrite firstn_firstn. replace (Nat.min width (S width)) with width by lia. exact Hin.
      * exact (find_nat_none _ _ Ef Hin).
Qed.

(* ---------- the whole loop ---------- *)
Inductive lines_spec (width : nat) : str -> list str -> Prop :=
| ls_fits_empty : lines_spec width [] []
| ls_fits text : text <> [] -> (length text <= width)%nat -> lines_spec width text [text]
| ls_step text out rest lines : (width < length text)%nat ->
    step_spec width text out (Some rest) -> lines_spec width rest lines -> lines_spec width text (out ++ lines)
| ls_stop text out : (width < length text)%nat -> step_spec width text out None -> lines_spec width text out.

Lemma step_rest_shorter width text out rest : step_spec width text out (Some rest) -> (length rest < length text)%nat.
Proof. intros H. inversion H; subst; rewrite app_length; cbn; lia. Qed.

Theorem wrap_loop_spec (width : nat) : (0 < width)%nat -> forall fuel text, (length text < fuel)%nat ->
  exists lines, wrap_text_loop fuel text (Z.of_nat width) = Some lines /\ lines_spec width text lines.
Proof.
  intros Hw. induction fuel as [|f IH]; intros text Hf; [lia|].
  cbn [wrap_text_loop]. unfold py_len.
  destruct (Z.of_nat (length text) >? Z.of_nat width)%Z eqn:E.
  - apply Z.gtb_lt in E. assert (Hlen : (width < length text)%nat) by lia.
    pose proof (wrap_step_spec text width Hlen Hw) as Hs.
    destruct (wrap_text_step text (Z.of_nat width)) as [out [rest|]].
    + pose proof (step_rest_shorter _ _ _ _ Hs) as Hsh.
      destruct (IH rest ltac:(lia)) as (lines & El & Hl). rewrite El. cbn.
      exists (out ++ lines). split; [reflexivity|]. eapply ls_step; eassumption.
    + exists out. split; [reflexivity|]. apply ls_stop; assumption.
  - assert (Hlen : (length text <= width)%nat).
    { destruct (Z.gtb_spec (Z.of_nat (length text)) (Z.of_nat width)); [discriminate|lia]. }
    unfold wrap_text_tail, py_bool_str. destruct text as [|c t].
    + exists []. split; [reflexivity|constructor].
    + exists [c :: t]. split; [reflexivity|]. apply ls_fits; [discriminate|exact Hlen].
Qed.

(* the generator always terminates (within fuel length+1) and its lines satisfy the greedy specification *)
Corollary wrap_text_total_and_greedy text (width : nat) : (0 < width)%nat ->
  exists lines, wrap_text text (Z.of_nat width) = Some lines /\ lines_spec width text lines.
Proof. intros Hw. apply wrap_loop_spec; [exact Hw|lia]. Qed.

(* ---------- consequences stated on the lines ---------- *)
Lemma lines_short_or_word width text lines : lines_spec width text lines ->
  Forall (fun l => (length l <= width)%nat \/ no_sp l) lines.
Proof.
  induction 1 as [| text Hne Hl | text out rest lines Hlen Hs Hr IH | text out Hlen Hs].
  - constructor.
  - constructor; [left; exact Hl|constructor].
  - apply Forall_app. split; [|exact IH]. inversion Hs; subst; (constructor; [|constructor]); [left|right]; assumption.
  - inversion Hs; subst. constructor; [right; assumption|constructor].
Qed.

(* nothing but the single spaces at which lines were broken is removed: words are neither split, joined nor reordered *)
Lemma lines_join width text lines : lines_spec width text lines ->
  (lines = [] /\ text = []) \/
  (lines <> [] /\ (text = py_join [SP] lines \/ text = py_join [SP] lines ++ [SP])).
Proof.
  induction 1 as [| text Hne Hl | text out rest lines Hlen Hs Hr IH | text out Hlen Hs].
  - left. split; reflexivity.
  - right. split; [discriminate|left; reflexivity].
  - right. inversion Hs as [line rest0 Ht Hll Hg1 Hg2 | line rest0 Ht Hns Hll |]; subst; (split; [discriminate|]);
      cbn [app]; (destruct IH as [[-> ->]|[Hne [->| ->]]];
        [right; reflexivity
        |left; destruct lines; [congruence|reflexivity]
        |right; destruct lines; [congruence|cbn [py_join]; rewrite <- !app_assoc; reflexivity]]).
  - inversion Hs; subst. right. split; [discriminate|left; reflexivity].
Qed.

Fixpoint first_word (s : str) : str :=
  match s with [] => [] | c :: r => if N.eqb c SP then [] else c :: first_word r end.
Lemma first_word_app_sp a b : first_word (a ++ SP :: b) = first_word a.
Proof.
  induction a as [|c a IH]; cbn; [reflexivity|]. destruct (N.eqb c SP); [reflexivity|]. rewrite IH. reflexivity.
Qed.
Lemma first_word_nosp a : no_sp a -> first_word a = a.
Proof.
  induction a as [|c a IH]; intros H; [reflexivity|]. cbn. destruct (N.eqb_spec c SP) as [->|Hne].
  - exfalso. apply H. left. reflexivity.
  - f_equal. apply IH. intros Hin. apply H. right. exact Hin.
Qed.
Lemma first_word_split s : (exists r, s = first_word s ++ SP :: r /\ no_sp (first_word s)) \/ (no_sp s /\ first_word s = s).
Proof.
  induction s as [|c s IH]; [right; split; [intros []|reflexivity]|].
  cbn [first_word]. destruct (N.eqb_spec c SP) as [->|Hne].
  - left. exists s. split; [reflexivity|intros []].
  - destruct IH as [(r & E & Hn)|[Hn E]].
    + left. exists r. split; [cbn; rewrite <- E; reflexivity|]. intros [H|H]; [congruence|exact (Hn H)].
    + right. split; [intros [H|H]; [congruence|exact (Hn H)]|rewrite E; reflexivity].
Qed.

Lemma lines_first_word width text l more : lines_spec width text (l :: more) -> first_word l = first_word text.
Proof.
  intros H. inversion H as [| t Hne Hl | t out rest lines Hlen Hs Hr | t out Hlen Hs]; subst.
  - reflexivity.
  - inversion Hs as [line rest0 Ht | line rest0 Ht |]; subst; cbn [app] in *;
      match goal with Hx : _ :: _ = _ :: _ |- _ => injection Hx as <- _ end; rewrite first_word_app_sp; reflexivity.
  - inversion Hs; subst. reflexivity.
Qed.

(* no line is shorter than necessary: the first word of each following line would not have fitted *)
Inductive greedy (width : nat) : list str -> Prop :=
| g_nil : greedy width []
| g_one l : greedy width [l]
| g_cons l1 l2 more : (width < length l1 + 1 + length (first_word l2))%nat -> greedy width (l2 :: more) ->
    greedy width (l1 :: l2 :: more).

Lemma lines_greedy width text lines : lines_spec width text lines -> greedy width lines.
Proof.
  induction 1 as [| text Hne Hl | text out rest lines Hlen Hs Hr IH | text out Hlen Hs].
  - constructor.
  - constructor.
  - inversion Hs as [line rest0 Ht Hll Hg1 Hg2 | line rest0 Ht Hns Hll |]; subst; cbn [app].
    + destruct lines as [|l2 more]; [constructor|]. constructor; [|exact IH].
      rewrite (lines_first_word _ _ _ _ Hr).
      destruct (first_word_split rest) as [(r & E & Hn)|[Hn E]].
      * apply (Hg1 _ r E Hn).
      * rewrite E. apply Hg2. exact Hn.
    + destruct lines as [|l2 more]; [constructor|]. constructor; [lia|exact IH].
  - inversion Hs; subst. constructor.
Qed.
