(* C03 at width > 0: the node-level argument that the model of TextWrappingSerializer (Ws/Wrap.v) only
   produces legal whitespace variants, for every fitting oracle.  Facts only.

   Invariant carried between the children of an element (winv): the writer offset is not negative; the
   whitespace p written since the last non-whitespace content is all whitespace; if the offset is 0 that
   whitespace is not empty (the stream stands just after a newline it wrote itself); and whitespace has
   only been written if it is legal at this position. *)
From Coq Require Import List NArith ZArith Bool Lia.
From Delb.Base Require Import PyStr PyStrW PyStrFacts.
From Delb.Gen Require Import GenNames GenPretty GenWrap.
From Delb.Tree Require Import ATree Merge MergeFacts.
From Delb.Ws Require Import Reduce ReduceFacts Pretty SimplePP WsVariant WsVariantFacts PrettyFacts PrettyVariant Wrap WrapFacts WrapSerFacts WrapTextOnly.
Import ListNotations.

(* ------------------------------------------------------------------------------------------ *)
(* what a parser sees in a list of chunks that are all character data *)

Definition sees (cs : list chunk) (w : str) : Prop :=
  forall rest, Nv (map seen cs ++ rest) = ctext w (Nv rest).

Lemma ctext_app a b l : ctext a (ctext b l) = ctext (a ++ b) l.
Proof.
  destruct l as [|x r].
  - cbn [ctext]. rewrite !app_nil_r. unfold txt. destruct b as [|c b']; cbn [null app].
    + rewrite app_nil_r. cbn [ctext]. rewrite app_nil_r. reflexivity.
    + cbn [ctext]. replace (null (a ++ c :: b')) with false by (destruct a; reflexivity). reflexivity.
  - destruct x as [ns name attrs kids|s|s|t c]; cbn [ctext].
    2:{ rewrite app_assoc. reflexivity. }
    all: unfold txt; destruct b as [|c0 b']; cbn [null app ctext];
      [rewrite app_nil_r; reflexivity|replace (null (a ++ c0 :: b')) with false by (destruct a; reflexivity); reflexivity].
Qed.

Lemma sees_nil : sees [] [].
Proof. intros rest. cbn [map app]. rewrite ctext_nil. reflexivity. Qed.
Lemma sees_app cs1 cs2 w1 w2 : sees cs1 w1 -> sees cs2 w2 -> sees (cs1 ++ cs2) (w1 ++ w2).
Proof. intros H1 H2 rest. rewrite map_app, <- app_assoc, H1, H2. apply ctext_app. Qed.
Lemma sees_raw d : sees [KRaw d] (unesc d).
Proof. intros rest. cbn [map seen app]. apply Nv_cons_text. Qed.

Lemma unesc_ws w : ws_indent w = true -> unesc w = w.
Proof. intros H. rewrite <- (app_nil_r w) at 1. rewrite (unesc_ws_prefix w [] H). cbn [unesc]. apply app_nil_r. Qed.

(* ------------------------------------------------------------------------------------------ *)
(* the generated writer *)

Lemma writer_empty p o : writer_call p o [] = ([], o).
Proof. unfold writer_call. cbn. destruct (negb p && (o =? 0)%Z)%bool; reflexivity. Qed.

Lemma lstrip_char_cases d : py_lstrip_char d 10%N = d \/ (exists r, d = LF :: r).
Proof. destruct d as [|c r]; [left; reflexivity|]. cbn. destruct (N.eqb_spec c 10) as [->|]; [right; exists r; reflexivity|left; reflexivity]. Qed.

(* written data, new offset, in terms of the data that survives the stripping *)
Lemma writer_shape p o d : exists d',
  (d' = d \/ (p = false /\ o = 0%Z /\ d' = py_lstrip_char d 10%N)) /\
  ((d' = [] /\ writer_call p o d = ([], o)) \/
   (d' <> [] /\ fst (writer_call p o d) = d' /\
    ((str_eqb (py_last1 d') [10%N] = true /\ snd (writer_call p o d) = 0%Z) \/
     (str_eqb (py_last1 d') [10%N] = false /\
      snd (writer_call p o d) = (if (py_rfind1 d' 10%N (py_len d') =? -1)%Z then o + py_len d' else py_len d' - (py_rfind1 d' 10%N (py_len d') + 1))%Z)))).
Proof.
  unfold writer_call. destruct (negb p && (o =? 0)%Z)%bool eqn:E.
  - apply andb_prop in E as [Ep Eo]. apply negb_true_iff in Ep. apply Z.eqb_eq in Eo.
    exists (py_lstrip_char d 10%N). split; [right; auto|].
    destruct (py_lstrip_char d 10%N) as [|c r] eqn:Ed; [left; split; [reflexivity|subst o; reflexivity]|].
    right. split; [discriminate|]. cbn [py_bool_str null negb].
    destruct (str_eqb (py_last1 (c :: r)) [10%N]); [split; [reflexivity|left; split; reflexivity]|].
    split; [destruct (py_rfind1 (c :: r) 10%N (py_len (c :: r)) =? -1)%Z; reflexivity|].
    right. split; [reflexivity|]. destruct (py_rfind1 (c :: r) 10%N (py_len (c :: r)) =? -1)%Z; reflexivity.
  - exists d. split; [left; reflexivity|].
    destruct d as [|c r]; [left; split; reflexivity|].
    right. split; [discriminate|]. cbn [py_bool_str null negb].
    destruct (str_eqb (py_last1 (c :: r)) [10%N]); [split; [reflexivity|left; split; reflexivity]|].
    split; [destruct (py_rfind1 (c :: r) 10%N (py_len (c :: r)) =? -1)%Z; reflexivity|].
    right. split; [reflexivity|]. destruct (py_rfind1 (c :: r) 10%N (py_len (c :: r)) =? -1)%Z; reflexivity.
Qed.

Lemma py_rfind1_bounds (s : str) c stop : (py_rfind1 s c stop <> -1 ->
  0 <= py_rfind1 s c stop < py_len s /\ nth_error s (Z.to_nat (py_rfind1 s c stop)) = Some c)%Z.
Proof.
  unfold py_rfind1, py_len. destruct (rfind_nat c (firstn (Z.to_nat stop) s)) as [i|] eqn:E; [|congruence].
  intros _. destruct (rfind_nat_spec _ _ _ E) as [Hn _].
  assert (Hi : (i < length (firstn (Z.to_nat stop) s))%nat) by (apply nth_error_Some; congruence).
  rewrite firstn_length in Hi. rewrite Nat2Z.id. split; [lia|].
  rewrite <- Hn. symmetry. apply nth_error_firstn_lt. lia.
Qed.

Lemma py_last1_nth (s : str) c : py_last1 s = [c] -> s <> [] /\ nth_error s (length s - 1) = Some c.
Proof.
  unfold py_last1. destruct (rev s) as [|x r] eqn:E; [discriminate|]. intros [= ->].
  assert (Es : s = rev r ++ [c]) by (rewrite <- (rev_involutive s), E; reflexivity).
  rewrite Es. split; [destruct (rev r); discriminate|].
  rewrite app_length. cbn [length]. replace (length (rev r) + 1 - 1)%nat with (length (rev r)) by lia.
  rewrite nth_error_app2 by lia. rewrite Nat.sub_diag. reflexivity.
Qed.

Definition ends_lf (d : str) : bool := str_eqb (py_last1 d) [10%N].

Lemma ends_lf_false_last d : d <> [] -> ends_lf d = false -> nth_error d (length d - 1) <> Some LF.
Proof.
  intros Hn H E. unfold ends_lf in H. unfold py_last1 in H.
  destruct (rev d) as [|x r] eqn:Er; [apply Hn; rewrite <- (rev_involutive d), Er; reflexivity|].
  assert (Es : d = rev r ++ [x]) by (rewrite <- (rev_involutive d), Er; reflexivity).
  rewrite Es in E. rewrite app_length in E. cbn [length] in E.
  replace (length (rev r) + 1 - 1)%nat with (length (rev r)) in E by lia.
  rewrite nth_error_app2 in E by lia. rewrite Nat.sub_diag in E. cbn in E. injection E as ->.
  cbn in H. discriminate.
Qed.

(* facts about one writer call, on the record state *)
Lemma emit_nonneg st d : (0 <= w_off st)%Z -> (0 <= w_off (snd (emit st d)))%Z.
Proof.
  intros Ho. unfold emit. destruct (writer_shape (w_pres st) (w_off st) d) as (d' & _ & [[_ E]|(Hn & Ef & [[_ Es]|[El Es]])]).
  - rewrite E. exact Ho.
  - destruct (writer_call (w_pres st) (w_off st) d) as [x o']. cbn in *. lia.
  - destruct (writer_call (w_pres st) (w_off st) d) as [x o']. cbn [snd fst w_off] in *. rewrite Es.
    destruct (py_rfind1 d' 10%N (py_len d') =? -1)%Z eqn:Er; [unfold py_len; lia|].
    apply Z.eqb_neq in Er. pose proof (py_rfind1_bounds d' 10%N (py_len d') Er) as [Hb _]. lia.
Qed.

Lemma emit_pres st d : w_pres (snd (emit st d)) = w_pres st.
Proof. unfold emit. destruct (writer_call (w_pres st) (w_off st) d). reflexivity. Qed.

(* markup: not empty, does not begin or end with a newline: written as it is, and the offset is positive afterwards *)
Definition markup (d : str) : Prop :=
  d <> [] /\ match d with c :: _ => c <> LF | [] => True end /\ ends_lf d = false.

Lemma lstrip_char_id d : match d with c :: _ => c <> LF | [] => True end -> py_lstrip_char d 10%N = d.
Proof. destruct d as [|c r]; [reflexivity|]. cbn. intros H. destruct (N.eqb_spec c 10) as [->|]; [exfalso; apply H; reflexivity|reflexivity]. Qed.

Lemma emit_markup st d : (0 <= w_off st)%Z -> markup d ->
  fst (emit st d) = d /\ (0 < w_off (snd (emit st d)))%Z.
Proof.
  intros Ho (Hn & Hh & Hl). unfold emit.
  destruct (writer_shape (w_pres st) (w_off st) d) as (d' & Hd & H).
  assert (Ed : d' = d) by (destruct Hd as [->|(_ & _ & ->)]; [reflexivity|apply lstrip_char_id; exact Hh]).
  subst d'. destruct H as [[E _]|(_ & Ef & [[El _]|[_ Es]])]; [congruence|unfold ends_lf in Hl; congruence|].
  destruct (writer_call (w_pres st) (w_off st) d) as [x o']. cbn [fst snd w_off] in *. split; [exact Ef|].
  rewrite Es. destruct (py_rfind1 d 10%N (py_len d) =? -1)%Z eqn:Er.
  - unfold py_len. destruct d; [congruence|cbn [length]; lia].
  - apply Z.eqb_neq in Er. pose proof (py_rfind1_bounds d 10%N (py_len d) Er) as [Hb Hnth].
    pose proof (ends_lf_false_last d Hn Hl) as Hlast. unfold py_len in *.
    assert (Z.to_nat (py_rfind1 d 10%N (Z.of_nat (length d))) <> length d - 1)%nat by (intros E; rewrite E in Hnth; exact (Hlast Hnth)).
    lia.
Qed.

(* with a positive offset nothing is stripped *)
Lemma emit_keep_pos st d : (0 < w_off st)%Z -> fst (emit st d) = d.
Proof.
  intros Ho. unfold emit. destruct (writer_shape (w_pres st) (w_off st) d) as (d' & Hd & H).
  assert (Ed : d' = d) by (destruct Hd as [->|(_ & E & _)]; [reflexivity|lia]). subst d'.
  destruct H as [[-> E]|(_ & Ef & _)]; [rewrite E; reflexivity|].
  destruct (writer_call (w_pres st) (w_off st) d). exact Ef.
Qed.

(* nothing written: the state is unchanged *)
Lemma emit_nothing st d : fst (emit st d) = [] -> snd (emit st d) = st.
Proof.
  unfold emit. destruct (writer_shape (w_pres st) (w_off st) d) as (d' & _ & [[_ E]|(Hn & Ef & _)]).
  - rewrite E. intros _. destruct st; reflexivity.
  - destruct (writer_call (w_pres st) (w_off st) d). cbn in *. congruence.
Qed.

Lemma emit_ws_indent st w : ws_indent w = true -> ws_indent (fst (emit st w)) = true.
Proof. intros H. unfold emit. pose proof (writer_ws (w_pres st) (w_off st) w H) as Hw. destruct (writer_call (w_pres st) (w_off st) w). exact Hw. Qed.

(* ------------------------------------------------------------------------------------------ *)
(* the invariant between the children of an element *)

Definition legal (prev next : option node) : bool :=
  match next with None => true | Some y => legit_before prev y end.

Definition winv (st : wst) (p : str) (prev next : option node) : Prop :=
  (0 <= w_off st)%Z /\ all_ws p /\ (w_off st = 0%Z -> p <> []) /\ (p <> [] -> legal prev next = true).

Lemma legal_none next : legal None next = true.
Proof. destruct next; reflexivity. Qed.

Lemma winv_pos st prev next : (0 < w_off st)%Z -> winv st [] prev next.
Proof. intros H. repeat split; [lia|constructor|lia|congruence]. Qed.

Lemma all_ws_ws_indent w : ws_indent w = true -> all_ws w.
Proof. apply all_ws_of_ws_indent. Qed.

(* writing whitespace where it is legal (or where the stream already stands after its own newline) *)
Lemma emit_ws_step st p prev next w : winv st p prev next -> ws_indent w = true ->
  ((w_off st = 0)%Z \/ legal prev next = true) ->
  exists w', fst (emit_raw st w) = [KRaw w'] /\ ws_indent w' = true /\ sees [KRaw w'] w' /\
             winv (snd (emit_raw st w)) (p ++ w') prev next /\ ((0 < w_off st)%Z -> w' = w).
Proof.
  intros (Ho & Hp & H1 & H2) Hw Hleg. unfold emit_raw.
  pose proof (emit_ws_indent st w Hw) as Hw'. pose proof (emit_nonneg st w Ho) as Ho'.
  pose proof (emit_nothing st w) as Hnone. pose proof (emit_keep_pos st w) as Hkeep.
  destruct (emit st w) as [w' st'] eqn:E. cbn [fst snd] in *.
  exists w'. split; [reflexivity|]. split; [exact Hw'|]. split.
  - pose proof (sees_raw w') as Hs. rewrite (unesc_ws w' Hw') in Hs. exact Hs.
  - split; [|exact Hkeep]. repeat split.
    + exact Ho'.
    + apply all_ws_app; [exact Hp|apply all_ws_ws_indent; exact Hw'].
    + intros Hz. destruct w' as [|c r]; [|destruct p; discriminate].
      rewrite (Hnone eq_refl) in Hz. rewrite app_nil_r. exact (H1 Hz).
    + intros Hne. destruct p as [|c r]; [|apply H2; discriminate].
      destruct Hleg as [Hz|Hl]; [exfalso; exact (H1 Hz eq_refl)|exact Hl].
Qed.

(* ------------------------------------------------------------------------------------------ *)
(* the verbatim serializers (plain Serializer, _LineFittingSerializer) through the tracking writer:
   every text is preceded by markup, so the offset is positive and nothing is stripped *)

Lemma ends_lf_snoc a c : ends_lf (a ++ [c]) = N.eqb c 10.
Proof. unfold ends_lf, py_last1. rewrite rev_app_distr. cbn. rewrite andb_true_r. reflexivity. Qed.

Lemma markup_gt : markup [62%N]. Proof. repeat split; discriminate. Qed.
Lemma markup_sgt : markup [47; 62]%N. Proof. repeat split; discriminate. Qed.
Lemma markup_close nm : markup ([60; 47]%N ++ nm ++ [62%N]).
Proof.
  repeat split; [discriminate|cbn; discriminate|].
  unfold ends_lf, py_last1. rewrite !rev_app_distr. reflexivity.
Qed.
Lemma markup_comment s : markup (comment_str s).
Proof.
  unfold comment_str, s_comment_open, s_comment_close. repeat split; [discriminate|cbn; discriminate|].
  unfold ends_lf, py_last1. rewrite !rev_app_distr. reflexivity.
Qed.
Lemma markup_pi t c : markup (pi_str t c).
Proof.
  unfold pi_str, s_pi_open, s_pi_close. repeat split; [discriminate|cbn; discriminate|].
  unfold ends_lf, py_last1. rewrite !rev_app_distr. reflexivity.
Qed.

Lemma emit_attrs_nonneg pieces : forall st, (0 <= w_off st)%Z -> (0 <= w_off (snd (emit_attrs st pieces)))%Z.
Proof.
  induction pieces as [|p r IH]; intros st Ho; [exact Ho|]. cbn [emit_attrs].
  pose proof (emit_nonneg st p Ho) as H1. destruct (emit st p) as [d st1]. cbn [snd] in H1.
  specialize (IH st1 H1). destruct (emit_attrs st1 r) as [ds st2]. exact IH.
Qed.

(* Serializer._serialize_tag: what is seen, and the offsets *)
Lemma tag_with_spec st ns name attrs pieces hk kids_fn : (0 <= w_off st)%Z ->
  exists st3, (0 < w_off st3)%Z /\
    (hk = false -> seen (fst (tag_with st ns name attrs pieces hk kids_fn)) = Tag ns name attrs [] /\
                   (0 < w_off (snd (tag_with st ns name attrs pieces hk kids_fn)))%Z) /\
    (hk = true -> seen (fst (tag_with st ns name attrs pieces hk kids_fn)) = Tag ns name attrs (map seen (fst (kids_fn st3))) /\
                  ((0 <= w_off (snd (kids_fn st3)))%Z -> (0 < w_off (snd (tag_with st ns name attrs pieces hk kids_fn)))%Z)).
Proof.
  intros Ho. unfold tag_with.
  pose proof (emit_nonneg st ([60%N] ++ pfx ns ++ name) Ho) as H1.
  destruct (emit st ([60%N] ++ pfx ns ++ name)) as [o1 st1]. cbn [snd] in H1.
  pose proof (emit_attrs_nonneg pieces st1 H1) as H2.
  destruct (emit_attrs st1 pieces) as [o2 st2]. cbn [snd] in H2.
  destruct hk.
  - destruct (emit_markup st2 [62%N] H2 markup_gt) as [_ H3].
    destruct (emit st2 [62%N]) as [o3 st3]. cbn [snd] in H3.
    exists st3. split; [exact H3|]. split; [discriminate|]. intros _.
    destruct (kids_fn st3) as [ks st4]. cbn [fst snd].
    destruct (emit st4 ([60; 47]%N ++ (pfx ns ++ name) ++ [62%N])) as [c st5] eqn:Ee. cbn [fst snd seen] in *.
    split; [reflexivity|]. intros H4. change st5 with (snd (c, st5)). rewrite <- Ee.
    exact (proj2 (emit_markup st4 _ H4 (markup_close (pfx ns ++ name)))).
  - destruct (emit_markup st2 [47; 62]%N H2 markup_sgt) as [_ H3].
    destruct (emit st2 [47; 62]%N) as [o3 st3]. cbn [snd] in H3.
    exists st3. split; [exact H3|]. split; [|discriminate]. intros _. cbn [fst snd seen map]. split; [reflexivity|exact H3].
Qed.

Definition verb_spec (f : wst -> node -> chunk * wst) (k : node) : Prop :=
  forall st, (0 <= w_off st)%Z -> (is_text k = true -> (0 < w_off st)%Z) ->
    seen (fst (f st k)) = k /\ (0 <= w_off (snd (f st k)))%Z /\ (is_text k = false -> (0 < w_off (snd (f st k)))%Z).

Lemma fold_kids_ok f kids : Forall (verb_spec f) kids -> forall pt, no_adjacent_text pt kids = true ->
  forall st, (0 <= w_off st)%Z -> (match kids with Text _ :: _ => (0 < w_off st)%Z | _ => True end) ->
  map seen (fst (fold_kids f st kids)) = kids /\ (0 <= w_off (snd (fold_kids f st kids)))%Z.
Proof.
  induction 1 as [|x r Hx Hr IH]; intros pt Hna st Ho Hh; [split; [reflexivity|exact Ho]|].
  cbn [no_adjacent_text] in Hna. apply andb_prop in Hna as [_ Hna]. cbn [fold_kids].
  destruct (Hx st Ho) as (Hs & Ho1 & Hp1); [destruct x; try discriminate; intros _; exact Hh|].
  destruct (f st x) as [c st1]. cbn [fst snd] in *.
  destruct (IH (is_text x) Hna st1 Ho1) as (Hs2 & Ho2).
  { destruct r as [|y r']; [exact I|]. destruct y; try exact I.
    cbn [no_adjacent_text is_text] in Hna. apply Hp1. destruct (is_text x); [discriminate|reflexivity]. }
  destruct (fold_kids f st1 r) as [cs st2]. cbn [fst snd map] in *. rewrite Hs, Hs2. split; [reflexivity|exact Ho2].
Qed.

Lemma merged_kids ns name attrs kids : merged (Tag ns name attrs kids) = true ->
  no_adjacent_text false kids = true /\ Forall (fun k => merged k = true) kids.
Proof.
  cbn [merged]. intros H. apply andb_prop in H as [H1 H2]. split; [exact H1|].
  apply Forall_forall. rewrite forallb_forall in H2. exact H2.
Qed.

Lemma raw_text_seen st s : (0 < w_off st)%Z -> seen (KRaw (fst (emit st (esc_text s)))) = Text s.
Proof. intros Ho. rewrite emit_keep_pos by exact Ho. cbn [seen]. rewrite unesc_esc_text. reflexivity. Qed.

Theorem tplain_ok n : merged n = true -> verb_spec tplain n.
Proof.
  induction n as [ns name attrs kids IH|s|s|t c] using node_ind'; intros Hm st Ho Ht.
  - destruct (merged_kids _ _ _ _ Hm) as [Hna Hmk]. cbn [tplain].
    destruct (tag_with_spec st ns name attrs (plain_attr_pieces (attrs_data attrs)) (negb (null kids))
                (fun st0 => fold_kids tplain st0 kids) Ho) as (st3 & H3 & Hf & Ht').
    assert (HF : Forall (verb_spec tplain) kids).
    { rewrite Forall_forall in *. intros k Hk. apply (IH k Hk). apply Hmk. exact Hk. }
    destruct kids as [|k0 kr].
    + destruct (Hf eq_refl) as [E1 E2]. split; [exact E1|]. split; [lia|intros _; exact E2].
    + destruct (Ht' eq_refl) as [E1 E2].
      destruct (fold_kids_ok tplain (k0 :: kr) HF false Hna st3 ltac:(lia)) as [E3 E4]; [destruct k0; try exact I; exact H3|].
      rewrite E1, E3. split; [reflexivity|]. specialize (E2 E4). split; [lia|intros _; exact E2].
  - cbn [tplain]. specialize (Ht eq_refl). pose proof (raw_text_seen st s Ht) as Hs.
    pose proof (emit_nonneg st (esc_text s) Ho) as Hn.
    destruct (emit st (esc_text s)) as [d st']. cbn [fst snd] in *. split; [exact Hs|]. split; [exact Hn|discriminate].
  - cbn [tplain]. destruct (emit_markup st (comment_str s) Ho (markup_comment s)) as [_ Hp].
    destruct (emit st (comment_str s)) as [d st']. cbn [fst snd seen] in *. split; [reflexivity|]. split; [lia|intros _; exact Hp].
  - cbn [tplain]. destruct (emit_markup st (pi_str t c) Ho (markup_pi t c)) as [_ Hp].
    destruct (emit st (pi_str t c)) as [d st']. cbn [fst snd seen] in *. split; [reflexivity|]. split; [lia|intros _; exact Hp].
Qed.

(* texts in regions that are not preserved are already collapsed (true of reduced trees) *)
Fixpoint lfok (sp : bool) (n : node) : bool :=
  match n with
  | Tag _ _ attrs kids => forallb (lfok (directive attrs sp)) kids
  | Text s => (sp || str_eqb (collapse s) s)%bool
  | _ => true
  end.

Theorem lf_node_ok n : forall sp, merged n = true -> lfok sp n = true -> verb_spec (lf_node sp) n.
Proof.
  induction n as [ns name attrs kids IH|s|s|t c] using node_ind'; intros sp Hm Hl st Ho Ht.
  - destruct (merged_kids _ _ _ _ Hm) as [Hna Hmk]. cbn [lf_node]. cbn [lfok] in Hl.
    set (sp' := directive attrs sp) in *.
    set (st1 := if negb (Bool.eqb sp' sp) then set_pres st (negb sp') else st).
    assert (Ho1 : (0 <= w_off st1)%Z) by (unfold st1; destruct (negb (Bool.eqb sp' sp)); exact Ho).
    destruct (tag_with_spec st1 ns name attrs (plain_attr_pieces (attrs_data attrs)) (negb (null kids))
                (fun st0 => fold_kids (lf_node sp') st0 kids) Ho1) as (st3 & H3 & Hf & Ht').
    assert (HF : Forall (verb_spec (lf_node sp')) kids).
    { rewrite Forall_forall in *. rewrite forallb_forall in Hl. intros k Hk. apply (IH k Hk sp'); [apply Hmk; exact Hk|apply Hl; exact Hk]. }
    destruct (tag_with st1 ns name attrs (plain_attr_pieces (attrs_data attrs)) (negb (null kids))
                (fun st0 => fold_kids (lf_node sp') st0 kids)) as [c st4] eqn:Etw. cbn [fst snd] in *.
    assert (Hoff : forall b, w_off (if negb (Bool.eqb sp' sp) then set_pres st4 b else st4) = w_off st4)
      by (intros b; destruct (negb (Bool.eqb sp' sp)); reflexivity).
    rewrite Hoff.
    destruct kids as [|k0 kr].
    + destruct (Hf eq_refl) as [E1 E2]. split; [exact E1|]. split; [lia|intros _; exact E2].
    + destruct (Ht' eq_refl) as [E1 E2].
      destruct (fold_kids_ok (lf_node sp') (k0 :: kr) HF false Hna st3 ltac:(lia)) as [E3 E4]; [destruct k0; try exact I; exact H3|].
      rewrite E1, E3. split; [reflexivity|]. specialize (E2 E4). split; [lia|intros _; exact E2].
  - cbn [lf_node]. specialize (Ht eq_refl). cbn [lfok] in Hl.
    assert (Ed : (if sp then esc_text s else esc_text (collapse s)) = esc_text s).
    { destruct sp; [reflexivity|]. cbn [orb] in Hl. apply str_eqb_eq in Hl. rewrite Hl. reflexivity. }
    rewrite Ed. pose proof (raw_text_seen st s Ht) as Hs.
    pose proof (emit_nonneg st (esc_text s) Ho) as Hn.
    destruct (emit st (esc_text s)) as [d st']. cbn [fst snd] in *. split; [exact Hs|]. split; [exact Hn|discriminate].
  - cbn [lf_node]. destruct (emit_markup st (comment_str s) Ho (markup_comment s)) as [_ Hp].
    destruct (emit st (comment_str s)) as [d st']. cbn [fst snd seen] in *. split; [reflexivity|]. split; [lia|intros _; exact Hp].
  - cbn [lf_node]. destruct (emit_markup st (pi_str t c) Ho (markup_pi t c)) as [_ Hp].
    destruct (emit st (pi_str t c)) as [d st']. cbn [fst snd seen] in *. split; [reflexivity|]. split; [lia|intros _; exact Hp].
Qed.

(* ------------------------------------------------------------------------------------------ *)
(* trees in normal form are clean, and their texts outside preserved regions are collapsed *)

Lemma spec_collapse_fixed s f l : collapse (reduce_text_spec s f l) = reduce_text_spec s f l.
Proof.
  destruct (spec_cases s f l) as [E|[[E _]|(a & b & k & Hk & E & _)]]; rewrite E; [reflexivity|reflexivity|].
  apply collapse_nf. exact Hk.
Qed.

Lemma rw_lfok l : forall f, (forall x, In x l -> is_text x = false -> lfok false x = true) ->
  forallb (lfok false) (rw f l) = true.
Proof.
  induction l as [|x r IH]; intros f H; [reflexivity|].
  assert (Hr : forall y, In y r -> is_text y = false -> lfok false y = true) by (intros y Hy; apply H; right; exact Hy).
  destruct (is_text x) eqn:Ex.
  - destruct x as [|s| |]; try discriminate. rewrite rw_cons_text.
    destruct (null (reduce_text_spec s f (null r))); cbn [app forallb]; [apply IH; exact Hr|].
    cbn [lfok orb]. rewrite spec_collapse_fixed, str_eqb_refl. apply IH. exact Hr.
  - rewrite rw_cons_nontext by exact Ex. cbn [forallb]. rewrite (H x (or_introl eq_refl) Ex). apply IH. exact Hr.
Qed.

Theorem R_lfok n : forall d, is_text n = false -> lfok d (R d n) = true.
Proof.
  induction n as [ns name attrs kids IH|s|s|t c] using node_ind'; intros d Ht; try discriminate; try reflexivity.
  cbn [reduce_with lfok]. set (d' := directive attrs d).
  assert (HK : forall x, In x (drop_empty (map (R d') kids)) -> is_text x = false -> lfok d' x = true).
  { intros x Hx Hxt. unfold drop_empty in Hx. apply filter_In in Hx as [Hx _]. apply in_map_iff in Hx as (y & <- & Hy).
    rewrite Forall_forall in IH. rewrite R_is_text in Hxt. exact (IH y Hy d' Hxt). }
  destruct d' eqn:Ed.
  - apply forallb_forall. intros x Hx. destruct (is_text x) eqn:Ex; [destruct x; try discriminate; reflexivity|exact (HK x Hx Ex)].
  - apply rw_lfok. exact HK.
Qed.

Definition Cnft (t : node) (_ : nft t) : Prop := clean t = true /\ lfok false t = true.
Definition Cnf (prev : sib) (l : list node) (_ : nf prev l) : Prop :=
  no_adjacent_text (is_afterX prev) l = true /\ forallb clean l = true /\ forallb (lfok false) l = true
  /\ forallb (fun k => negb (is_empty_text k)) l = true.
Definition Cnfk (l : list node) (_ : nfk l) : Prop :=
  no_adjacent_text false l = true /\ forallb clean l = true /\ forallb (lfok false) l = true
  /\ forallb (fun k => negb (is_empty_text k)) l = true.

Lemma clean_tag ns name attrs kids :
  no_adjacent_text false kids = true -> forallb clean kids = true ->
  forallb (fun k => negb (is_empty_text k)) kids = true -> clean (Tag ns name attrs kids) = true.
Proof.
  intros H1 H2 H3. unfold clean. cbn [merged no_empty]. rewrite H1. cbn [andb].
  assert (Hm : forallb merged kids = true).
  { apply forallb_forall. intros x Hx. rewrite forallb_forall in H2. specialize (H2 x Hx). unfold clean in H2. apply andb_prop in H2 as [H _]. exact H. }
  rewrite Hm. cbn [andb]. apply forallb_forall. intros x Hx. rewrite forallb_forall in H2, H3.
  specialize (H2 x Hx). specialize (H3 x Hx). unfold clean in H2. apply andb_prop in H2 as [_ H]. rewrite H3, H. reflexivity.
Qed.

Lemma core_text_props lead k trail : core k ->
  clean (Text (optsp lead ++ k ++ optsp trail)) = true /\ lfok false (Text (optsp lead ++ k ++ optsp trail)) = true /\
  is_empty_text (Text (optsp lead ++ k ++ optsp trail)) = false.
Proof.
  intros Hk. split; [reflexivity|]. split.
  - cbn [lfok orb]. rewrite (collapse_nf lead k trail Hk). apply str_eqb_refl.
  - cbn [is_empty_text]. destruct lead; [reflexivity|]. cbn [optsp app]. destruct k; [destruct Hk as [H _]; cbn in H; tauto|reflexivity].
Qed.

Theorem nft_clean_lfok : forall t (H : nft t), Cnft t H.
Proof.
  apply (nft_mut Cnft Cnf Cnfk); unfold Cnft, Cnf, Cnfk.
  - intros n Hc Hr Hk. split; [exact Hc|]. rewrite <- Hr. apply R_lfok. destruct n; try reflexivity. destruct Hk.
  - intros ns name attrs ks Hd Hk (H1 & H2 & H3 & H4). split; [apply clean_tag; assumption|].
    cbn [lfok]. rewrite Hd. exact H3.
  - intros prev. repeat split.
  - intros prev x r Hx Hnx (Hc & Hl) Hnr (H1 & H2 & H3 & H4). cbn [no_adjacent_text forallb].
    rewrite Hx, andb_false_r. cbn [negb andb]. cbn [is_afterX] in H1. rewrite H1, H2, H3, H4, Hc, Hl.
    replace (is_empty_text x) with false by (destruct x; try reflexivity; discriminate). repeat split.
  - intros prev lead trail k r Hk Hp Hl Ht Hnr (H1 & H2 & H3 & H4).
    destruct (core_text_props lead k trail Hk) as (E1 & E2 & E3).
    cbn [no_adjacent_text forallb is_text]. cbn [is_afterX] in H1. rewrite H1, H2, H3, H4, E1, E2, E3.
    replace (is_afterX prev) with false by (destruct prev; try reflexivity; congruence). repeat split.
  - intros r Hrn Hnr (H1 & H2 & H3 & H4). cbn [no_adjacent_text forallb is_text is_afterX]. cbn [is_afterX] in H1.
    rewrite H1, H2, H3, H4. repeat split.
  - repeat split.
  - intros l Hl (H1 & H2 & H3 & H4). cbn [is_afterX] in H1. repeat split; assumption.
Qed.

(* ------------------------------------------------------------------------------------------ *)
(* TextWrappingSerializer.serialize_node: the emission patterns *)

Lemma la_legal x next : is_text x = false -> legit_after x next = legal (Some x) next.
Proof. intros Hx. destruct next as [y|]; [|reflexivity]. destruct x; try discriminate; destruct y; reflexivity. Qed.

Lemma winv_set_pres st b p prev next : winv (set_pres st b) p prev next <-> winv st p prev next.
Proof. unfold winv, set_pres. cbn [w_off]. tauto. Qed.

Lemma ws_indent_NL : ws_indent NL = true. Proof. reflexivity. Qed.

Section Step.
  Variable ind : str.
  Variable align : bool.
  Variable width : Z.
  Variable req : rpath -> Z -> option Z.
  Hypothesis ind_ws : ws_indent ind = true.

  Lemma ws_indent_indent L : ws_indent (indent ind L) = true.
  Proof. unfold indent. apply ws_indent_repeat. exact ind_ws. Qed.

  (* what one step of the children loop must deliver for a non-text child x: whitespace b before it (legal if there is
     any), the chunk of the node (a variant of x), whitespace a after it, and the invariant for the next position *)
  Definition step_post (cs : list chunk) (st' : wst) (p : str) (prev : option node) (x : node) (next : option node) : Prop :=
    exists bs b c als a, cs = bs ++ [c] ++ als /\ sees bs b /\ all_ws b /\ (p ++ b <> [] -> legal prev (Some x) = true) /\
      sees als a /\ winv st' a (Some x) next /\ wvt x (mseen c) /\ is_text (seen c) = false.

  Definition nl_if (cond : bool) (st : wst) (cs : list chunk) : list chunk * wst :=
    if cond then let '(c, st') := emit_raw st NL in (cs ++ c, st') else (cs, st).

  Lemma nl_if_spec cond st cs x next : (0 < w_off st)%Z -> is_text x = false ->
    (cond = true -> legit_after x next = true) ->
    exists als a, fst (nl_if cond st cs) = cs ++ als /\ sees als a /\ winv (snd (nl_if cond st cs)) a (Some x) next.
  Proof.
    intros Ho Hx Hc. unfold nl_if. destruct cond.
    - destruct (emit_ws_step st [] (Some x) next NL (winv_pos st _ _ Ho) ws_indent_NL) as (w' & E & Hw & Hs & Hi & _).
      { right. rewrite <- la_legal by exact Hx. apply Hc. reflexivity. }
      destruct (emit_raw st NL) as [c st']. cbn [fst snd] in *. subst c. exists [KRaw w'], w'. repeat split; try assumption; apply Hi.
    - exists [], []. cbn [fst snd]. split; [rewrite app_nil_r; reflexivity|]. split; [apply sees_nil|apply winv_pos; exact Ho].
  Qed.

  (* the element / comment / PI itself when it is appended to the line: verbatim *)
  Lemma appendable_spec L st x p prev : winv st p prev (Some x) -> is_text x = false ->
    clean x = true -> lfok false x = true ->
    exists bs b c, fst (appendable ind L st x) = bs ++ [c] /\ sees bs b /\ all_ws b /\
      (p ++ b <> [] -> legal prev (Some x) = true) /\ mseen c = x /\ is_text (seen c) = false /\
      (0 < w_off (snd (appendable ind L st x)))%Z.
  Proof.
    intros Hi Hx Hc Hl. unfold appendable.
    assert (Hpre : exists bs b st1, (if ((w_off st =? 0)%Z && has_ind ind)%bool then emit_raw st (indent ind L) else ([], st)) = (bs, st1)
                   /\ sees bs b /\ all_ws b /\ winv st1 (p ++ b) prev (Some x)).
    { destruct ((w_off st =? 0)%Z && has_ind ind)%bool eqn:E.
      - apply andb_prop in E as [E _]. apply Z.eqb_eq in E.
        destruct (emit_ws_step st p prev (Some x) (indent ind L) Hi (ws_indent_indent L) (or_introl E)) as (w' & Ew & Hw & Hs & Hi' & _).
        destruct (emit_raw st (indent ind L)) as [c st1]. cbn [fst snd] in *. subst c.
        exists [KRaw w'], w', st1. repeat split; try assumption; try apply Hi'. apply all_ws_ws_indent. exact Hw.
      - exists [], [], st. rewrite app_nil_r. repeat split; try apply Hi. apply sees_nil. constructor. }
    destruct Hpre as (bs & b & st1 & -> & Hs & Hb & (Ho1 & _ & _ & Hleg)).
    assert (Hm : merged x = true) by (unfold clean in Hc; apply andb_prop in Hc as [H _]; exact H).
    destruct x as [ns name attrs kids|s|s|t c]; try discriminate.
    - set (r := if directive attrs false then tplain (set_pres st1 true) (Tag ns name attrs kids) else lf_node false st1 (Tag ns name attrs kids)).
      assert (Hr : seen (fst r) = Tag ns name attrs kids /\ (0 < w_off (snd r))%Z).
      { unfold r. destruct (directive attrs false).
        - destruct (tplain_ok _ Hm (set_pres st1 true) Ho1 ltac:(discriminate)) as (E1 & _ & E2). split; [exact E1|apply E2; reflexivity].
        - destruct (lf_node_ok _ false Hm Hl st1 Ho1 ltac:(discriminate)) as (E1 & _ & E2). split; [exact E1|apply E2; reflexivity]. }
      destruct r as [c st2]. cbn [fst snd] in *. destruct Hr as [E1 E2].
      exists bs, b, c. repeat split; try assumption.
      + unfold mseen. rewrite E1. apply merge_id. exact Hc.
      + rewrite E1. reflexivity.
    - destruct (emit_markup st1 (comment_str s) Ho1 (markup_comment s)) as [_ Hp].
      destruct (emit st1 (comment_str s)) as [d st2]. cbn [fst snd] in *.
      exists bs, b, (KComment s). repeat split; assumption.
    - destruct (emit_markup st1 (pi_str t c) Ho1 (markup_pi t c)) as [_ Hp].
      destruct (emit st1 (pi_str t c)) as [d st2]. cbn [fst snd] in *.
      exists bs, b, (KPI t c). repeat split; assumption.
  Qed.

  (* the branches of serialize_node, named *)
  Definition foll_of (rp : rpath) (aft : option rpath) (x : node) : option rpath :=
    match x with Tag _ _ _ (_ :: _) => Some (O :: rp) | _ => aft end.
  Definition tail_e (L : nat) (la : bool) (foll : option rpath) (cs : list chunk) (st : wst) : list chunk * wst :=
    nl_if (la && negb (match foll with Some f => fits ind width req L st f | None => false end))%bool st cs.
  Definition bfit (L : nat) (x : node) (is_last la : bool) (foll : option rpath) (st : wst) : list chunk * wst :=
    let '(cs, st1) := appendable ind L st x in
    if (((available ind width L st1 =? 0)%Z || is_last) && la)%bool
    then let '(c, st2) := emit_raw st1 NL in (cs ++ c, st2)
    else tail_e L la foll cs st1.
  Definition bnofit (rec : nat -> wst -> rpath -> option rpath -> node -> chunk * wst)
             (L : nat) (rp : rpath) (aft : option rpath) (x : node) (lb la : bool) (foll : option rpath) (st : wst)
    : list chunk * wst :=
    let '(i, st1) := if (has_ind ind && (w_off st =? 0)%Z && lb)%bool then emit_raw st (indent ind L) else ([], st) in
    let st2 := match x with Tag _ _ attrs _ => if directive attrs false then set_pres st1 true else st1 | _ => st1 end in
    let '(cs, st3) := dispatch ind width req rec L st2 rp aft x in
    tail_e L la foll (i ++ cs) (set_pres st3 false).

  Lemma w_node_unfold rec L st rp prev next aft x :
    w_node ind width req rec L st rp prev next aft x =
    let lb := legit_before prev x in
    let la := legit_after x next in
    let is_last := match next with None => true | Some _ => false end in
    let foll := foll_of rp aft x in
    if fits ind width req L st rp then bfit L x is_last la foll st
    else if ((line_offset ind L st >? 0)%Z && lb)%bool then
      let '(c, st') := emit_raw st NL in
      let '(cs, st'') := if fits ind width req L st' rp then bfit L x is_last la foll st' else bnofit rec L rp aft x lb la foll st' in
      (c ++ cs, st'')
    else bnofit rec L rp aft x lb la foll st.
  Proof. reflexivity. Qed.

  Lemma tail_e_spec L la foll cs st x next : (0 < w_off st)%Z -> is_text x = false -> la = legit_after x next ->
    exists als a, fst (tail_e L la foll cs st) = cs ++ als /\ sees als a /\ winv (snd (tail_e L la foll cs st)) a (Some x) next.
  Proof.
    intros Ho Hx ->. unfold tail_e. apply nl_if_spec; [exact Ho|exact Hx|].
    intros H. apply andb_prop in H as [H _]. exact H.
  Qed.

  Section WithX.
    Variable x : node.
    Hypothesis x_nontext : is_text x = false.
    Hypothesis x_clean : clean x = true.
    Hypothesis x_lfok : lfok false x = true.
    Hypothesis x_refl : wvt x x.

    Lemma bfit_spec L is_last la foll st p prev next : winv st p prev (Some x) -> la = legit_after x next ->
      step_post (fst (bfit L x is_last la foll st)) (snd (bfit L x is_last la foll st)) p prev x next.
    Proof.
      intros Hi Hla. unfold bfit.
      destruct (appendable_spec L st x p prev Hi x_nontext x_clean x_lfok) as (bs & b & c & E & Hs & Hb & Hleg & Hm & Ht & Ho).
      destruct (appendable ind L st x) as [cs st1]. cbn [fst snd] in *. subst cs.
      assert (Hv : wvt x (mseen c)) by (rewrite Hm; exact x_refl).
      destruct (((available ind width L st1 =? 0)%Z || is_last) && la)%bool eqn:Ec.
      - destruct (nl_if_spec true st1 (bs ++ [c]) x next Ho x_nontext) as (als & a & E1 & Hsa & Hia).
        { intros _. apply andb_prop in Ec as [_ Ec]. rewrite <- Hla. exact Ec. }
        unfold nl_if in E1, Hia. destruct (emit_raw st1 NL) as [c0 st2]. cbn [fst snd] in *.
        exists bs, b, c, als, a. rewrite E1, <- app_assoc. split; [reflexivity|]. split; [exact Hs|]. split; [exact Hb|]. split; [exact Hleg|]. split; [exact Hsa|]. split; [exact Hia|]. split; [exact Hv|exact Ht].
      - destruct (tail_e_spec L la foll (bs ++ [c]) st1 x next Ho x_nontext Hla) as (als & a & E1 & Hsa & Hia).
        destruct (tail_e L la foll (bs ++ [c]) st1) as [cs2 st2]. cbn [fst snd] in *.
        exists bs, b, c, als, a. rewrite E1, <- app_assoc. split; [reflexivity|]. split; [exact Hs|]. split; [exact Hb|]. split; [exact Hleg|]. split; [exact Hsa|]. split; [exact Hia|]. split; [exact Hv|exact Ht].
    Qed.

    Variable rec : nat -> wst -> rpath -> option rpath -> node -> chunk * wst.
    Variables (L : nat) (rp : rpath) (aft : option rpath).
    (* what the serializer for elements written over several lines delivers (the induction hypothesis) *)
    Hypothesis rec_spec : forall st1, (0 <= w_off st1)%Z ->
      wvt x (mseen (fst (rec L st1 rp aft x))) /\ is_text (seen (fst (rec L st1 rp aft x))) = false /\
      (0 < w_off (snd (rec L st1 rp aft x)))%Z.

    Lemma dispatch_spec st p prev : winv st p prev (Some x) ->
      exists bs b c, fst (dispatch ind width req rec L st rp aft x) = bs ++ [c] /\ sees bs b /\ all_ws b /\
        (p ++ b <> [] -> legal prev (Some x) = true) /\ wvt x (mseen c) /\ is_text (seen c) = false /\
        (0 < w_off (snd (dispatch ind width req rec L st rp aft x)))%Z.
    Proof.
      intros Hi. pose proof Hi as (Ho & Hp & H1 & H2). unfold dispatch.
      destruct x as [ns name attrs kids|s|s|t c]; try discriminate.
      - destruct (fits ind width req L st rp).
        + destruct (appendable_spec L st _ p prev Hi x_nontext x_clean x_lfok) as (bs & b & c & E & Hs & Hb & Hleg & Hm & Ht & Ho').
          exists bs, b, c. rewrite Hm. repeat split; assumption.
        + destruct (rec_spec st Ho) as (Hv & Ht & Ho'). destruct (rec L st rp aft (Tag ns name attrs kids)) as [c st']. cbn [fst snd] in *.
          exists [], [], c. rewrite app_nil_r. split; [reflexivity|]. split; [apply sees_nil|]. split; [constructor|].
          split; [exact H2|]. split; [exact Hv|]. split; [exact Ht|exact Ho'].
      - destruct (emit_markup st (comment_str s) Ho (markup_comment s)) as [_ Hpos].
        destruct (emit st (comment_str s)) as [d st']. cbn [fst snd] in *.
        exists [], [], (KComment s). rewrite app_nil_r. split; [reflexivity|]. split; [apply sees_nil|]. split; [constructor|].
        split; [exact H2|]. split; [exact x_refl|]. split; [reflexivity|exact Hpos].
      - destruct (emit_markup st (pi_str t c) Ho (markup_pi t c)) as [_ Hpos].
        destruct (emit st (pi_str t c)) as [d st']. cbn [fst snd] in *.
        exists [], [], (KPI t c). rewrite app_nil_r. split; [reflexivity|]. split; [apply sees_nil|]. split; [constructor|].
        split; [exact H2|]. split; [exact x_refl|]. split; [reflexivity|exact Hpos].
    Qed.

    Lemma bnofit_spec lb la foll st p prev next : winv st p prev (Some x) ->
      lb = legit_before prev x -> la = legit_after x next ->
      step_post (fst (bnofit rec L rp aft x lb la foll st)) (snd (bnofit rec L rp aft x lb la foll st)) p prev x next.
    Proof.
      intros Hi Hlb Hla. unfold bnofit.
      assert (Hpre : exists i w st1, (if (has_ind ind && (w_off st =? 0)%Z && lb)%bool then emit_raw st (indent ind L) else ([], st)) = (i, st1)
                     /\ sees i w /\ all_ws w /\ winv st1 (p ++ w) prev (Some x)).
      { destruct (has_ind ind && (w_off st =? 0)%Z && lb)%bool eqn:E.
        - apply andb_prop in E as [_ E].
          destruct (emit_ws_step st p prev (Some x) (indent ind L) Hi (ws_indent_indent L)) as (w' & Ew & Hw & Hs & Hi' & _).
          { right. cbn [legal]. rewrite <- Hlb. exact E. }
          destruct (emit_raw st (indent ind L)) as [c0 st1]. cbn [fst snd] in *. subst c0.
          exists [KRaw w'], w', st1. repeat split; try assumption; try apply Hi'. apply all_ws_ws_indent. exact Hw.
        - exists [], [], st. rewrite app_nil_r. repeat split; try apply Hi. apply sees_nil. constructor. }
      destruct Hpre as (i & w & st1 & -> & Hsi & Hw & Hi1).
      set (st2 := match x with Tag _ _ attrs _ => if directive attrs false then set_pres st1 true else st1 | _ => st1 end).
      assert (Hi2 : winv st2 (p ++ w) prev (Some x)).
      { unfold st2. destruct x as [? ? attrs ?| | |]; try exact Hi1. destruct (directive attrs false); [apply winv_set_pres|]; exact Hi1. }
      destruct (dispatch_spec st2 (p ++ w) prev Hi2) as (bs & b & c & E & Hs & Hb & Hleg & Hv & Ht & Ho).
      destruct (dispatch ind width req rec L st2 rp aft x) as [cs st3]. cbn [fst snd] in *. subst cs.
      destruct (tail_e_spec L la foll (i ++ bs ++ [c]) (set_pres st3 false) x next Ho x_nontext Hla) as (als & a & E1 & Hsa & Hia).
      destruct (tail_e L la foll (i ++ bs ++ [c]) (set_pres st3 false)) as [cs2 st4]. cbn [fst snd] in *.
      exists (i ++ bs), (w ++ b), c, als, a. rewrite E1, <- !app_assoc.
      split; [reflexivity|]. split; [apply sees_app; assumption|]. split; [apply all_ws_app; assumption|].
      split; [rewrite app_assoc; exact Hleg|]. split; [exact Hsa|]. split; [exact Hia|]. split; [exact Hv|exact Ht].
    Qed.

    (* TextWrappingSerializer.serialize_node, all branches *)
    Theorem w_node_spec st p prev next : winv st p prev (Some x) ->
      step_post (fst (w_node ind width req rec L st rp prev next aft x))
                (snd (w_node ind width req rec L st rp prev next aft x)) p prev x next.
    Proof.
      intros Hi. rewrite w_node_unfold. cbv zeta.
      destruct (fits ind width req L st rp).
      - apply bfit_spec; [exact Hi|reflexivity].
      - destruct ((line_offset ind L st >? 0)%Z && legit_before prev x)%bool eqn:E.
        + apply andb_prop in E as [_ E].
          destruct (emit_ws_step st p prev (Some x) NL Hi ws_indent_NL (or_intror E)) as (w' & Ew & Hw & Hs & Hi' & _).
          destruct (emit_raw st NL) as [c0 st1]. cbn [fst snd] in *. subst c0.
          set (r := if fits ind width req L st1 rp
                    then bfit L x match next with Some _ => false | None => true end (legit_after x next) (foll_of rp aft x) st1
                    else bnofit rec L rp aft x (legit_before prev x) (legit_after x next) (foll_of rp aft x) st1).
          assert (Hr : step_post (fst r) (snd r) (p ++ w') prev x next).
          { unfold r. destruct (fits ind width req L st1 rp); [apply bfit_spec|apply bnofit_spec]; try exact Hi'; reflexivity. }
          destruct r as [cs st2]. cbn [fst snd] in *.
          destruct Hr as (bs & b & c & als & a & -> & Hsb & Hb & Hleg & Hsa & Hia & Hv & Ht).
          exists ([KRaw w'] ++ bs), (w' ++ b), c, als, a. rewrite <- !app_assoc.
          split; [reflexivity|]. split; [apply sees_app; assumption|].
          split; [apply all_ws_app; [apply all_ws_ws_indent; exact Hw|exact Hb]|].
          split; [rewrite app_assoc; exact Hleg|]. split; [exact Hsa|]. split; [exact Hia|]. split; [exact Hv|exact Ht].
        + apply bnofit_spec; [exact Hi|reflexivity|reflexivity].
    Qed.
  End WithX.
End Step.

(* ------------------------------------------------------------------------------------------ *)
(* a tree in normal form is a variant of itself *)

Definition Rnft (t : node) (_ : nft t) : Prop := wvt t t.
Definition Rnf (prev : sib) (l : list node) (_ : nf prev l) : Prop := wv prev l l.
Definition Rnfk (l : list node) (_ : nfk l) : Prop := wvk l l.

Theorem nft_wvt_refl : forall t (H : nft t), Rnft t H.
Proof.
  apply (nft_mut Rnft Rnf Rnfk); unfold Rnft, Rnf, Rnfk.
  - intros n Hc Hr _. apply wvt_verbatim; assumption.
  - intros ns name attrs ks Hd _ IH. apply wvt_tag; assumption.
  - intros prev. destruct prev; [constructor| |constructor]. exact (wv_nil_afterN [] (Forall_nil _)).
  - intros prev x r Hx _ IHx _ IHr. destruct prev.
    + exact (wv_N_start [] x x r r (Forall_nil _) Hx IHx IHr).
    + apply wv_N; [discriminate|assumption..].
    + apply wv_N; [discriminate|assumption..].
  - intros prev lead trail k r Hk Hp Hl Ht _ IHr.
    apply (wv_X prev lead trail k k (optsp lead) (optsp trail) r r);
      [exact Hk|apply inner_variant_refl; exact Hk|exact Hp|exact Hl|exact Ht|apply all_ws_optsp|apply all_ws_optsp
      |intros _; destruct lead; reflexivity|intros _; destruct trail; reflexivity|exact IHr].
  - intros r Hrn _ IHr. apply (wv_space [SP]); try assumption; [apply (all_ws_optsp true)|discriminate].
  - apply (wvk_only_space [SP]); [apply (all_ws_optsp true)|discriminate].
  - intros l _ IH. apply wvk_list. exact IH.
Qed.

(* ------------------------------------------------------------------------------------------ *)
(* _serialize_text on a text that is one space *)

Lemma lstrip_all_ws w : all_ws w -> lstrip w = [].
Proof. induction 1 as [|c r Hc _ IH]; [reflexivity|]. cbn [lstrip]. rewrite Hc. exact IH. Qed.
Lemma rstrip_all_ws w : all_ws w -> rstrip w = [].
Proof.
  intros H. unfold rstrip. rewrite lstrip_all_ws; [reflexivity|].
  unfold all_ws in *. rewrite Forall_forall in *. intros c Hc. apply H. apply in_rev. exact Hc.
Qed.

Section SpaceText.
  Variable ind : str.
  Variable width : Z.
  Variable req : rpath -> Z -> option Z.
  Hypothesis ind_ws : ws_indent ind = true.

  Lemma space_shape_aux (cw : str) : rstrip cw = [] -> ws_indent cw = true -> forall st (c1 gt c2 : bool),
    exists w, ws_indent w = true /\
      (if c1 then emit_raw st (rstrip cw ++ NL)
       else if gt then emit_raw st (if c2 then rstrip cw ++ NL else cw) else emit_raw st NL) = emit_raw st w /\
      (w = NL \/ w = cw).
  Proof.
    intros Er Hw st c1 gt c2. rewrite Er. destruct c1; [exists NL; auto|]. destruct gt; [|exists NL; auto].
    destruct c2; [exists NL; auto|exists cw; auto].
  Qed.

  Lemma w_text_space_shape L st rp prev next foll :
    exists w, ws_indent w = true /\ w_text ind width req L st rp prev [SP] next foll = emit_raw st w /\
              (w_off st <> 0%Z -> w <> []).
  Proof.
    unfold w_text. cbv zeta.
    assert (E : esc_text (collapse [SP]) = [SP]) by (vm_compute; reflexivity). rewrite !E.
    assert (El : lstrip [SP] = []) by (vm_compute; reflexivity). rewrite !El. rewrite !app_nil_r.
    replace (str_eqb [SP] [SP]) with true by reflexivity.
    destruct (w_off st =? 0)%Z eqn:E0.
    - destruct (space_shape_aux (indent ind L)
                  ltac:(apply rstrip_all_ws; apply all_ws_ws_indent; apply ws_indent_indent; exact ind_ws)
                  (ws_indent_indent ind ind_ws L) st
                  ((available ind width L st =? elen (rstrip [SP]))%Z && legit_after (Text [SP]) next)%bool
                  (available ind width L st >? elen [SP])%Z
                  (match next with Some _ => false | None => true end
                   || match next with
                      | Some y => match foll with
                                  | Some f => legit_before (Some (Text [SP])) y && req_is_none req f (available ind width L st - elen (indent ind L))
                                  | None => false end
                      | None => false end)%bool) as (w & Hw & Ew & _).
      exists w. split; [exact Hw|]. split; [exact Ew|]. apply Z.eqb_eq in E0. intros H. congruence.
    - destruct (space_shape_aux [SP] ltac:(vm_compute; reflexivity) eq_refl st
                  ((available ind width L st =? elen (rstrip [SP]))%Z && legit_after (Text [SP]) next)%bool
                  (available ind width L st >? elen [SP])%Z
                  (match next with Some _ => false | None => true end
                   || match next with
                      | Some y => match foll with
                                  | Some f => legit_before (Some (Text [SP])) y && req_is_none req f (available ind width L st - elen [SP])
                                  | None => false end
                      | None => false end)%bool) as (w & Hw & Ew & Hc).
      exists w. split; [exact Hw|]. split; [exact Ew|]. intros _. destruct Hc as [-> | ->]; discriminate.
  Qed.

  Lemma w_text_space L st rp prev next foll p : winv st p prev (Some (Text [SP])) ->
    match next with Some y => is_text y = false | None => True end ->
    exists w', sees (fst (w_text ind width req L st rp prev [SP] next foll)) w' /\ all_ws w' /\
      winv (snd (w_text ind width req L st rp prev [SP] next foll)) (p ++ w') (Some (Text [SP])) next /\ p ++ w' <> [].
  Proof.
    intros Hi Hn. destruct (w_text_space_shape L st rp prev next foll) as (w & Hw & -> & Hw0).
    destruct (emit_ws_step st p prev (Some (Text [SP])) w Hi Hw) as (w' & E & Hw' & Hs & Hi' & Hk).
    { right. cbn [legal]. destruct prev; cbn [legit_before starts_ws]; [exact is_ws_SP|reflexivity]. }
    destruct (emit_raw st w) as [c st']. cbn [fst snd] in *. subst c.
    exists w'. split; [exact Hs|]. split; [apply all_ws_ws_indent; exact Hw'|].
    destruct Hi' as (A1 & A2 & A3 & _). destruct Hi as (B1 & _ & B3 & _). split.
    - repeat split; try assumption. intros _. destruct next as [y|]; [|reflexivity]. cbn [legal].
      destruct y; try discriminate; cbn [legit_before]; vm_compute; reflexivity.
    - destruct (Z.eq_dec (w_off st) 0) as [E0|E0].
      + specialize (B3 E0). destruct p; [congruence|discriminate].
      + rewrite Hk by lia. specialize (Hw0 E0). destruct p; [exact Hw0|discriminate].
  Qed.
End SpaceText.

(* ------------------------------------------------------------------------------------------ *)
(* the offset never becomes negative *)

Lemma emit_raw_nonneg st d : (0 <= w_off st)%Z -> (0 <= w_off (snd (emit_raw st d)))%Z.
Proof. intros H. unfold emit_raw. pose proof (emit_nonneg st d H) as H1. destruct (emit st d). exact H1. Qed.

Section NonNeg.
  Variable ind : str.
  Variable width : Z.
  Variable req : rpath -> Z -> option Z.

  Lemma write_lines_nonneg L lines : forall st, (0 <= w_off st)%Z -> (0 <= w_off (snd (write_lines ind L st lines)))%Z.
  Proof.
    induction lines as [|l r IH]; intros st Ho; [exact Ho|]. destruct r as [|l2 r'].
    - cbn [write_lines]. destruct (null l); [exact Ho|apply emit_raw_nonneg; exact Ho].
    - rewrite (write_lines_cons ind L st l (l2 :: r')) by discriminate.
      assert (H1 : (0 <= w_off (snd (if null l then emit_raw st NL else emit_raw st (indent ind L ++ l ++ NL))))%Z)
        by (destruct (null l); apply emit_raw_nonneg; exact Ho).
      destruct (if null l then emit_raw st NL else emit_raw st (indent ind L ++ l ++ NL)) as [c st1]. cbn [snd] in H1.
      specialize (IH st1 H1). destruct (write_lines ind L st1 (l2 :: r')) as [cs st2]. exact IH.
  Qed.

  Lemma text_over_lines_nonneg L st rp content lb la is_last next_sib : (0 <= w_off st)%Z ->
    (0 <= w_off (snd (text_over_lines ind width req L st rp content lb la is_last next_sib)))%Z.
  Proof.
    intros Ho. unfold text_over_lines.
    assert (Hfin : forall pre st0 lines, (0 <= w_off st0)%Z ->
              (0 <= w_off (snd (let '(cs, st') := write_lines ind L st0 lines in (pre ++ cs, st'))))%Z).
    { intros pre st0 lines H0. pose proof (write_lines_nonneg L lines st0 H0) as H1. destruct (write_lines ind L st0 lines). exact H1. }
    destruct (w_off st =? 0)%Z; [apply Hfin; exact Ho|].
    match goal with |- context [if ?c then _ else _] => destruct c end; [apply Hfin; exact Ho|].
    pose proof (emit_raw_nonneg st) as H1.
    match goal with |- context [emit_raw st ?f] => specialize (H1 f Ho); destruct (emit_raw st f) as [c st1] end.
    cbn [snd] in H1. match goal with |- context [if null ?c then _ else _] => destruct (null c) end; [exact H1|apply Hfin; exact H1].
  Qed.

  Lemma w_text_nonneg L st rp prev s next foll : (0 <= w_off st)%Z ->
    (0 <= w_off (snd (w_text ind width req L st rp prev s next foll)))%Z.
  Proof.
    intros Ho. unfold w_text. cbv zeta.
    repeat match goal with |- context [if ?c then _ else _] =>
      match c with
      | context [if _ then _ else _] => fail 1
      | _ => destruct c
      end end; try (apply emit_raw_nonneg; exact Ho); apply text_over_lines_nonneg; exact Ho.
  Qed.
End NonNeg.

(* ------------------------------------------------------------------------------------------ *)
(* the class of trees the node-level theorem below covers: no mixed content - an element holds either one text, or
   only non-text nodes, possibly separated by single spaces (what reducing a conventionally laid out document
   gives); elements under xml:space="preserve" are unconstrained *)

Definition is_sp (x : node) : bool := match x with Text s => str_eqb s [SP] | _ => false end.
Definition nsp (x : node) : bool := (negb (is_text x) || is_sp x)%bool.
Fixpoint no_mixed (n : node) : bool :=
  match n with
  | Tag _ _ attrs kids =>
      (directive attrs false
       || ((match kids with [Text _] => true | _ => forallb nsp kids end) && forallb no_mixed kids))%bool
  | _ => true
  end.
Definition cl_ok (prev : sib) (l : list node) : Prop :=
  (prev = Start /\ exists s, l = [Text s]) \/ forallb nsp l = true.

Section Main.
  Variable ind : str.
  Variable align : bool.
  Variable width : Z.
  Variable req : rpath -> Z -> option Z.
  Hypothesis ind_ws : ws_indent ind = true.
  Hypothesis ind_nolf : no_lf ind = true.
  Hypothesis width_pos : (1 <= width)%Z.

  Notation wtag := (w_tag ind align width req).
  Notation wkids := (w_kids ind width req wtag).

  Definition closing_of (L : nat) (st : wst) : list chunk * wst :=
    if has_ind ind then emit_raw st (indent ind L) else ([], st).
  Definition kfn (L : nat) (rp : rpath) (aft : option rpath) (kids : list node) (st : wst) : list chunk * wst :=
    let '(c0, st) := emit_raw st NL in
    let '(cs, st) := wkids (S L) rp aft (length kids) st O None kids in
    let '(c1, st) := closing_of L st in
    (c0 ++ cs ++ c1, st).

  Lemma w_tag_unfold L st rp aft ns name attrs kids :
    wtag L st rp aft (Tag ns name attrs kids) =
    if directive attrs false then tplain st (Tag ns name attrs kids)
    else tag_with st ns name attrs (attr_pieces ind align L (attrs_data attrs)) (negb (null kids)) (kfn L rp aft kids).
  Proof. reflexivity. Qed.

  Lemma wk_nil L pp aftp nk st i prev : wkids L pp aftp nk st i prev [] = ([], st).
  Proof. reflexivity. Qed.
  Lemma wk_cons L pp aftp nk st i prev x r :
    wkids L pp aftp nk st i prev (x :: r) =
    let '(cs, st1) := match x with
                      | Text s => w_text ind width req L st (i :: pp) prev s (hd_error r)
                                         (match r with [] => aftp | _ => Some (S i :: pp) end)
                      | _ => w_node ind width req wtag L st (i :: pp) prev (hd_error r)
                                    (match r with [] => aftp | _ => Some (S i :: pp) end) x
                      end in
    let '(cs2, st2) := wkids L pp aftp nk st1 (S i) (Some x) r in (cs ++ cs2, st2).
  Proof. reflexivity. Qed.

  Lemma closing_sees L st : exists w, all_ws w /\ sees (fst (closing_of L st)) w.
  Proof.
    unfold closing_of. destruct (has_ind ind).
    - pose proof (emit_ws_indent st (indent ind L) (ws_indent_indent ind ind_ws L)) as Hw. unfold emit_raw.
      destruct (emit st (indent ind L)) as [d st']. cbn [fst snd] in *.
      exists d. split; [apply all_ws_ws_indent; exact Hw|].
      pose proof (sees_raw d) as Hs. rewrite (unesc_ws d Hw) in Hs. exact Hs.
    - exists []. split; [constructor|apply sees_nil].
  Qed.
  Lemma closing_nonneg L st : (0 <= w_off st)%Z -> (0 <= w_off (snd (closing_of L st)))%Z.
  Proof. intros Ho. unfold closing_of. destruct (has_ind ind); [apply emit_raw_nonneg|]; exact Ho. Qed.

  (* the only child of an element, a text with content, at the start of a line *)
  Lemma only_text_step L st rp aft k : core k -> w_off st = 0%Z ->
    exists k', sees (fst (w_text ind width req L st rp None k None aft)) (indent ind L ++ k' ++ NL) /\ inner_variant k k'.
  Proof.
    intros Hk Ho.
    destruct (text_only_lines ind width req ind_nolf width_pos L st rp aft k Hk Ho) as (ls & E & Hne & HF & Hj & Ec).
    rewrite Ec. destruct (lines_unesc ls k Hne Hj) as (ls' & El & Ej' & Hne').
    assert (HF' : Forall edge_clean ls').
    { pose proof Hk as (Hh & Hl & Hc). apply lines_edge_clean; [exact Hne'| | |]; rewrite Ej'; [|exact Hh|exact Hl].
      apply collapse_fix_naw. exact Hc. }
    exists (py_join (NL ++ indent ind L) ls'). split.
    - rewrite <- (concat_lines (indent ind L) ls' Hne'). rewrite El. clear - ind_ws.
      induction ls' as [|l' r IH]; [apply sees_nil|]. cbn [map concat].
      change (KRaw (text_line ind L (esc_text l')) :: map (fun l => KRaw (text_line ind L l)) (map esc_text r))
        with ([KRaw (text_line ind L (esc_text l'))] ++ map (fun l => KRaw (text_line ind L l)) (map esc_text r)).
      apply sees_app; [|exact IH].
      pose proof (sees_raw (text_line ind L (esc_text l'))) as Hs. unfold text_line in Hs.
      rewrite unesc_ws_prefix in Hs by (apply ws_indent_indent; exact ind_ws). rewrite unesc_esc_app in Hs. exact Hs.
    - apply (lines_inner_variant k (NL ++ indent ind L) ls' Hk Ej' HF' Hne'); [|discriminate].
      apply all_ws_app; [apply all_ws_NL|apply all_ws_indent; exact ind_ws].
  Qed.

  (* ---------------------------------------------------------------------------------------- *)
  (* the node-level induction *)

  Definition OUTw (out : list chunk * wst) (cf : wst -> list chunk) : list node :=
    Nv (map seen (fst out ++ cf (snd out))).
  Definition cf_ok (cf : wst -> list chunk) : Prop := forall s, exists w, all_ws w /\ sees (cf s) w.

  Lemma OUT_node bs b c als a rest : sees bs b -> sees als a -> is_text (seen c) = false ->
    Nv (map seen (bs ++ [c] ++ als ++ rest)) = ctext b (mseen c :: ctext a (Nv (map seen rest))).
  Proof.
    intros Hb Ha Hc. rewrite map_app, Hb. cbn [app map]. rewrite (Nv_cons_nontext _ _ Hc). rewrite map_app, Ha. reflexivity.
  Qed.

  Lemma OUT_cf cf st : cf_ok cf -> exists w, all_ws w /\ Nv (map seen (cf st)) = txt w.
  Proof.
    intros H. destruct (H st) as (w & Hw & Hs). exists w. split; [exact Hw|].
    rewrite <- (app_nil_r (map seen (cf st))), Hs. cbn [Nv ctext]. apply app_nil_r.
  Qed.

  Definition Wnft (t : node) (_ : nft t) : Prop :=
    no_mixed t = true -> forall L st rp aft, (0 <= w_off st)%Z ->
      wvt t (mseen (fst (wtag L st rp aft t))) /\ is_text (seen (fst (wtag L st rp aft t))) = false /\
      (0 < w_off (snd (wtag L st rp aft t)))%Z.

  Definition Wnf (prev : sib) (l : list node) (_ : nf prev l) : Prop :=
    cl_ok prev l -> forallb no_mixed l = true ->
    forall L pp aftp nk st i pn p cf, cf_ok cf -> winv st p pn (hd_error l) ->
      (0 <= w_off (snd (wkids L pp aftp nk st i pn l)))%Z /\
      match prev with
      | Start => pn = None -> w_off st = 0%Z -> l <> [] -> wv Start l (ctext p (OUTw (wkids L pp aftp nk st i pn l) cf))
      | AfterN => forall x, pn = Some x -> is_text x = false -> wv AfterN l (ctext p (OUTw (wkids L pp aftp nk st i pn l) cf))
      | AfterX => forall s, pn = Some (Text s) ->
                  exists q r', OUTw (wkids L pp aftp nk st i pn l) cf = txt q ++ r' /\ all_ws q /\ starts_nontext r' /\
                               wv AfterX l r' /\ (l <> [] -> q <> [] -> ends_ws s = true)
      end.

  Definition Wnfk (l : list node) (_ : nfk l) : Prop :=
    l <> [] -> (match l with [Text _] => True | _ => forallb nsp l = true end) -> forallb no_mixed l = true ->
    forall L rp aft st, (0 < w_off st)%Z ->
      wvk l (Nv (map seen (fst (kfn L rp aft l st)))) /\ (0 <= w_off (snd (kfn L rp aft l st)))%Z.

  Lemma nf_afterX_hd r : nf AfterX r -> match hd_error r with Some y => is_text y = false | None => True end.
  Proof. intros H. inversion H; subst; cbn; try exact I; try assumption; congruence. Qed.

  Lemma cl_ok_tail_N prev x r : cl_ok prev (x :: r) -> is_text x = false -> cl_ok AfterN r.
  Proof.
    intros [[_ (s & E)]|H] Hx; [injection E as -> _; discriminate|]. right. cbn [forallb] in H. apply andb_prop in H as [_ H]. exact H.
  Qed.

  Theorem wrap_variant_mut : forall t (H : nft t), Wnft t H.
  Proof.
    apply (nft_mut Wnft Wnf Wnfk); unfold Wnft, Wnf, Wnfk.
    - (* verbatim *)
      intros n Hc Hr Hk _ L st rp aft Ho.
      assert (E : wtag L st rp aft n = tplain st n).
      { destruct n as [ns name attrs kids| | |]; try reflexivity. rewrite w_tag_unfold, Hk. reflexivity. }
      rewrite E.
      assert (Hm : merged n = true) by (unfold clean in Hc; apply andb_prop in Hc as [H _]; exact H).
      assert (Hx : is_text n = false) by (destruct n; try reflexivity; destruct Hk).
      destruct (tplain_ok n Hm st Ho ltac:(congruence)) as (E1 & _ & E2).
      unfold mseen. rewrite E1. rewrite (merge_id n Hc). split; [apply wvt_verbatim; assumption|]. split; [exact Hx|exact (E2 Hx)].
    - (* element *)
      intros ns name attrs ks Hd Hk IH Hnm L st rp aft Ho. rewrite w_tag_unfold, Hd.
      cbn [no_mixed] in Hnm. rewrite Hd in Hnm. cbn [orb] in Hnm. apply andb_prop in Hnm as [Hcls Hnmk].
      destruct (tag_with_spec st ns name attrs (attr_pieces ind align L (attrs_data attrs)) (negb (null ks)) (kfn L rp aft ks) Ho)
        as (st3 & H3 & Hf & Ht').
      destruct ks as [|k0 kr].
      + destruct (Hf eq_refl) as [E1 E2]. unfold mseen. rewrite E1. split; [|split; [reflexivity|exact E2]].
        apply wvt_tag; [exact Hd|]. apply wvk_list. constructor.
      + destruct (Ht' eq_refl) as [E1 E2].
        destruct (IH ltac:(discriminate)) with (L := L) (rp := rp) (aft := aft) (st := st3) as [Hv Hn]; [|exact Hnmk|exact H3|].
        { destruct k0; try exact Hcls. destruct kr; [exact I|exact Hcls]. }
        unfold mseen. rewrite E1. split; [|split; [reflexivity|exact (E2 Hn)]].
        change (merge_tree (Tag ns name attrs (map seen (fst (kfn L rp aft (k0 :: kr) st3)))))
          with (Tag ns name attrs (Nv (map seen (fst (kfn L rp aft (k0 :: kr) st3))))).
        apply wvt_tag; [exact Hd|exact Hv].
    - (* nil *)
      intros prev _ _ L pp aftp nk st i pn p cf Hcf Hi. rewrite wk_nil. cbn [fst snd]. split; [apply Hi|].
      unfold OUTw. cbn [fst snd app]. destruct (OUT_cf cf st Hcf) as (w & Hw & Ew). rewrite Ew.
      destruct prev.
      + intros _ _ H. congruence.
      + intros x _ _. rewrite <- (app_nil_r (txt w)). rewrite ctext_txt by exact I. rewrite app_nil_r.
        apply wv_nil_afterN. apply all_ws_app; [apply Hi|exact Hw].
      + intros s _. exists w, []. rewrite app_nil_r. split; [reflexivity|]. split; [exact Hw|]. split; [exact I|]. split; [constructor|congruence].
    - (* a non-text child *)
      intros prev x r Hx Hnx IHx Hnr IHr Hcl Hnm L pp aftp nk st i pn p cf Hcf Hi.
      cbn [forallb] in Hnm. apply andb_prop in Hnm as [Hnmx Hnmr].
      destruct (nft_clean_lfok x Hnx) as [Hcx Hlx]. pose proof (nft_wvt_refl x Hnx) as Hrx.
      rewrite wk_cons.
      set (aft' := match r with [] => aftp | _ => Some (S i :: pp) end).
      replace (match x with
               | Text s => w_text ind width req L st (i :: pp) pn s (hd_error r) aft'
               | _ => w_node ind width req wtag L st (i :: pp) pn (hd_error r) aft' x
               end) with (w_node ind width req wtag L st (i :: pp) pn (hd_error r) aft' x)
        by (destruct x; try reflexivity; discriminate).
      destruct (w_node_spec ind width req ind_ws x Hx Hcx Hlx Hrx wtag L (i :: pp) aft'
                  (fun st1 H1 => IHx Hnmx L st1 (i :: pp) aft' H1) st p pn (hd_error r) Hi)
        as (bs & b & c & als & a & Ecs & Hsb & Hb & Hleg & Hsa & Hia & Hv & Htc).
      destruct (w_node ind width req wtag L st (i :: pp) pn (hd_error r) aft' x) as [cs st1]. cbn [fst snd] in *. subst cs.
      specialize (IHr (cl_ok_tail_N _ _ _ Hcl Hx) Hnmr L pp aftp nk st1 (S i) (Some x) a cf Hcf Hia).
      destruct (wkids L pp aftp nk st1 (S i) (Some x) r) as [cs2 st2]. cbn [fst snd] in *.
      destruct IHr as [Hn2 IHr]. split; [exact Hn2|].
      assert (Eo : OUTw ((bs ++ [c] ++ als) ++ cs2, st2) cf
                   = ctext b (mseen c :: ctext a (OUTw (cs2, st2) cf))).
      { unfold OUTw. cbn [fst snd]. rewrite <- !app_assoc. apply OUT_node; assumption. }
      rewrite Eo. specialize (IHr x eq_refl Hx).
      assert (Hmc : is_text (mseen c) = false) by (unfold mseen; rewrite merge_is_text; exact Htc).
      rewrite (ctext_nontext b) by (cbn [starts_nontext]; exact Hmc).
      destruct prev.
      + intros _ _ _. rewrite ctext_txt by (cbn [starts_nontext]; exact Hmc).
        apply wv_N_start; [apply all_ws_app; [apply Hi|exact Hb]|exact Hx|exact Hv|exact IHr].
      + intros x0 Epn Hx0. subst pn.
        assert (Epb : p ++ b = []).
        { destruct (p ++ b) eqn:E; [reflexivity|]. exfalso.
          assert (Hl : legal (Some x0) (Some x) = true) by (apply Hleg; discriminate).
          cbn [legal legit_before] in Hl. destruct x; try discriminate; destruct x0; discriminate. }
        apply app_eq_nil in Epb as [-> ->]. cbn [txt null app]. rewrite ctext_nil.
        apply wv_N; [discriminate|exact Hx|exact Hv|exact IHr].
      + intros s Epn. subst pn. eexists. eexists. split; [reflexivity|]. split; [exact Hb|]. split; [cbn [starts_nontext]; exact Hmc|].
        split; [apply wv_N; [discriminate|exact Hx|exact Hv|exact IHr]|].
        intros _ Hq. assert (Hl : legal (Some (Text s)) (Some x) = true) by (apply Hleg; destruct p; [exact Hq|discriminate]).
        cbn [legal legit_before] in Hl. destruct x; try discriminate; exact Hl.
    - (* a text with content: in this class the only child of its parent *)
      intros prev lead trail k r Hk Hp Hl Ht Hnr IHr Hcl Hnm L pp aftp nk st i pn p cf Hcf Hi.
      destruct Hcl as [[-> (s0 & Es)]|Hcl].
      2:{ exfalso. cbn [forallb nsp is_text is_sp negb orb] in Hcl. apply andb_prop in Hcl as [Hcl _].
          rewrite (core_not_sp lead k trail Hk) in Hcl. discriminate. }
      injection Es as _ ->. specialize (Hl eq_refl). specialize (Ht eq_refl). subst lead trail.
      cbn [optsp app]. rewrite app_nil_r. rewrite wk_cons. cbn [hd_error].
      pose proof (w_text_nonneg ind width req L st (i :: pp) pn k None aftp (proj1 Hi)) as Hnn.
      destruct (w_text ind width req L st (i :: pp) pn k None aftp) as [cs st1] eqn:Ew. rewrite wk_nil. cbn [fst snd] in *.
      split; [exact Hnn|].
      intros Epn Ho _. subst pn.
      destruct (only_text_step L st (i :: pp) aftp k Hk Ho) as (k' & Hs & Hv). rewrite Ew in Hs. cbn [fst] in Hs.
      unfold OUTw. cbn [fst snd]. rewrite app_nil_r. rewrite map_app, Hs.
      destruct (OUT_cf cf st1 Hcf) as (w & Hw & Ecf). rewrite Ecf.
      rewrite <- (app_nil_r (txt w)). rewrite ctext_txt by exact I. rewrite app_nil_r.
      rewrite txt_nonnull by (apply null_mid; exact (proj1 Hv)).
      cbn [ctext]. rewrite <- !app_assoc. rewrite (app_assoc p).
      change k with ([] ++ k) at 1. rewrite <- (app_nil_r k) at 1. change (@nil char) with (optsp false) at 1 2.
      apply (wv_X Start false false k k' (p ++ indent ind L) (NL ++ w) [] []);
        [exact Hk|exact Hv|discriminate|reflexivity|reflexivity| | |congruence|congruence|constructor].
      + apply all_ws_app; [apply Hi|apply all_ws_indent; exact ind_ws].
      + apply all_ws_app; [apply all_ws_NL|exact Hw].
    - (* a single space between two non-text siblings *)
      intros r Hrn Hnr IHr Hcl Hnm L pp aftp nk st i pn p cf Hcf Hi.
      destruct Hcl as [[E _]|Hcl]; [discriminate|]. cbn [forallb] in Hcl, Hnm.
      apply andb_prop in Hcl as [_ Hclr]. apply andb_prop in Hnm as [_ Hnmr].
      rewrite wk_cons.
      set (aft' := match r with [] => aftp | _ => Some (S i :: pp) end).
      destruct (w_text_space ind width req ind_ws L st (i :: pp) pn (hd_error r) aft' p Hi (nf_afterX_hd r Hnr))
        as (w' & Hs & Hw' & Hi' & Hne).
      destruct (w_text ind width req L st (i :: pp) pn [SP] (hd_error r) aft') as [cs st1]. cbn [fst snd] in *.
      specialize (IHr (or_intror Hclr) Hnmr L pp aftp nk st1 (S i) (Some (Text [SP])) (p ++ w') cf Hcf Hi').
      destruct (wkids L pp aftp nk st1 (S i) (Some (Text [SP])) r) as [cs2 st2]. cbn [fst snd] in *.
      destruct IHr as [Hn2 IHr]. split; [exact Hn2|]. intros x -> Hx.
      destruct (IHr [SP] eq_refl) as (q & r' & Eo & Hq & Hst & Hwv & _).
      unfold OUTw in *. cbn [fst snd] in *. rewrite <- app_assoc, map_app, Hs. rewrite Eo.
      rewrite ctext_app. rewrite ctext_txt by exact Hst.
      rewrite txt_nonnull by (destruct (p ++ w'); [congruence|reflexivity]).
      apply wv_space; [|destruct (p ++ w'); [congruence|discriminate]|exact Hrn|exact Hwv].
      apply all_ws_app; [apply all_ws_app; [apply Hi|exact Hw']|exact Hq].
    - (* an element holding one space *)
      intros _ _ _ L rp aft st Ho. unfold kfn.
      destruct (emit_ws_step st [] None (Some (Text [SP])) NL (winv_pos st _ _ Ho) ws_indent_NL (or_intror eq_refl))
        as (w0 & E0 & Hw0 & Hs0 & Hi0 & Hk0).
      destruct (emit_raw st NL) as [c0 st1]. cbn [fst snd] in *. subst c0. cbn [length].
      rewrite wk_cons. cbn [hd_error].
      destruct (w_text_space ind width req ind_ws (S L) st1 (0%nat :: rp) None None aft ([] ++ w0) Hi0 I) as (w' & Hs & Hw' & Hi' & Hne).
      destruct (w_text ind width req (S L) st1 (0%nat :: rp) None [SP] None aft) as [cs st2]. rewrite wk_nil. cbn [fst snd] in *.
      destruct (closing_sees L st2) as (wc & Hwc & Hsc). pose proof (closing_nonneg L st2 (proj1 Hi')) as Hnc.
      destruct (closing_of L st2) as [c1 st3]. cbn [fst snd] in *. split; [|exact Hnc].
      assert (Hall : sees ([KRaw w0] ++ (cs ++ []) ++ c1) (w0 ++ (w' ++ []) ++ wc))
        by (apply sees_app; [exact Hs0|apply sees_app; [apply sees_app; [exact Hs|apply sees_nil]|exact Hsc]]).
      specialize (Hall []). rewrite app_nil_r in Hall. rewrite Hall. rewrite Nv_nil. cbn [ctext]. rewrite !app_nil_r.
      rewrite Hk0 by exact Ho. rewrite txt_nonnull by reflexivity.
      apply wvk_only_space; [|discriminate].
      apply (all_ws_app NL); [apply all_ws_NL|apply all_ws_app; assumption].
    - (* an ordinary child list *)
      intros l Hl IH Hne Hcls Hnm L rp aft st Ho. unfold kfn.
      destruct (emit_ws_step st [] None (hd_error l) NL (winv_pos st _ _ Ho) ws_indent_NL (or_intror (legal_none _)))
        as (w0 & E0 & Hw0 & Hs0 & Hi0 & Hk0).
      assert (Hoff : w_off (snd (emit_raw st NL)) = 0%Z).
      { unfold emit_raw. pose proof (emit_NL_off st) as H. destruct (emit st NL). exact H. }
      destruct (emit_raw st NL) as [c0 st1]. cbn [fst snd] in *. subst c0.
      assert (Hcl : cl_ok Start l).
      { destruct l as [|x [|y r]]; [congruence| |destruct x; right; exact Hcls].
        destruct x; try (right; exact Hcls). left. split; [reflexivity|eexists; reflexivity]. }
      specialize (IH Hcl Hnm (S L) rp aft (length l) st1 O None ([] ++ w0) (fun s => fst (closing_of L s))
                     (fun s => closing_sees L s) Hi0).
      destruct (wkids (S L) rp aft (length l) st1 0 None l) as [cs st2]. cbn [fst snd] in *.
      destruct IH as [Hn2 IH]. specialize (IH eq_refl Hoff Hne).
      pose proof (closing_nonneg L st2 Hn2) as Hnc.
      unfold OUTw in IH. cbn [fst snd] in IH.
      destruct (closing_of L st2) as [c1 st3]. cbn [fst snd] in *. split; [|exact Hnc].
      apply wvk_list. cbn [app] in IH.
      change ([KRaw w0] ++ cs ++ c1) with ([KRaw w0] ++ (cs ++ c1)). rewrite map_app, (Hs0 (map seen (cs ++ c1))).
      exact IH.
  Qed.

  Theorem wrap_is_variant_no_mixed t L st rp aft : nft t -> no_mixed t = true -> (0 <= w_off st)%Z ->
    ws_variant t (merge_tree (seen (fst (wtag L st rp aft t)))).
  Proof. intros Hn Hm Ho. exact (proj1 (wrap_variant_mut t Hn Hm L st rp aft Ho)). Qed.

  (* parts A and B together, for the wrapping serializer, on trees without mixed content, for every oracle *)
  Theorem wrap_transparent_no_mixed t L st rp aft : reduced t -> is_text t = false -> no_mixed t = true ->
    (0 <= w_off st)%Z -> reduce_model (seen (fst (wtag L st rp aft t))) = t.
  Proof.
    intros Hr Ht Hm Ho. apply variant_erased_raw. apply wrap_is_variant_no_mixed; [apply reduced_nft; assumption|exact Hm|exact Ho].
  Qed.

  (* serialization from the root: NodeBase.serialize(format_options=FormatOptions(align, ind, width)) *)
  Corollary wrap_root_transparent_no_mixed t sr aft : reduced t -> is_text t = false -> no_mixed t = true ->
    reduce_model (seen (wrap_chunk ind align width req sr aft t)) = t.
  Proof. intros Hr Ht Hm. unfold wrap_chunk. apply wrap_transparent_no_mixed; try assumption. cbn. lia. Qed.
End Main.
