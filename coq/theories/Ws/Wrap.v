(* Model of TextWrappingSerializer (FormatOptions with width > 0), together with the serializers it
   delegates to (_LineFittingSerializer, the plain Serializer for xml:space="preserve") and the
   _LengthTrackingWriter all of them write through.  Definitions only.

   - Every write goes through the *generated* `writer_call` (Gen/GenPretty.v): what is written and the
     new `offset` are its results.  Lines are broken by the *generated* `wrap_text` (Gen/GenWrap.v).
   - All fitting decisions of the code are results of `_required_space(node, up_to)`.  The model takes
     that function as a Section variable `req` (node given by its path, innermost index first); the
     theorems can therefore quantify over every oracle.  `rreq` below is the faithful executable
     instance (the real heuristics, with the look-ahead through `fetch_following`), and `wrap_real`
     the model instantiated with it; that is what the check compares with the implementation.
   - The document the serialized element lives in is an input (T, with `sr` the path of the
     serialization root): `fetch_following` leaves the sub-tree, so the output of a sub-tree
     serialization with a line width depends on what follows the sub-tree in its document.
   - Output: the chunk tree of Ws/Pretty.v; character data is a KRaw chunk (the escaped text as
     written; lengths, slicing and line breaking work on the escaped text as in the code).
   Domain as for Ws/Pretty.v: no empty and no adjacent text nodes, no namespaces but xml: attributes (namespaced
   trees go through their qualified view, Ws/Qualified.v).  Follows the code as of e1f59b7 (_line_offset). *)
From Delb.Base Require Import PyStr PyStrW.
From Delb.Gen Require Import GenNames GenPretty GenWrap.
From Delb.Tree Require Import ATree.
From Delb.Ws Require Import Reduce Pretty.

Open Scope Z_scope.

Definition rpath := list nat.                 (* path from the document root, innermost index first *)

(* ---- navigation in the document ------------------------------------------------------------ *)
Fixpoint get_fwd (n : node) (p : list nat) : option node :=
  match p with
  | [] => Some n
  | i :: r => match n with Tag _ _ _ kids => match nth_error kids i with Some k => get_fwd k r | None => None end
                      | _ => None end
  end.
Definition get (T : node) (rp : rpath) : option node := get_fwd T (rev rp).
Definition kids_of (n : node) : list node := match n with Tag _ _ _ kids => kids | _ => [] end.
(* the node after the sub-tree at rp in document order: next sibling, else that of the closest ancestor having one *)
Fixpoint after_path (T : node) (rp : rpath) : option rpath :=
  match rp with
  | [] => None
  | i :: pp => match get T pp with
               | Some par => if Nat.ltb (S i) (length (kids_of par)) then Some (S i :: pp) else after_path T pp
               | None => None
               end
  end.
(* NodeBase.fetch_following: first child, else after_path *)
Definition following_path (T : node) (rp : rpath) : option rpath :=
  match get T rp with
  | Some (Tag _ _ _ (_ :: _)) => Some (O :: rp)
  | _ => after_path T rp
  end.
Definition prev_sibling (T : node) (rp : rpath) : option node :=
  match rp with
  | S i :: pp => match get T pp with Some par => nth_error (kids_of par) i | None => None end
  | _ => None
  end.
Definition next_sibling (T : node) (rp : rpath) : option node :=
  match rp with
  | i :: pp => match get T pp with Some par => nth_error (kids_of par) (S i) | None => None end
  | [] => None
  end.
Fixpoint rpath_eqb (a b : rpath) : bool :=
  match a, b with
  | [], [] => true
  | x :: a', y :: b' => (Nat.eqb x y && rpath_eqb a' b')%bool
  | _, _ => false
  end.

Fixpoint size (n : node) : nat :=
  match n with Tag _ _ _ kids => S (fold_right (fun k a => (size k + a)%nat) O kids) | _ => 1%nat end.

Definition elen (s : str) : Z := py_len s.
Definition node_len (n : node) : Z := elen (node_str n).      (* len(str(node)) for comments and PIs *)
Definition first_space_len (s : str) : Z :=
  let i := py_find1 s 32%N 0 in if i =? -1 then elen s else i.

(* ---- _required_space with the real heuristics ---------------------------------------------- *)
Section Required.
  Variable T : node.           (* the document *)
  Variable sr : rpath.         (* the serialization root *)

  (* _whitespace_is_legit_before/after_node for the node at rp *)
  Definition legit_before_at (rp : rpath) (x : node) : bool :=
    if rpath_eqb rp sr then false else match rp with [] => false | _ => legit_before (prev_sibling T rp) x end.
  Definition legit_after_at (rp : rpath) (x : node) : bool :=
    if rpath_eqb rp sr then false else match rp with [] => false | _ => legit_after x (next_sibling T rp) end.

  Definition req_text (rp : rpath) (s : str) (up_to : Z) : option Z :=
    let c := esc_text (collapse s) in
    let c := if (py_startswith c [SP] && legit_before_at rp (Text s))%bool then lstrip c else c in
    let c := if (py_endswith c [SP] && legit_after_at rp (Text s))%bool then rstrip c else c in
    if elen c <=? up_to then Some (elen c) else None.

  Fixpoint req_attrs (attrs : list attr) (acc up_to : Z) : option Z :=
    match attrs with
    | [] => Some acc
    | (ns, k, v) :: r =>
        let acc := acc + 4 + elen k + elen (pfx ns) + elen (esc_attr v) in
        if acc >? up_to then None else req_attrs r acc up_to
    end.

  (* None = out of fuel; the depth of the recursion is bounded by the number of nodes of T because every
     recursive call is on a node later in document order *)
  Fixpoint rreq (fuel : nat) (rp : rpath) (up_to : Z) : option (option Z) :=
    match fuel with
    | O => None
    | S fuel' =>
        match get T rp with
        | None => Some None
        | Some (Text s) => Some (req_text rp s up_to)
        | Some (Comment _ as n) | Some (PI _ _ as n) => Some (if node_len n <=? up_to then Some (node_len n) else None)
        | Some (Tag ns name attrs kids as n) =>
            let nl := elen name + elen (pfx ns) in
            let used := if null kids then 3 + nl else 5 + 2 * nl in
            if used >? up_to then Some None else
            match req_attrs attrs 0 (up_to - used) with
            | None => Some None
            | Some a =>
                let used := used + a in
                let kids_loop :=
                  (fix go (i : nat) (l : list node) (used : Z) : option (option Z) :=
                     match l with
                     | [] => Some (Some used)
                     | _ :: r => match rreq fuel' (i :: rp) (up_to - used) with
                                 | None => None
                                 | Some None => Some None
                                 | Some (Some c) => go (S i) r (used + c)
                                 end
                     end) O kids used in
                match kids_loop with
                | None => None
                | Some None => Some None
                | Some (Some used) =>
                    (* _required_space_for_following *)
                    if legit_after_at rp n then Some (Some used) else
                    match following_path T rp with
                    | None => Some (Some used)
                    | Some f =>
                        match get T f with
                        | Some (Text s) =>
                            let l := first_space_len (esc_text s) in
                            Some (if l <=? up_to - used then Some (used + l) else None)
                        | _ => match rreq fuel' f (up_to - used) with
                               | None => None
                               | Some None => Some None
                               | Some (Some c) => Some (Some (used + c))
                               end
                        end
                    end
                end
            end
        end
    end.
  Definition real_req (rp : rpath) (up_to : Z) : option Z :=
    match rreq (S (size T)) rp up_to with Some r => r | None => None end.
  Definition real_req_in_fuel (rp : rpath) (up_to : Z) : bool :=
    match rreq (S (size T)) rp up_to with Some _ => true | None => false end.
End Required.

(* ---- the writer ---------------------------------------------------------------------------- *)
Record wst := { w_off : Z; w_pres : bool }.
Definition set_pres (st : wst) (b : bool) : wst := {| w_off := w_off st; w_pres := b |}.
(* one call of _LengthTrackingWriter: what is written, the state after *)
Definition emit (st : wst) (data : str) : str * wst :=
  let '(d, o) := writer_call (w_pres st) (w_off st) data in (d, {| w_off := o; w_pres := w_pres st |}).
Definition emit_raw (st : wst) (data : str) : list chunk * wst :=
  let '(d, st') := emit st data in ([KRaw d], st').

Fixpoint emit_attrs (st : wst) (pieces : list str) : str * wst :=
  match pieces with
  | [] => ([], st)
  | p :: r => let '(d, st1) := emit st p in let '(ds, st2) := emit_attrs st1 r in (d ++ ds, st2)
  end.
Definition plain_attr_pieces (ad : list (str * str)) : list str :=
  map (fun kv : str * str => [SP] ++ fst kv ++ [61%N] ++ snd kv) ad.

(* Serializer._serialize_tag given the serializer for the children; attrs_pieces = the writer calls of _serialize_attributes *)
Definition tag_with (st : wst) (ns name : str) (attrs : list attr) (attr_pieces : list str) (has_kids : bool)
           (kids_fn : wst -> list chunk * wst) : chunk * wst :=
  let nm := pfx ns ++ name in
  let '(o1, st) := emit st ([60%N] ++ nm) in
  let '(o2, st) := emit_attrs st attr_pieces in
  if has_kids then
    let '(o3, st) := emit st [62%N] in
    let '(ks, st) := kids_fn st in
    let '(c, st) := emit st ([60; 47]%N ++ nm ++ [62%N]) in
    (KElem ns name attrs (o1 ++ o2 ++ o3) c ks, st)
  else
    let '(o3, st) := emit st [47; 62]%N in
    (KElem ns name attrs (o1 ++ o2 ++ o3) [] [], st).

Definition fold_kids (f : wst -> node -> chunk * wst) :=
  fix go (st : wst) (l : list node) : list chunk * wst :=
    match l with
    | [] => ([], st)
    | x :: r => let '(c, st1) := f st x in let '(cs, st2) := go st1 r in (c :: cs, st2)
    end.

(* the plain Serializer writing through the tracking writer *)
Fixpoint tplain (st : wst) (n : node) : chunk * wst :=
  match n with
  | Tag ns name attrs kids =>
      tag_with st ns name attrs (plain_attr_pieces (attrs_data attrs)) (negb (null kids))
               (fun st => fold_kids tplain st kids)
  | Text s => let '(d, st') := emit st (esc_text s) in (KRaw d, st')
  | Comment s => let '(d, st') := emit st (comment_str s) in (KComment s, st')
  | PI t c => let '(d, st') := emit st (pi_str t c) in (KPI t c, st')
  end.

(* _LineFittingSerializer.serialize_node; space = true means "preserve" *)
Fixpoint lf_node (space : bool) (st : wst) (n : node) : chunk * wst :=
  match n with
  | Tag ns name attrs kids =>
      let sp := directive attrs space in
      let changed := negb (Bool.eqb sp space) in
      let st := if changed then set_pres st (negb sp) else st in          (* preserve_space = (space == "default") *)
      let '(c, st) := tag_with st ns name attrs (plain_attr_pieces (attrs_data attrs)) (negb (null kids))
                               (fun st => fold_kids (lf_node sp) st kids) in
      (c, if changed then set_pres st (negb space) else st)
  | Text s => let '(d, st') := emit st (if space then esc_text s else esc_text (collapse s)) in (KRaw d, st')
  | Comment s => let '(d, st') := emit st (comment_str s) in (KComment s, st')
  | PI t c => let '(d, st') := emit st (pi_str t c) in (KPI t c, st')
  end.

(* s.rpartition("\n")[2]: what follows the last newline (all of s if there is none) *)
Definition tail_line (s : str) : str :=
  match rfind_nat LF s with Some i => skipn (S i) s | None => s end.

(* ---- TextWrappingSerializer ---------------------------------------------------------------- *)
Definition py_join_lines := py_join.
Definition is_nil_str (s : str) : bool := null s.

Section Wrap.
  Variable ind : str.
  Variable align : bool.
  Variable width : Z.
  Variable req : rpath -> Z -> option Z.          (* _required_space(node at path, up_to) *)

  (* len((self._level * self.indentation).rpartition("\n")[2]): the writer counts from the last newline, which may be
     part of the indentation (e1f59b7) *)
  Definition ilen (L : nat) : Z := elen (tail_line (indent ind L)).
  Definition line_offset (L : nat) (st : wst) : Z := if w_off st =? 0 then 0 else w_off st - ilen L.
  Definition available (L : nat) (st : wst) : Z := Z.max 0 (width - line_offset L st).
  Definition fits (L : nat) (st : wst) (rp : rpath) : bool :=
    match req rp (available L st) with Some _ => true | None => false end.
  Definition req_is_none (rp : rpath) (up_to : Z) : bool := match req rp up_to with None => true | Some _ => false end.
  Definition req_falsy (rp : rpath) (up_to : Z) : bool :=                 (* `not self._required_space(..)` *)
    match req rp up_to with None => true | Some v => v =? 0 end.

  (* PrettySerializer._serialize_attributes as writer calls *)
  Definition attr_pieces (L : nat) (ad : list (str * str)) : list str :=
    if (align && Nat.ltb 1 (length ad))%bool then
      map (fun kv : str * str =>
             NL ++ indent ind L ++ [SP] ++ ind ++ repeat SP (key_width ad - length (fst kv)) ++ fst kv ++ [61%N] ++ snd kv) ad
      ++ (if has_ind ind then [NL ++ indent ind L] else [])
    else plain_attr_pieces ad.

  (* _serialize_appendable_node *)
  Definition appendable (L : nat) (st : wst) (x : node) : list chunk * wst :=
    let '(i, st) := if ((w_off st =? 0) && has_ind ind)%bool then emit_raw st (indent ind L) else ([], st) in
    match x with
    | Tag _ _ attrs _ =>
        let '(c, st) := if directive attrs false then tplain (set_pres st true) x else lf_node false st x in
        (i ++ [c], set_pres st false)
    | Comment s => let '(d, st') := emit st (comment_str s) in (i ++ [KComment s], st')
    | PI t c => let '(d, st') := emit st (pi_str t c) in (i ++ [KPI t c], st')
    | Text _ => (i, st)                                                     (* assert not isinstance(node, TextNode) *)
    end.

  (* _consolidate_text_lines *)
  Definition consolidate (L : nat) (st : wst) (is_last la : bool) (lines : list str) : list str :=
    let lines := if (null (hd [SP] lines) && is_last && la)%bool then lines ++ [[]] else lines in
    let lines := if ((w_off st =? 0) && null (hd [SP] lines))%bool then tl lines else lines in
    if (Nat.leb 2 (length lines) && null (last lines [SP]))%bool then
      match rev lines with
      | e :: l2 :: more => rev more ++ [rstrip l2; e]
      | _ => lines
      end
    else lines.

  Definition wrap_lines (s : str) (w : Z) : list str := match wrap_text s w with Some l => l | None => [] end.

  Fixpoint write_lines (L : nat) (st : wst) (lines : list str) : list chunk * wst :=
    match lines with
    | [] => ([], st)
    | [l] => if null l then ([], st) else emit_raw st (indent ind L ++ l)
    | l :: r => let '(c, st1) := if null l then emit_raw st NL else emit_raw st (indent ind L ++ l ++ NL) in
                let '(cs, st2) := write_lines L st1 r in (c ++ cs, st2)
    end.

  (* _serialize_text_over_lines for the run consisting of the text at rp *)
  Definition text_over_lines (L : nat) (st : wst) (rp : rpath) (content : str) (lb la is_last : bool)
             (next_sib : option rpath) : list chunk * wst :=
    let finish (pre : list chunk) (st : wst) (lines : list str) :=
      let lines :=
        if (py_endswith (last lines []) [SP] && la
            && match next_sib with Some f => req_falsy f (width - elen (last lines [])) | None => false end)%bool
        then lines ++ [[]] else lines in
      let lines := consolidate L st is_last la lines in
      let '(cs, st') := write_lines L st lines in (pre ++ cs, st') in
    if w_off st =? 0 then
      finish [] st ((if lb then [[]] else []) ++ wrap_lines (lstrip content) width)
    else
      let filling :=
        if py_startswith content [SP] then [SP] ++ hd [] (wrap_lines (py_slice_from content 1) (available L st - 1))
        else hd [] (wrap_lines content (available L st)) in
      if ((elen filling >? available L st) && lb)%bool then
        finish [] st ([[]] ++ wrap_lines content width)
      else
        let '(c, st1) := emit_raw st filling in
        let content := py_slice_from content (elen filling + 1) in
        if null content then (c, st1)
        else finish c st1 ([[]] ++ wrap_lines content width).

  (* TextWrappingSerializer._serialize_text for the one-node run `Text s` at rp, level L *)
  Definition w_text (L : nat) (st : wst) (rp : rpath) (prev : option node) (s : str) (next : option node)
             (foll : option rpath) : list chunk * wst :=
    let content := esc_text (collapse s) in
    let lb := legit_before prev (Text s) in
    let la := legit_after (Text s) next in
    let is_last := match next with None => true | Some _ => false end in
    let next_sib := match next, rp with Some _, i :: pp => Some (S i :: pp) | _, _ => None end in
    if ((available L st =? elen (rstrip content)) && la)%bool then
      let content := if w_off st =? 0 then indent ind L ++ lstrip content else content in
      emit_raw st (rstrip content ++ NL)
    else if available L st >? elen content then
      let content := if w_off st =? 0 then indent ind L ++ lstrip content else content in
      let cond := (is_last
                   || match next, foll with
                      | Some y, Some f => legit_before (Some (Text s)) y && req_is_none f (available L st - elen content)
                      | _, _ => false
                      end)%bool in
      emit_raw st (if cond then rstrip content ++ NL else content)
    else if str_eqb content [SP] then emit_raw st NL
    else text_over_lines L st rp content lb la is_last next_sib.

  (* Serializer.serialize_node on a non-text node via TextWrappingSerializer._serialize_tag:
     rec = the serializer for elements that are written over several lines *)
  Definition dispatch (rec : nat -> wst -> rpath -> option rpath -> node -> chunk * wst)
             (L : nat) (st : wst) (rp : rpath) (aft : option rpath) (x : node) : list chunk * wst :=
    match x with
    | Tag _ _ _ _ => if fits L st rp then appendable L st x
                     else let '(c, st') := rec L st rp aft x in ([c], st')
    | Comment s => let '(d, st') := emit st (comment_str s) in ([KComment s], st')
    | PI t c => let '(d, st') := emit st (pi_str t c) in ([KPI t c], st')
    | Text s => let '(d, st') := emit st (esc_text s) in ([KRaw d], st')
    end.

  (* TextWrappingSerializer.serialize_node for the non-text child x at rp (the pending text run has been written) *)
  Definition w_node (rec : nat -> wst -> rpath -> option rpath -> node -> chunk * wst)
             (L : nat) (st : wst) (rp : rpath) (prev next : option node) (aft : option rpath) (x : node)
    : list chunk * wst :=
    let lb := legit_before prev x in
    let la := legit_after x next in
    let is_last := match next with None => true | Some _ => false end in
    let foll := match x with Tag _ _ _ (_ :: _) => Some (O :: rp) | _ => aft end in
    let tail (cs : list chunk) (st : wst) : list chunk * wst :=
      if (la && negb (match foll with Some f => fits L st f | None => false end))%bool
      then let '(c, st') := emit_raw st NL in (cs ++ c, st') else (cs, st) in
    let branch_fit (st : wst) : list chunk * wst :=
      let '(cs, st1) := appendable L st x in
      if (((available L st1 =? 0) || is_last) && la)%bool
      then let '(c, st2) := emit_raw st1 NL in (cs ++ c, st2)
      else tail cs st1 in
    let branch_nofit (st : wst) : list chunk * wst :=
      let '(i, st1) := if (has_ind ind && (w_off st =? 0) && lb)%bool then emit_raw st (indent ind L) else ([], st) in
      let st2 := match x with Tag _ _ attrs _ => if directive attrs false then set_pres st1 true else st1 | _ => st1 end in
      let '(cs, st3) := dispatch rec L st2 rp aft x in
      tail (i ++ cs) (set_pres st3 false) in
    if fits L st rp then branch_fit st
    else if ((line_offset L st >? 0) && lb)%bool then
      (* self.writer("\n"); self.serialize_node(node): one re-entry, after which the line offset is 0 *)
      let '(c, st') := emit_raw st NL in
      let '(cs, st'') := if fits L st' rp then branch_fit st' else branch_nofit st' in
      (c ++ cs, st'')
    else branch_nofit st.

  (* _serialize_child_nodes at level L for the children of the element at pp *)
  Definition w_kids (rec : nat -> wst -> rpath -> option rpath -> node -> chunk * wst)
             (L : nat) (pp : rpath) (aft_parent : option rpath) (n_kids : nat) :=
    fix go (st : wst) (i : nat) (prev : option node) (l : list node) : list chunk * wst :=
      match l with
      | [] => ([], st)
      | x :: r =>
          let next := hd_error r in
          let rp := i :: pp in
          let aft := match r with [] => aft_parent | _ => Some (S i :: pp) end in
          let '(cs, st1) := match x with
                            | Text s => w_text L st rp prev s next aft
                            | _ => w_node rec L st rp prev next aft x
                            end in
          let '(cs2, st2) := go st1 (S i) (Some x) r in
          (cs ++ cs2, st2)
      end.

  (* PrettySerializer._serialize_tag / Serializer._serialize_tag / _handle_child_nodes at level L *)
  Fixpoint w_tag (L : nat) (st : wst) (rp : rpath) (aft : option rpath) (n : node) : chunk * wst :=
    match n with
    | Tag ns name attrs kids =>
        if directive attrs false then tplain st n
        else
          tag_with st ns name attrs (attr_pieces L (attrs_data attrs)) (negb (null kids))
                   (fun st =>
                      let '(c0, st) := emit_raw st NL in
                      let '(cs, st) := w_kids w_tag (S L) rp aft (length kids) st O None kids in
                      let '(c1, st) := if has_ind ind then emit_raw st (indent ind L) else ([], st) in
                      (c0 ++ cs ++ c1, st))
    | _ => tplain st n
    end.

  Definition wrap_chunk (sr : rpath) (aft : option rpath) (t : node) : chunk :=
    fst (w_tag O {| w_off := 0; w_pres := false |} sr aft t).
End Wrap.

(* NodeBase.serialize(format_options=FormatOptions(align, ind, width)) for the element at sr of document T, width > 0 *)
Definition wrap_real (ind : str) (align : bool) (width : Z) (T : node) (sr : rpath) : option chunk :=
  match get T sr with
  | Some t => Some (wrap_chunk ind align width (real_req T sr) sr (after_path T sr) t)
  | None => None
  end.
Definition wrap_str (ind : str) (align : bool) (width : Z) (T : node) (sr : rpath) : str :=
  match wrap_real ind align width T sr with Some c => render c | None => [] end.
Definition wrap_seen (ind : str) (align : bool) (width : Z) (T : node) (sr : rpath) : node :=
  match wrap_real ind align width T sr with Some c => seen c | None => Text [] end.
Close Scope Z_scope.

(* the class of the open finding C03-preserved-newline-offset: content that is written verbatim contains a newline -
   a text below an element bearing xml:space="preserve", a comment, a processing instruction or an attribute value
   (then the writer's offset counts from inside that content and _line_offset can be 0 without the stream being at
   the start of a line) *)
Definition has_lf (s : str) : bool := existsb (N.eqb LF) s.
Fixpoint verbatim_newline (inside : bool) (n : node) : bool :=
  match n with
  | Tag _ _ attrs kids =>
      let here := (inside || match get_attr xml_ns s_space attrs with Some v => str_eqb v s_preserve | None => false end)%bool in
      (existsb (fun a : attr => has_lf (snd a)) attrs || existsb (verbatim_newline here) kids)%bool
  | Text s => (inside && has_lf s)%bool
  | Comment s => has_lf s
  | PI _ c => has_lf c
  end.
